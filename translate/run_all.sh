#!/bin/bash
# Runs every translator (DESIGN.md §2.3): /repo data tables -> lean/PytypeModel/Generated/*.lean.
# Append-only: one line per translator; each rewrites its output only when the content changes.
cd "$(dirname "$0")/.."
/venv/bin/python translate/director_sets.py   # C03: DirectorSets.lean
/venv/bin/python translate/opcode_table.py    # C16 (C15): OpcodeTable.lean
/venv/bin/python translate/opcode_dispatch.py # C15: OpcodeDispatch.lean
/venv/bin/python translate/builtin_ops.py    # C14: Slots.lean, BuiltinOps.lean
/venv/bin/python translate/compat.py         # C02 (C05 C11): Compat.lean
/venv/bin/python translate/compat_table.py   # C01: CompatTable.lean
/venv/bin/python translate/pytd_schema.py    # C12: PytdSchema.lean
/venv/bin/python translate/invalidate_sites.py # C08: InvalidateSites.lean
