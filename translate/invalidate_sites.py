#!/venv/bin/python
"""Translator (DESIGN.md §2.3, §9.10): /repo C++ -> lean/PytypeModel/Generated/InvalidateSites.lean.

C08's model (`Typegraph/Program.lean`) states, per primitive, whether `Program::InvalidateSolver()` runs.  That table
was copied from typegraph.cc / typegraph.h by hand; this translator regenerates it from the C++ text of the tree under
test on every run, and `Props/C08.lean` proves (`decide`) that the regenerated table equals the one the model was written
against (`Typegraph/InvalidateSpec.lean`), so removing, guarding or moving one `InvalidateSolver()` call, or adding a
new function that writes solver-visible state, breaks a proof obligation deterministically (the correspondence stage only
samples histories).

For every function *definition* in typegraph.cc and every inline method body in typegraph.h that either calls
`InvalidateSolver()` or writes state the solver reads (`incoming_`, `outgoing_`, `origins_`, `source_sets`,
`bindings_`, `condition_`, `node_to_origin_`, `cfg_nodes_`, `cfg_node_to_bindings_`, `data_to_binding_`; in cfg.cc
also calls of `set_condition(`), one row:

  (qualified name + arity, writes (sorted), how the invalidation is reached, direct callers inside these two files)

"how" is computed from the brace structure of the body:
  always            the call is at the top level of the body and no `return` precedes it
  unless:<c1>;<c2>  top level, but early `return`s precede it; c_i = the innermost `if (...)` condition of each
  if:<c>            the call sits inside `if (<c>) { ... }` (innermost enclosing condition)
  never             no call

The scanner is a brace matcher, not a C++ parser: comments and string literals are stripped first; conditions are
normalised by removing whitespace.  Trusted: that the scanner sees every function body of the two files (it asserts
that every textual occurrence of `InvalidateSolver();` lies in a body it attributed).
"""
import os
import re
import sys

sys.path.insert(0, os.path.dirname(os.path.dirname(os.path.abspath(__file__))))
from harness import common  # noqa: E402

OUT = os.path.join(common.LEAN_DIR, "PytypeModel", "Generated", "InvalidateSites.lean")

WRITE_PATTERNS = [
    ("incoming_", r"\bincoming_\s*\.\s*(push_back|emplace_back|insert|erase|clear)\b"),
    ("outgoing_", r"\boutgoing_\s*\.\s*(push_back|emplace_back|insert|erase|clear)\b"),
    ("origins_", r"\borigins_\s*\.\s*(push_back|emplace_back|insert|erase|clear)\b"),
    ("source_sets", r"\bsource_sets\s*\.\s*(push_back|emplace_back|emplace|insert|erase|clear)\b"),
    ("bindings_", r"\bbindings_\s*\.\s*(push_back|emplace_back|insert|erase|clear)\b"),
    ("node_to_origin_", r"\bnode_to_origin_\s*(\[|\.\s*(insert|emplace|erase|clear)\b)"),
    ("cfg_nodes_", r"\bcfg_nodes_\s*\.\s*(push_back|emplace_back|insert|erase|clear)\b"),
    ("condition_", r"\bcondition_\s*=[^=]"),
    ("cfg_node_to_bindings_", r"\bcfg_node_to_bindings_\s*(\[|\.\s*(insert|emplace|erase|clear)\b)"),
    ("data_to_binding_", r"\bdata_to_binding_\s*(\[[^\]]*\]\s*=[^=]|\.\s*(insert|emplace|erase|clear)\b)"),
    ("set_condition()", r"(->|\.)\s*set_condition\s*\("),
]


def strip_comments(src):
  out, i, n = [], 0, len(src)
  while i < n:
    c = src[i]
    if src.startswith("//", i):
      j = src.find("\n", i)
      j = n if j < 0 else j
      out.append(" " * (j - i))
      i = j
    elif src.startswith("/*", i):
      j = src.find("*/", i + 2)
      j = n if j < 0 else j + 2
      out.append(re.sub(r"[^\n]", " ", src[i:j]))
      i = j
    elif c == '"' or c == "'":
      j = i + 1
      while j < n and src[j] != c:
        j += 2 if src[j] == "\\" else 1
      out.append(c + " " * (j - i - 1) + c)
      i = j + 1
    else:
      out.append(c)
      i += 1
  return "".join(out)


def match_brace(s, i):
  d = 0
  for j in range(i, len(s)):
    if s[j] == "{":
      d += 1
    elif s[j] == "}":
      d -= 1
      if d == 0:
        return j
  return -1


def match_paren_back(s, j):
  """index of the '(' matching the ')' at s[j]"""
  d = 0
  for i in range(j, -1, -1):
    if s[i] == ")":
      d += 1
    elif s[i] == "(":
      d -= 1
      if d == 0:
        return i
  return -1


def arity(params):
  params = params.strip()
  if not params or params == "void":
    return 0
  d, n = 0, 1
  for ch in params:
    if ch in "<([":
      d += 1
    elif ch in ">)]":
      d -= 1
    elif ch == "," and d == 0:
      n += 1
  return n


_KEYWORDS = {"if", "for", "while", "switch", "catch", "return", "sizeof", "CHECK", "LOG", "else", "do"}


def functions(src, default_class=None):
  """yield (qualified name, arity, params text, body text, body start offset) of every function body.

  Bodies are found at the brace level of namespace / class scope only."""
  s = strip_comments(src)
  res = []

  def scan(lo, hi, cls):
    i = lo
    while i < hi:
      j = s.find("{", i, hi)
      if j < 0:
        return
      e = match_brace(s, j)
      if e < 0 or e > hi:
        return
      head = s[max(lo, s.rfind(";", lo, j) + 1, s.rfind("}", lo, j) + 1):j]
      mns = re.search(r"\b(namespace|extern)\b[^;{}()]*$", head)
      mcl = re.search(r"\b(class|struct)\s+(\w+)[^;{}()]*$", head)
      if mns:
        scan(j + 1, e, cls)
      elif mcl and ")" not in head[mcl.start():]:
        scan(j + 1, e, mcl.group(2))
      else:
        # function definition: `... name(params) [const] [noexcept] [: init-list] {`
        h = head
        # cut a constructor initialiser list
        k = len(h)
        mfun = None
        # find the last ')' that closes the parameter list: the first top-level '(' after the name
        for m in re.finditer(r"(~?[\w:]+)\s*\(", h):
          name = m.group(1)
          if name.split("::")[-1] in _KEYWORDS:
            continue
          mfun = m
          break
        if mfun is not None:
          p0 = mfun.end() - 1
          d = 0
          p1 = -1
          for q in range(p0, k):
            if h[q] == "(":
              d += 1
            elif h[q] == ")":
              d -= 1
              if d == 0:
                p1 = q
                break
          if p1 > 0:
            name = mfun.group(1)
            if "::" not in name and cls:
              name = cls + "::" + name
            res.append((name, arity(h[p0 + 1:p1]), h[p0 + 1:p1], s[j + 1:e], j + 1))
      i = e + 1

  scan(0, len(s), default_class)
  return s, res


def innermost_if(body, pos):
  """the condition of the innermost `if (...) {` / `if (...) stmt` enclosing body[pos], or None (top level)."""
  # walk the brace structure up to pos
  stack = []   # (open offset)
  for i in range(pos):
    if body[i] == "{":
      stack.append(i)
    elif body[i] == "}":
      if stack:
        stack.pop()
  conds = []
  for o in stack:
    k = o - 1
    while k >= 0 and body[k].isspace():
      k -= 1
    if k >= 0 and body[k] == ")":
      p = match_paren_back(body, k)
      kw = re.search(r"(\w+)\s*$", body[:p])
      conds.append((kw.group(1) if kw else "?", re.sub(r"\s+", "", body[p + 1:k])))
    else:
      kw = re.search(r"(\w+)\s*$", body[:o])
      conds.append((kw.group(1) if kw else "?", ""))
  # brace-less `if (c) stmt;` directly in front of pos
  stmt_start = max(body.rfind(";", 0, pos), body.rfind("{", 0, pos), body.rfind("}", 0, pos)) + 1
  m = re.match(r"\s*if\s*\(", body[stmt_start:pos])
  if m:
    p0 = stmt_start + m.end() - 1
    d = 0
    for q in range(p0, pos):
      if body[q] == "(":
        d += 1
      elif body[q] == ")":
        d -= 1
        if d == 0:
          conds.append(("if", re.sub(r"\s+", "", body[p0 + 1:q])))
          break
  return conds


def how(body):
  calls = [m.start() for m in re.finditer(r"\bInvalidateSolver\s*\(\s*\)", body)]
  if not calls:
    return "never"
  pos = calls[0]
  conds = innermost_if(body, pos)
  if conds:
    kw, c = conds[-1]
    return "%s:%s" % (kw, c) + ("" if len(calls) == 1 else ";calls=%d" % len(calls))
  rets = [m.start() for m in re.finditer(r"\breturn\b", body[:pos])]
  if not rets:
    return "always" + ("" if len(calls) == 1 else ";calls=%d" % len(calls))
  cs = []
  for r in rets:
    cc = innermost_if(body, r)
    cs.append(cc[-1][1] if cc else "")
  return "unless:" + ";".join(cs)


def rows(tree):
  tg = os.path.join(tree, "pytype", "typegraph")
  out = []
  bodies = {}
  total_calls = attributed = 0
  for fn in ("typegraph.cc", "typegraph.h", "cfg.cc"):
    src = open(os.path.join(tg, fn)).read()
    s, fs = functions(src)
    total_calls += len(re.findall(r"\bInvalidateSolver\s*\(\s*\)\s*;", s)) - (1 if fn.endswith("typegraph.h") else 0)
    for name, ar, _, body, _ in fs:
      key = "%s/%d" % (name, ar)
      if name.endswith("::InvalidateSolver"):
        continue
      attributed += len(re.findall(r"\bInvalidateSolver\s*\(\s*\)\s*;", body))
      if key in bodies:   # overloads with equal arity: Binding::AddOrigin(node, vector) / (node, SourceSet)
        k = 2
        while "%s#%d" % (key, k) in bodies:
          k += 1
        key = "%s#%d" % (key, k)
      bodies[key] = [body]
  # the declaration `void InvalidateSolver();` in the header is not a call
  for key, bs in sorted(bodies.items()):
    body = "\n".join(bs)
    writes = sorted({w for w, pat in WRITE_PATTERNS if re.search(pat, body)})
    h = how(body)
    if h == "never" and not writes:
      continue
    out.append((key, writes, h))
  # direct callers (inside the two files) of the functions that write without invalidating
  helpers = [k for k, w, h in out if h == "never"]
  res = []
  for key, writes, h in out:
    callers = []
    if h == "never":
      short = key.split("/")[0].split("::")[-1]
      for k2, bs in sorted(bodies.items()):
        if k2 == key:
          continue
        if any(re.search(r"(?<![\w:])%s\s*\(" % re.escape(short), b) or
               re.search(r"(->|\.)\s*%s\s*\(" % re.escape(short), b) for b in bs):
          callers.append(k2)
    res.append((key, writes, h, callers))
  return res, total_calls, attributed


def _ls(xs):
  return "[" + ", ".join('"%s"' % x.replace("\\", "\\\\").replace('"', '\\"') for x in xs) + "]"


def render(tree):
  rs, total, attributed = rows(tree)
  lines = [
      "/- GENERATED by translate/invalidate_sites.py from pytype/typegraph/typegraph.{cc,h} of the tree under test.",
      "   Do not edit.  One row per C++ function that calls Program::InvalidateSolver() or writes solver-visible state. -/",
      "namespace PytypeModel.Generated.InvalidateSites",
      "",
      "structure Site where",
      "  fn : String",
      "  writes : List String",
      "  how : String",
      "  callers : List String",
      "deriving DecidableEq, Repr",
      "",
      "/-- textual `InvalidateSolver();` statements in the two files / those attributed to a function body -/",
      "def totalCalls : Nat := %d" % total,
      "def attributedCalls : Nat := %d" % attributed,
      "",
      "def sites : List Site := [",
  ]
  for i, (k, w, h, c) in enumerate(rs):
    lines.append('  ⟨"%s", %s, "%s", %s⟩%s' % (k, _ls(w), h.replace("\\", "\\\\").replace('"', '\\"'), _ls(c),
                                              "," if i + 1 < len(rs) else ""))
  lines += ["]", "", "end PytypeModel.Generated.InvalidateSites", ""]
  return "\n".join(lines)


def main():
  text = render(common.REPO)
  old = open(OUT).read() if os.path.exists(OUT) else None
  if old != text:
    with open(OUT, "w") as f:
      f.write(text)
    print("invalidate_sites: InvalidateSites.lean rewritten")
  else:
    print("invalidate_sites: up to date")


if __name__ == "__main__":
  main()
