#!/venv/bin/python
"""Translator for C15: /repo source -> lean/PytypeModel/Generated/OpcodeDispatch.lean (data only).

Extracted (by AST of /repo; the per-version numeric tables live in the third-party `pycnite` package that
`pyc/opcodes.py` consumes, they are read by importing `pycnite.mapping`, which needs no pytype import):

  opcodeClasses  every class in pytype/pyc/opcodes.py that (transitively) derives from `Opcode`
                 -- what `_make_opcodes` can resolve through `g = globals(); g[op.name]`
  abstractBases  `Opcode`, `OpcodeWithArg` (never instantiated from a table)
  table v        pycnite.mapping.get_mapping((3, v)) as (code, name) pairs, v in the versions pytype accepts
  skippedCodes   codes pycnite's reader never yields (0 = CACHE is skipped in Disassembler.dis,
                 EXTENDED_ARG is folded into the next instruction by wordcode_reader)
  synthesized    Opcode classes instantiated directly by functions of opcodes.py (SETUP_EXCEPT_311, POP_BLOCK)
  intrinsics     argval strings of CALL_INTRINSIC_1/2 (pycnite PYTHON_3_12_INTRINSIC_*_DESCS), dispatched
                 through the same `byte_<name>` lookup in vm.py
  handlers       `byte_*` method names (prefix stripped) defined on the class the Context instantiates
                 (tracer_vm.CallTracer) and on its bases (vm.VirtualMachine), by AST

The file is rewritten only when its content changes.
"""
import ast
import os
import sys

REPO = os.environ.get("PYTYPE_REPO", "/repo")
VERIF = os.path.dirname(os.path.dirname(os.path.abspath(__file__)))
OUT = os.path.join(os.environ.get("VERIF_LEAN_DIR") or os.path.join(VERIF, "lean"), "PytypeModel", "Generated", "OpcodeDispatch.lean")

VERSIONS = [8, 9, 10, 11, 12]  # utils.validate_version accepts 3.8 .. 3.12


def _parse(rel):
  p = os.path.join(REPO, "pytype", rel)
  with open(p, encoding="utf8") as fh:
    return ast.parse(fh.read(), p)


def opcode_classes():
  tree = _parse("pyc/opcodes.py")
  bases = {}
  for node in tree.body:
    if isinstance(node, ast.ClassDef):
      bases[node.name] = [b.id for b in node.bases if isinstance(b, ast.Name)]

  def derives(name, seen=()):
    if name == "Opcode":
      return True
    if name in seen:
      return False
    return any(derives(b, seen + (name,)) for b in bases.get(name, []))
  classes = sorted(n for n in bases if derives(n))
  # classes instantiated directly inside module-level functions (synthetic opcodes)
  synth = set()
  for node in tree.body:
    if isinstance(node, ast.FunctionDef):
      for sub in ast.walk(node):
        if isinstance(sub, ast.Call) and isinstance(sub.func, ast.Name) and sub.func.id in classes:
          if sub.func.id not in ("Opcode", "OpcodeWithArg"):
            synth.add(sub.func.id)
  return classes, sorted(synth)


def handler_names():
  """byte_* methods of tracer_vm.CallTracer and its bases, following `mod.Class` bases into pytype/<mod>.py."""
  found = set()
  todo = [("tracer_vm.py", "CallTracer")]
  seen = set()
  while todo:
    rel, cname = todo.pop()
    if (rel, cname) in seen:
      continue
    seen.add((rel, cname))
    try:
      tree = _parse(rel)
    except OSError:
      continue
    for node in tree.body:
      if isinstance(node, ast.ClassDef) and node.name == cname:
        for item in node.body:
          if isinstance(item, (ast.FunctionDef, ast.AsyncFunctionDef)) and item.name.startswith("byte_"):
            found.add(item.name[len("byte_"):])
          elif isinstance(item, ast.Assign):
            for t in item.targets:
              if isinstance(t, ast.Name) and t.id.startswith("byte_"):
                found.add(t.id[len("byte_"):])
        for b in node.bases:
          if isinstance(b, ast.Attribute) and isinstance(b.value, ast.Name):
            todo.append((b.value.id + ".py", b.attr))
          elif isinstance(b, ast.Name):
            todo.append((rel, b.id))
  return sorted(found)


def pycnite_tables():
  from pycnite import bytecode as pb
  from pycnite import mapping
  tables = {}
  for v in VERSIONS:
    try:
      m = mapping.get_mapping((3, v))
    except KeyError:
      continue
    tables[v] = sorted((int(k), str(n)) for k, n in m.items())
  intr = []
  for attr in sorted(dir(mapping)):
    if attr.startswith("PYTHON_") and "INTRINSIC" in attr and attr.endswith("_DESCS"):
      intr += [str(x) for x in getattr(mapping, attr)]
  skipped = sorted({0, int(pb.EXTENDED_ARG)})
  return tables, sorted(set(intr)), skipped


def _idlist(xs, ids, indent="  ", per=4):
  if not xs:
    return "[]"
  lines = []
  for i in range(0, len(xs), per):
    lines.append(indent + ", ".join("%d /- %s -/" % (ids[x], x) for x in xs[i:i + per]))
  return "[\n" + ",\n".join(lines) + "]"


def _pairlist(xs, ids, indent="  ", per=3):
  lines = []
  for i in range(0, len(xs), per):
    lines.append(indent + ", ".join("(%d, %d /- %s -/)" % (c, ids[n], n) for c, n in xs[i:i + per]))
  return "[\n" + ",\n".join(lines) + "]"


def render():
  classes, synth = opcode_classes()
  handlers = handler_names()
  tables, intr, skipped = pycnite_tables()
  # Names are interned: the kernel decides `Nat` equality natively, while `String` equality by
  # `decide +kernel` costs minutes on these tables.  `names` (id = position) keeps the tie to the text.
  allnames = sorted(set(classes) | set(synth) | set(handlers) | set(intr)
                    | {n for t in tables.values() for _, n in t})
  ids = {n: i for i, n in enumerate(allnames)}
  out = []
  out.append("/-! GENERATED by translate/opcode_dispatch.py from /repo (pytype/pyc/opcodes.py, pytype/vm.py,")
  out.append("pytype/tracer_vm.py) and the installed `pycnite.mapping`.  Do not edit; data only.")
  out.append("Names are interned as their position in `names` (sorted, duplicate-free). -/")
  out.append("namespace PytypeModel.Generated.OpcodeDispatch")
  out.append("")
  out.append("/-- id ↦ name -/")
  lines = []
  for i in range(0, len(allnames), 4):
    lines.append("  " + ", ".join('"%s"' % x for x in allnames[i:i + 4]))
  out.append("def names : List String := [\n" + ",\n".join(lines) + "]")
  out.append("")
  out.append("-- name ↦ id, as constants (for readable statements)")
  out.append("namespace Id")
  for n in allnames:
    out.append("def %s : Nat := %d" % (n, ids[n]))
  out.append("end Id")
  out.append("")
  out.append("/-- classes deriving from `Opcode` in pyc/opcodes.py (what `g[op.name]` can resolve) -/")
  out.append("def opcodeClasses : List Nat := " + _idlist(classes, ids))
  out.append("")
  out.append("/-- Opcode classes instantiated directly by opcodes.py's own functions -/")
  out.append("def synthesized : List Nat := " + _idlist(synth, ids))
  out.append("")
  out.append("/-- codes the pycnite reader never yields (CACHE, EXTENDED_ARG) -/")
  out.append("def skippedCodes : List Nat := [" + ", ".join(str(c) for c in skipped) + "]")
  out.append("")
  for v, tab in sorted(tables.items()):
    out.append("/-- pycnite.mapping.get_mapping((3, %d)) as (code, name id) -/" % v)
    out.append("def table3_%d : List (Nat × Nat) := %s" % (v, _pairlist(tab, ids)))
    out.append("")
  out.append("/-- (minor version, table) for every version both pycnite and pytype know -/")
  out.append("def tables : List (Nat × List (Nat × Nat)) := ["
             + ", ".join("(%d, table3_%d)" % (v, v) for v in sorted(tables)) + "]")
  out.append("")
  out.append("/-- argval names of CALL_INTRINSIC_1 / CALL_INTRINSIC_2 -/")
  out.append("def intrinsics : List Nat := " + _idlist(intr, ids))
  out.append("")
  out.append("/-- `byte_<name>` methods on tracer_vm.CallTracer and its bases (prefix stripped) -/")
  out.append("def handlers : List Nat := " + _idlist(handlers, ids))
  out.append("")
  out.append("end PytypeModel.Generated.OpcodeDispatch")
  return "\n".join(out) + "\n"


def main():
  text = render()
  os.makedirs(os.path.dirname(OUT), exist_ok=True)
  try:
    with open(OUT, encoding="utf8") as fh:
      old = fh.read()
  except OSError:
    old = None
  if old != text:
    tmp = OUT + ".tmp%d" % os.getpid()
    with open(tmp, "w", encoding="utf8") as fh:
      fh.write(text)
    os.replace(tmp, OUT)
    print("opcode_dispatch: wrote", os.path.relpath(OUT, VERIF))
  return 0


if __name__ == "__main__":
  sys.exit(main())
