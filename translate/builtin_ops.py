#!/venv/bin/python
"""Translator (DESIGN.md §2.3): /repo -> lean/PytypeModel/Generated/{Slots,BuiltinOps}.lean  (C14).

Slots.lean
  * `slots.REVERSE_NAME_MAPPING`, `slots.SYMBOL_MAPPING`      (the module is loaded from the tree
    under test by file path; it only imports `dataclasses`)
  * operator -> dunder as the VM uses it: an AST scan of `vm.py` for the `byte_BINARY_*`/`byte_UNARY_*`
    handlers whose body is `return self.binary_operator(state, "<dunder>")` /
    `self.unary_operator(state, "<dunder>")`, the handler order of the `binops` list in
    `byte_BINARY_OP`, and CPython's own numbering of the BINARY_OP argument (`opcode._nb_ops`).

BuiltinOps.lean — two finite tables over the *value classes* of fragment F14: builtin scalars (as
literals and as names bound to literals — CPython folds `1 * 1.5` before pytype sees an operator),
container displays, builtin functions, and two pseudo-classes for operands that are user-class
instances as builtin signatures see them: `user` (a class defining none of the modelled dunders) and
`useri` (a class with `__getitem__`, which pytype's matcher accepts as an `Iterable`):
  * pytype's view : for every row (operator/subscript/unary minus/call/attribute/method call/builtin
    function call; left class; right class) whether the REAL pytype reports an error for the canonical
    representative statement.  Obtained by running `io.generate_pyi` on generated modules with one
    statement per line (multiprocessing); cached under /verif/build/c14cache/<key>.json where the key
    hashes every pytype source that can influence the verdict (pytype/**/*.py, stubs/**/*.pytd,
    typegraph/*.{cc,h}), the statement list and the interpreter version.
  * CPython's view : the set of outcome classes (0 ok, 1 TypeError, 2 AttributeError, 3 any other
    exception) of the same row executed under the running interpreter, each statement in a fresh
    namespace, for EVERY combination of representative values of the two classes.
  * the exception lists `knownFalse` / `knownMissed`: the rows recorded as known findings for C14 in
    /verif/known_findings.json (NOT derived from the tables: a new disagreeing row breaks the theorem).

Files are rewritten only when their content changes.
"""
import ast
import hashlib
import importlib.util
import json
import multiprocessing
import os
import sys
import warnings

sys.path.insert(0, os.path.dirname(os.path.dirname(os.path.abspath(__file__))))
from harness import common  # noqa: E402

GEN = os.path.join(common.LEAN_DIR, "PytypeModel", "Generated")
OUT_SLOTS = os.path.join(GEN, "Slots.lean")
OUT_OPS = os.path.join(GEN, "BuiltinOps.lean")
CACHE = os.path.join(common.BUILD, "c14cache")

# ----------------------------------------------------------------------------
# the value grammar of F14 (builtin part).  First representative = canonical (pytype's view).
# ----------------------------------------------------------------------------
# Scalars and tuples of constants get a *name bound to a literal* as canonical representative:
# CPython's compiler folds `1 * 1.5` or `(1, 2) + (3,)` into a constant before pytype sees an operator,
# so only the name form exercises the builtin stubs; the literal forms are representatives too.
CLASSES = [
    ("int", ["n_int", "1", "0", "7", "(-3)"]),
    ("bool", ["n_bool", "True", "False"]),
    ("float", ["n_float", "1.5", "0.0", "(-2.0)"]),
    ("complex", ["n_complex", "1j", "(2+0j)"]),
    ("str", ["n_str", '"a"', '""', '"abc"']),
    ("bytes", ["n_bytes", 'b"a"', 'b""', 'b"xyz"']),
    ("none", ["None"]),
    ("list_int", ["[1, 2]", "[3]", "[0, 0, 5]"]),
    ("list_str", ['["a"]', '["b", "c"]']),
    ("list_empty", ["[]"]),
    ("tuple_int", ["n_tint", "(1, 2)", "(3,)", "(4, 5, 6)"]),
    ("tuple_str", ["n_tstr", '("a",)', '("b", "c")']),
    ("tuple_empty", ["n_tempty", "()"]),
    ("dict_str_int", ['{"a": 1}', '{"b": 2, "c": 3}']),
    ("dict_int_str", ['{1: "a"}', '{0: "x", 2: "y"}']),
    ("dict_empty", ["{}"]),
    ("set_int", ["{1, 2}", "{3}"]),
    ("set_str", ['{"a"}', '{"b", "c"}']),
    ("func", ["len", "abs"]),
    ("user", ["U()"]),
    ("useri", ["UI()"]),
]
CLASS_NAMES = [c for c, _ in CLASSES]
REPS = dict(CLASSES)
PREAMBLE = ("class U:\n  pass\nclass UI:\n  def __getitem__(self, o):\n    return 0\n"
            "n_int = 1\nn_bool = True\nn_float = 1.5\nn_complex = 1j\nn_str = \"a\"\nn_bytes = b\"a\"\n"
            "n_tint = (1, 2)\nn_tstr = (\"a\",)\nn_tempty = ()\n")
PREAMBLE_LINES = PREAMBLE.count("\n")

USER_CLASSES = ("user", "useri")   # pseudo-classes: instance of a dunder-less class / of a class with __getitem__
BINOPS = [("add", "+"), ("sub", "-"), ("mul", "*"), ("div", "/")]
ATTRS = ["real", "imag", "upper", "append", "keys", "add", "count", "index", "items", "join",
         "decode", "bit_length", "is_integer", "conjugate", "copy", "__name__", "foo"]
FUNCS = ["len", "abs"]
# row kinds (Lean: Nat codes).  `adv` = the converse clause of C14 applies (an advertised basic mistake).
KINDS = ["bin_add", "bin_sub", "bin_mul", "bin_div", "sub", "neg", "call", "attr", "mcall", "fcall"]
OUTCOMES = {"OK": 0, "TE": 1, "AE": 2, "EX": 3}


def paren(e):
  """Operand text that can be followed by `.name`, `[...]`, `(...)` or preceded by `-`."""
  if e[0] in "([{\"" or e.startswith('b"') or e.isidentifier() or (e[0].isalpha() and e.endswith(")")):
    return e
  return "(" + e + ")"


def stmt_of(kind, aux, l, r):
  """Statement text for a row on representative expressions l, r."""
  if kind.startswith("bin_"):
    return "%s %s %s" % (paren(l), dict(BINOPS)[kind[4:]], paren(r))
  if kind == "sub":
    return "%s[%s]" % (paren(l), r)
  if kind == "neg":
    return "-%s" % paren(l)
  if kind == "call":
    return "%s()" % paren(l)
  if kind == "attr":
    return "%s.%s" % (paren(l), aux)
  if kind == "mcall":
    return "%s.%s()" % (paren(l), aux)
  if kind == "fcall":
    return "%s(%s)" % (aux, l)
  raise ValueError(kind)


def rows():
  """All table rows: (kind, aux, left class, right class or '')."""
  out = []
  for op, _ in BINOPS:
    for l in CLASS_NAMES:
      for r in CLASS_NAMES:
        out.append(("bin_" + op, "", l, r))
  for l in CLASS_NAMES:
    for r in CLASS_NAMES:
      out.append(("sub", "", l, r))
  for l in CLASS_NAMES:
    out.append(("neg", "", l, ""))
  for l in CLASS_NAMES:
    out.append(("call", "", l, ""))
  for a in ATTRS:
    for l in CLASS_NAMES:
      out.append(("attr", a, l, ""))
  for a in ATTRS:
    for l in CLASS_NAMES:
      out.append(("mcall", a, l, ""))
  for f in FUNCS:
    for l in CLASS_NAMES:
      out.append(("fcall", f, l, ""))
  return out


def canonical_stmt(row):
  kind, aux, l, r = row
  return stmt_of(kind, aux, REPS[l][0], REPS[r][0] if r else "")


def all_stmts(row):
  kind, aux, l, r = row
  return [stmt_of(kind, aux, a, b) for a in REPS[l] for b in (REPS[r] if r else [""])]


def row_key(row):
  return "%s|%s|%s|%s" % row


# ----------------------------------------------------------------------------
# CPython's view
# ----------------------------------------------------------------------------
def cpython_outcome(stmt, preamble=PREAMBLE):
  """Executes one statement in a fresh namespace; returns OK / TE / AE / EX."""
  ns = {}
  with warnings.catch_warnings():
    warnings.simplefilter("ignore")
    try:
      exec(compile(preamble, "<pre>", "exec"), ns)
      code = compile(stmt, "<stmt>", "exec")
    except BaseException as e:  # the grammar only produces compilable text
      return "EX"
    try:
      exec(code, ns)
    except TypeError:
      return "TE"
    except AttributeError:
      return "AE"
    except BaseException:
      return "EX"
  return "OK"


def cpython_view():
  return {row_key(r): sorted({cpython_outcome(s) for s in all_stmts(r)}, key=OUTCOMES.get) for r in rows()}


# ----------------------------------------------------------------------------
# pytype's view (real pytype, cached)
# ----------------------------------------------------------------------------
def source_key(extra=""):
  h = hashlib.sha256()
  root = os.path.join(common.REPO, "pytype")
  for d, dirs, files in sorted(os.walk(root)):
    dirs.sort()
    if "typeshed" in d.split(os.sep) or "__pycache__" in d:
      continue
    for f in sorted(files):
      if f.endswith((".py", ".pytd", ".pyi", ".cc", ".h")) and not f.endswith("_test.py"):
        p = os.path.join(d, f)
        h.update(os.path.relpath(p, root).encode())
        with open(p, "rb") as fh:
          h.update(hashlib.sha256(fh.read()).digest())
  h.update(sys.version.encode())
  h.update(extra.encode())
  return h.hexdigest()[:20]


def _warm_pytype():
  """Loads pytype (and its builtins) once in this process, so that forked workers share it."""
  common.load_pytype()
  from pytype import config, io  # pylint: disable=g-import-not-at-top
  if not getattr(_warm_pytype, "done", False):
    io.generate_pyi("x = 1\n", config.Options.create(python_version=(3, 12)))
    _warm_pytype.done = True
  return io, config


def run_module(args):
  """args = (preamble, [stmt], assign).  One statement per line (`v<i> = stmt` when assign).
  Returns ([(sorted error names, inferred type of v<i> or None)], [errors outside the statement lines])."""
  import re  # pylint: disable=g-import-not-at-top
  pre, stmts, assign = args
  io, config = _warm_pytype()
  src = pre + "".join(("v%d = %s\n" % (i, s)) if assign else (s + "\n") for i, s in enumerate(stmts))
  base = pre.count("\n")
  with warnings.catch_warnings():
    warnings.simplefilter("ignore")
    try:
      ret, pyi = io.generate_pyi(src, config.Options.create(python_version=(3, 12)))
    except Exception as e:  # a crash of the analysis shows up on every line
      return [(["CRASH:" + type(e).__name__], None)] * len(stmts), []
  per = [[] for _ in stmts]
  stray = []
  for e in ret.context.errorlog.unique_sorted_errors():
    i = (e.line or 0) - base - 1
    if 0 <= i < len(stmts):
      per[i].append(e.name)
    else:
      stray.append((e.name, e.line))
  types = {}
  for m in re.finditer(r"^v(\d+): (.+)$", pyi or "", re.M):
    types[int(m.group(1))] = m.group(2).strip()
  return [(sorted(set(p)), types.get(i)) for i, p in enumerate(per)], stray


def run_modules(mods, procs=8):
  """mods: [(preamble, [stmt], assign)].  pytype is loaded once in the parent; workers are forked."""
  if not mods:
    return []
  common.ensure_ext()
  _warm_pytype()
  if len(mods) == 1:
    return [run_module(mods[0])]
  with multiprocessing.get_context("fork").Pool(min(procs, len(mods))) as pool:
    return pool.map(run_module, mods, chunksize=1)


def run_pytype_lines(stmts, per_module=80):
  """Real pytype verdict (sorted error-name list) for each statement; 80 statements per module."""
  mods = [(PREAMBLE, stmts[i:i + per_module], False) for i in range(0, len(stmts), per_module)]
  out = []
  for per, stray in run_modules(mods):
    if stray:
      raise RuntimeError("pytype error outside the statement lines: %r" % (stray,))
    out.extend(p for p, _ in per)
  return out


def pytype_view(use_cache=True):
  """row key -> sorted list of error names reported on the canonical statement ([] = silent)."""
  rs = rows()
  stmts = [canonical_stmt(r) for r in rs]
  key = source_key(json.dumps([PREAMBLE, stmts]))
  path = os.path.join(CACHE, key + ".json")
  if use_cache and os.path.exists(path):
    try:
      return json.load(open(path)), True
    except (OSError, ValueError):
      pass
  common.ensure_ext()
  verdicts = run_pytype_lines(stmts)
  view = {row_key(r): v for r, v in zip(rs, verdicts)}
  os.makedirs(CACHE, exist_ok=True)
  tmp = path + ".tmp%d" % os.getpid()
  with open(tmp, "w") as fh:
    json.dump(view, fh)
  os.replace(tmp, path)
  # keep the cache small
  ents = sorted((os.path.getmtime(os.path.join(CACHE, f)), f) for f in os.listdir(CACHE) if f.endswith(".json"))
  for _, f in ents[:-6]:
    try:
      os.unlink(os.path.join(CACHE, f))
    except OSError:
      pass
  return view, False


# ----------------------------------------------------------------------------
# rows: advertised? / disagreement classification (shared with harness/c14.py)
# ----------------------------------------------------------------------------
def advertised(row, outcomes):
  """Does clause 2 of C14 (the basic mistakes pytype advertises) speak about this row?
  arithmetic + - * /, unary minus, subscripting between builtin types; a missing attribute or method
  (AttributeError); calling a non-callable (`x()` raising TypeError)."""
  kind, _, l, r = row
  if kind.startswith("bin_") or kind == "sub":
    return l not in USER_CLASSES and r not in USER_CLASSES
  if kind == "neg":
    return l not in USER_CLASSES
  if kind == "call":
    return True
  if kind in ("attr", "mcall"):
    return "AE" in outcomes          # the attribute/method is missing
  return False                       # fcall: wrong argument type to a builtin function


def classify(row, py_errs, outcomes):
  """'' (agree) | 'false' (clause 1 fails) | 'missed' (clause 2 fails) | 'both'."""
  bad = [o for o in outcomes if o in ("TE", "AE")]
  good = [o for o in outcomes if o not in ("TE", "AE")]
  false_err = bool(py_errs) and bool(good)
  missed = (not py_errs) and bool(bad) and advertised(row, outcomes)
  return "false" if false_err else ("missed" if missed else "")


def known_rows():
  known, _ = common.known_findings("C14")
  false_rows, missed_rows = [], []
  for e in known:
    w = e.get("witness", {})
    if "row" not in w:
      continue
    (false_rows if w.get("clause") == 1 else missed_rows).append(w["row"])
  return sorted(false_rows), sorted(missed_rows)


# ----------------------------------------------------------------------------
# Slots
# ----------------------------------------------------------------------------
def load_slots():
  p = os.path.join(common.REPO, "pytype", "pytd", "slots.py")
  spec = importlib.util.spec_from_file_location("_c14_slots", p)
  mod = importlib.util.module_from_spec(spec)
  sys.modules["_c14_slots"] = mod
  spec.loader.exec_module(mod)
  return mod


def vm_operator_handlers():
  """byte_X -> (arity, dunder) for handlers of the form `return self.binary_operator(state, "__x__")`;
  and the order of the `binops` list inside byte_BINARY_OP."""
  tree = ast.parse(open(os.path.join(common.REPO, "pytype", "vm.py")).read())
  handlers, order = {}, []
  for node in ast.walk(tree):
    if not isinstance(node, ast.FunctionDef) or not node.name.startswith("byte_"):
      continue
    if node.name == "byte_BINARY_OP":
      for st in node.body:
        if isinstance(st, ast.Assign) and isinstance(st.value, ast.List) and \
           getattr(st.targets[0], "id", "") == "binops":
          order = [e.attr for e in st.value.elts if isinstance(e, ast.Attribute)]
      continue
    body = [s for s in node.body if not (isinstance(s, ast.Expr) and isinstance(s.value, ast.Constant))]
    if len(body) == 1 and isinstance(body[0], ast.Return) and isinstance(body[0].value, ast.Call):
      c = body[0].value
      f = c.func
      if isinstance(f, ast.Attribute) and f.attr in ("binary_operator", "unary_operator", "inplace_operator") \
         and len(c.args) == 2 and isinstance(c.args[1], ast.Constant) and isinstance(c.args[1].value, str):
        handlers[node.name] = (f.attr, c.args[1].value)
  return handlers, order


def lean_str(s):
  return '"' + s.replace("\\", "\\\\").replace('"', '\\"') + '"'


def write_if_changed(path, text):
  try:
    if open(path).read() == text:
      return False
  except OSError:
    pass
  os.makedirs(os.path.dirname(path), exist_ok=True)
  tmp = path + ".tmp%d" % os.getpid()
  with open(tmp, "w") as fh:
    fh.write(text)
  os.replace(tmp, path)
  return True


def gen_slots():
  slots = load_slots()
  handlers, order = vm_operator_handlers()
  import opcode  # pylint: disable=g-import-not-at-top
  nb = [sym for _, sym in opcode._nb_ops]  # pylint: disable=protected-access
  L = []
  L.append("/-! GENERATED by translate/builtin_ops.py from pytype/pytd/slots.py and pytype/vm.py — do not edit. -/")
  L.append("namespace PytypeModel.Generated.Slots\n")
  L.append("/-- `slots.REVERSE_NAME_MAPPING` (sorted). -/")
  L.append("def reverseNameMapping : List (String × String) := [")
  items = sorted(slots.REVERSE_NAME_MAPPING.items())
  L.append(",\n".join("  (%s, %s)" % (lean_str(k), lean_str(v)) for k, v in items) + "]\n")
  L.append("/-- `slots.SYMBOL_MAPPING` (sorted): dunder ↦ operator symbol used in error messages. -/")
  L.append("def symbolMapping : List (String × String) := [")
  items = sorted(slots.SYMBOL_MAPPING.items())
  L.append(",\n".join("  (%s, %s)" % (lean_str(k), lean_str(v)) for k, v in items) + "]\n")
  L.append("/-- vm.py: opcode handler ↦ (dispatcher, dunder) for the one-line operator handlers. -/")
  L.append("def vmHandlers : List (String × String × String) := [")
  L.append(",\n".join("  (%s, %s, %s)" % (lean_str(k), lean_str(v[0]), lean_str(v[1]))
                      for k, v in sorted(handlers.items())) + "]\n")
  L.append("/-- vm.py `byte_BINARY_OP`: handler called for BINARY_OP argument i (list order). -/")
  L.append("def binaryOpHandlers : List String := [" + ", ".join(lean_str(x) for x in order) + "]\n")
  L.append("/-- CPython `opcode._nb_ops` of the running interpreter: symbol of BINARY_OP argument i. -/")
  L.append("def cpythonNbOps : List String := [" + ", ".join(lean_str(x) for x in nb) + "]\n")
  L.append("end PytypeModel.Generated.Slots")
  return "\n".join(L) + "\n"


def gen_ops(pyv, cpv):
  rs = rows()
  idx = {c: i for i, c in enumerate(CLASS_NAMES)}
  kidx = {k: i for i, k in enumerate(KINDS)}
  aidx = {a: i for i, a in enumerate(ATTRS)}
  fidx = {f: i for i, f in enumerate(FUNCS)}

  def code(row):
    kind, aux, l, r = row
    a = aidx[aux] if kind in ("attr", "mcall") else (fidx[aux] if kind == "fcall" else 0)
    return (kidx[kind], a, idx[l], idx[r] if r else 0)

  def parse_key(k):
    kind, aux, l, r = k.split("|")
    return (kind, aux, l, r)
  kf, km = known_rows()
  L = []
  L.append("/-! GENERATED by translate/builtin_ops.py — do not edit.")
  L.append("pytype's view: REAL pytype on the canonical statement of each row (tree under test).")
  L.append("CPython's view: outcome classes over all representative values (running interpreter %s).-/"
           % sys.version.split()[0])
  L.append("namespace PytypeModel.Generated.BuiltinOps\n")
  L.append("/-- value classes of F14; index = class code.  `user` is an instance of a")
  L.append("user class that defines none of the modelled dunders. -/")
  L.append("def classNames : List String := [" + ", ".join(lean_str(c) for c in CLASS_NAMES) + "]")
  L.append("def userIdx : Nat := %d" % idx["user"])
  L.append("/-- instance of a user class that defines `__getitem__` (an `Iterable` for pytype's matcher) -/")
  L.append("def userIterIdx : Nat := %d" % idx["useri"])
  L.append("/-- row kinds; index = kind code -/")
  L.append("def kindNames : List String := [" + ", ".join(lean_str(c) for c in KINDS) + "]")
  L.append("def attrNames : List String := [" + ", ".join(lean_str(c) for c in ATTRS) + "]")
  L.append("def funcNames : List String := [" + ", ".join(lean_str(c) for c in FUNCS) + "]\n")
  L.append("/-- one row: key (kind, aux, left, right); `py` = real pytype reports an error on the line;")
  L.append("`cpy` = distinct CPython outcome classes (0 ok, 1 TypeError, 2 AttributeError, 3 other")
  L.append("exception); `adv` = the converse clause of C14 speaks about this row. -/")
  L.append("structure Row where")
  L.append("  kind : Nat\n  aux : Nat\n  l : Nat\n  r : Nat\n  py : Bool\n  cpy : List Nat\n  adv : Bool")
  L.append("deriving Repr, DecidableEq\n")
  body = []
  for row in rs:
    k = row_key(row)
    c = code(row)
    body.append(("⟨%d,%d,%d,%d,%s,[%s],%s⟩" % (
        c[0], c[1], c[2], c[3], "true" if pyv[k] else "false",
        ",".join(str(OUTCOMES[o]) for o in cpv[k]),
        "true" if advertised(row, cpv[k]) else "false"),
                 "%s  py=%s cpy=%s" % (canonical_stmt(row).replace("\n", " "), ",".join(pyv[k]) or "-", "/".join(cpv[k]))))
  # literal rows in chunks of 128: one long literal exceeds the elaborator's recursion depth, and
  # the kernel evaluates literal rows ~1000x faster than rows decoded from packed numbers
  nch = 0
  for st in range(0, len(body), 128):
    ch = body[st:st + 128]
    L.append("def rows%d : List Row := [" % nch)
    for i, (n, cm) in enumerate(ch):
      L.append("  %s%s  -- %s" % (n, "," if i + 1 < len(ch) else "]", cm))
    nch += 1
  L.append("/-- rows in generation order, 128 per chunk (no `++`: the kernel evaluates chunk by chunk) -/")
  L.append("def rows : List (List Row) :=\n  [" + ", ".join("rows%d" % i for i in range(nch)) + "]")
  L.append("def chunkSize : Nat := 128")
  nc, na, nf = len(CLASS_NAMES), len(ATTRS), len(FUNCS)
  b_sub = 4 * nc * nc
  b_neg = b_sub + nc * nc
  b_call = b_neg + nc
  b_attr = b_call + nc
  b_mcall = b_attr + na * nc
  b_fcall = b_mcall + na * nc
  L.append("/-- position of the row with a given key in generation order (keys outside the table map to")
  L.append("some position whose row has a different key; lookups compare the key) -/")
  L.append("def rowIndex : Nat × Nat × Nat × Nat → Nat")
  L.append("  | (kind, aux, l, r) =>")
  L.append("    if kind < 4 then (kind * %d + l) * %d + r" % (nc, nc))
  L.append("    else if kind = 4 then %d + l * %d + r" % (b_sub, nc))
  L.append("    else if kind = 5 then %d + l" % b_neg)
  L.append("    else if kind = 6 then %d + l" % b_call)
  L.append("    else if kind = 7 then %d + aux * %d + l" % (b_attr, nc))
  L.append("    else if kind = 8 then %d + aux * %d + l" % (b_mcall, nc))
  L.append("    else %d + aux * %d + l" % (b_fcall, nc))
  L.append("def rowCount : Nat := %d" % len(body))
  L.append("")
  for nm, ks, doc in (("knownFalse", kf, "clause 1: pytype reports an error, CPython raises neither TypeError nor AttributeError"),
                      ("knownMissed", km, "clause 2: CPython raises TypeError/AttributeError for an advertised mistake, pytype is silent")):
    L.append("/-- rows recorded as known findings in /verif/known_findings.json (%s) -/" % doc)
    L.append("def %s : List (Nat × Nat × Nat × Nat) := [" % nm)
    L.append(",\n".join("  (%d,%d,%d,%d)" % code(parse_key(k)) for k in ks) + "]\n")
  still_f = [k for k in kf if k in pyv and classify(parse_key(k), pyv[k], cpv[k]) == "false"]
  still_m = [k for k in km if k in pyv and classify(parse_key(k), pyv[k], cpv[k]) == "missed"]
  for nm, ks, doc in (("stillFalse", still_f, "known clause-1 rows that still disagree in the tables above"),
                      ("stillMissed", still_m, "known clause-2 rows that still disagree in the tables above")):
    L.append("/-- %s -/" % doc)
    L.append("def %s : List (Nat × Nat × Nat × Nat) := [" % nm)
    L.append(",\n".join("  (%d,%d,%d,%d)" % code(parse_key(k)) for k in ks) + "]\n")
  L.append("end PytypeModel.Generated.BuiltinOps")
  return "\n".join(L) + "\n"


def main(use_cache=True, verbose=True):
  ch1 = write_if_changed(OUT_SLOTS, gen_slots())
  pyv, cached = pytype_view(use_cache)
  cpv = cpython_view()
  ch2 = write_if_changed(OUT_OPS, gen_ops(pyv, cpv))
  if verbose:
    print("builtin_ops: Slots.lean %s, BuiltinOps.lean %s (%d rows, pytype view %s)" % (
        "rewritten" if ch1 else "unchanged", "rewritten" if ch2 else "unchanged", len(pyv),
        "from cache" if cached else "recomputed"))
  return pyv, cpv


if __name__ == "__main__":
  main(use_cache="--no-cache" not in sys.argv)
