#!/venv/bin/python
"""Regenerates lean/PytypeModel/Generated/PytdSchema.lean from the real msgspec classes of /repo (C12).

Extracted by introspection (no source parsing): for every `pytd.Node` subclass and for
`serialize_ast.SerializableAst`: class name, wire tag (`__struct_config__.tag`), tag field,
`omit_defaults`, `__struct_fields__` in declared order, declared field types (typing.get_type_hints),
`__struct_defaults__`, and which class provides `__eq__`/`__hash__` (-> EqMode).

Anything this translator cannot express faithfully becomes a value that makes `SchemaWF` false
(`Atom.unsupported`, an ill-typed default, `EqMode.unknown`), i.e. it breaks P instead of silently
escaping the model.  The file is rewritten only if its content changes.
"""
import enum
import os
import sys
import types
import typing

HERE = os.path.dirname(os.path.abspath(__file__))
VERIF = os.path.dirname(HERE)
sys.path.insert(0, VERIF)
from harness import common  # noqa: E402

OUT = os.path.join(os.environ.get("VERIF_LEAN_DIR") or os.path.join(VERIF, "lean"), "PytypeModel", "Generated", "PytdSchema.lean")


import re

_NAMES = {}


def raw_bl(s: str) -> str:
  safe = s.replace("-/", "- /").replace("/-", "/ -")
  return "/- %s -/ [%s]" % (safe, ", ".join(str(b) for b in s.encode("utf-8")))


def bl(s: str) -> str:
  """Lean `Bytes` term for the UTF-8 bytes of s: a named constant `S.<s>` for identifier-like strings
  (defined once in the preamble), else a literal with the text as a comment."""
  if re.fullmatch(r"[A-Za-z_][A-Za-z0-9_]*", s):
    _NAMES[s] = raw_bl(s)
    return "S.s_" + s
  return raw_bl(s)


class Tr:
  def __init__(self, msgspec, struct_classes):
    self.msgspec = msgspec
    self.struct_classes = struct_classes
    self.notes = []

  # ---- types -------------------------------------------------------------
  def atoms(self, t):
    """Declared type -> list of atoms (Lean text), struct classes merged into one atom."""
    msgspec = self.msgspec
    origin = typing.get_origin(t)
    if origin is typing.Union or origin is types.UnionType:
      parts = []
      for a in typing.get_args(t):
        parts += self.atoms(a)
    else:
      parts = [self.atom(t)]
    # typing.Any absorbs the whole union (msgspec treats `Any | None` as Any)
    if any(p == ("any",) for p in parts):
      return [("any",)]
    structs = []
    rest = []
    for p in parts:
      if p[0] == "structs":
        for n in p[1]:
          if n not in structs:
            structs.append(n)
      elif p not in rest:
        rest.append(p)
    out = []
    placed = False
    for p in parts:
      if p[0] == "structs":
        if not placed:
          out.append(("structs", tuple(structs)))
          placed = True
      elif p in rest:
        out.append(p)
        rest.remove(p)
    return out

  def atom(self, t):
    msgspec = self.msgspec
    origin = typing.get_origin(t)
    args = typing.get_args(t)
    if t is type(None):
      return ("none",)
    if t is bool:
      return ("bool",)
    if t is int:
      return ("int",)
    if t is str:
      return ("str",)
    if t is typing.Any:
      return ("any",)
    if isinstance(t, type) and issubclass(t, enum.Flag):
      vals = sorted(m.value for m in t)
      # members must be exactly the bits 1,2,4,...: then valid wire ints are 0 .. sum
      if vals and vals == [1 << i for i in range(len(vals))]:
        return ("flag", sum(vals) + 1)
      return ("unsupported", "Flag %s with non-bit members" % t.__name__)
    if isinstance(t, type) and issubclass(t, enum.Enum):
      vals = [m.value for m in t]
      if vals and all(type(v) is str for v in vals):
        return ("enum", tuple(vals))
      return ("unsupported", "Enum %s with non-str values" % t.__name__)
    if isinstance(t, type) and issubclass(t, msgspec.Struct):
      if t not in self.struct_classes:
        return ("unsupported", "struct class %s not in the schema" % t.__name__)
      return ("structs", (t.__name__,))
    if origin is tuple:
      if len(args) == 2 and args[1] is Ellipsis:
        return ("arr", tuple(self.atoms(args[0])))
      if args and Ellipsis not in args:
        return ("fix", tuple(tuple(self.atoms(a)) for a in args))
      return ("unsupported", "tuple form %r" % (t,))
    if origin is list:
      return ("arr", tuple(self.atoms(args[0])))
    if origin is set or origin is frozenset:
      if args and args[0] is str:
        return ("strset",)
      return ("unsupported", "set of non-str")
    if origin is dict:
      return ("dict",)
    return ("unsupported", "type %r" % (t,))

  def lean_ty(self, atoms):
    return "[" + ", ".join(self.lean_atom(a) for a in atoms) + "]"

  def lean_atom(self, a):
    k = a[0]
    if k in ("none", "bool", "int", "str", "any", "dict", "strset"):
      return "." + k
    if k == "flag":
      return "(.flag %d)" % a[1]
    if k == "enum":
      return "(.enum [%s])" % ", ".join(bl(v) for v in a[1])
    if k == "arr":
      return "(.arr %s)" % self.lean_ty(a[1])
    if k == "fix":
      return "(.fix [%s])" % ", ".join(self.lean_ty(e) for e in a[1])
    if k == "structs":
      return "(.structs [%s])" % ", ".join(bl(n) for n in a[1])
    self.notes.append(a[1])
    return "(.unsupported /- %s -/)" % a[1].replace("-/", "- /")

  # ---- defaults ----------------------------------------------------------
  def lean_default(self, d):
    msgspec = self.msgspec
    bad = "(some (.node [] [])) /- UNSUPPORTED default %s: makes SchemaWF false -/"
    if d is msgspec.NODEFAULT:
      return "none"
    if d is None:
      return "(some .none)"
    if d is True:
      return "(some (.bool true))"
    if d is False:
      return "(some (.bool false))"
    if isinstance(d, enum.Flag):
      return "(some (.int %d))" % d.value
    if isinstance(d, enum.Enum) and type(d.value) is str:
      return "(some (.str %s))" % bl(d.value)
    if isinstance(d, tuple) and d == ():
      return "(some (.tup []))"
    if type(d).__name__ == "Factory":
      try:
        v = d.factory()
      except Exception:  # pylint: disable=broad-except
        v = object()
      if v == {} and isinstance(v, dict):
        return "(some .dict0)"
      if v == [] and isinstance(v, list):
        return "(some (.tup []))"
    # str / int / non-empty containers: msgspec omits by identity, the model by equality -> refuse
    self.notes.append("unsupported default %r" % (d,))
    return bad % repr(d).replace("-/", "- /")

  # ---- eq / hash ---------------------------------------------------------
  @staticmethod
  def owner(cls, name):
    for k in cls.__mro__:
      if name in k.__dict__:
        return k.__name__
    return None

  def eq_mode(self, cls):
    fields = list(cls.__struct_fields__)
    allidx = list(range(len(fields)))
    cfg = cls.__struct_config__
    eqo, hasho = self.owner(cls, "__eq__"), self.owner(cls, "__hash__")
    lst = lambda xs: "[" + ", ".join(str(x) for x in xs) + "]"
    if eqo == "_StructMixin" and hasho == "_StructMixin":
      if cfg.eq and cfg.frozen:
        return ".fields %s %s" % (lst(allidx), lst(allidx))
      if cfg.eq and not cfg.frozen:
        # unhashable (hash raises TypeError); structural ==
        return ".fields %s []" % lst(allidx)
      return ".identity"
    if eqo == "ClassType" and hasho == "ClassType" and cls.__name__ == "ClassType" and "name" in fields:
      i = fields.index("name")
      return ".fields [%d] [%d] /- ClassType.__eq__/__hash__: class and name only -/" % (i, i)
    if eqo == "_SetOfTypes" and hasho == "_SetOfTypes" and fields == ["type_list"]:
      return ".setlike /- _SetOfTypes.__eq__/__hash__: frozenset(type_list) -/"
    if eqo == "_StructMixin" and hasho == "Class" and cls.__name__ == "Class" and cfg.eq and "_name2item" in fields:
      h = [i for i in allidx if fields[i] != "_name2item"]
      return ".fields %s %s /- Class.__hash__ drops _name2item -/" % (lst(allidx), lst(h))
    if eqo == "Class" and hasho == "Class" and cls.__name__ == "Class" and "_name2item" in fields:
      # repaired code (fix: Class.__eq__ ignores the lookup cache): both leave out _name2item
      h = [i for i in allidx if fields[i] != "_name2item"]
      return ".fields %s %s /- Class.__eq__/__hash__ drop _name2item -/" % (lst(h), lst(h))
    if eqo == "_StructMixin" and not cfg.eq and hasho == cls.__name__ == "TypeDeclUnit":
      return ".identity /- eq=False, __hash__ = id(self) -/"
    self.notes.append("unknown __eq__/__hash__ providers for %s: %s/%s" % (cls.__name__, eqo, hasho))
    return ".unknown /- __eq__ from %s, __hash__ from %s -/" % (eqo, hasho)


def all_subclasses(c):
  out = []
  for s in c.__subclasses__():
    if s not in out:
      out.append(s)
    for t in all_subclasses(s):
      if t not in out:
        out.append(t)
  return out


def generate():
  common.load_pytype()
  import msgspec
  from pytype.pytd import pytd
  from pytype.pytd import serialize_ast
  from pytype.pytd.parse import node

  classes = [c for c in all_subclasses(node.Node) if c.__module__ == pytd.__name__]
  classes.sort(key=lambda c: c.__name__)
  classes.append(serialize_ast.SerializableAst)
  tr = Tr(msgspec, set(classes))
  tag_fields = {c.__struct_config__.tag_field for c in classes if c.__struct_config__.tag is not None}
  lines = []
  for c in classes:
    cfg = c.__struct_config__
    fields = list(c.__struct_fields__)
    enc_fields = list(c.__struct_encode_fields__)
    defaults = list(c.__struct_defaults__)
    defaults = [msgspec.NODEFAULT] * (len(fields) - len(defaults)) + defaults
    try:
      hints = typing.get_type_hints(c)
    except Exception as e:  # pylint: disable=broad-except
      hints = {}
      tr.notes.append("get_type_hints(%s) failed: %r" % (c.__name__, e))
    fl = []
    for f, ef, d in zip(fields, enc_fields, defaults):
      if f in hints:
        ty = tr.lean_ty(tr.atoms(hints[f]))
      else:
        ty = "[.unsupported /- no type hint -/]"
      fl.append("      ⟨%s, %s, %s⟩" % (bl(ef), ty, tr.lean_default(d)))
    extra = ""
    if cfg.array_like or cfg.forbid_unknown_fields or getattr(cfg, "rename", None):
      extra = " /- array_like/forbid_unknown_fields/rename set: not modelled -/"
      tr.notes.append("struct config of %s not modelled" % c.__name__)
    tag = "none" if cfg.tag is None else (
        "(some %s)" % bl(cfg.tag) if isinstance(cfg.tag, str) else "(some [] /- non-str tag -/)")
    lines.append("  { name := %s, tag := %s, omitDefaults := %s,%s\n    fields := [\n%s],\n    eq := %s }" % (
        bl(c.__name__), tag, "true" if cfg.omit_defaults else "false", extra, ",\n".join(fl),
        tr.eq_mode(c) if not extra else ".unknown"))
  if len(tag_fields) != 1:
    tr.notes.append("tag fields: %r" % (tag_fields,))
  tag_field = sorted(tag_fields)[0] if tag_fields else ""
  # named types the driver/harness decode at
  typeu = [a.__name__ for a in typing.get_args(pytd.TypeU)]
  # classes deriving from pytd.Type that msgspec would refuse in a TypeU-typed field
  missing = sorted(c.__name__ for c in classes if isinstance(c, type) and issubclass(c, pytd.Type)
                   and c is not pytd.Type and c.__name__ not in typeu and not c.__name__.startswith("_"))
  txt = []
  txt.append("/- GENERATED by translate/pytd_schema.py from the msgspec classes of the pytype tree — do not edit. -/")
  txt.append("import PytypeModel.Pytd.Codec")
  txt.append("namespace PytypeModel.Pytd.Generated")
  txt.append("open PytypeModel.Pytd")
  txt.append("")
  body_marker = len(txt)
  txt.append("def generatedSchema : Schema := {")
  txt.append("  tagField := %s," % bl(tag_field))
  txt.append("  structs := [")
  txt.append(",\n".join(lines))
  txt.append("  ] }")
  txt.append("")
  txt.append("/-- the members of `pytd.TypeU`, in declared order -/")
  txt.append("def typeUNames : List Bytes := [%s]" % ", ".join(bl(n) for n in typeu))
  txt.append("")
  txt.append("/-- concrete subclasses of `pytd.Type` that are NOT members of `TypeU` (msgspec cannot decode")
  txt.append("them in a `TypeU` field; must be empty) -/")
  txt.append("def typeSubclassesMissingFromTypeU : List Bytes := [%s]" % ", ".join(bl(n) for n in missing))
  txt.append("")
  txt.append("end PytypeModel.Pytd.Generated")
  pre = ["/-! UTF-8 bytes of the identifiers used below -/", "namespace S"]
  for k in sorted(_NAMES):
    pre.append("def s_%s : Bytes := %s" % (k, _NAMES[k]))
  pre += ["end S", ""]
  txt[body_marker:body_marker] = pre
  return "\n".join(txt) + "\n", tr.notes


def main():
  txt, notes = generate()
  os.makedirs(os.path.dirname(OUT), exist_ok=True)
  old = None
  try:
    old = open(OUT).read()
  except OSError:
    pass
  if old != txt:
    tmp = OUT + ".tmp%d" % os.getpid()
    with open(tmp, "w") as fh:
      fh.write(txt)
    os.replace(tmp, OUT)
    print("pytd_schema: rewrote", os.path.relpath(OUT, VERIF))
  for n in notes:
    print("pytd_schema: NOTE", n)
  return 0


if __name__ == "__main__":
  sys.exit(main())
