import PytypeModel.Director.Director

/-! # Vocabulary of the C03 theorems (core Lean only, so that the driver can evaluate it)

"`P'` is `P` plus one directive comment" is expressed on the action lists of the two parser outputs:
`allActions P'` is `allActions P` with extra actions inserted, every inserted action being one the new
comment may perform.  `insOk` decides this (greedy subsequence match); the correspondence stage evaluates
it — through the compiled driver — on the real parser's output before/after every edit, so the premise of
the theorems is measured on the real `parser.py`, which is itself not modelled. -/
namespace PytypeModel.Director
open PytypeModel.Generated

def Action.isAdjust : Action → Bool
  | .adjustEnd _ _ => true
  | _ => false

/-- one step of `insOk` against the head `b` of the right list; `rec as'` = `insOk p as' bs` -/
def insOkAux (p : Action → Bool) (b : Action) (rec : List Action → Bool) : List Action → Bool
  | [] => p b && rec []
  | a :: as =>
    if a = b then rec as
    else if p b then rec (a :: as)
    else a.isAdjust && insOkAux p b rec as

/-- structural recursion on the right list -/
def insOkB (p : Action → Bool) : List Action → List Action → Bool
  | [], as => as.all Action.isAdjust
  | b :: bs, as => insOkAux p b (fun as' => insOkB p bs as') as

/-- `bs` is `as` with extra elements, all satisfying `p`, inserted anywhere — up to `adjust_end` calls of `as`
that have no counterpart in `bs` (the theorems make no claim that depends on the function ranges); greedy check -/
def insOk (p : Action → Bool) (as bs : List Action) : Bool := insOkB p bs as

/-- actions a *trailing* directive on line set `k` may add: explicit `true` entries on the lines `T`
(its own line and the start lines of the ranges it is filed under) and the function-range adjustment -/
def allowedTrailing (k : Key) (T : List Nat) : Action → Bool
  | .setLine k' l true => k' == k && T.contains l
  | .adjustEnd _ _ => true
  | _ => false

/-- actions *stand-alone* directives for line set `k` may add -/
def allowedStandalone (k : Key) : Action → Bool
  | .startRange k' _ _ => k' == k
  | .adjustEnd _ _ => true
  | _ => false

/-- does line set `k` take part in the decision about errors called `name`? -/
def keyAffects (k : Key) (name : String) : Bool :=
  k == none || k == some DirectorSets.allErrors || k == some name

/-- `line = error.line or sys.maxsize` -/
def effLine (l : Nat) : Nat := if l == 0 then maxsize else l

/-- the lines a non-open-ended comment `c` writes in the groups of `gs` that contain it: its own line and
the start line of every such group -/
def touched (c : Comment) (gs : List Group) : List Nat :=
  c.line :: (gs.filter fun g => g.comments.contains c).map (·.range.startLine)

/-- the `start_range` calls made on line set `k`, in order -/
def rangeCalls (k : Key) : List Action → List (Nat × Bool)
  | [] => []
  | .startRange k' l b :: as => if k' == k then (l, b) :: rangeCalls k as else rangeCalls k as
  | _ :: as => rangeCalls k as

/-- the explicit per-line writes made on `(k, line)`, in order -/
def lineWrites (k : Key) (line : Nat) : List Action → List Bool
  | [] => []
  | .setLine k' l b :: as => if k' == k && l == line then b :: lineWrites k line as else lineWrites k line as
  | _ :: as => lineWrites k line as

/-- "the last stand-alone directive at or before `l` was a disable" -/
def lastCallLE (cs : List (Nat × Bool)) (l : Nat) : Bool :=
  match (cs.filter fun p => p.1 ≤ l).getLast? with
  | some p => p.2
  | none => false

/-- what `filter_error` answers when asked of the Director built from `p` (`none`: a step raised) -/
def filterVia (disable : List String) (p : ParserOut) (e : Err) : Option (Bool × Option Nat) :=
  match build disable p with
  | .ok d =>
    match filterError d e with
    | .ok r => some r
    | .error _ => none
  | .error _ => none

/-- the exception `Director.__init__` dies with on `p`, if any -/
def buildCrash (disable : List String) (p : ParserOut) : Option Crash :=
  match build disable p with
  | .ok _ => none
  | .error c => some c

end PytypeModel.Director
