/-! # Model of `pytype/directors/directors.py: _LineSet`  (core Lean only)

```python
class _LineSet:
  def __init__(self): self._lines = {}; self._transitions = []
  def set_line(self, line, membership): self._lines[line] = membership
  def start_range(self, line, membership):
    last = self._transitions[-1] if self._transitions else -1
    if line < last: raise ValueError(...)
    previous = (len(self._transitions) % 2) == 1
    if membership == previous: return
    elif line == last: self._transitions.pop()
    else: self._transitions.append(line)
  def __contains__(self, line):
    specific = self._lines.get(line)
    if specific is not None: return specific
    pos = bisect.bisect(self._transitions, line)
    return (pos % 2) == 1
  def get_disable_after(self, line):
    if len(self._transitions) % 2 == 1 and self._transitions[-1] >= line: return self._transitions[-1]
    return None
```

Representation.
* `_lines` (a dict) is an association list read with `List.lookup` (first hit wins); `set_line`
  conses, so the most recent write shadows older ones — exactly dict assignment as far as `get` can see.
* `_transitions` is kept **reversed** (`trev.head?` is `_transitions[-1]`): `append` is cons, `pop` is tail.
* `bisect.bisect(xs, l)` (= `bisect_right`, CPython's C implementation, not pytype code) is modelled by its
  specification on a sorted list: the number of elements `≤ l`.  `_transitions` *is* always strictly
  increasing (`Proofs/DirectorLineSet.lean: startRange_sorted`), so nothing is lost.
* Line numbers are `Nat` (the parser only produces `lineno ≥ 1`, the command line disable uses 0, and
  `filter_error` substitutes `sys.maxsize` for 0); `last = -1` for the empty list is the `none` case. -/
namespace PytypeModel.Director

/-- outcomes that are Python exceptions escaping the modelled code -/
inductive Crash where
  | valueError   -- `_LineSet.start_range`: "Line number less than previous start_range() call."
  | indexError   -- `_BlockRanges.find_outermost` on an empty `_starts` (`self._starts[0]`)
  | keyError     -- dict lookups that cannot fail on well-formed `_BlockRanges`
  deriving DecidableEq, Repr

structure LineSet where
  /-- `_lines`, newest write first -/
  lines : List (Nat × Bool) := []
  /-- `_transitions`, last element first -/
  trev : List Nat := []
  deriving DecidableEq, Repr

namespace LineSet

def empty : LineSet := {}

/-- `set_line` -/
def setLine (s : LineSet) (line : Nat) (m : Bool) : LineSet :=
  { s with lines := (line, m) :: s.lines }

/-- `previous = (len(self._transitions) % 2) == 1` -/
def openTrev (trev : List Nat) : Bool := trev.length % 2 == 1

/-- `start_range` on the (reversed) transition list; `.error .valueError` is the `raise ValueError` -/
def startTrev (trev : List Nat) (line : Nat) (m : Bool) : Except Crash (List Nat) :=
  match trev with
  | [] =>
    -- last = -1 : never `line < last`, never `line == last`
    if m == openTrev [] then .ok [] else .ok [line]
  | last :: rest =>
    if line < last then .error .valueError
    else if m == openTrev (last :: rest) then .ok (last :: rest)
    else if line == last then .ok rest
    else .ok (line :: last :: rest)

def openRange (s : LineSet) : Bool := openTrev s.trev

/-- `start_range` (touches `_transitions` only) -/
def startRange (s : LineSet) (line : Nat) (m : Bool) : Except Crash LineSet :=
  match startTrev s.trev line m with
  | .ok t => .ok { s with trev := t }
  | .error e => .error e

/-- `bisect.bisect(self._transitions, line)` on the (sorted) transition list -/
def bisectRight (xs : List Nat) (line : Nat) : Nat := xs.countP (· ≤ line)

/-- membership through the open-ended ranges only -/
def inRanges (s : LineSet) (line : Nat) : Bool := bisectRight s.trev line % 2 == 1

/-- `__contains__` -/
def contains (s : LineSet) (line : Nat) : Bool :=
  match s.lines.lookup line with
  | some b => b
  | none => s.inRanges line

/-- `get_disable_after` -/
def getDisableAfter (s : LineSet) (line : Nat) : Option Nat :=
  match s.trev with
  | last :: _ => if s.openRange && decide (last ≥ line) then some last else none
  | [] => none

/-- `_transitions` in Python order (for the driver) -/
def transitions (s : LineSet) : List Nat := s.trev.reverse

end LineSet
end PytypeModel.Director
