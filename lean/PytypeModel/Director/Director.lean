import PytypeModel.Director.LineSet
import PytypeModel.Generated.DirectorSets

/-! # Model of `pytype/directors/directors.py: Director`  (core Lean only)

Modelled: `Director.__init__` (command-line `disable`), `_parse_src_tree` (the loop over
`visitor.structured_comment_groups` incl. the `adjust_end` of function ranges), `_process_type`,
`_process_pytype`, `_process_disable`, `_adjust_line_number_for_pytype_directive`, `_BlockRanges`
(`has_end`, `adjust_end`, `find_outermost`) and `filter_error`.

The **input** is what `directors/parser.py` produces (`ParserOut`): the ordered comment groups
(`LineRange` / `Call` key, comments `(line, tool, data, open_ended)`), `function_ranges` and the return
lines.  `parser.py`, `ast` and `tokenize` are not modelled.  The error-name tables come from
`Generated/DirectorSets.lean` (regenerated from the tree under test on every run).

Shape of the model.  What one structured comment *does* does not depend on the Director's state, only
on the comment and on the line range it is filed under; it is therefore modelled in two layers:

* `commentActions g c : List Action` — the sequence of `_LineSet.set_line` / `_LineSet.start_range` calls
  (on `self._ignore` — key `none` — or on `self._disables[name]` — key `some name`) and of guarded
  `_function_ranges.adjust_end` calls that processing comment `c` of group `g` performs, in program order.
  A `_DirectiveError` (caught in `_parse_src_tree`) simply truncates the comment's own list.
* `applyAction` — the effect of one such call on the state; `start_range` may raise `ValueError`, which
  nothing catches (`Crash.valueError`: the analysis of the file dies).

Not modelled because `filter_error` never reads them: type comments / variable annotations, pragmas'
line sets (`has_pragma`), `features`, decorators, `matches`, and the `invalid-directive` /
`late-directive` / `ignored-type-comment` messages logged while parsing. -/
namespace PytypeModel.Director
open PytypeModel.Generated

inductive Tool where
  | type | pytype
  deriving DecidableEq, Repr

inductive RangeKind where
  | line   -- `parser.LineRange` (one logical statement)
  | call   -- `parser.Call`
  deriving DecidableEq, Repr

/-- `parser._StructuredComment` -/
structure Comment where
  line : Nat
  tool : Tool
  data : String
  openEnded : Bool
  deriving DecidableEq, Repr

/-- `parser.LineRange(start_line, end_line)` / `parser.Call(start_line, end_line)` -/
structure Range where
  kind : RangeKind
  startLine : Nat
  endLine : Nat
  deriving DecidableEq, Repr

/-- one item of `visitor.structured_comment_groups` -/
structure Group where
  range : Range
  comments : List Comment
  deriving DecidableEq, Repr

structure ParserOut where
  groups : List Group
  /-- `visitor.function_ranges.items()` in dict order (keys are distinct) -/
  functionRanges : List (Nat × Nat)
  /-- `visitor.block_returns.all_returns()` -/
  returnLines : List Nat
  deriving Repr

/-- which `_LineSet`: `none` = `self._ignore`, `some n` = `self._disables[n]` -/
abbrev Key := Option String

inductive Action where
  | setLine (k : Key) (line : Nat) (b : Bool)
  | startRange (k : Key) (line : Nat) (b : Bool)
  /-- `if self._function_ranges.has_end(old): self._function_ranges.adjust_end(old, new)` -/
  | adjustEnd (old new : Nat)
  deriving DecidableEq, Repr

/-! ## lexing of the directive text (Python `str.split`) -/

/-- characters `str.split()` / `str.strip()` treat as whitespace -/
def isPySpace (c : Char) : Bool :=
  let n := c.toNat
  (9 ≤ n && n ≤ 13) || (28 ≤ n && n ≤ 32) || n == 0x85 || n == 0xa0 || n == 0x1680 ||
  (0x2000 ≤ n && n ≤ 0x200a) || n == 0x2028 || n == 0x2029 || n == 0x202f || n == 0x205f || n == 0x3000

/-- `s.split()` -/
def splitWsAux : List Char → List Char → List (List Char)
  | [], acc => if acc.isEmpty then [] else [acc.reverse]
  | c :: cs, acc =>
    if isPySpace c then
      (if acc.isEmpty then splitWsAux cs [] else acc.reverse :: splitWsAux cs [])
    else splitWsAux cs (c :: acc)

def splitWs (s : List Char) : List (List Char) := splitWsAux s []

/-- `s.split(sep)` for a one-character separator (keeps empty pieces) -/
def splitOnAux (sep : Char) : List Char → List Char → List (List Char)
  | [], acc => [acc.reverse]
  | c :: cs, acc =>
    if c == sep then acc.reverse :: splitOnAux sep cs [] else splitOnAux sep cs (c :: acc)

def splitOnChar (sep : Char) (s : List Char) : List (List Char) := splitOnAux sep s []

/-- `command, values = option.split("=", 1)`; `none` is the unpacking `ValueError` -/
def splitEq1 : List Char → Option (List Char × List Char)
  | [] => none
  | c :: cs =>
    if c == '=' then some ([], cs)
    else match splitEq1 cs with
      | some (a, b) => some (c :: a, b)
      | none => none

/-- `parser.IGNORE_RE = ^ignore(\[.+\])?$` matched against the stripped one-line text -/
def isIgnore (data : String) : Bool :=
  let cs := data.toList
  data == "ignore" ||
    ("ignore[".toList.isPrefixOf cs && cs.getLast? == some ']' && decide (9 ≤ cs.length))

/-! ## what one comment does -/

/-- `_adjust_line_number_for_pytype_directive` -/
def adjustLine (line : Nat) (name : String) (g : Range) : Nat :=
  if name ∈ DirectorSets.allAdjustableErrors then g.startLine else line

/-- `keep(error_name)` of `_process_disable` -/
def keepName (g : Range) (name : String) : Bool :=
  match g.kind with
  | .call => decide (name ∈ DirectorSets.functionCallErrors)
  | .line => true

/-- `error_name == _ALL_ERRORS or self._errorlog.is_valid_error_name(error_name)` -/
def validName (name : String) : Bool :=
  name == DirectorSets.allErrors || decide (name ∈ DirectorSets.errorNames)

/-- body of the `for error_name in values` loop of `_process_disable` -/
def disableOne (g : Range) (c : Comment) (d : Bool) (name : String) : List Action :=
  if validName name then
    if !keepName g name then []
    else if c.openEnded then [.startRange (some name) c.line d]
    else
      let final := adjustLine c.line name g
      if final != c.line then [.setLine (some name) c.line d, .setLine (some name) final d]
      else [.setLine (some name) final d]
  else []   -- invalid-directive is logged, nothing else happens

/-- `_process_disable` (`values` is a Python `set`: duplicates collapse; distinct names touch distinct
line sets, so the iteration order of the set is immaterial) -/
def disableActions (g : Range) (c : Comment) (d : Bool) (values : List String) : List Action :=
  values.eraseDups.flatMap (disableOne g c d)

/-- the `for option in data.split()` loop of `_process_pytype`; `[]` in a non-final position is a
`_DirectiveError`, which abandons the rest of this comment -/
def optionsActions (g : Range) (c : Comment) : List (List Char) → List Action
  | [] => []
  | opt :: rest =>
    match splitEq1 opt with
    | none => []                                   -- "Invalid directive syntax."
    | some (cmd, vals) =>
      let values := (splitOnChar ',' vals).map String.ofList
      let cmd := String.ofList cmd
      if cmd == "disable" then disableActions g c true values ++ optionsActions g c rest
      else if cmd == "enable" then disableActions g c false values ++ optionsActions g c rest
      else if cmd == "pragma" then
        (if values.all (· ∈ DirectorSets.pragmas) then optionsActions g c rest else [])
      else if cmd == "features" then
        (if values.all (· ∈ DirectorSets.allowedFeatures) then optionsActions g c rest else [])
      else []                                      -- "Unknown pytype directive"

/-- `_process_pytype` -/
def pytypeActions (g : Range) (c : Comment) : List Action :=
  if c.data.isEmpty then [] else optionsActions g c (splitWs c.data.toList)

/-- `_process_type` (only `# type: ignore` reaches the line sets) -/
def typeActions (g : Range) (c : Comment) : List Action :=
  if isIgnore c.data then
    if c.openEnded then [.startRange none c.line true]
    else [.setLine none c.line true, .setLine none g.startLine true]
  else []

/-- one iteration of `for comment in group:` in `_parse_src_tree` -/
def commentActions (g : Range) (c : Comment) : List Action :=
  (match c.tool with
   | .type => typeActions g c
   | .pytype => pytypeActions g c)
  ++ (match g.kind with
      | .line => [.adjustEnd g.endLine g.startLine]
      | .call => [])

def groupActions (g : Group) : List Action := g.comments.flatMap (commentActions g.range)

/-- `for error_name in disable: self._disables[error_name].start_range(0, True)` -/
def globalActions (disable : List String) : List Action :=
  disable.map fun n => .startRange (some n) 0 true

def allActions (disable : List String) (p : ParserOut) : List Action :=
  globalActions disable ++ p.groups.flatMap groupActions

/-! ## `_BlockRanges` -/

/-- `_BlockRanges`; dicts are association lists read with `List.lookup` (newest write first);
`del d[k]` is the shadowing entry `(k, none)` -/
structure FuncRanges where
  starts : List Nat
  s2e : List (Nat × Nat)
  e2s : List (Nat × Option Nat)
  deriving Repr

def insertSorted (x : Nat) : List Nat → List Nat
  | [] => [x]
  | y :: ys => if x ≤ y then x :: y :: ys else y :: insertSorted x ys

def sortNat (xs : List Nat) : List Nat := xs.foldr insertSorted []

namespace FuncRanges

/-- `_BlockRanges.__init__`: `{v: k for k, v in mapping.items()}` lets the later item win -/
def init (m : List (Nat × Nat)) : FuncRanges :=
  { starts := sortNat (m.map (·.1)), s2e := m, e2s := (m.map fun p => (p.2, some p.1)).reverse }

def endToStart (fr : FuncRanges) (e : Nat) : Option Nat := (fr.e2s.lookup e).bind id

/-- `has_end` -/
def hasEnd (fr : FuncRanges) (e : Nat) : Bool := (fr.endToStart e).isSome

/-- `if has_end(old): adjust_end(old, new)` -/
def adjustEnd (fr : FuncRanges) (old new : Nat) : FuncRanges :=
  match fr.endToStart old with
  | none => fr
  | some start =>
    { fr with s2e := (start, new) :: fr.s2e, e2s := (new, some start) :: (old, none) :: fr.e2s }

/-- `bisect.bisect_left(self._starts, line)` on the sorted `_starts` -/
def bisectLeft (xs : List Nat) (line : Nat) : Nat := xs.countP (· < line)

/-- `while 1 < i <= num_intervals and self._start_to_end[self._starts[i - 1]] < line: i -= 1` -/
def walkBack (fr : FuncRanges) (line : Nat) : Nat → Except Crash Nat
  | 0 => .ok 0
  | 1 => .ok 1
  | i + 2 =>
    match fr.starts[i + 1]? with
    | none => .error .indexError
    | some s =>
      match fr.s2e.lookup s with
      | none => .error .keyError
      | some e => if e < line then walkBack fr line (i + 1) else .ok (i + 2)

/-- `find_outermost`; `none` is `(None, None)` -/
def findOutermost (fr : FuncRanges) (line : Nat) : Except Crash (Option (Nat × Nat)) :=
  let i := bisectLeft fr.starts line
  let n := fr.starts.length
  -- `if i or line == self._starts[0]:`
  let cond : Except Crash Bool :=
    if i != 0 then .ok true
    else match fr.starts with
      | [] => .error .indexError
      | s0 :: _ => .ok (line == s0)
  match cond with
  | .error e => .error e
  | .ok false => .ok none
  | .ok true =>
    let start : Except Crash Nat :=
      if decide (i < n) && fr.starts[i]? == some line then .ok line
      else match walkBack fr line i with
        | .error e => .error e
        | .ok j =>
          match fr.starts[j - 1]? with
          | some s => .ok s
          | none => .error .indexError
    match start with
    | .error e => .error e
    | .ok start =>
      match fr.s2e.lookup start with
      | none => .error .keyError
      | some e => if decide (start ≤ line) && decide (line < e) then .ok (some (start, e)) else .ok none

end FuncRanges

/-! ## the Director state -/

structure State where
  /-- `_ignore` (key `none`) and `_disables` (keys `some name`); newest write first -/
  sets : List (Key × LineSet) := []
  fr : FuncRanges
  deriving Repr

namespace State

def get (st : State) (k : Key) : LineSet := (st.sets.lookup k).getD LineSet.empty

def put (st : State) (k : Key) (ls : LineSet) : State := { st with sets := (k, ls) :: st.sets }

end State

def applyAction (st : State) : Action → Except Crash State
  | .setLine k l b => .ok (st.put k ((st.get k).setLine l b))
  | .startRange k l b =>
    match (st.get k).startRange l b with
    | .ok ls => .ok (st.put k ls)
    | .error e => .error e
  | .adjustEnd o n => .ok { st with fr := st.fr.adjustEnd o n }

def applyAll (st : State) : List Action → Except Crash State
  | [] => .ok st
  | a :: as =>
    match applyAction st a with
    | .ok st' => applyAll st' as
    | .error e => .error e

structure Director where
  st : State
  returnLines : List Nat
  deriving Repr

/-- `Director.__init__` + `_parse_src_tree` -/
def build (disable : List String) (p : ParserOut) : Except Crash Director :=
  match applyAll { fr := FuncRanges.init p.functionRanges } (allActions disable p) with
  | .ok st => .ok { st := st, returnLines := p.returnLines }
  | .error e => .error e

/-! ## `filter_error` -/

/-- the attributes of an `errors.Error` that `filter_error` reads -/
structure Err where
  /-- `error.filename == self._filename` -/
  sameFile : Bool := true
  name : String
  /-- `error.line` (`None` only through `set_line(None)`) -/
  line : Option Nat
  /-- `error.opcode_name` (`""` for `None`) -/
  opcode : String := ""
  deriving DecidableEq, Repr

def maxsize : Nat := 9223372036854775807

/-- `line not in self._ignore and line not in self._disables["*"] and line not in self._disables[name]`,
negated -/
def suppressed (st : State) (name : String) (line : Nat) : Bool :=
  (st.get none).contains line || (st.get (some DirectorSets.allErrors)).contains line ||
    (st.get (some name)).contains line

/-- the test guarding the implicit-return adjustment -/
def relineCandidate (returnLines : List Nat) (e : Err) : Bool :=
  match e.line with
  | none => false
  | some l =>
    e.sameFile && e.name == "bad-return-type" &&
      (e.opcode == "RETURN_VALUE" || e.opcode == "RETURN_CONST") && !returnLines.contains l

/-- the line `filter_error` leaves in the error object (`error.set_line(end)`) -/
def reline (d : Director) (e : Err) (l : Nat) : Except Crash Nat :=
  if relineCandidate d.returnLines e then
    match d.st.fr.findOutermost l with
    | .error c => .error c
    | .ok none => .ok l
    | .ok (some (_, e')) => if e' != 0 then .ok e' else .ok l
  else .ok l

/-- `filter_error`: `(True iff the error is logged, error.line afterwards)` -/
def filterError (d : Director) (e : Err) : Except Crash (Bool × Option Nat) :=
  if !e.sameFile then .ok (true, e.line)
  else match e.line with
    | none => .ok (true, none)
    | some l =>
      match reline d e l with
      | .error c => .error c
      | .ok l' =>
        let line := if l' == 0 then maxsize else l'
        .ok (!suppressed d.st e.name line, some l')

end PytypeModel.Director
