/-
C11 model, part 2: the visitors of pytype/pytd/optimize.py and the `Optimize` pipeline.
Core Lean only, every function structurally recursive (CombineContainers re-visits freshly joined
parameters with a *new* visitor, which is not structural: it takes fuel, see `cc`).

Visitor framework (parse/node.py `_VisitNode`): children first, the node is rebuilt from the new
children — for a `UnionType` the constructor flattens/deduplicates again (`mkUnion`) — then the
`Visit<Class>` hook runs on the rebuilt node.  `Enter/Leave` hooks only maintain the class stack
(`Ctx`).  `visit_class_names` is a pure shortcut (subtrees that cannot contain a hooked class are
returned as they are) and is not modelled.

optimize.py                                   here
--------------------------------------------  ----------------------------------------------
NormalizeGenericSelfTypes.VisitFunction       normalizeSelf            (Pass.func, needs class stack)
RemoveDuplicates.VisitFunction                removeDuplicates         (OrderedSet over `==`)
SimplifyUnions.VisitUnionType                 simplifyUnions = bu suHook
CombineReturnsAndExceptions.VisitFunction     combineReturns           (dict keyed by stripped signature)
CombineContainers.VisitUnionType              cc / ccHook              (+ _should_merge, _key, _CONTAINER_NAMES)
SimplifyContainers.VisitGenericType           simplifyContainers = bu scHook
SuperClassHierarchy / ExtractSuperClassesByName   Hier, Hier.reach, hierOfUnit
SimplifyUnionsWithSuperclasses.VisitUnionType suws = bu (suwsHook H)
FindCommonSuperClasses.VisitUnionType         fcs  = bu (fcsHook H)
CollapseLongUnions.VisitUnionType             collapse = bu (collapseHook max)
AdjustReturnAndConstantGenericType            Pass.ret / Pass.const := adjustGeneric
AbsorbMutableParameters.VisitParameter        absorbParam
MergeTypeParameters                           only where no enclosing class has a template
                                              (then it is `SimplifyUnions` on every signature)
visitors.AdjustSelf                           adjustSelfParam
Optimize                                      optimize
-/
import PytypeModel.Pytd.Join

namespace PytypeModel.Pytd

/-! ## the visitor framework on types -/

mutual
/-- `t.Visit(v)` for a visitor whose only hooks are on type nodes (`hook` dispatches on the class). -/
def Ty.bu (hook : Ty → Ty) : Ty → Ty
  | .generic b ps => hook (.generic (b.bu hook) (buList hook ps))
  | .tuple b ps => hook (.tuple (b.bu hook) (buList hook ps))
  | .callable b ps => hook (.callable (b.bu hook) (buList hook ps))
  | .union ts => hook (mkUnion (buList hook ts))
  | .annotated t as => hook (.annotated (t.bu hook) as)
  | t => hook t
def buList (hook : Ty → Ty) : List Ty → List Ty
  | [] => []
  | t :: ts => t.bu hook :: buList hook ts
end

/-! ## SimplifyUnions -/

def suHook : Ty → Ty
  | .union ts => joinTypes ts
  | t => t

def simplifyUnions (t : Ty) : Ty := t.bu suHook

/-! ## CombineContainers -/

/-- `isinstance(t, pytd.GenericType)` (TupleType and CallableType are subclasses) -/
def Ty.isGenericLike : Ty → Bool
  | .generic .. | .tuple .. | .callable .. => true
  | _ => false

def Ty.params : Ty → List Ty
  | .generic _ ps | .tuple _ ps | .callable _ ps => ps
  | _ => []

def Ty.base : Ty → Ty
  | .generic b _ | .tuple b _ | .callable b _ => b
  | t => t

/-- `t.Replace(parameters=ps)` -/
def Ty.withParams : Ty → List Ty → Ty
  | .generic b _, ps => .generic b ps
  | .tuple b _, ps => .tuple b ps
  | .callable b _, ps => .callable b ps
  | t, _ => t

inductive CKind | tuple | callable
  deriving DecidableEq, Repr

def Ty.isKind : CKind → Ty → Bool
  | .tuple, .tuple .. => true
  | .callable, .callable .. => true
  | _, _ => false

/-- `CombineContainers._CONTAINER_NAMES` -/
def containerNames : CKind → List String
  | .tuple => ["builtins.tuple", "typing.Tuple"]
  | .callable => ["typing.Callable"]

/-- `_should_merge(pytd_type, union)`: the loop with its `length` variable -/
def shouldMergeGo (k : CKind) : Option Nat → List Ty → Bool
  | _, [] => false
  | len, t :: ts =>
    if t.isKind k then
      match len with
      | none => shouldMergeGo k (some t.params.length) ts
      | some l => if l != t.params.length then true else shouldMergeGo k len ts
    else if t.isGenericLike && (containerNames k).contains t.nameStr then true
    else shouldMergeGo k len ts

def shouldMerge (k : CKind) (ts : List Ty) : Bool := shouldMergeGo k none ts

/-- the "turn into the homogeneous flavour" step: `tuple[a, b]` ↦ `tuple[a | b, ...]`,
`Callable[[a, b], r]` ↦ `Callable[..., r]` -/
def degenerate (mt mc : Bool) : Ty → Ty
  | .tuple b ps => if mt then .generic b [joinTypes ps] else .tuple b ps
  | .callable b ps => if mc then .generic b [.any, ps.getLast?.getD .any] else .callable b ps
  | t => t

/-- `_key(t)`: `(base_type, len(parameters))` for tuples and callables, `base_type` otherwise -/
structure CKey where
  base : Ty
  len : Option Nat
  deriving DecidableEq

def keyOf : Ty → CKey
  | .tuple b ps => ⟨b, some ps.length⟩
  | .callable b ps => ⟨b, some ps.length⟩
  | t => ⟨t.base, none⟩

def CKey.eq (a b : CKey) : Bool := a.base.pyEq b.base && a.len == b.len

def joinZip : List Ty → List Ty → List Ty
  | p :: ps, q :: qs => joinTypes [p, q] :: joinZip ps qs
  | _, _ => []

/-- `collect[key] = …` : update in place or insert at the end; the Bool is `has_redundant_base_types` -/
def collInsert (k : CKey) (ps : List Ty) : List (CKey × List Ty) → List (CKey × List Ty) × Bool
  | [] => ([(k, ps)], false)
  | e :: es =>
    if e.1.eq k then ((e.1, joinZip e.2 ps) :: es, true)
    else let r := collInsert k ps es; (e :: r.1, r.2)

def collectAll : List (CKey × List Ty) → Bool → List Ty → List (CKey × List Ty) × Bool
  | acc, red, [] => (acc, red)
  | acc, red, t :: ts =>
    if t.isGenericLike then
      let r := collInsert (keyOf t) t.params acc
      collectAll r.1 (red || r.2) ts
    else collectAll acc red ts

def collGet (coll : List (CKey × List Ty)) (k : CKey) : List Ty :=
  match coll.find? (fun e => e.1.eq k) with
  | some e => e.2
  | none => []

/-- the final loop: `result = JoinTypes([result, add])` -/
def ccLoop (revisit : Ty → Ty) (coll : List (CKey × List Ty)) : List CKey → Ty → List Ty → Ty
  | _, res, [] => res
  | done, res, t :: ts =>
    if t.isGenericLike then
      if done.any (fun d => d.eq (keyOf t)) then ccLoop revisit coll done res ts
      else ccLoop revisit coll (keyOf t :: done)
             (joinTypes [res, t.withParams ((collGet coll (keyOf t)).map revisit)]) ts
    else ccLoop revisit coll done (joinTypes [res, t]) ts

/-- `union = JoinTypes(…); if not isinstance(union, UnionType): union = UnionType((union,))`, then `.type_list` -/
def Ty.asMembers : Ty → List Ty
  | .union ms => ms
  | j => [j]

/-- `CombineContainers.VisitUnionType`; `revisit p` is `p.Visit(CombineContainers())`. -/
def ccHook (revisit : Ty → Ty) : Ty → Ty
  | .union ts =>
    if !(ts.any Ty.isGenericLike) then .union ts
    else
      let ts1 := (joinTypes ts).asMembers
      let mt := shouldMerge .tuple ts1
      let mc := shouldMerge .callable ts1
      -- `union.Replace(type_list=…)`: no constructor, hence no renormalisation here
      let ts2 := if mt || mc then ts1.map (degenerate mt mc) else ts1
      let r := collectAll [] false ts2
      if !r.2 then .union ts2
      else ccLoop revisit r.1 [] .nothing ts2
  | t => t

/-- `t.Visit(CombineContainers())`.  Fuel bounds the nesting of visits (children and re-visits of
joined parameters); with no fuel left the node is returned unchanged. -/
def cc : Nat → Ty → Ty
  | 0, t => t
  | n + 1, t =>
    match t with
    | .generic b ps => .generic (cc n b) (ps.map (cc n))
    | .tuple b ps => .tuple (cc n b) (ps.map (cc n))
    | .callable b ps => .callable (cc n b) (ps.map (cc n))
    | .union ts => ccHook (cc n) (mkUnion (ts.map (cc n)))
    | .annotated t as => .annotated (cc n t) as
    | t => t

/-- enough fuel for every visit `cc` makes on `t` (checked against twice the amount by the driver) -/
def ccFuel (t : Ty) : Nat := 2 * t.size + 4

def combineContainers (t : Ty) : Ty := cc (ccFuel t) t

/-! ## SimplifyContainers -/

def scHook : Ty → Ty
  | .generic b ps => if ps.all Ty.isAny then b else .generic b ps
  | t => t

def simplifyContainers (t : Ty) : Ty := t.bu scHook

/-! ## class hierarchy -/

/-- the `superclasses` dict in chronological order of insertion; a later entry for the same key
overrides an earlier one (`dict.update`) -/
abbrev Hier := List (String × List String)

def Hier.lookup (H : Hier) (n : String) : List String :=
  match H.reverse.find? (fun e => e.1 == n) with
  | some e => e.2
  | none => []

/-- `b ∈ ExpandSuperClasses(a)` / `a ∈ ExpandSubClasses(b)`: `a` reaches `b` along superclass edges -/
def Hier.reach (H : Hier) : Nat → String → String → Bool
  | 0, a, b => a == b
  | n + 1, a, b => a == b || (H.lookup a).any (fun s => Hier.reach H n s b)

/-- a simple path leaves every key at most once -/
def Hier.fuel (H : Hier) : Nat := H.length

def Hier.isSub (H : Hier) (a b : String) : Bool := H.reach H.fuel a b

/-- `ExtractSuperClassesByName._Key` on a base -/
def baseKey : Ty → Option String
  | .named n | .cls n => some n
  | .generic b _ | .tuple b _ | .callable b _ => some b.nameStr
  | _ => none

mutual
def Class.supersEntries : Class → Hier
  | .mk n _ bs _ _ ns _ _ _ => (n, bs.filterMap baseKey) :: classesSupers ns
def classesSupers : List Class → Hier
  | [] => []
  | c :: cs => c.supersEntries ++ classesSupers cs
end

def hierOfUnit (u : TUnit) : Hier := classesSupers u.classes

/-! ## SimplifyUnionsWithSuperclasses -/

/-- `isinstance(t, pytd.GENERIC_BASE_TYPE)` -/
def Ty.isBaseType : Ty → Bool
  | .named _ | .cls _ => true
  | _ => false

/-- `str(t)` when it can be a class name (NamedType, ClassType, LateType); the struct repr of the
other node classes contains parentheses and is never a key of the hierarchy -/
def Ty.strName : Ty → Option String
  | .named n | .cls n | .late n => some n
  | _ => none

/-- `c[name]`: over `set(union.type_list)`, how many base-type members have `name` among their subclasses -/
def subCount (H : Hier) (ts : List Ty) (name : String) : Nat :=
  ((dedupPy ts).filter (fun t => t.isBaseType && H.isSub name t.nameStr)).length

def suwsKeep (H : Hier) (ts : List Ty) (t : Ty) : Bool :=
  match t.strName with
  | some n => subCount H ts n ≤ 1
  | none => true

def suwsHook (H : Hier) : Ty → Ty
  | .union ts => joinTypes (ts.filter (suwsKeep H ts))
  | t => t

def suws (H : Hier) (t : Ty) : Ty := t.bu (suwsHook H)

/-! ## FindCommonSuperClasses (lossy) -/

/-- candidate names: everything that can be in an `ExpandSuperClasses` set -/
def Hier.names (H : Hier) : List String := H.flatMap (fun e => e.1 :: e.2)

/-- `str(t)` of every member, if all of them are class names -/
def strNames : List Ty → Option (List String)
  | [] => some []
  | t :: ts =>
    match t.strName, strNames ts with
    | some n, some ns => some (n :: ns)
    | _, _ => none

/-- `str(t)` is the key for ExpandSuperClasses; a member whose `str` is a struct repr has only itself
as "superclass", which no other member shares -/
def fcsHook (H : Hier) : Ty → Ty
  | .union ts =>
    match strNames ts with
    | none => .union ts           -- a repr string is in the intersection of nothing else (≥ 2 distinct members)
    | some [] => .union ts
    | some (n :: ns) =>
      let cands := (n :: H.names).eraseDups
      let inter := cands.filter (fun c => (n :: ns).all (fun m => H.isSub m c))
      -- HasSubClassInSet: a *direct* subclass in the intersection
      let leaves := inter.filter (fun c => !(inter.any (fun s => (H.lookup s).contains c)))
      if leaves.isEmpty then .union ts else joinTypes (leaves.map Ty.named)
  | t => t

def fcs (H : Hier) (t : Ty) : Ty := t.bu (fcsHook H)

/-! ## CollapseLongUnions -/

def Ty.isLiteral : Ty → Bool
  | .literal _ => true
  | _ => false

def collapseHook (max : Nat) : Ty → Ty
  | .union ts =>
    if ts.length > max && !(ts.any Ty.isLiteral) then .any
    else if ts.any Ty.isAny then joinTypes ts
    else .union ts
  | t => t

def collapse (max : Nat) (t : Ty) : Ty := t.bu (collapseHook max)

/-! ## AdjustGenericType -/

def objectName : String := "builtins.object"

def agHook : Ty → Ty
  | .cls n => if n == objectName then .any else .cls n
  | t => t

def adjustGeneric (t : Ty) : Ty := t.bu agHook

/-! ## declarations: one visitor run over a unit -/

/-- what the Enter/Leave hooks maintain: innermost enclosing class (name, template) and the kind of
the function being visited -/
structure Ctx where
  cls : Option (String × List TypeParamDecl) := none
  kind : MethodKind := .method

/-- the hooks of one visitor -/
structure Pass where
  ty : Ty → Ty
  ret : Ty → Ty := id
  const : Ty → Ty := id
  param : Ctx → Param → Param := fun _ p => p
  sig : Ctx → Sig → Sig := fun _ s => s
  func : Ctx → Func → Func := fun _ f => f

namespace Pass
variable (P : Pass)

def runParam (c : Ctx) (p : Param) : Param :=
  P.param c { p with ty := P.ty p.ty, mutated := p.mutated.map P.ty }

def runDecl (d : TypeParamDecl) : TypeParamDecl :=
  { d with constraints := d.constraints.map P.ty, bound := d.bound.map P.ty }

def runSig (c : Ctx) (s : Sig) : Sig :=
  P.sig c { params := s.params.map (P.runParam c), starargs := s.starargs.map (P.runParam c),
            starstarargs := s.starstarargs.map (P.runParam c), ret := P.ret (P.ty s.ret),
            exceptions := s.exceptions.map P.ty, template := s.template.map P.runDecl }

def runFunc (c : Ctx) (f : Func) : Func :=
  let c' := { c with kind := f.kind }
  P.func c' { f with sigs := f.sigs.map (P.runSig c') }

def runConst (k : Const) : Const := { k with ty := P.const (P.ty k.ty) }

def runAlias (a : Alias) : Alias := { a with ty := P.ty a.ty }

mutual
def runClass : Class → Class
  | .mk n kw bs ms cs ns ds sl tm =>
    .mk n (kw.map (fun e => (e.1, P.ty e.2))) (bs.map P.ty) (ms.map (P.runFunc { cls := some (n, tm) }))
        (cs.map P.runConst) (runClasses ns) ds sl (tm.map P.runDecl)
def runClasses : List Class → List Class
  | [] => []
  | c :: cs => runClass c :: runClasses cs
end

def runUnit (u : TUnit) : TUnit :=
  { u with constants := u.constants.map P.runConst, typeParams := u.typeParams.map P.runDecl,
           classes := P.runClasses u.classes, functions := u.functions.map (P.runFunc {}),
           aliases := u.aliases.map P.runAlias }

end Pass

/-! ## function-level hooks -/

def optPyEq : Option Ty → Option Ty → Bool
  | none, none => true
  | some a, some b => a.pyEq b
  | _, _ => false

def Param.pyEq (p q : Param) : Bool :=
  p.name == q.name && p.ty.pyEq q.ty && p.kind == q.kind && p.optional == q.optional &&
  optPyEq p.mutated q.mutated

def optParamPyEq : Option Param → Option Param → Bool
  | none, none => true
  | some a, some b => a.pyEq b
  | _, _ => false

def paramsPyEq : List Param → List Param → Bool
  | [], [] => true
  | p :: ps, q :: qs => p.pyEq q && paramsPyEq ps qs
  | _, _ => false

def TypeParamDecl.pyEq (d e : TypeParamDecl) : Bool :=
  d.name == e.name && pyEqList d.constraints e.constraints && optPyEq d.bound e.bound && d.scope == e.scope

def declsPyEq : List TypeParamDecl → List TypeParamDecl → Bool
  | [], [] => true
  | d :: ds, e :: es => d.pyEq e && declsPyEq ds es
  | _, _ => false

/-- `sig.Replace(return_type=None, exceptions=None)` compared with `==` -/
def Sig.stripEq (s t : Sig) : Bool :=
  paramsPyEq s.params t.params && optParamPyEq s.starargs t.starargs &&
  optParamPyEq s.starstarargs t.starstarargs && declsPyEq s.template t.template

def Sig.pyEq (s t : Sig) : Bool := s.stripEq t && s.ret.pyEq t.ret && pyEqList s.exceptions t.exceptions

/-- NormalizeGenericSelfTypes.VisitFunction -/
def normalizeSelfSig (clsName : String) (s : Sig) : Sig :=
  match s.params with
  | p :: ps =>
    if p.name == "self" && p.ty.isGenericLike && p.ty.nameStr == clsName then
      { s with params := { p with ty := p.ty.base } :: ps }
    else s
  | [] => s

def normalizeSelf (c : Ctx) (f : Func) : Func :=
  match c.cls with
  | none => f
  | some (n, _) => { f with sigs := f.sigs.map (normalizeSelfSig n) }

/-- `OrderedSet(signatures)` -/
def dedupSigsAux (seen : List Sig) : List Sig → List Sig
  | [] => []
  | s :: ss => if seen.any (fun x => x.pyEq s) then dedupSigsAux seen ss else s :: dedupSigsAux (s :: seen) ss

def removeDuplicates (f : Func) : Func := { f with sigs := dedupSigsAux [] f.sigs }

/-- `_ReturnsAndExceptions` together with the dict key it is stored under -/
structure RetExc where
  key : Sig
  rets : List Ty
  excs : List Ty

/-- `exceptions.extend(e for e in … if e not in self.exceptions)` (the test sees earlier appends) -/
def addNewTys (acc : List Ty) : List Ty → List Ty
  | [] => acc
  | t :: ts => if pyMem acc t then addNewTys acc ts else addNewTys (acc ++ [t]) ts

def craInsert (s : Sig) : List RetExc → List RetExc
  | [] => [⟨s, [s.ret], addNewTys [] s.exceptions⟩]
  | g :: gs =>
    if g.key.stripEq s then ⟨g.key, addNewTys g.rets [s.ret], addNewTys g.excs s.exceptions⟩ :: gs
    else g :: craInsert s gs

def craGroups : List RetExc → List Sig → List RetExc
  | acc, [] => acc
  | acc, s :: ss => craGroups (craInsert s acc) ss

def RetExc.toSig (g : RetExc) : Sig :=
  { g.key with ret := joinTypes g.rets, exceptions := g.excs }

def combineReturns (f : Func) : Func :=
  { f with sigs := (craGroups [] f.sigs).map RetExc.toSig }

/-- AbsorbMutableParameters.VisitParameter -/
def absorbParam (p : Param) : Param :=
  match p.mutated with
  | none => p
  | some m => { p with ty := joinTypes [p.ty, m], mutated := none }

/-- `visitors.ClassAsType(cls)` -/
def classAsType (n : String) (tm : List TypeParamDecl) : Ty :=
  if tm.isEmpty then .named n else .generic (.named n) (tm.map (fun d => .typeParam d.name d.scope))

/-- visitors.AdjustSelf(force=False).VisitParameter -/
def adjustSelfParam (c : Ctx) (p : Param) : Param :=
  match c.cls with
  | none => p
  | some (n, tm) =>
    if !p.ty.isAny then p
    else if p.name == "self" && (c.kind == .method || c.kind == .property) then
      { p with ty := classAsType n tm }
    else if p.name == "cls" && c.kind == .classmethod then
      { p with ty := .generic (.named "builtins.type") [classAsType n tm] }
    else p

/-- MergeTypeParameters.VisitSignature where no class type parameter is in scope: the template is
kept, `sig.template == new_template` compares a tuple with a list and is therefore never true, the
substitution is the identity and `SimplifyUnions` runs over the signature. -/
def mergeTypeParamsSig (_ : Ctx) (s : Sig) : Sig :=
  let P : Pass := { ty := simplifyUnions }
  P.runSig {} s

/-! ## the passes and the pipeline -/

def passNormalizeSelf : Pass := { ty := id, func := normalizeSelf }
def passRemoveDuplicates : Pass := { ty := id, func := fun _ f => removeDuplicates f }
def passSimplifyUnions : Pass := { ty := simplifyUnions }
def passCombineReturns : Pass := { ty := id, func := fun _ f => combineReturns f }
def passCombineContainers : Pass := { ty := combineContainers }
def passSimplifyContainers : Pass := { ty := simplifyContainers }
def passSuws (H : Hier) : Pass := { ty := suws H }
def passFcs (H : Hier) : Pass := { ty := fcs H }
def passCollapse (max : Nat) : Pass := { ty := collapse max }
def passAdjust : Pass := { ty := id, ret := adjustGeneric, const := adjustGeneric }
def passAbsorb : Pass := { ty := id, param := fun _ p => absorbParam p }
def passMergeTypeParams : Pass := { ty := id, sig := mergeTypeParamsSig }
def passAdjustSelf : Pass := { ty := id, param := adjustSelfParam }

/-- visitors.LookupClasses(node, deps, ignore_late_types=True) for a tree all of whose names resolve:
NamedType ↦ ClassType (the `cls` pointer is not modelled) -/
def lookupHook : Ty → Ty
  | .named n => .cls n
  | t => t

def passLookup : Pass := { ty := fun t => t.bu lookupHook }

structure Opts where
  /-- `if deps:` -/
  hasDeps : Bool := false
  lossy : Bool := false
  useAbcs : Bool := false
  /-- 0 stands for a falsy `max_union` -/
  maxUnion : Nat := 7
  removeMutable : Bool := false
  canDoLookup : Bool := true

/-- the settings of `io.generate_pyi_ast` -/
def Opts.pytype : Opts := { hasDeps := true }

/-- the first six visitors -/
def stageA (u : TUnit) : TUnit :=
  passSimplifyContainers.runUnit (passCombineContainers.runUnit (passCombineReturns.runUnit
    (passSimplifyUnions.runUnit (passRemoveDuplicates.runUnit (passNormalizeSelf.runUnit u)))))

/-- `superclasses = deps…; superclasses.update(node…); if use_abcs: superclasses.update(abc…)` -/
def pipelineHier (o : Opts) (deps abcs : Hier) (u : TUnit) : Hier :=
  deps ++ hierOfUnit (stageA u) ++ (if o.useAbcs then abcs else [])

def stageB (o : Opts) (H : Hier) (u : TUnit) : TUnit :=
  if o.hasDeps then
    let u := (passSuws H).runUnit u
    if o.lossy then (passFcs H).runUnit u else u
  else u

def stageC (o : Opts) (u : TUnit) : TUnit :=
  let u := if o.maxUnion != 0 then (passCollapse o.maxUnion).runUnit u else u
  passAdjust.runUnit u

/-- `if remove_mutable:` AbsorbMutableParameters, CombineContainers, MergeTypeParameters … -/
def stageD1 (o : Opts) (u : TUnit) : TUnit :=
  if o.removeMutable then
    passMergeTypeParams.runUnit (passCombineContainers.runUnit (passAbsorb.runUnit u))
  else u

/-- … `visitors.AdjustSelf()`; then the final SimplifyContainers and LookupClasses -/
def stageD2 (o : Opts) (u : TUnit) : TUnit :=
  let u := if o.removeMutable then passAdjustSelf.runUnit u else u
  let u := passSimplifyContainers.runUnit u
  if o.hasDeps && o.canDoLookup then passLookup.runUnit u else u

def stageD (o : Opts) (u : TUnit) : TUnit := stageD2 o (stageD1 o u)

/-- optimize.Optimize(node, deps, lossy, use_abcs, max_union, remove_mutable, can_do_lookup) on a
TypeDeclUnit; `deps`/`abcs` are the superclass dicts of `deps` and of abc_hierarchy. -/
def optimize (o : Opts) (deps abcs : Hier) (u : TUnit) : TUnit :=
  stageD o (stageC o (stageB o (pipelineHier o deps abcs u) (stageA u)))

/-! ### the same pipeline seen from one type position / one function

`Pass.runUnit` maps over declarations, so the unit pipeline acts on a single declaration by the
composition of the per-declaration runs (with the hierarchy `H` the unit pipeline computed). -/

inductive Pos | param | ret | const
  deriving DecidableEq, Repr

/-- lossless part applied to a type in position `pos` (no `remove_mutable`, no lookup) -/
def optimizeTy (o : Opts) (H : Hier) (pos : Pos) (t : Ty) : Ty :=
  let t := simplifyContainers (combineContainers (simplifyUnions t))
  let t := if o.hasDeps then (let t := suws H t; if o.lossy then fcs H t else t) else t
  let t := if o.maxUnion != 0 then collapse o.maxUnion t else t
  let t := if pos == .param then t else adjustGeneric t
  simplifyContainers t

def passesOf (o : Opts) (H : Hier) : List Pass :=
  [passNormalizeSelf, passRemoveDuplicates, passSimplifyUnions, passCombineReturns,
   passCombineContainers, passSimplifyContainers] ++
  (if o.hasDeps then [passSuws H] ++ (if o.lossy then [passFcs H] else []) else []) ++
  (if o.maxUnion != 0 then [passCollapse o.maxUnion] else []) ++ [passAdjust] ++
  (if o.removeMutable then [passAbsorb, passCombineContainers, passMergeTypeParams, passAdjustSelf] else []) ++
  [passSimplifyContainers] ++ (if o.hasDeps && o.canDoLookup then [passLookup] else [])

def optimizeFunc (o : Opts) (H : Hier) (c : Ctx) (f : Func) : Func :=
  (passesOf o H).foldl (fun f P => P.runFunc c f) f

end PytypeModel.Pytd
