/-
Shared model of the pytd type IR (pytype/pytd/pytd.py) for C04 C05 C06 C11.
Core Lean only.  One constructor per concrete Node class that `output.py` can emit
(the *emitted dialect* F_pytd); IntersectionType, Concatenate, ParamSpec forms are outside it.

pytd.py                         here
------------------------------  ---------------------------------------------
AnythingType / NothingType      Ty.any / Ty.nothing
NamedType(name)                 Ty.named n
ClassType(name, cls)            Ty.cls n            (eq/hash by name only; `cls` pointer not modelled)
LateType(name)                  Ty.late n
TypeParameter(name, scope)      Ty.typeParam n scope   (constraints/bound/default: see TypeParamDecl)
GenericType(base, params)       Ty.generic base ps     (base ∈ named/cls/late)
TupleType(base, params)         Ty.tuple base ps       (heterogeneous, fixed length)
CallableType(base, params)      Ty.callable base ps    (ps = args ++ [ret])
UnionType(type_list)            Ty.union ts            (flattened by __post_init__; order kept)
Literal(value)                  Ty.literal v
Annotated(base, annotations)    Ty.annotated t as
-/
namespace PytypeModel.Pytd

inductive Lit
  | int (n : Int)
  | str (s : String)
  | bool (b : Bool)
  | enumMember (cls : String) (name : String)   -- Literal[Constant] for enum members
  deriving BEq, Repr, DecidableEq, Inhabited

inductive Ty
  | any
  | nothing
  | named (n : String)
  | cls (n : String)
  | late (n : String)
  | typeParam (n : String) (scope : Option String)
  | generic (base : Ty) (ps : List Ty)
  | tuple (base : Ty) (ps : List Ty)
  | callable (base : Ty) (ps : List Ty)
  | union (ts : List Ty)
  | literal (v : Lit)
  | annotated (t : Ty) (as : List String)
  deriving BEq, Repr, Inhabited

mutual
def Ty.decEq : (a b : Ty) → Decidable (a = b)
  | .any, .any => isTrue rfl
  | .nothing, .nothing => isTrue rfl
  | .named a, .named b => if h : a = b then isTrue (by rw [h]) else isFalse (by intro e; cases e; exact h rfl)
  | .cls a, .cls b => if h : a = b then isTrue (by rw [h]) else isFalse (by intro e; cases e; exact h rfl)
  | .late a, .late b => if h : a = b then isTrue (by rw [h]) else isFalse (by intro e; cases e; exact h rfl)
  | .typeParam a s, .typeParam b t =>
    if h : a = b ∧ s = t then isTrue (by rw [h.1, h.2]) else isFalse (by intro e; cases e; exact h ⟨rfl, rfl⟩)
  | .generic b1 p1, .generic b2 p2 =>
    match Ty.decEq b1 b2, Ty.decEqList p1 p2 with
    | isTrue h1, isTrue h2 => isTrue (by rw [h1, h2])
    | isFalse h, _ => isFalse (by intro e; cases e; exact h rfl)
    | _, isFalse h => isFalse (by intro e; cases e; exact h rfl)
  | .tuple b1 p1, .tuple b2 p2 =>
    match Ty.decEq b1 b2, Ty.decEqList p1 p2 with
    | isTrue h1, isTrue h2 => isTrue (by rw [h1, h2])
    | isFalse h, _ => isFalse (by intro e; cases e; exact h rfl)
    | _, isFalse h => isFalse (by intro e; cases e; exact h rfl)
  | .callable b1 p1, .callable b2 p2 =>
    match Ty.decEq b1 b2, Ty.decEqList p1 p2 with
    | isTrue h1, isTrue h2 => isTrue (by rw [h1, h2])
    | isFalse h, _ => isFalse (by intro e; cases e; exact h rfl)
    | _, isFalse h => isFalse (by intro e; cases e; exact h rfl)
  | .union a, .union b =>
    match Ty.decEqList a b with
    | isTrue h => isTrue (by rw [h])
    | isFalse h => isFalse (by intro e; cases e; exact h rfl)
  | .literal a, .literal b => if h : a = b then isTrue (by rw [h]) else isFalse (by intro e; cases e; exact h rfl)
  | .annotated t1 a1, .annotated t2 a2 =>
    match Ty.decEq t1 t2 with
    | isTrue h1 => if h2 : a1 = a2 then isTrue (by rw [h1, h2]) else isFalse (by intro e; cases e; exact h2 rfl)
    | isFalse h => isFalse (by intro e; cases e; exact h rfl)
  | .any, .nothing | .any, .named _ | .any, .cls _ | .any, .late _ | .any, .typeParam _ _ | .any, .generic _ _
  | .any, .tuple _ _ | .any, .callable _ _ | .any, .union _ | .any, .literal _ | .any, .annotated _ _ => isFalse (by intro e; cases e)
  | .nothing, .any | .nothing, .named _ | .nothing, .cls _ | .nothing, .late _ | .nothing, .typeParam _ _ | .nothing, .generic _ _
  | .nothing, .tuple _ _ | .nothing, .callable _ _ | .nothing, .union _ | .nothing, .literal _ | .nothing, .annotated _ _ => isFalse (by intro e; cases e)
  | .named _, .any | .named _, .nothing | .named _, .cls _ | .named _, .late _ | .named _, .typeParam _ _ | .named _, .generic _ _
  | .named _, .tuple _ _ | .named _, .callable _ _ | .named _, .union _ | .named _, .literal _ | .named _, .annotated _ _ => isFalse (by intro e; cases e)
  | .cls _, .any | .cls _, .nothing | .cls _, .named _ | .cls _, .late _ | .cls _, .typeParam _ _ | .cls _, .generic _ _
  | .cls _, .tuple _ _ | .cls _, .callable _ _ | .cls _, .union _ | .cls _, .literal _ | .cls _, .annotated _ _ => isFalse (by intro e; cases e)
  | .late _, .any | .late _, .nothing | .late _, .named _ | .late _, .cls _ | .late _, .typeParam _ _ | .late _, .generic _ _
  | .late _, .tuple _ _ | .late _, .callable _ _ | .late _, .union _ | .late _, .literal _ | .late _, .annotated _ _ => isFalse (by intro e; cases e)
  | .typeParam _ _, .any | .typeParam _ _, .nothing | .typeParam _ _, .named _ | .typeParam _ _, .cls _ | .typeParam _ _, .late _
  | .typeParam _ _, .generic _ _ | .typeParam _ _, .tuple _ _ | .typeParam _ _, .callable _ _ | .typeParam _ _, .union _
  | .typeParam _ _, .literal _ | .typeParam _ _, .annotated _ _ => isFalse (by intro e; cases e)
  | .generic _ _, .any | .generic _ _, .nothing | .generic _ _, .named _ | .generic _ _, .cls _ | .generic _ _, .late _
  | .generic _ _, .typeParam _ _ | .generic _ _, .tuple _ _ | .generic _ _, .callable _ _ | .generic _ _, .union _
  | .generic _ _, .literal _ | .generic _ _, .annotated _ _ => isFalse (by intro e; cases e)
  | .tuple _ _, .any | .tuple _ _, .nothing | .tuple _ _, .named _ | .tuple _ _, .cls _ | .tuple _ _, .late _
  | .tuple _ _, .typeParam _ _ | .tuple _ _, .generic _ _ | .tuple _ _, .callable _ _ | .tuple _ _, .union _
  | .tuple _ _, .literal _ | .tuple _ _, .annotated _ _ => isFalse (by intro e; cases e)
  | .callable _ _, .any | .callable _ _, .nothing | .callable _ _, .named _ | .callable _ _, .cls _ | .callable _ _, .late _
  | .callable _ _, .typeParam _ _ | .callable _ _, .generic _ _ | .callable _ _, .tuple _ _ | .callable _ _, .union _
  | .callable _ _, .literal _ | .callable _ _, .annotated _ _ => isFalse (by intro e; cases e)
  | .union _, .any | .union _, .nothing | .union _, .named _ | .union _, .cls _ | .union _, .late _
  | .union _, .typeParam _ _ | .union _, .generic _ _ | .union _, .tuple _ _ | .union _, .callable _ _
  | .union _, .literal _ | .union _, .annotated _ _ => isFalse (by intro e; cases e)
  | .literal _, .any | .literal _, .nothing | .literal _, .named _ | .literal _, .cls _ | .literal _, .late _
  | .literal _, .typeParam _ _ | .literal _, .generic _ _ | .literal _, .tuple _ _ | .literal _, .callable _ _
  | .literal _, .union _ | .literal _, .annotated _ _ => isFalse (by intro e; cases e)
  | .annotated _ _, .any | .annotated _ _, .nothing | .annotated _ _, .named _ | .annotated _ _, .cls _ | .annotated _ _, .late _
  | .annotated _ _, .typeParam _ _ | .annotated _ _, .generic _ _ | .annotated _ _, .tuple _ _ | .annotated _ _, .callable _ _
  | .annotated _ _, .union _ | .annotated _ _, .literal _ => isFalse (by intro e; cases e)
def Ty.decEqList : (a b : List Ty) → Decidable (a = b)
  | [], [] => isTrue rfl
  | [], _ :: _ => isFalse (by intro e; cases e)
  | _ :: _, [] => isFalse (by intro e; cases e)
  | x :: xs, y :: ys =>
    match Ty.decEq x y, Ty.decEqList xs ys with
    | isTrue h1, isTrue h2 => isTrue (by rw [h1, h2])
    | isFalse h, _ => isFalse (by intro e; cases e; exact h rfl)
    | _, isFalse h => isFalse (by intro e; cases e; exact h rfl)
end

instance : DecidableEq Ty := Ty.decEq

inductive ParamKind | posOnly | regular | kwOnly
  deriving BEq, Repr, DecidableEq, Inhabited

structure Param where
  name : String
  ty : Ty
  kind : ParamKind := .regular
  optional : Bool := false
  mutated : Option Ty := none
  deriving BEq, Repr, DecidableEq, Inhabited

/-- TemplateItem(type_param): declaration of a type parameter with constraints and bound. -/
structure TypeParamDecl where
  name : String
  constraints : List Ty := []
  bound : Option Ty := none
  scope : Option String := none
  deriving BEq, Repr, DecidableEq, Inhabited

structure Sig where
  params : List Param
  starargs : Option Param := none
  starstarargs : Option Param := none
  ret : Ty
  exceptions : List Ty := []
  template : List TypeParamDecl := []
  deriving BEq, Repr, DecidableEq, Inhabited

inductive MethodKind | method | staticmethod | classmethod | property
  deriving BEq, Repr, DecidableEq, Inhabited

structure Func where
  name : String
  sigs : List Sig
  kind : MethodKind := .method
  abstract : Bool := false
  coroutine : Bool := false
  final : Bool := false
  decorators : List String := []
  deriving BEq, Repr, DecidableEq, Inhabited

structure Const where
  name : String
  ty : Ty
  value : Option Lit := none
  deriving BEq, Repr, DecidableEq, Inhabited

structure Alias where
  name : String
  ty : Ty
  deriving BEq, Repr, DecidableEq, Inhabited

/-- Class; nested classes are kept in a separate inductive to stay first-order. -/
inductive Class
  | mk (name : String) (keywords : List (String × Ty)) (bases : List Ty) (methods : List Func)
       (constants : List Const) (classes : List Class) (decorators : List String)
       (slots : Option (List String)) (template : List TypeParamDecl)
  deriving BEq, Repr, Inhabited

def Class.name : Class → String | .mk n .. => n
def Class.bases : Class → List Ty | .mk _ _ b .. => b
def Class.methods : Class → List Func | .mk _ _ _ m .. => m
def Class.constants : Class → List Const | .mk _ _ _ _ c .. => c
def Class.classes : Class → List Class | .mk _ _ _ _ _ cs .. => cs
def Class.template : Class → List TypeParamDecl | .mk _ _ _ _ _ _ _ _ t => t

structure TUnit where
  name : String
  constants : List Const := []
  typeParams : List TypeParamDecl := []
  classes : List Class := []
  functions : List Func := []
  aliases : List Alias := []
  deriving BEq, Repr, Inhabited

/-! ### structural helpers -/

/-- `_FlattenTypes` in `_SetOfTypes.__post_init__`: nested unions are spliced, order kept. -/
def flattenUnionMembers : List Ty → List Ty
  | [] => []
  | .union ts :: rest => ts ++ flattenUnionMembers rest   -- inner unions are already flat (constructed earlier)
  | t :: rest => t :: flattenUnionMembers rest

/-- size measure used for termination of recursive functions over `Ty`. -/
def Ty.size : Ty → Nat
  | .generic b ps | .tuple b ps | .callable b ps => 1 + b.size + sizeList ps
  | .union ts => 1 + sizeList ts
  | .annotated t _ => 1 + t.size
  | _ => 1
where sizeList : List Ty → Nat
  | [] => 0
  | t :: ts => 1 + t.size + sizeList ts

end PytypeModel.Pytd
