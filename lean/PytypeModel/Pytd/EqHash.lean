import PytypeModel.Pytd.Codec

/-! # `__eq__` / `__hash__` of pytd nodes on the generic value model (C12)

Per class the schema says how instances compare (`EqMode`, regenerated from which class provides
`__eq__`/`__hash__`):

* `fields eqIdx hashIdx` — msgspec `Struct.__eq__`: same class and the listed fields pairwise `==`
  (all fields by default; `ClassType`: `name` only — `cls` is ignored);  hash = a function of the class
  name and the hashes of the `hashIdx` fields (`Class.__hash__` leaves out `_name2item`).
* `setlike` — `_SetOfTypes` (repaired code, commit 8014bd1): `isinstance(other, type(self))` and
  `frozenset(self.type_list) == frozenset(other.type_list)`;  `hash(frozenset(self.type_list))`.
* `identity` — `TypeDeclUnit` (`eq=False`, `hash = id`): not a function of the value, excluded (`eqOK`).

Python's `==` on field values: `True == 1` (bool is an int), tuples element-wise, `None` only itself.

Python's `hash` is a **parameter** (`HashFns`): nothing is assumed about the hash of `None`, ints, strs,
tuples or structs (arbitrary functions; `hash(True) = hash(1)` and `hash(False) = hash(0)` are built in
by hashing a bool through `hInt`).  The only assumption (hypothesis of `eq_hash`) is about frozenset:
its hash is a symmetric function of the hashes of its pairwise-`!=` elements (`hSet` applied to the
hashes of the de-duplicated elements, invariant under permutation). -/
namespace PytypeModel.Pytd

def eqModeOf (σ : Schema) (n : Bytes) : EqMode :=
  match σ.find n with
  | some sd => sd.eq
  | none => .unknown

def boolInt (b : Bool) : Int := if b then 1 else 0

mutual
def veq (σ : Schema) : Val → Val → Bool
  | .none, .none => true
  | .bool a, .bool b => a == b
  | .bool a, .int b => boolInt a == b
  | .int a, .bool b => a == boolInt b
  | .int a, .int b => a == b
  | .str a, .str b => a == b
  | .tup xs, .tup ys => veqList σ xs ys
  | .dict0, .dict0 => true
  | .node s as, .node t bs =>
    s == t && (match eqModeOf σ s with
      | .fields idx _ => veqIdx σ idx 0 as bs
      | .setlike => (match as, bs with
        | [.tup xs], [.tup ys] => subL σ xs ys && ys.all (anyL σ xs)
        | _, _ => false)
      | .identity => false
      | .unknown => false)
  | _, _ => false
termination_by structural a => a
/-- tuples: same length, element-wise -/
def veqList (σ : Schema) : List Val → List Val → Bool
  | [], [] => true
  | x :: xs, y :: ys => veq σ x y && veqList σ xs ys
  | _, _ => false
termination_by structural xs _ => xs
/-- struct fields: positions listed in `idx` are compared -/
def veqIdx (σ : Schema) (idx : List Nat) : Nat → List Val → List Val → Bool
  | _, [], [] => true
  | i, x :: xs, y :: ys => (if idx.contains i then veq σ x y else true) && veqIdx σ idx (i + 1) xs ys
  | _, _, _ => false
termination_by structural _ xs _ => xs
/-- every element of the first list is `==` to some element of the second -/
def subL (σ : Schema) : List Val → List Val → Bool
  | [], _ => true
  | x :: xs, ys => ys.any (veq σ x) && subL σ xs ys
termination_by structural xs _ => xs
/-- some element of the list is `==` to `y` -/
def anyL (σ : Schema) : List Val → Val → Bool
  | [], _ => false
  | x :: xs, y => veq σ x y || anyL σ xs y
termination_by structural xs _ => xs
end

/-! ### hashing -/

structure HashFns (α : Type) where
  hNone : α
  hInt : Int → α
  hStr : Bytes → α
  hTup : List α → α
  hDict : α
  hNode : Bytes → List α → α
  hSet : List α → α

/-- keep the first of every group of related elements (what building a set does) -/
def dedupBy {β : Type} (r : β → β → Bool) : List β → List β
  | [] => []
  | x :: xs => x :: (dedupBy r xs).filter (fun y => !r x y)

mutual
def vhash {α : Type} (H : HashFns α) (σ : Schema) : Val → α
  | .none => H.hNone
  | .bool b => H.hInt (boolInt b)
  | .int i => H.hInt i
  | .str s => H.hStr s
  | .tup xs => H.hTup (vhashList H σ xs)
  | .dict0 => H.hDict
  | .node s as =>
    match eqModeOf σ s with
    | .fields _ hidx => H.hNode s (vhashIdx H σ hidx 0 as)
    | .setlike => (match as with
      | [.tup xs] =>
        H.hSet ((dedupBy (fun p q => veq σ p.1 q.1) (xs.zip (vhashList H σ xs))).map (·.2))
      | _ => H.hNode s [])
    | _ => H.hNode s []
termination_by structural v => v
def vhashList {α : Type} (H : HashFns α) (σ : Schema) : List Val → List α
  | [] => []
  | x :: xs => vhash H σ x :: vhashList H σ xs
def vhashIdx {α : Type} (H : HashFns α) (σ : Schema) (idx : List Nat) : Nat → List Val → List α
  | _, [] => []
  | i, x :: xs => (if idx.contains i then [vhash H σ x] else []) ++ vhashIdx H σ idx (i + 1) xs
end

/-! ### values whose `==` is a function of the value: no identity-compared class inside, set-like
nodes have their one tuple field -/

mutual
def eqOK (σ : Schema) : Val → Bool
  | .tup xs => eqOKList σ xs
  | .node s as =>
    (match eqModeOf σ s with
      | .fields _ _ => true
      | .setlike => (match as with
        | [.tup _] => true
        | _ => false)
      | _ => false) && eqOKList σ as
  | _ => true
def eqOKList (σ : Schema) : List Val → Bool
  | [] => true
  | x :: xs => eqOK σ x && eqOKList σ xs
end

/-- every class hashes a subset of what it compares -/
def eqSpecOK (σ : Schema) : Bool :=
  σ.structs.all fun sd => match sd.eq with
    | .fields e h => subsetN h e
    | _ => true

end PytypeModel.Pytd
