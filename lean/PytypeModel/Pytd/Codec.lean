import PytypeModel.Pytd.MsgPack

/-! # msgspec struct codec, generic over a schema (C12)

`Val` is the generic image of a Python value that can sit in a pytd node field; `Val.node` is a
msgspec `Struct` instance (class name + field values in `__struct_fields__` order).  The schema
(`Generated/PytdSchema.lean`, regenerated from /repo on every run) lists per class: wire tag,
`omit_defaults`, field names in declared order, declared field types, defaults.

* `toMP`  — msgspec's *encoder*: value-directed; a struct becomes a map `{tag_field: tag, f₁: v₁, …}` in
  declared field order, leaving out (when `omit_defaults`) every field equal to its default.
  Enum members are represented by their value (`MethodKind.METHOD` ↦ `str "method"`, `MethodFlag` ↦ int);
  tuple/list/set ↦ array (sets: `order="deterministic"` sorts them — a set is a strictly sorted `tup`).
* `fromMP` — msgspec's *decoder*: type-directed by the declared field type.  Per map key the field is
  looked up by name and its value decoded at the field's type; unknown keys are skipped; missing fields
  take their default or make the decode fail.  A union type dispatches on the msgpack kind of the
  value; a union of struct classes dispatches on the tag.
  Model restrictions (narrower than msgspec, identical on everything the encoder emits): the tag must
  be the first key; a `set` must arrive strictly sorted; a field typed `Any` accepts only `None`
  (`ClassType.cls` after `ClearClassPointers`); a `dict` field accepts only `{}` (lookup caches after
  `ClearLookupCache`). -/
namespace PytypeModel.Pytd

inductive Val where
  | none
  | bool (b : Bool)
  | int (i : Int)
  | str (s : Bytes)
  | tup (xs : List Val)
  | dict0
  | node (sname : Bytes) (args : List Val)
  deriving Repr, Inhabited

mutual
def Val.beq : Val → Val → Bool
  | .none, .none => true
  | .bool a, .bool b => a == b
  | .int a, .int b => a == b
  | .str a, .str b => a == b
  | .tup a, .tup b => Val.beqList a b
  | .dict0, .dict0 => true
  | .node s a, .node t b => s == t && Val.beqList a b
  | _, _ => false
def Val.beqList : List Val → List Val → Bool
  | [], [] => true
  | x :: xs, y :: ys => Val.beq x y && Val.beqList xs ys
  | _, _ => false
end

instance : BEq Val := ⟨Val.beq⟩

/-! ### declared field types -/

inductive Kind where
  | nil | bool | int | str | arr | map
  deriving DecidableEq, Repr

/-- One alternative of a (possibly singleton) union.  All struct classes of a union are merged into
one `structs` atom, as msgspec does. -/
inductive Atom where
  | none
  | bool
  | int
  | flag (bound : Nat)            -- enum.Flag whose members are the bits below `bound`: 0 ≤ i < bound
  | str
  | enum (vals : List Bytes)      -- enum.Enum with str values
  | any                           -- typing.Any (model: only None)
  | dict                          -- dict[str, Any] (model: only {})
  | arr (elem : List Atom)        -- tuple[T, ...] / list[T]
  | strset                        -- set[str]
  | fix (elems : List (List Atom)) -- tuple[T1, ..., Tn]
  | structs (names : List Bytes)  -- one of these Struct classes
  | unsupported                   -- a declared type the translator cannot express: never well-formed
  deriving Repr, Inhabited

abbrev FTy := List Atom

def Atom.kind : Atom → Kind
  | .none => .nil
  | .any => .nil
  | .bool => .bool
  | .int => .int
  | .flag _ => .int
  | .str => .str
  | .enum _ => .str
  | .arr _ => .arr
  | .strset => .arr
  | .fix _ => .arr
  | .dict => .map
  | .structs _ => .map
  | .unsupported => .nil

/-- the alternative of `ty` that a msgpack value of kind `k` is decoded at -/
def pick (k : Kind) (ty : FTy) : Option Atom := ty.find? (fun a => a.kind == k)

/-! ### schema -/

structure Field where
  name : Bytes
  ty : FTy
  dflt : Option Val
  deriving Repr

/-- how `==`/`hash` of a class behave (see `EqHash.lean`) -/
inductive EqMode where
  | fields (eqIdx hashIdx : List Nat)  -- compare / hash exactly these field positions (msgspec default: all)
  | setlike                            -- `_SetOfTypes`: field 0 compared as a frozenset
  | identity                           -- `eq=False` and no `__eq__`: object identity
  | unknown                            -- translator could not classify the methods: `SchemaWF` fails
  deriving Repr

structure StructDef where
  name : Bytes
  tag : Option Bytes
  omitDefaults : Bool
  fields : List Field
  eq : EqMode
  deriving Repr

structure Schema where
  tagField : Bytes
  structs : List StructDef
  deriving Repr

def Schema.find (σ : Schema) (n : Bytes) : Option StructDef := σ.structs.find? (fun sd => sd.name == n)

/-- `some sd` iff the atom denotes the single untagged class `sd` -/
def untaggedOf (σ : Schema) (names : List Bytes) : Option StructDef :=
  match names with
  | [n] => match σ.find n with
    | some sd => if sd.tag.isNone then some sd else none
    | none => none
  | _ => none

/-- wire tag of class `n` -/
def tagOf (σ : Schema) (n : Bytes) : Option Bytes := (σ.find n).bind (·.tag)

/-- the class among `names` whose wire tag is `t` -/
def findByTag (σ : Schema) (names : List Bytes) (t : Bytes) : Option StructDef :=
  (names.find? fun n => tagOf σ n == some t).bind σ.find

def tagEntry (σ : Schema) (sd : StructDef) : List (MP × MP) :=
  match sd.tag with
  | some t => [(.str σ.tagField, .str t)]
  | none => []

/-! ### encoder -/

mutual
def toMP (σ : Schema) : Val → MP
  | .none => .nil
  | .bool b => .bool b
  | .int i => .int i
  | .str s => .str s
  | .tup xs => .arr (toMPs σ xs)
  | .dict0 => .map []
  | .node n args =>
    match σ.find n with
    | none => .nil
    | some sd => .map (tagEntry σ sd ++ toKVs σ sd.omitDefaults sd.fields args)
termination_by structural v => v
def toMPs (σ : Schema) : List Val → List MP
  | [] => []
  | x :: xs => toMP σ x :: toMPs σ xs
def toKVs (σ : Schema) (om : Bool) : List Field → List Val → List (MP × MP)
  | f :: fs, a :: as =>
    if om && f.dflt == some a then toKVs σ om fs as
    else (.str f.name, toMP σ a) :: toKVs σ om fs as
  | _, _ => []
end

/-! ### decoder -/

def bytesLt : Bytes → Bytes → Bool
  | [], [] => false
  | [], _ :: _ => true
  | _ :: _, [] => false
  | a :: as, b :: bs => a < b || (a == b && bytesLt as bs)

/-- a list of `str`s, strictly increasing in byte order (= Python's code-point order on valid UTF-8) -/
def strictSortedV : List Val → Bool
  | [] => true
  | [.str _] => true
  | .str a :: .str b :: r => bytesLt a b && strictSortedV (.str b :: r)
  | _ => false

def lookupKV (k : Bytes) : List (Bytes × Val) → Option Val
  | [] => none
  | (k', v) :: r => if k' == k then some v else lookupKV k r

/-- fill the declared fields from the decoded `(key, value)` pairs, defaults for missing ones -/
def assemble : List Field → List (Bytes × Val) → Option (List Val)
  | [], _ => some []
  | f :: fs, dec =>
    match (match lookupKV f.name dec with | some v => some v | none => f.dflt) with
    | none => none
    | some v => (assemble fs dec).map (v :: ·)

mutual
def fromMP (σ : Schema) : FTy → MP → Option Val
  | ty, .nil => match pick .nil ty with
    | some _ => some .none
    | none => none
  | ty, .bool b => match pick .bool ty with
    | some _ => some (.bool b)
    | none => none
  | ty, .int i => match pick .int ty with
    | some .int => some (.int i)
    | some (.flag n) => if 0 ≤ i ∧ i < n then some (.int i) else none
    | _ => none
  | ty, .str s => match pick .str ty with
    | some .str => some (.str s)
    | some (.enum vs) => if vs.contains s then some (.str s) else none
    | _ => none
  | ty, .arr xs => match pick .arr ty with
    | some (.arr e) => (fromMPs σ e xs).map .tup
    | some .strset => (fromMPs σ [.str] xs).bind fun l => if strictSortedV l then some (.tup l) else none
    | some (.fix es) => (fromFix σ es xs).map .tup
    | _ => none
  | ty, .map kvs => match pick .map ty with
    | some .dict => (match kvs with
      | [] => some .dict0
      | _ :: _ => none)
    | some (.structs names) =>
      (match untaggedOf σ names with
      | some sd => (fromKVs σ sd.fields kvs).bind fun dec => (assemble sd.fields dec).map (.node sd.name)
      | none => match kvs with
        | (.str k, .str t) :: rest =>
          if k == σ.tagField then
            match findByTag σ names t with
            | some sd =>
              (fromKVs σ sd.fields rest).bind fun dec => (assemble sd.fields dec).map (.node sd.name)
            | none => none
          else none
        | _ => none)
    | _ => none
termination_by structural _ m => m
def fromMPs (σ : Schema) : FTy → List MP → Option (List Val)
  | _, [] => some []
  | e, x :: xs => (fromMP σ e x).bind fun v => (fromMPs σ e xs).map (v :: ·)
def fromFix (σ : Schema) : List FTy → List MP → Option (List Val)
  | [], [] => some []
  | e :: es, x :: xs => (fromMP σ e x).bind fun v => (fromFix σ es xs).map (v :: ·)
  | _, _ => none
def fromKVs (σ : Schema) : List Field → List (MP × MP) → Option (List (Bytes × Val))
  | _, [] => some []
  | fs, (.str k, v) :: r =>
    (match fs.find? (fun f => f.name == k) with
    | some f => (fromMP σ f.ty v).bind fun x => (fromKVs σ fs r).map ((k, x) :: ·)
    | none => fromKVs σ fs r)
  | _, _ :: _ => none
end

/-! ### well-typed values (what a field of declared type `ty` may hold so that the codec applies) -/

mutual
def WT (σ : Schema) : FTy → Val → Bool
  | ty, .none => (pick .nil ty).isSome
  | ty, .bool _ => (pick .bool ty).isSome
  | ty, .int i => (match pick .int ty with
    | some .int => decide (-(2 ^ 63) ≤ i) && decide (i < 2 ^ 64)
    | some (.flag n) => decide (0 ≤ i) && decide (i < n)
    | _ => false)
  | ty, .str s => decide (s.length < 2 ^ 32) && (match pick .str ty with
    | some .str => true
    | some (.enum vs) => vs.contains s
    | _ => false)
  | ty, .tup xs => decide (xs.length < 2 ^ 32) && (match pick .arr ty with
    | some (.arr e) => WTs σ e xs
    | some .strset => WTs σ [.str] xs && strictSortedV xs
    | some (.fix es) => WTfix σ es xs
    | _ => false)
  | ty, .dict0 => (match pick .map ty with
    | some .dict => true
    | _ => false)
  | ty, .node n args => (match pick .map ty with
    | some (.structs names) => names.contains n && (match σ.find n with
      | some sd => WTfields σ sd.fields args
      | none => false)
    | _ => false)
termination_by structural _ v => v
def WTs (σ : Schema) : FTy → List Val → Bool
  | _, [] => true
  | e, x :: xs => WT σ e x && WTs σ e xs
def WTfix (σ : Schema) : List FTy → List Val → Bool
  | [], [] => true
  | e :: es, x :: xs => WT σ e x && WTfix σ es xs
  | _, _ => false
def WTfields (σ : Schema) : List Field → List Val → Bool
  | [], [] => true
  | f :: fs, a :: as => WT σ f.ty a && WTfields σ fs as
  | _, _ => false
end

/-! ### schema well-formedness (decidable; discharged on the regenerated table by `decide +kernel`) -/

def nodupB : List Bytes → Bool
  | [] => true
  | x :: xs => !xs.contains x && nodupB xs

def nodupK : List Kind → Bool
  | [] => true
  | x :: xs => !xs.contains x && nodupK xs

/-- the struct classes of one union: all known; either a single class, or all tagged with pairwise
different tags (what msgspec demands of a tagged union) -/
def structsWF (σ : Schema) (names : List Bytes) : Bool :=
  nodupB names &&
  names.all (fun n => (σ.find n).isSome) &&
  (names.length == 1 ||
    (names.all (fun n => (tagOf σ n).isSome) && nodupB (names.filterMap (tagOf σ))))

def kindsOf (ty : List Atom) : List Kind := ty.map Atom.kind

mutual
def Atom.wf (σ : Schema) : Atom → Bool
  | .flag n => decide (n ≤ 2 ^ 64)
  | .enum vs => vs.all (fun s => decide (s.length < 2 ^ 32))
  | .arr e => nodupK (kindsOf e) && atomsWF σ e
  | .fix es => tysWF σ es
  | .structs names => structsWF σ names
  | .unsupported => false
  | _ => true
def atomsWF (σ : Schema) : List Atom → Bool
  | [] => true
  | a :: as => a.wf σ && atomsWF σ as
def tysWF (σ : Schema) : List (List Atom) → Bool
  | [] => true
  | t :: ts => (nodupK (kindsOf t) && atomsWF σ t) && tysWF σ ts
end

/-- a declared type msgspec accepts: at most one alternative per msgpack kind, every alternative fine -/
def tyWF (σ : Schema) (ty : FTy) : Bool := nodupK (kindsOf ty) && atomsWF σ ty

def subsetN (a b : List Nat) : Bool := a.all (fun x => b.contains x)

def EqMode.wf (nfields : Nat) : EqMode → Bool
  | .fields e h => subsetN h e && e.all (fun i => decide (i < nfields))
  | .setlike => nfields == 1
  | .identity => true
  | .unknown => false

def Field.wf (σ : Schema) (f : Field) : Bool :=
  decide (f.name.length < 2 ^ 32) && tyWF σ f.ty &&
  (match f.dflt with
   | some d => WT σ f.ty d
   | none => true)

def StructDef.wf (σ : Schema) (sd : StructDef) : Bool :=
  nodupB (sd.fields.map (·.name)) &&
  !(sd.fields.map (·.name)).contains σ.tagField &&
  decide (sd.fields.length + 1 < 2 ^ 32) &&
  (match sd.tag with
   | some t => decide (t.length < 2 ^ 32)
   | none => true) &&
  sd.fields.all (Field.wf σ) &&
  sd.eq.wf sd.fields.length

/-- unique class names; every class well-formed -/
def SchemaWF (σ : Schema) : Bool :=
  decide (σ.tagField.length < 2 ^ 32) &&
  nodupB (σ.structs.map (·.name)) &&
  σ.structs.all (StructDef.wf σ)

/-! ### bytes in, bytes out -/

def encodeNode (σ : Schema) (v : Val) : Bytes := encodeMP (toMP σ v)

/-- msgspec `Decoder(type=ty).decode(bs)`: one value, no trailing bytes -/
def decodeNode (σ : Schema) (ty : FTy) (bs : Bytes) : Option Val :=
  match decodeMP bs with
  | some (m, []) => fromMP σ ty m
  | _ => none

end PytypeModel.Pytd
