import PytypeModel.Pytd.Printer

/-!
# C05 model, part 2: the stub parser (tree → pytd), `norm`, `Verify`, the fragment

Core Lean only.  Input is the syntax tree CPython's `ast.parse` returns for the stub text (trusted,
see Printer.lean); output is the `TypeDeclUnit` `parser.parse_string(text)` (module name `None`, as in
`parser.canonical_pyi`) returns, or the kind of `ParseError`.

pyi/parser.py, definitions.py, function.py, classdef.py, pytd/codegen/function.py      here
-----------------------------------------------------------------------------------  -------------------
_AnnotationVisitor (visit_Name/Attribute/Subscript/Pyval, _in_literal, Annotated)      `parseTy` …
Definitions.resolve_type / new_type / _parameterized_type / matches_type               `resolveType`, `newType`, `parameterized`, `matchesC`
_pytd_literal + pytd_utils.JoinTypes, _pytd_annotated, pytdgen.pytd_callable           `pytdLiteral`, `joinTypes`, `buildCallable`
visit_ImportFrom / add_import (typing only)                                            `convStmt` `.importFrom`
visit_Call (TypeVar) + _bare_assign + add_type_variable                                `convStmt` `.typeVarDef`
_ann_assign / _bare_assign / new_alias_or_constant                                     `convStmt` `.annAssign` / `.assign`
function._pytd_signature, Param.to_pytd, pytd_star_param, pytd_return_type              `convArgs`, `convFunc`
_extract_function_properties, NameAndSig.from_function                                 `convFunc`
merge_method_signatures, _DecoratedFunction (overloads, property, static/class)        `groupSigs`, `mergeGroup`
classdef.get_bases, Definitions.build_class, _split_definitions                        `buildClass`
build_type_decl_unit, _check_for_duplicate_defs, _maybe_resolve_alias                  `buildUnit`
post_process_ast: finalize_ast (_PropertyToConstant, _InsertTypeParameters),
  pep484.ConvertTypingToNative, StripExternalNamePrefix                                `postUnit`, `postTy`
visitors.VerifyVisitor                                                                 `verifyUnit`

`ast.parse` failures that the printer can provoke (a positional parameter without default after one
with a default, duplicate parameter names) are the `.syntax` errors of `argsSyntaxOk`.
-/
namespace PytypeModel.Pytd

inductive ParseErr
  | syntax (what : String)        -- `ast.parse` rejects the text (the parser reports a ParseError)
  | parse (what : String)         -- pyi `ParseError`
  | unsupported (what : String)   -- stub syntax the model does not cover (never produced inside `Modelled`)
  deriving Repr, DecidableEq, Inhabited

abbrev PM := Except ParseErr

/-! ## Python equality of type nodes, `UnionType(...)`, `JoinTypes` -/

/-- `Literal(a) == Literal(b)`: Python compares the values, and `True == 1`, `False == 0` -/
def litPyEq : Lit → Lit → Bool
  | .int n, .bool b => n == (if b then 1 else 0)
  | .bool b, .int n => n == (if b then 1 else 0)
  | a, b => a == b

mutual
/-- `a == b` for pytd types: structural, except that unions compare as member *sets*
(`_SetOfTypes.__eq__`), at every depth -/
def pyEqTy : Ty → Ty → Bool
  | .any, .any => true
  | .nothing, .nothing => true
  | .named a, .named b => a == b
  | .cls a, .cls b => a == b
  | .late a, .late b => a == b
  | .typeParam a s, .typeParam b t => a == b && s == t
  | .generic b1 p1, .generic b2 p2 => pyEqTy b1 b2 && pyEqTys p1 p2
  | .tuple b1 p1, .tuple b2 p2 => pyEqTy b1 b2 && pyEqTys p1 p2
  | .callable b1 p1, .callable b2 p2 => pyEqTy b1 b2 && pyEqTys p1 p2
  | .union a, .union b => pyEqSub a b && b.all (fun y => pyEqHas a y)
  | .literal a, .literal b => litPyEq a b
  | .annotated t1 a1, .annotated t2 a2 => pyEqTy t1 t2 && a1 == a2
  | _, _ => false
termination_by structural t => t
def pyEqTys : List Ty → List Ty → Bool
  | [], [] => true
  | a :: as, b :: bs => pyEqTy a b && pyEqTys as bs
  | _, _ => false
termination_by structural l => l
/-- every member of the first list equals some member of the second -/
def pyEqSub : List Ty → List Ty → Bool
  | [], _ => true
  | a :: as, bs => bs.any (fun b => pyEqTy a b) && pyEqSub as bs
termination_by structural l => l
/-- some member of the list equals `y` -/
def pyEqHas : List Ty → Ty → Bool
  | [], _ => false
  | a :: as, y => pyEqTy a y || pyEqHas as y
termination_by structural l => l
end

/-- `tuple(dict.fromkeys(xs))` with Python `==`: first occurrence kept -/
def dedupPy : List Ty → List Ty
  | [] => []
  | t :: ts => t :: (dedupPy ts).filter (fun s => !pyEqTy t s)

/-- `pytd.UnionType(type_list)`: `__post_init__` splices member unions and removes duplicates -/
def mkUnion (l : List Ty) : Ty := .union (dedupPy (flattenUnionMembers l))

/-- `pytd_utils.JoinTypes` -/
def joinTypes (l : List Ty) : Ty :=
  let ms := dedupPy ((flattenUnionMembers l).filter (· ≠ .nothing))
  match ms with
  | [t] => t
  | [] => .nothing
  | _ =>
    if ms.any (fun t => t = .any) then
      (if ms.any (fun t => t = .named "builtins.NoneType" ∨ t = .named "NoneType") then
        mkUnion [.any, .named "builtins.NoneType"] else .any)
    else mkUnion ms

/-! ## `Definitions`: type map, `matches_type`, `resolve_type` -/

structure Defs where
  /-- `Definitions.type_map`, latest binding first -/
  typeMap : List (String × Ty) := []
  /-- `Definitions.type_params`, in definition order -/
  typeParams : List TypeParamDecl := []
  /-- `Definitions.aliases` (module-level `X = T`), latest first -/
  aliases : List (String × Ty) := []
  deriving Repr, Inhabited

def Defs.bind (d : Defs) (n : String) (t : Ty) : Defs := { d with typeMap := (n, t) :: d.typeMap }

/-- `_resolve_alias` -/
def resolveAlias (d : Defs) (n : String) : String :=
  match d.aliases.lookup n with
  | some (.named m) => m
  | _ => n

/-- `Definitions.matches_type(name, "m.b")` on dotted components (`cs` = the name, `tm` = module of the
target, `tb` = its last component, `title` = `tb.title()` for `builtins` targets).  Strings are compared
as component lists, which is the same thing because splitting at dots is injective. -/
def matchesC (d : Defs) (cs : List String) (tm : List String) (tb : String) (title : String := "") : Bool :=
  let cs' : List String :=
    match cs with
    | [x] => comps (resolveAlias d x)
    | _ =>
      let pre := cs.dropLast
      if pre = ["builtins"] ∨ pre = ["typing"] then cs
      else comps (resolveAlias d (joinDots pre)) ++ [cs.getLastD ""]
  let equiv : List (List String) := [["typing"], ["collections", "abc"], ["typing_extensions"]]
  let typingLike := fun (b : String) => cs' = [b] || equiv.any (fun m => cs' = m ++ [b])
  cs' = tm ++ [tb] || cs' = [tb] ||
    (if tm = ["builtins"] then typingLike title
     else (equiv.contains tm && equiv.any (fun m => cs' = m ++ [tb])))

def matchesName (d : Defs) (n : String) (tm : List String) (tb : String) (title : String := "") : Bool :=
  matchesC d (comps n) tm tb title

/-- the special forms `_parameterized_type` (and `_in_literal` / `enter_Subscript`) test for, in the order of
the `if`/`elif` chain -/
inductive Special
  | literal | annotated | tuple | concatenate | callable | plain
  deriving Repr, DecidableEq, Inhabited

def special (d : Defs) (n : String) : Special :=
  if matchesName d n ["typing"] "Literal" then .literal
  else if matchesName d n ["typing"] "Annotated" then .annotated
  else if matchesName d n ["builtins"] "tuple" "Tuple" then .tuple
  else if matchesName d n ["typing"] "Concatenate" then .concatenate
  else if matchesName d n ["typing"] "Callable" then .callable
  else .plain

/-- `Definitions.resolve_type` (no `module_path_map`: only `typing` from-imports are modelled) -/
def resolveType (d : Defs) (n : String) : Ty :=
  if n = "nothing" then .nothing else
  match d.typeMap.lookup n with
  | some t => t
  | none => .named n

/-! ## annotations → pytd types (`_AnnotationVisitor` + `new_type`) -/

/-- one subscript parameter after conversion -/
inductive PArg
  | ty (t : Ty)
  | ellipsis
  | list (ts : List Ty)
  | lit (v : Lit)
  deriving Repr, Inhabited

def typingSets : List String := ["typing.Intersection", "typing.Optional", "typing.Union"]

/-- `pep484.ALL_TYPING_NAMES` -/
def allTypingNames : List String :=
  ["AbstractSet", "AnyStr", "AsyncGenerator", "BinaryIO", "ByteString", "Callable", "Container", "Dict",
   "FrozenSet", "Generator", "Generic", "Hashable", "IO", "ItemsView", "Iterable", "Iterator", "KeysView",
   "List", "Mapping", "MappingView", "Match", "MutableMapping", "MutableSequence", "MutableSet",
   "NamedTuple", "Optional", "Pattern", "Reversible", "Sequence", "Set", "Sized", "SupportsAbs",
   "SupportsFloat", "SupportsInt", "SupportsRound", "TextIO", "Tuple", "Type", "TypeVar", "Union"]

/-- `pep484.BUILTIN_TO_TYPING` keys -/
def builtinContainers : List String := ["list", "dict", "tuple", "set", "frozenset", "type"]

/-- `_is_builtin_or_typing_member` -/
def isBuiltinOrTypingMember (bn : String) : Bool :=
  match comps bn with
  | [x] => builtinContainers.contains x
  | ["typing", x] => allTypingNames.contains x
  | _ => false

def PArg.isEllipsis : PArg → Bool | .ellipsis => true | _ => false
def PArg.isList : PArg → Bool | .list _ => true | _ => false
def PArg.isLit : PArg → Bool | .lit _ => true | _ => false

/-- `_check_for_illegal_parameters` then `_remove_unsupported_features` -/
def cleanParams (bn : String) (ps : List PArg) (isCallable : Bool) : PM (List PArg) :=
  if isBuiltinOrTypingMember bn && ps.any PArg.isEllipsis then .error (.parse "Unexpected ellipsis parameter")
  else if isBuiltinOrTypingMember bn &&
      (ps.tail.any PArg.isList || (!isCallable && (ps.head?.map PArg.isList).getD false)) then
    .error (.parse "Unexpected list parameter")
  else .ok (ps.map fun p =>
    match p with
    | .ellipsis => .ty .any
    | .list ts => if isCallable then .list ts else .ty .any
    | p => p)

def pargTys : List PArg → PM (List Ty)
  | [] => .ok []
  | .ty t :: ps => do let ts ← pargTys ps; .ok (t :: ts)
  | _ :: _ => .error (.parse "bad type parameter")

def isAnyTy : Ty → Bool
  | .any => true
  | .named "typing.Any" => true
  | _ => false

/-- `pytdgen.pytd_callable` -/
def buildCallable (bn : String) (ps : List PArg) : PM Ty :=
  match ps with
  | [.list args, .ty ret] =>
    if args = [] ∨ args = [.nothing] then .ok (.callable (.named bn) [ret])
    else .ok (.callable (.named bn) (args ++ [ret]))
  | [.ty a, .ty ret] =>
    if isAnyTy a then .ok (.generic (.named bn) [a, ret])
    else .error (.parse "First argument to Callable must be a list of argument types")
  | _ => .error (.parse "Expected 2 parameters to Callable")

/-- one parameter of `Literal[…]` in `_pytd_literal` -/
def litParamTypes : PArg → PM (List Ty)
  | .lit v => .ok [Ty.literal v]
  | .ty (.named n) =>
    if n = "None" ∨ n = "NoneType" then .ok [.named n]
    else match (comps n).reverse with
      | m :: c :: rest => .ok [.literal (.enumMember (joinDots (c :: rest).reverse) m)]
      | _ => .error (.unsupported "Literal of an undotted name")
  | .ty (.literal v) => .ok [.literal v]
  | .ty (.union ts) =>
    if ts.all (fun t => match t with | .literal _ => true | _ => false) then .ok ts
    else .error (.parse "Literal[...] not supported")
  | _ => .error (.parse "Literal[...] not supported")

def litParamsTypes : List PArg → PM (List Ty)
  | [] => .ok []
  | p :: ps => do let a ← litParamTypes p; let b ← litParamsTypes ps; .ok (a ++ b)

/-- `_pytd_literal`: the members of `Literal[p₁, …]` joined -/
def pytdLiteral (ps : List PArg) : PM Ty := do
  let ms ← litParamsTypes ps
  .ok (joinTypes ms)

/-- `len(parameters) == 2 and parameters[1] is self.ELLIPSIS`: `tuple[X, ...]` -/
def homTupleParam : List PArg → Option PArg
  | [p, .ellipsis] => some p
  | _ => none

/-- `_parameterized_type(base_type = NamedType bn, parameters)` for everything but `Annotated` -/
def parameterized (d : Defs) (bn : String) (ps : List PArg) : PM Ty :=
  match special d bn with
  | .literal => pytdLiteral ps
  | .annotated => .error (.unsupported "Annotated through an alias")
  | sp =>
    if ps.any PArg.isLit then .error (.parse "literal constant as a type parameter")
    else match sp with
    | .tuple =>
      (match homTupleParam ps with
       | some p => do
         let ps' ← cleanParams bn [p] false
         let ts ← pargTys ps'
         .ok (.generic (.named bn) ts)
       | none => do
         let ps' ← cleanParams bn ps false
         let ts ← pargTys ps'
         .ok (.tuple (.named bn) ts))
    | .concatenate => .error (.unsupported "Concatenate")
    | .callable =>
      (match ps with
       | [] => .error (.parse "Callable without parameters")
       | first :: rest => do
         let ps1 := if first.isEllipsis then .ty .any :: rest else ps
         let ps' ← cleanParams bn ps1 true
         buildCallable bn ps')
    | _ =>
      if bn = "typing.Any" then .ok .any
      else if ps.isEmpty then .error (.parse "no parameters")
      else do
        let ps' ← cleanParams bn ps false
        let ts ← pargTys ps'
        .ok (.generic (.named bn) ts)

/-- `Definitions.new_type(name, parameters)` -/
def newType (d : Defs) (n : String) (params : Option (List PArg)) : PM Ty :=
  match resolveType d n with
  | .named bn =>
    match params with
    | some ps =>
      if ps.length > 1 ∧ bn = "typing.Optional" then .error (.parse "Too many options to typing.Optional")
      else parameterized d bn ps
    | none =>
      if typingSets.contains bn then .error (.parse "Missing options") else .ok (.named bn)
  | t =>
    match params with
    | none => .ok t
    | some _ => .error (.unsupported "parameters for an alias of a non-name type")

/-- `_attribute_to_name` -/
def dottedOf : PyExpr → Option (List String)
  | .name x => some [x]
  | .attr e a => (dottedOf e).map (· ++ [a])
  | _ => none

def dottedName : PyExpr → Option String
  | .name x => some x
  | e => (dottedOf e).map joinDots

/-- `repr` of a `str` made of plain characters -/
def pyReprStr (s : String) : String := "'" ++ s ++ "'"

/-- `_convert_annotated` for the metadata the printer can emit -/
def metaString : PyExpr → PM String
  | .str s => .ok (pyReprStr s)
  | .name x => .ok x
  | _ => .error (.unsupported "Annotated metadata")

def metaStrings : List PyExpr → PM (List String)
  | [] => .ok []
  | e :: es => do let s ← metaString e; let ss ← metaStrings es; .ok (s :: ss)

mutual
/-- `_AnnotationVisitor.visit` -/
def parseTy (d : Defs) : PyExpr → PM Ty
  | .name x => newType d x none
  | .attr e a =>
    match dottedOf e with
    | some cs => newType d (joinDots (cs ++ [a])) none
    | none => .error (.parse "Unexpected attribute access")
  | .none => .ok (.named "NoneType")
  | .sub b args =>
    match dottedName b with
    | none => .error (.unsupported "subscript of a non-name")
    | some bn =>
      match special d bn with
      | .literal => do
        let ps ← parseLitArgs d args
        newType d bn (some ps)
      | .annotated =>
        (match args with
         | t :: m :: ms => do
           let t' ← parseTy d t
           let strs ← metaStrings (m :: ms)
           .ok (.annotated t' strs)
         | _ => .error (.parse "typing.Annotated takes at least two parameters"))
      | _ =>
        if args = [.emptyTuple] then newType d bn (some [])
        else do
          let ps ← parseArgs d args
          newType d bn (some ps)
  | .str _ => .error (.unsupported "late annotation")
  | .int _ => .error (.parse "Unexpected literal")
  | .bool _ => .error (.parse "Unexpected literal")
  | .ellipsis => .error (.unsupported "ellipsis as a type")
  | .list _ => .error (.unsupported "list as a type")
  | .emptyTuple => .error (.unsupported "tuple as a type")
def parseArgs (d : Defs) : List PyExpr → PM (List PArg)
  | [] => .ok []
  | .ellipsis :: as => do let ps ← parseArgs d as; .ok (.ellipsis :: ps)
  | .list es :: as => do let ts ← parseTys d es; let ps ← parseArgs d as; .ok (.list ts :: ps)
  | a :: as => do let t ← parseTy d a; let ps ← parseArgs d as; .ok (.ty t :: ps)
def parseTys (d : Defs) : List PyExpr → PM (List Ty)
  | [] => .ok []
  | a :: as => do let t ← parseTy d a; let ts ← parseTys d as; .ok (t :: ts)
/-- parameters of `Literal[…]`: constants stay constants (`_in_literal`) -/
def parseLitArgs (d : Defs) : List PyExpr → PM (List PArg)
  | [] => .ok []
  | .int n :: as => do let ps ← parseLitArgs d as; .ok (.lit (.int n) :: ps)
  | .str s :: as => do let ps ← parseLitArgs d as; .ok (.lit (.str s) :: ps)
  | .bool b :: as => do let ps ← parseLitArgs d as; .ok (.lit (.bool b) :: ps)
  | .ellipsis :: _ => .error (.parse "Literal[...] not supported")
  | a :: as => do let t ← parseTy d a; let ps ← parseLitArgs d as; .ok (.ty t :: ps)
end

/-! ## post-processing of types -/

/-- `pep484.TYPING_TO_BUILTIN` -/
def typingToBuiltin : List (String × String) :=
  [("List", "list"), ("Dict", "dict"), ("Tuple", "tuple"), ("Set", "set"), ("FrozenSet", "frozenset"),
   ("Type", "type")]

/-- `ConvertTypingToNative._Convert` (module `None`) after `StripExternalNamePrefix` is a no-op here -/
def convNamed (n : String) : Ty :=
  match comps n with
  | ["None"] => .named "NoneType"
  | ["typing", x] =>
    match typingToBuiltin.lookup x with
    | some b => .named b
    | none => if x = "Any" then .any else .named n
  | _ => .named n

mutual
/-- `_InsertTypeParameters(ast.type_params)` then `ConvertTypingToNative(None)`;
`tps` = names of the declared type parameters -/
def postTy (tps : List String) : Ty → Ty
  | .named n => if tps.contains n then .typeParam n none else convNamed n
  | .generic b ps =>
    let b' := postTy tps b
    let ps' := postTys tps ps
    if tyBaseName b' = "typing.Optional" then mkUnion (ps' ++ [.named "NoneType"])
    else if tyBaseName b' = "typing.Union" then mkUnion ps'
    else .generic b' ps'
  | .tuple b ps => .tuple (postTy tps b) (postTys tps ps)
  | .callable b ps => .callable (postTy tps b) (postTys tps ps)
  | .union ts => mkUnion (postTys tps ts)
  | .annotated t as => .annotated (postTy tps t) as
  | t => t
def postTys (tps : List String) : List Ty → List Ty
  | [] => []
  | t :: ts => postTy tps t :: postTys tps ts
end

/-! ## functions -/

/-- `function.NameAndSig`; a decorator is `(Alias.name, Alias.type.name)` = (text, resolved name) -/
structure NameAndSig where
  name : String
  sig : Sig
  decorators : List (String × String) := []
  abstract : Bool := false
  coroutine : Bool := false
  final : Bool := false
  overload : Bool := false
  deriving Repr, Inhabited

def hasDefaultThenNone : List PyArg → Bool
  | [] => false
  | a :: as => (a.dflt && as.any (fun b => !b.dflt)) || hasDefaultThenNone as

def PyArgs.allNames (a : PyArgs) : List String :=
  (a.posonly ++ a.args).map (·.name) ++ (match a.vararg with | some v => [v.name] | none => []) ++
  a.kwonly.map (·.name) ++ (match a.kwarg with | some v => [v.name] | none => [])

/-- what CPython's grammar enforces on a parameter list (duplicate names are rejected by the compiler's
symbol table, not by `ast.parse`) -/
def argsSyntaxOk (a : PyArgs) : Bool :=
  !hasDefaultThenNone (a.posonly ++ a.args)

/-- `Param.from_arg` + `_apply_defaults` (`= ...` is not a constant, so the default's type is Any) +
`Param.to_pytd` -/
def convArg (d : Defs) (kind : ParamKind) (a : PyArg) : PM Param := do
  let ty ← match a.ann with
    | some e => parseTy d e
    | none => .ok .any
  .ok { name := a.name, ty := ty, kind := kind, optional := a.dflt, mutated := none }

def convArgList (d : Defs) (kind : ParamKind) : List PyArg → PM (List Param)
  | [] => .ok []
  | a :: as => do let p ← convArg d kind a; let ps ← convArgList d kind as; .ok (p :: ps)

/-- `pytd_star_param` / `pytd_starstar_param` -/
def convStar (d : Defs) (dict : Bool) (a : Option PyArg) : PM (Option Param) :=
  match a with
  | none => .ok none
  | some a => do
    let base := if dict then "dict" else "tuple"
    let ty ← match a.ann with
      | none => (.ok (.named base) : PM Ty)
      | some e => do
        let t ← parseTy d e
        .ok (.generic (.named base) (if dict then [.named "str", t] else [t]))
    .ok (some { name := a.name, ty := ty, kind := .regular, optional := true, mutated := none })

/-- `_pytd_signature` (no `raise`, no mutations: bodies other than `...` are not modelled) -/
def convSig (d : Defs) (a : PyArgs) (ret : Ty) : PM Sig := do
  if !argsSyntaxOk a then .error (.syntax "parameter list")
  let po ← convArgList d .posOnly a.posonly
  let re ← convArgList d .regular a.args
  let kw ← convArgList d .kwOnly a.kwonly
  let sa ← convStar d false a.vararg
  let ssa ← convStar d true a.kwarg
  .ok { params := po ++ re ++ kw, starargs := sa, starstarargs := ssa, ret := ret, exceptions := [],
        template := [] }

/-- decorators as `(text, resolved name)`; only names and dotted names are decorators in stubs -/
def convDecorators (d : Defs) : List PyExpr → PM (List (String × String))
  | [] => .ok []
  | e :: es =>
    match dottedName e with
    | none => .error (.unsupported "decorator")
    | some n => do
      let t ← newType d n none
      let rest ← convDecorators d es
      .ok ((n, tyBaseName t) :: rest)

/-- `visit_FunctionDef`: `_extract_function_properties` + `NameAndSig.from_function` -/
def convFunc (d : Defs) (name : String) (decos : List PyExpr) (a : PyArgs) (returns : PyExpr)
    (body : List PyStmt) : PM NameAndSig := do
  let ds ← convDecorators d decos
  let ret ← parseTy d returns
  let isAbs := fun (n : String) =>
    matchesName d n ["builtins"] "abstractmethod" "Abstractmethod" || matchesName d n ["abc"] "abstractmethod"
  let isCoro := fun (n : String) =>
    matchesName d n ["typing"] "Coroutine" || matchesName d n ["asyncio"] "coroutine" ||
    matchesName d n ["coroutines"] "coroutine"
  let isFinal := fun (n : String) => matchesName d n ["typing"] "final"
  let isOver := fun (n : String) => matchesName d n ["typing"] "overload"
  -- elif chain: the first matching category consumes the decorator
  let abstract := ds.any (fun x => isAbs x.1)
  let coroutine := ds.any (fun x => !isAbs x.1 && isCoro x.1)
  let final := ds.any (fun x => !isAbs x.1 && !isCoro x.1 && isFinal x.1)
  let overload := ds.any (fun x => !isAbs x.1 && !isCoro x.1 && !isFinal x.1 && isOver x.1)
  let rest := ds.filter (fun x => !isAbs x.1 && !isCoro x.1 && !isFinal x.1 && !isOver x.1)
  let excl := ["property", "staticmethod", "classmethod"].filter (fun k => rest.any (fun x => x.2 = k))
  if excl.length > 1 then .error (.parse "at most one of property, staticmethod, and classmethod")
  match body with
  | [.ellipsisStmt] => pure ()
  | _ => .error (.unsupported "function body")
  -- pytd_return_type: the annotation is always present in printed stubs
  let sig ← convSig d a ret
  -- "If `self` is generic, a type parameter is being mutated."
  let sig ← match sig.params with
    | p :: ps =>
      if p.name = "self" ∧ (isGenericLike p.ty).isSome then
        (if p.optional then (.error (.parse "cannot be both mutable and optional") : PM Sig)
         else .ok { sig with params := { p with mutated := some p.ty } :: ps })
      else .ok sig
    | [] => .ok sig
  .ok { name := name, sig := sig, decorators := rest, abstract := abstract, coroutine := coroutine,
        final := final, overload := overload }

/-- the `functions` dict of `merge_method_signatures`: groups by name in first-occurrence order -/
def groupSigs : List NameAndSig → List (List NameAndSig)
  | [] => []
  | f :: fs =>
    (f :: fs.filter (·.name = f.name)) :: groupSigs (fs.filter (·.name ≠ f.name))
termination_by l => l.length
decreasing_by
  simp only [List.length_cons, List.length_unattach]
  exact Nat.lt_succ_of_le (Nat.le_trans (List.length_filter_le _ _) (by simp))

def hasDeco (f : NameAndSig) (n : String) : Bool := f.decorators.any (fun x => x.2 = n)

/-- `_DecoratedFunction` for one name + the kind/flags computation of `merge_method_signatures`.
`.setter`/`.deleter` property decorators are not produced by the printer and are not modelled. -/
def mergeGroup (g : List NameAndSig) : PM Func :=
  match g with
  | [] => .error (.unsupported "empty group")
  | f :: rest => do
    let propDeco := fun (x : NameAndSig) => x.decorators.filter (fun dn => dn.1 = "property")
    if (f :: rest).any (fun x => x.decorators.any (fun dn =>
        dn.1 = f.name ++ ".setter" ∨ dn.1 = f.name ++ ".deleter")) then
      .error (.unsupported "property setter/deleter")
    let isProp := !(propDeco f).isEmpty
    let arityOk := fun (s : Sig) =>
      (s.params.filter (fun p => !p.optional)).length ≤ 1 && 1 ≤ s.params.length
    if isProp then
      if (propDeco f).length > 1 then .error (.parse "conflicting decorators")
      if !arityOk f.sig then .error (.parse "property must have 1 param")
      -- a second getter: "need at most one each of @property, …"; no property decorator: disagreement
      if !rest.isEmpty then .error (.parse "Invalid property decorators")
    -- _check_overload_consistency
    if rest.any (fun x => x.coroutine ≠ f.coroutine || x.final ≠ f.final ||
        hasDeco x "staticmethod" ≠ hasDeco f "staticmethod" ||
        hasDeco x "classmethod" ≠ hasDeco f "classmethod" ||
        (!isProp && x.abstract ≠ f.abstract)) then
      .error (.parse "Overloaded signatures disagree on decorators")
    let isStatic := hasDeco f "staticmethod"
    let isClass := hasDeco f "classmethod"
    let decorators := (f.decorators.filter (fun dn => dn.2 ≠ "staticmethod" ∧ dn.2 ≠ "classmethod")).map (·.1)
    let kind : MethodKind :=
      if f.name = "__new__" ∨ isStatic then .staticmethod
      else if f.name = "__init_subclass__" ∨ isClass then .classmethod
      else if isProp then .property
      else .method
    let sigs := if kind = .property then [f.sig] else (f :: rest).map (·.sig)
    .ok { name := f.name, sigs := sigs, kind := kind, abstract := f.abstract, coroutine := f.coroutine,
          final := f.final, decorators := decorators }

def mergeGroups : List (List NameAndSig) → PM (List Func)
  | [] => .ok []
  | g :: gs => do let f ← mergeGroup g; let fs ← mergeGroups gs; .ok (f :: fs)

/-- `merge_method_signatures` -/
def mergeSigs (l : List NameAndSig) : PM (List Func) := mergeGroups (groupSigs l)

/-! ## statements -/

inductive Item
  | const (c : Const)
  | func (f : NameAndSig)
  | cls (c : Class)
  | alias (a : Alias)
  | slots (s : List String)
  | ellipsis
  deriving Repr, Inhabited

def itemConsts : List Item → List Const
  | [] => []
  | .const c :: is => if c.name = "__slots__" then itemConsts is else c :: itemConsts is
  | _ :: is => itemConsts is
def itemFuncs : List Item → List NameAndSig
  | [] => []
  | .func f :: is => f :: itemFuncs is
  | _ :: is => itemFuncs is
def itemClasses : List Item → List Class
  | [] => []
  | .cls c :: is => c :: itemClasses is
  | _ :: is => itemClasses is
def itemAliases : List Item → List Alias
  | [] => []
  | .alias a :: is => a :: itemAliases is
  | _ :: is => itemAliases is
def itemSlots : List Item → List (List String)
  | [] => []
  | .slots s :: is => s :: itemSlots is
  | _ :: is => itemSlots is

/-- `_remove_duplicates`: one node per name, at the position of the first, with the value of the last -/
def removeDupsBy {α : Type} (nm : α → String) : List α → List α
  | [] => []
  | x :: xs =>
    ((xs.filter (fun y => nm y = nm x)).getLast?.getD x) :: removeDupsBy nm (xs.filter (fun y => nm y ≠ nm x))
termination_by l => l.length
decreasing_by
  simp only [List.length_cons, List.length_unattach]
  exact Nat.lt_succ_of_le (Nat.le_trans (List.length_filter_le _ _) (by simp))

/-- names occurring in at least two of the lists (`_check_for_duplicate_defs`) -/
def crossDuplicates (lists : List (List String)) : Bool :=
  !decide (lists.flatten.Nodup)

def strList : PyExpr → Option (List String)
  | .list es => es.mapM (fun e => match e with | .str s => some s | _ => none)
  | _ => none

/-- `classdef.get_bases` (no `Protocol[…]`, no `NamedTuple`) + the filtering in `build_class` -/
def classBases (d : Defs) (name : String) (bases : List Ty) : PM (List Ty) := do
  if bases.any (fun b => matchesName d (tyBaseName b) ["typing"] "Protocol" && (isGenericLike b).isSome) then
    .error (.unsupported "Protocol[...]")
  let bs := bases.filter (· ≠ .nothing)
  .ok (if bs.isEmpty ∧ name ≠ "classobj" ∧ name ≠ "object" then [.named "object"] else bs)

/-- `Definitions.build_class` (no class-level aliases, no `typing.Self`) -/
def buildClass (d : Defs) (name : String) (bases : List Ty) (decorators : List (String × String))
    (items : List Item) : PM Class := do
  if decorators.any (fun dn =>
      matchesName d dn.1 ["builtins"] "property" "Property" || matchesName d dn.1 ["builtins"] "classmethod" "Classmethod" ||
      matchesName d dn.1 ["builtins"] "staticmethod" "Staticmethod" || matchesName d dn.1 ["typing"] "overload") then
    .error (.parse "Unsupported class decorator")
  let bs ← classBases d name bases
  if !(itemAliases items).isEmpty then .error (.unsupported "alias in a class body")
  let slots ← match itemSlots items with
    | [] => (.ok none : PM (Option (List String)))
    | [s] => .ok (some s)
    | _ => .error (.parse "Duplicate __slots__ declaration")
  let constants := removeDupsBy (·.name) (itemConsts items)
  let sigs := itemFuncs items
  if crossDuplicates [(removeDupsBy (·.name) sigs).map (·.name), constants.map (·.name)] then
    .error (.parse "Duplicate attribute name(s) in class")
  let methods ← mergeSigs sigs
  .ok (.mk name [] bs methods constants (itemClasses items) (decorators.map (·.1)) slots [])

/-- `node.name` of a type node (`GenericType.name` is the base's; nodes without a name have `""`) -/
def tyName : Ty → String
  | .named n => n
  | .cls n => n
  | .late n => n
  | .typeParam n _ => n
  | .generic b _ => tyBaseName b
  | .tuple b _ => tyBaseName b
  | .callable b _ => tyBaseName b
  | _ => ""

mutual
/-- `_GeneratePytdVisitor` on one statement; `path` = `class_stack`, `inFunc`/`level` as in the visitor.
Returns the new `Definitions` and the spliced definitions. -/
def convStmt (d : Defs) (path : List String) : PyStmt → PM (Defs × List Item)
  | .importFrom m names =>
    if !path.isEmpty then .error (.parse "Import statements need to be at module level")
    else if m ≠ "typing" then .error (.unsupported "from-import of a module other than typing")
    else if names.any (fun na => na.2.isSome) then .error (.unsupported "import … as …")
    else .ok (names.foldl (fun d na => d.bind na.1 (.named ("typing." ++ na.1))) d, [])
  | .import_ _ _ => .error (.unsupported "import")
  | .typeVarDef target func nameArg constraints bound =>
    match dottedName func with
    | none => .error (.unsupported "call of a non-name")
    | some fn => do
      let ft ← newType d fn none
      if !matchesName d (tyBaseName ft) ["typing"] "TypeVar" then .error (.unsupported "call other than TypeVar")
      if !path.isEmpty then .error (.parse "TypeVars need to be defined at module level")
      let cs ← parseTys d constraints
      let b ← match bound with
        | some e => do let t ← parseTy d e; (.ok (some t) : PM (Option Ty))
        | none => .ok none
      if target ≠ nameArg then .error (.parse "TypeVar name needs to be the assigned name")
      .ok ({ d with typeParams := d.typeParams ++ [{ name := target, constraints := cs, bound := b }] }, [])
  | .assign target value =>
    if target = "__slots__" then
      if path.isEmpty then .error (.parse "__slots__ only allowed on the class level")
      else match strList value with
        | some ss => .ok (d, [.slots ss])
        | none => .error (.parse "__slots__ must be a list of strings")
    else if target = "__all__" then .error (.unsupported "__all__")
    else
      match value with
      | .list _ => .ok (d, [.const { name := target, ty := .named "list" }])
      | .emptyTuple => .ok (d, [.const { name := target, ty := .named "tuple" }])
      | .ellipsis => .ok (d, [.const { name := target, ty := .any }])
      | .int _ => .ok (d, [.const { name := target, ty := .named "int" }])
      | .str _ => .ok (d, [.const { name := target, ty := .named "str" }])
      | .bool _ => .ok (d, [.const { name := target, ty := .named "bool" }])
      | .none => .ok (d, [.const { name := target, ty := .named "NoneType" }])
      | e => do
        let t ← parseTy d e
        let a : Alias := { name := target, ty := t }
        if path.isEmpty then
          .ok ({ d with typeMap := (target, t) :: d.typeMap, aliases := (target, t) :: d.aliases }, [.alias a])
        else .ok (d, [.alias a])
  | .annAssign target ann value => do
    let t ← parseTy d ann
    if target = "__match_args__" then .error (.unsupported "__match_args__")
    if tyName t ≠ "" ∧
        (matchesName d (tyName t) ["typing"] "Final" || matchesName d (tyName t) ["typing"] "TypeAlias") then
      .error (.unsupported "Final / TypeAlias")
    let v ← match value with
      | none => (.ok none : PM (Option Lit))
      | some .ellipsis => .ok (some (.bool true))
      | some (.int _) => .ok (some (.bool true))
      | some (.str _) => .ok (some (.bool true))
      | some (.bool _) => .ok (some (.bool true))
      | some .none => .ok (some (.bool true))
      | some _ => .error (.parse "Default value can only be '...' or a literal constant")
    .ok (d, [.const { name := target, ty := t, value := v }])
  | .funcDef name decos a returns body => do
    let f ← convFunc d name decos a returns body
    .ok (d, [.func f])
  | .classDef name bases decos body => do
    let ds ← convDecorators d decos
    if bases.any (fun b => match b with | .name _ => false | .attr _ _ => false | .sub _ _ => false | _ => true) then
      .error (.parse "Unexpected class base")
    let bs ← parseTys d bases
    let (d', items) ← convStmts d (path ++ [name]) body
    let full := joinDots (path ++ [name])
    let d'' := d'.bind full (.named full)
    let c ← buildClass d'' name bs ds items
    .ok (d'', [.cls c])
  | .ellipsisStmt => .ok (d, [.ellipsis])
  | .raise _ => .error (.unsupported "raise")
def convStmts (d : Defs) (path : List String) : List PyStmt → PM (Defs × List Item)
  | [] => .ok (d, [])
  | s :: ss => do
    let (d1, i1) ← convStmt d path s
    let (d2, i2) ← convStmts d1 path ss
    .ok (d2, i1 ++ i2)
end

/-! ## the unit: `build_type_decl_unit` and `post_process_ast` -/

/-- `_maybe_resolve_alias`: kept, dropped (`typing` set members) or — for aliases of attributes of local
classes/constants — not modelled -/
def resolveAliases (classes : List Class) (constants : List Const) : List Alias → PM (List Alias)
  | [] => .ok []
  | a :: as => do
    let rest ← resolveAliases classes constants as
    match a.ty with
    | .named n =>
      if typingSets.contains n then .ok rest
      else match comps n with
        | [_] => .ok (a :: rest)
        | p :: _ =>
          if classes.any (·.name = p) ∨ constants.any (·.name = p) then
            .error (.unsupported "alias of a class attribute")
          else .ok (a :: rest)
        | [] => .ok (a :: rest)
    | _ => .ok (a :: rest)

/-- `Definitions.build_type_decl_unit` -/
def buildUnit (d : Defs) (items : List Item) : PM TUnit := do
  if !(itemSlots items).isEmpty then .error (.parse "__slots__ only allowed on the class level")
  let constants := itemConsts items
  let classes := itemClasses items
  let functions ← mergeSigs (itemFuncs items)
  if functions.any (fun f => f.name = "__getattr__" ∧ f.sigs.length > 1) then
    .error (.parse "Multiple signatures for module __getattr__")
  if functions.any (fun f => f.kind = .property) then
    .error (.parse "Module-level functions with property decorators")
  -- `self.aliases.values()`: one entry per name, in first-definition order, latest value
  let aliases ← resolveAliases classes constants
    (removeDupsBy (·.name) (d.aliases.reverse.map (fun nt => ({ name := nt.1, ty := nt.2 } : Alias))))
  let functions := removeDupsBy (·.name) functions
  let constants := removeDupsBy (·.name) constants
  let typeParams := removeDupsBy (·.name) d.typeParams
  let classes := removeDupsBy Class.name classes
  if crossDuplicates [functions.map (·.name), constants.map (·.name), typeParams.map (·.name),
      classes.map Class.name, aliases.map (·.name)] then
    .error (.parse "Duplicate attribute name(s) in module")
  .ok { name := "", constants := constants, typeParams := typeParams, classes := classes,
        functions := functions, aliases := aliases }

mutual
def tyMentions (names : List String) : Ty → Bool
  | .named n => names.contains n
  | .generic b ps => tyMentions names b || tysMention names ps
  | .tuple b ps => tyMentions names b || tysMention names ps
  | .callable b ps => tyMentions names b || tysMention names ps
  | .union ts => tysMention names ts
  | .annotated t _ => tyMentions names t
  | _ => false
def tysMention (names : List String) : List Ty → Bool
  | [] => false
  | t :: ts => tyMentions names t || tysMention names ts
end

/-- `_PropertyToConstant._is_parametrised` (on parse-stage types: type parameters are still names) -/
def isParametrised (tps : List String) (f : Func) : Bool :=
  f.sigs.any fun s => tyMentions tps s.ret ||
    (match s.params with | p :: _ => p.ty ≠ .any | [] => false)

def postParam (tps : List String) (p : Param) : Param :=
  { p with ty := postTy tps p.ty, mutated := p.mutated.map (postTy tps) }

def postSig (tps : List String) (s : Sig) : Sig :=
  { params := s.params.map (postParam tps), starargs := s.starargs.map (postParam tps),
    starstarargs := s.starstarargs.map (postParam tps), ret := postTy tps s.ret,
    exceptions := s.exceptions.map (postTy tps), template := s.template }

def postFunc (tps : List String) (f : Func) : Func := { f with sigs := f.sigs.map (postSig tps) }

def postConst (tps : List String) (c : Const) : Const := { c with ty := postTy tps c.ty }

def postDecl (tps : List String) (t : TypeParamDecl) : TypeParamDecl :=
  { t with constraints := t.constraints.map (postTy tps), bound := t.bound.map (postTy tps) }

mutual
/-- `_PropertyToConstant.VisitClass`, then the type passes -/
def postClass (tps : List String) : Class → Class
  | .mk name kws bases methods constants classes decorators slots template =>
    let props := methods.filter (fun f => f.kind = .property && !isParametrised tps f)
    let newConsts := props.map fun f =>
      ({ name := f.name, ty := .annotated (joinTypes (f.sigs.map (·.ret))) ["'property'"] } : Const)
    let methods' := methods.filter (fun f => !(f.kind = .property && !isParametrised tps f))
    .mk name (kws.map fun kv => (kv.1, postTy tps kv.2)) (bases.map (postTy tps))
      (methods'.map (postFunc tps)) ((constants ++ newConsts).map (postConst tps))
      (postClasses tps classes) decorators slots template
def postClasses (tps : List String) : List Class → List Class
  | [] => []
  | c :: cs => postClass tps c :: postClasses tps cs
end

/-- `post_process_ast` (name `None`) -/
def postUnit (u : TUnit) : TUnit :=
  let tps := u.typeParams.map (·.name)
  { name := "", constants := u.constants.map (postConst tps),
    typeParams := u.typeParams.map (postDecl tps), classes := postClasses tps u.classes,
    functions := u.functions.map (postFunc tps),
    aliases := u.aliases.map fun a => { a with ty := postTy tps a.ty } }

/-- `parser.parse_string(text)` on the tree of `text` -/
def convert (m : PyModule) : PM TUnit := do
  let (d, items) ← convStmts {} [] m
  let u ← buildUnit d items
  .ok (postUnit u)

/-! ## `VerifyVisitor` -/

mutual
/-- `EnterGenericType` / `EnterCallableType`: `assert node.parameters` (not for `TupleType`) -/
def verifyTy : Ty → Bool
  | .generic b ps => !ps.isEmpty && verifyTy b && verifyTys ps
  | .tuple b ps => verifyTy b && verifyTys ps
  | .callable b ps => !ps.isEmpty && verifyTy b && verifyTys ps
  | .union ts => verifyTys ts
  | .annotated t _ => verifyTy t
  | _ => true
def verifyTys : List Ty → Bool
  | [] => true
  | t :: ts => verifyTy t && verifyTys ts
end

def isIdStart (c : Char) : Bool := c.isAlpha || c = '_'
def isIdChar (c : Char) : Bool := c.isAlphanum || c = '_'

/-- `re.compile(r"[a-zA-Z_]\w*$").match` on ASCII names -/
def validParamName (s : String) : Bool :=
  match s.toList with
  | [] => false
  | c :: cs => isIdStart c && cs.all isIdChar

def verifyParam (p : Param) : Bool :=
  validParamName p.name && verifyTy p.ty && (match p.mutated with | some m => verifyTy m | none => true)

def verifyDecl (d : TypeParamDecl) : Bool :=
  d.constraints.all verifyTy && (match d.bound with | some b => verifyTy b | none => true)

def verifySig (declared : List String) (s : Sig) : Bool :=
  s.params.all verifyParam && (optParamList s.starargs).all verifyParam &&
  (optParamList s.starstarargs).all verifyParam && verifyTy s.ret && s.exceptions.all verifyTy &&
  s.template.all (fun t => declared.contains t.name && verifyDecl t)

def verifyFunc (declared : List String) (f : Func) : Bool :=
  !f.sigs.isEmpty && f.sigs.all (verifySig declared)

def verifyConst (c : Const) : Bool := verifyTy c.ty

/-- the name sets are pairwise disjoint (`_AssertNoDuplicates` compares sizes of sets) -/
def disjointNameSets : List (List String) → Bool
  | [] => true
  | l :: ls => ls.all (fun m => l.all (fun x => !m.contains x)) && disjointNameSets ls

mutual
def verifyClass (declared : List String) : Class → Bool
  | .mk _ kws bases methods constants classes _ _ template =>
    disjointNameSets [methods.map (·.name), constants.map (·.name)] &&
    kws.all (fun kv => verifyTy kv.2) && bases.all verifyTy && methods.all (verifyFunc declared) &&
    constants.all verifyConst && verifyClasses declared classes &&
    template.all (fun t => declared.contains t.name && verifyDecl t)
def verifyClasses (declared : List String) : List Class → Bool
  | [] => true
  | c :: cs => verifyClass declared c && verifyClasses declared cs
end

/-- `unit.Visit(VerifyVisitor())` does not raise -/
def verifyUnit (u : TUnit) : Bool :=
  let declared := u.typeParams.map (·.name)
  disjointNameSets [u.constants.map (·.name), declared, u.classes.map Class.name,
    u.functions.map (·.name), u.aliases.map (·.name)] &&
  u.constants.all verifyConst && u.typeParams.all verifyDecl && verifyClasses declared u.classes &&
  u.functions.all (verifyFunc declared) && u.aliases.all (fun a => verifyTy a.ty)


/-! ## `norm`: the explicit list of normalisations a print → parse round trip performs

1. `ClassType` / `LateType` → `NamedType`; `builtins.X` → `X`; a name that is a declared type parameter →
   `TypeParameter` (scope `None`); a `TypeParameter` that is not declared → `NamedType`.
2. unions: members de-duplicated (as printed), in parameters the pep484 compat members are dropped
   (`Union[int, float]` → `float`), literals are moved behind the other members, `NoneType` goes last
   (`Optional[...]`), a union with one member left is that member.
3. `Callable[..., R]` (generic form): first parameter is `Any`.
4. parameters: `Any`, and `self`/`cls` annotated with the enclosing class, lose their annotation (→ `Any`);
   parameters are grouped positional-only, regular, keyword-only.
5. `*args` → `tuple` / `tuple[X]`, `**kw` → `dict` / `dict[str, X]`, both `optional`, `regular`.
6. return type `nothing` → `typing.Never`.
7. method kind follows the name for `__new__` (static) and `__init_subclass__` (class method).
8. templates are dropped (signature and class); class without bases gets `object`; `nothing` bases are dropped.
9. a constant's value is only "present" or not; type parameters are sorted by name, scope `None`.
10. the unit name is not compared (`parse_string` invents one).
-/

def noneTy : Ty := .named "NoneType"

def isLitTy : Ty → Bool
  | .literal _ => true
  | _ => false

def simpleNorm (tps : List String) (x : String) : Ty :=
  if tps.contains x then .typeParam x none else if x = "None" then noneTy else .named x

def normName (tps : List String) (n : String) : Ty :=
  match classify n with
  | .simple x => simpleNorm tps x
  | .builtin x => simpleNorm tps x
  | .typing _ => .named n
  | .dotted _ => .named n

/-- the member list of a normalised union (before the singleton rule).  Members are identified by how
they print: duplicates (same printed form) are merged and, in a parameter, the pep484 compat members are
dropped (`formSetK`); then come the members that are neither `Literal[…]` nor `None`, the literals, and
`None`. -/
def unionRes (inParam : Bool) (ms : List Ty) : List Ty :=
  let key := tyExpr inParam
  let ms := formSetK key inParam ms
  ms.filter (fun t => !isLitE (key t) && key t ≠ .none) ++ ms.filter (fun t => isLitE (key t)) ++
    ms.filter (fun t => key t = .none)

/-- a union with one member is that member -/
def singleOrUnion : List Ty → Ty
  | [x] => x
  | r => .union r

def normUnion (inParam : Bool) (ms : List Ty) : Ty := singleOrUnion (unionRes inParam ms)

mutual
def normTy (tps : List String) (inParam : Bool) : Ty → Ty
  | .any => .any
  | .nothing => .nothing
  | .named n => normName tps n
  | .cls n => normName tps n
  | .late n => normName tps n
  | .typeParam n _ => simpleNorm tps n
  | .generic b ps =>
    let ps' := normTys tps inParam ps
    if tyBaseName b = "typing.Callable" ∧ ¬ (tyExpr false b = .name "tuple") then
      .generic (normTy tps inParam b) (.any :: ps'.tail)
    else .generic (normTy tps inParam b) ps'
  | .tuple b ps => .tuple (normTy tps inParam b) (normTys tps inParam ps)
  | .callable b ps => .callable (normTy tps inParam b) (normTys tps inParam ps)
  | .union ts => normUnion inParam (normTys tps inParam ts)
  | .literal v => .literal v
  | .annotated t as => .annotated (normTy tps inParam t) as
def normTys (tps : List String) (inParam : Bool) : List Ty → List Ty
  | [] => []
  | t :: ts => normTy tps inParam t :: normTys tps inParam ts
end

def normParam (tps : List String) (path : List String) (p : Param) : Param :=
  let e := tyExpr true p.ty
  { name := p.name
    ty := if p.ty = .any then .any
          else if selfElided path p.name e || clsElided path p.name e then .any
          else normTy tps true p.ty
    kind := p.kind, optional := p.optional, mutated := p.mutated.map (normTy tps false) }

def normStar (tps : List String) (dict : Bool) (p : Param) : Param :=
  let base := if dict then "dict" else "tuple"
  let ty : Ty :=
    match isGenericLike p.ty with
    | some (_, ps) =>
      let l := ps.getLastD .any
      if l = .any then .named base
      else .generic (.named base) (if dict then [.named "str", normTy tps true l] else [normTy tps true l])
    | none => .named base
  { name := p.name, ty := ty, kind := .regular, optional := true, mutated := none }

def normRet (tps : List String) (t : Ty) : Ty :=
  if tyExpr false t = .name "nothing" then .named "typing.Never" else normTy tps false t

def normSig (tps : List String) (path : List String) (s : Sig) : Sig :=
  { params := ((s.params.filter (·.kind = .posOnly)) ++ (s.params.filter (·.kind = .regular)) ++
      (s.params.filter (·.kind = .kwOnly))).map (normParam tps path)
    starargs := s.starargs.map (normStar tps false)
    starstarargs := s.starstarargs.map (normStar tps true)
    ret := normRet tps s.ret
    exceptions := s.exceptions.map (normTy tps false)
    template := [] }

def normKind (name : String) (k : MethodKind) : MethodKind :=
  if name = "__new__" then .staticmethod
  else if k = .staticmethod then .staticmethod
  else if name = "__init_subclass__" ∨ k = .classmethod then .classmethod
  else k

def normFunc (tps : List String) (path : List String) (f : Func) : Func :=
  { name := f.name, sigs := f.sigs.map (normSig tps path), kind := normKind f.name f.kind,
    abstract := f.abstract, coroutine := f.coroutine, final := f.final,
    decorators := if normKind f.name f.kind = .property then ["property"] else [] }

def normConst (tps : List String) (c : Const) : Const :=
  { name := c.name, ty := normTy tps false c.ty, value := c.value.map (fun _ => .bool true) }

def normDecl (tps : List String) (d : TypeParamDecl) : TypeParamDecl :=
  { name := d.name, constraints := d.constraints.map (normTy tps false),
    bound := d.bound.map (normTy tps false), scope := none }

def normBases (tps : List String) (name : String) (bases : List Ty) : List Ty :=
  let bs := (bases.map (normTy tps false)).filter (· ≠ .nothing)
  if bs.isEmpty ∧ name ≠ "classobj" ∧ name ≠ "object" then [.named "object"] else bs

mutual
def normClass (tps : List String) (path : List String) : Class → Class
  | .mk name _ bases methods constants classes _ slots _ =>
    .mk name [] (normBases tps name bases) (methods.map (normFunc tps (path ++ [name])))
      (constants.map (normConst tps)) (normClasses tps (path ++ [name]) classes) [] slots []
def normClasses (tps : List String) (path : List String) : List Class → List Class
  | [] => []
  | c :: cs => normClass tps path c :: normClasses tps path cs
end

def normUnit (u : TUnit) : TUnit :=
  let tps := u.typeParams.map (·.name)
  { name := ""
    constants := u.constants.map (normConst tps)
    typeParams := sortDecls (u.typeParams.map (normDecl tps))
    classes := normClasses tps [] u.classes
    functions := u.functions.map (normFunc tps [])
    aliases := u.aliases.map fun a => { a with ty := normTy tps false a.ty } }


/-! ## `Modelled`: the units on which the two models claim to describe the real code exactly

Everything here is a decidable check on the unit; the harness compares model and real code (tree level and
declaration level) on every generated unit that passes, inside or outside `InFragment`. -/

def pyKeywords : List String :=
  ["False", "None", "True", "and", "as", "assert", "async", "await", "break", "class", "continue", "def",
   "del", "elif", "else", "except", "finally", "for", "from", "global", "if", "import", "in", "is", "lambda",
   "nonlocal", "not", "or", "pass", "raise", "return", "try", "while", "with", "yield", "__debug__"]

/-- an ASCII identifier that is not a keyword -/
def identOK (x : String) : Bool := validParamName x && !pyKeywords.contains x

def isInfixL : List Char → List Char → Bool
  | needle, [] => needle.isEmpty
  | needle, c :: cs => needle.isPrefixOf (c :: cs) || isInfixL needle cs

/-- `"Concatenate" in text` never holds for text built from this string -/
def noConcat (s : String) : Bool := !isInfixL "Concatenate".toList s.toList

/-- characters whose `repr` inside `'…'` is themselves -/
def plainChar (c : Char) : Bool :=
  c.isAlphanum || " _-+*/:;,.!?@<>=()[]{}".toList.contains c

def plainStr (s : String) : Bool := s.toList.all plainChar && noConcat s

/-- an annotation string of the form `'plain text'` -/
def quotedPlain (s : String) : Bool :=
  match unquote s with
  | some c => plainStr c
  | none => false

def isNameTy : Ty → Bool
  | .named _ => true
  | .cls _ => true
  | .late _ => true
  | _ => false

def isUnionTy : Ty → Bool
  | .union _ => true
  | _ => false

/-- what the guards need to know about the whole unit -/
structure GCtx where
  adds : List String        -- every typing member the printer requests
  declared : List String    -- every declared name (module level and class members at any depth)
  aliasNames : List String
  tps : List String         -- declared type parameters
  classPaths : List (List String) := []   -- `[A]`, `[A, B]` for class `B` nested in `A`, …

def mName (g : GCtx) (n : String) : Bool :=
  match classify n with
  | .simple x => identOK x && noConcat x
  | .builtin x => identOK x && noConcat x && !g.declared.contains x          -- `_NameCollision`
  | .typing x => identOK x && noConcat x && !g.declared.contains x && x ≠ "NoneType"
  -- a dotted name must be found by `LookupItemRecursive`: the path of a (nested) class of the unit
  | .dotted cs => g.classPaths.contains cs && cs.all (fun x => identOK x && noConcat x)

mutual
def mTy (g : GCtx) : Ty → Bool
  | .any => true
  | .nothing => true
  | .named n => mName g n
  | .cls n => mName g n
  | .late n => mName g n
  | .typeParam n _ => identOK n && noConcat n
  | .generic b ps =>
    isNameTy b && mTy g b && mTys g ps &&
    (if tyBaseName b = "typing.Callable" ∧ ¬ (tyExpr false b = .name "tuple") then
      (match ps with
       | .any :: _ => true
       | .nothing :: _ => true
       | .typeParam _ _ :: _ => true
       | _ => false)
     else true)
  | .tuple b ps => isNameTy b && mTy g b && mTys g ps
  | .callable b ps => isNameTy b && mTy g b && !ps.isEmpty && mTys g ps
  | .union ts => !ts.isEmpty && mTys g ts && !ts.any isUnionTy && decide (dedupPy ts = ts)
  | .literal (.str s) => plainStr s
  | .literal (.enumMember c m) => (comps c).all (fun x => identOK x && noConcat x) && identOK m && noConcat m
  | .literal _ => true
  | .annotated t as => mTy g t && !as.isEmpty && as.all quotedPlain
def mTys (g : GCtx) : List Ty → Bool
  | [] => true
  | t :: ts => mTy g t && mTys g ts
end

def kindRank : ParamKind → Nat
  | .posOnly => 0
  | .regular => 1
  | .kwOnly => 2

def kindsOrdered : List ParamKind → Bool
  | [] => true
  | [_] => true
  | a :: b :: rest => kindRank a ≤ kindRank b && kindsOrdered (b :: rest)

mutual
/-- all identifiers and constants in a printed type are names (what `\bk\b` could match) -/
def exprIdents : PyExpr → List String
  | .name x => [x]
  | .attr e a => exprIdents e ++ [a]
  | .sub e as => exprIdents e ++ exprsIdents as
  | .list es => exprsIdents es
  | .str s => [s]
  | _ => []
def exprsIdents : List PyExpr → List String
  | [] => []
  | e :: es => exprIdents e ++ exprsIdents es
end

/-- `_DecrementParameterImports` finds nothing to decrement in an elided `self`/`cls` annotation -/
def elidedArgsPlain (g : GCtx) (path : List String) (p : Param) : Bool :=
  let e := tyExpr true p.ty
  if p.ty ≠ .any ∧ (selfElided path p.name e || clsElided path p.name e) then
    (tyAdds true p.ty).isEmpty &&
      (match e with
       | .sub (.name _) [.sub _ as] => (exprsIdents as).all (fun x => !g.adds.contains x)
       | .sub _ as => (exprsIdents as).all (fun x => !g.adds.contains x)
       | _ => true)
  else true

def mParam (g : GCtx) (path : List String) (p : Param) : Bool :=
  identOK p.name && mTy g p.ty && p.mutated.isNone && elidedArgsPlain g path p

/-- `_FormatContainerContents`: `assert container_name in ("tuple", "dict")`, `parameters[-1]` -/
def mStar (g : GCtx) (path : List String) (p : Param) : Bool :=
  mParam g path p &&
  (match isGenericLike p.ty with
   | some (b, ps) =>
     !ps.isEmpty && (let c := (comps (tyBaseName b)).getLastD ""; c = "tuple" || c = "dict")
   | none => true)

def mSig (g : GCtx) (path : List String) (s : Sig) : Bool :=
  s.params.all (mParam g path) && kindsOrdered (s.params.map (·.kind)) &&
  (optParamList s.starargs).all (mStar g path) && (optParamList s.starstarargs).all (mStar g path) &&
  mTy g s.ret && s.exceptions.isEmpty

def mFunc (g : GCtx) (path : List String) (f : Func) : Bool :=
  identOK f.name && f.sigs.all (mSig g path) && f.decorators.all (fun d => identOK d && comps d = [d])

def mConst (g : GCtx) (c : Const) : Bool := identOK c.name && mTy g c.ty

def mDecl (g : GCtx) (d : TypeParamDecl) : Bool :=
  identOK d.name && mTys g d.constraints && (match d.bound with | some b => mTy g b | none => true)

mutual
def mClass (g : GCtx) (path : List String) : Class → Bool
  | .mk name kws bases methods constants classes decorators slots _ =>
    identOK name && kws.isEmpty && decorators.isEmpty && mTys g bases &&
    methods.all (mFunc g (path ++ [name])) && constants.all (mConst g) &&
    mClasses g (path ++ [name]) classes &&
    (match slots with | some sl => sl.all plainStr | none => true)
def mClasses (g : GCtx) (path : List String) : List Class → Bool
  | [] => true
  | c :: cs => mClass g path c && mClasses g path cs
end

mutual
def classDeclared : Class → List String
  | .mk name _ _ methods constants classes _ _ _ =>
    name :: (methods.map (·.name) ++ constants.map (·.name) ++ classesDeclared classes)
def classesDeclared : List Class → List String
  | [] => []
  | c :: cs => classDeclared c ++ classesDeclared cs
end

mutual
def classPathsOf (path : List String) : Class → List (List String)
  | .mk name _ _ _ _ classes _ _ _ => (path ++ [name]) :: classesPathsOf (path ++ [name]) classes
def classesPathsOf (path : List String) : List Class → List (List String)
  | [] => []
  | c :: cs => classPathsOf path c ++ classesPathsOf path cs
end

def unitCtx (u : TUnit) : GCtx :=
  { adds := unitAdds u
    declared := u.constants.map (·.name) ++ u.typeParams.map (·.name) ++ classesDeclared u.classes ++
      u.functions.map (·.name) ++ u.aliases.map (·.name)
    aliasNames := u.aliases.map (·.name)
    tps := u.typeParams.map (·.name)
    classPaths := classesPathsOf [] u.classes }

/-- an alias whose type is a dotted name is printed as an import statement (`_IsAliasImport`): not modelled -/
def mAlias (g : GCtx) (a : Alias) : Bool :=
  identOK a.name && mTy g a.ty &&
  (match a.ty with
   | .named n => (match classify n with | .simple _ => true | _ => false)
   | .cls n => (match classify n with | .simple _ => true | _ => false)
   | .late n => (match classify n with | .simple _ => true | _ => false)
   | _ => true)

/-- the static part of `Modelled`, as named groups -/
def modelledGuards (u : TUnit) : List (String × Bool) :=
  let g := unitCtx u
  [ ("m-const", u.constants.all (mConst g)),
    ("m-typeparam", u.typeParams.all (mDecl g) && decide (u.typeParams.map (·.name)).Nodup),
    ("m-class", mClasses g [] u.classes),
    ("m-func", u.functions.all (mFunc g [])),
    ("m-alias", u.aliases.all (mAlias g)),
    -- `_NameCollision`: a requested typing member is also a local name
    ("m-collision", g.adds.all (fun x => !g.declared.contains x)),
    -- the `Tuple`/`Dict` decrement of `_FormatContainerContents` must not meet a real use
    ("m-tupledict", !g.adds.contains "Tuple" && !g.adds.contains "Dict") ]

def isUnsupported : PM TUnit → Bool
  | .error (.unsupported _) => true
  | _ => false

def modelled (u : TUnit) : Bool :=
  (modelledGuards u).all (·.2) && !isUnsupported (convert (printUnit u))

/-! ## `parser.canonical_pyi`

`parse_string` → `ClassTypeToNamedType` → `CanonicalOrderingVisitor` → `VerifyVisitor` → `Print`.
`sorted` uses `Node.__lt__`: nodes of one class are ordered by `_ToTuple()` = the tuple of
`(type(field).__name__, str(field))`, nodes of different classes by class name.  For the lists of named
declarations the first field is the name, and after `parse_string` the names in one list are distinct, so
the order is the order of the names; union members are ordered by their full key, which needs `repr`. -/

/-- Python `repr` of a `str` of plain characters (plus possibly single quotes) -/
def pyRepr (s : String) : String :=
  if s.toList.contains '\'' then "\"" ++ s ++ "\"" else "'" ++ s ++ "'"

def reprTuple : List String → String
  | [] => "()"
  | [x] => "(" ++ x ++ ",)"
  | xs => "(" ++ ", ".intercalate xs ++ ")"

def optRepr : Option String → String
  | none => "None"
  | some s => s

def litClass : Lit → String
  | .int _ => "int"
  | .str _ => "str"
  | .bool _ => "bool"
  | .enumMember _ _ => "Constant"

/-- `str(value)` of a `Literal`'s value -/
def litStr : Lit → String
  | .int n => toString n
  | .str s => pyReprStr s
  | .bool b => if b then "True" else "False"
  | .enumMember c m => "Constant(name=" ++ pyRepr (c ++ "." ++ m) ++ ", type=NamedType(name=" ++ pyRepr c ++ "), value=None)"

/-- `repr(value)` -/
def litRepr : Lit → String
  | .str s => pyRepr (pyReprStr s)
  | v => litStr v

def tyClassName : Ty → String
  | .any => "AnythingType"
  | .nothing => "NothingType"
  | .named _ => "NamedType"
  | .cls _ => "ClassType"
  | .late _ => "LateType"
  | .typeParam _ _ => "TypeParameter"
  | .generic _ _ => "GenericType"
  | .tuple _ _ => "TupleType"
  | .callable _ _ => "CallableType"
  | .union _ => "UnionType"
  | .literal _ => "Literal"
  | .annotated _ _ => "Annotated"

mutual
/-- msgspec's `repr` of a type node; `decls` supplies constraints and bound of a `TypeParameter` -/
def reprTy (decls : List (String × String × String)) : Ty → String
  | .any => "AnythingType()"
  | .nothing => "NothingType()"
  | .named n => "NamedType(name=" ++ pyRepr n ++ ")"
  | .cls n => "ClassType<unresolved>(" ++ n ++ ")"
  | .late n => "LateType(name=" ++ pyRepr n ++ ", recursive=False)"
  | .typeParam n sc =>
    let cb := (decls.lookup n).getD ("()", "None")
    "TypeParameter(name=" ++ pyRepr n ++ ", constraints=" ++ cb.1 ++ ", bound=" ++ cb.2 ++
      ", default=None, scope=" ++ optRepr (sc.map pyRepr) ++ ")"
  | .generic b ps => "GenericType(base_type=" ++ reprTy decls b ++ ", parameters=" ++ reprTuple (reprTys decls ps) ++ ")"
  | .tuple b ps => "TupleType(base_type=" ++ reprTy decls b ++ ", parameters=" ++ reprTuple (reprTys decls ps) ++ ")"
  | .callable b ps => "CallableType(base_type=" ++ reprTy decls b ++ ", parameters=" ++ reprTuple (reprTys decls ps) ++ ")"
  | .union ts => "UnionType(type_list=" ++ reprTuple (reprTys decls ts) ++ ")"
  | .literal v => "Literal(value=" ++ litRepr v ++ ")"
  | .annotated t as => "Annotated(base_type=" ++ reprTy decls t ++ ", annotations=" ++ reprTuple (as.map pyRepr) ++ ")"
def reprTys (decls : List (String × String × String)) : List Ty → List String
  | [] => []
  | t :: ts => reprTy decls t :: reprTys decls ts
end

/-- `str(x)` of a type-valued field: `NamedType`/`ClassType`/`LateType` define `__str__` = the name -/
def strTy (decls : List (String × String × String)) : Ty → String
  | .named n => n
  | .cls n => n
  | .late n => n
  | t => reprTy decls t

/-- `(class name, _ToTuple())` -/
def tyKey (decls : List (String × String × String)) (t : Ty) : String × List (String × String) :=
  (tyClassName t,
   match t with
   | .any => []
   | .nothing => []
   | .named n => [("str", n)]
   | .cls n => [("str", n), ("NoneType", "None")]
   | .late n => [("str", n), ("bool", "False")]
   | .typeParam n sc =>
     let cb := (decls.lookup n).getD ("()", "None")
     [("str", n), ("tuple", cb.1), (if cb.2 = "None" then "NoneType" else "?", cb.2), ("NoneType", "None"),
      (match sc with | none => ("NoneType", "None") | some s => ("str", s))]
   | .generic b ps => [(tyClassName b, strTy decls b), ("tuple", reprTuple (reprTys decls ps))]
   | .tuple b ps => [(tyClassName b, strTy decls b), ("tuple", reprTuple (reprTys decls ps))]
   | .callable b ps => [(tyClassName b, strTy decls b), ("tuple", reprTuple (reprTys decls ps))]
   | .union ts => [("tuple", reprTuple (reprTys decls ts))]
   | .literal v => [(litClass v, litStr v)]
   | .annotated b as => [(tyClassName b, strTy decls b), ("tuple", reprTuple (as.map pyRepr))])

/-- `tuple.__lt__` on tuples of pairs of strings -/
def pairsLt : List (String × String) → List (String × String) → Bool
  | [], [] => false
  | [], _ :: _ => true
  | _ :: _, [] => false
  | (a1, a2) :: as, (b1, b2) :: bs =>
    if a1 < b1 then true else if b1 < a1 then false
    else if a2 < b2 then true else if b2 < a2 then false
    else pairsLt as bs

/-- `Node.__lt__` -/
def keyLt (a b : String × List (String × String)) : Bool :=
  if a.1 = b.1 then pairsLt a.2 b.2 else decide (a.1 < b.1)

/-- `sorted(l)`: stable, uses `<` only -/
def insertStable {α : Type} (lt : α → α → Bool) (x : α) : List α → List α
  | [] => [x]
  | y :: ys => if lt y x then y :: insertStable lt x ys else x :: y :: ys

def sortStable {α : Type} (lt : α → α → Bool) (l : List α) : List α := l.foldr (insertStable lt) []

def sortByName {α : Type} (nm : α → String) (l : List α) : List α :=
  sortStable (fun a b => decide (nm a < nm b)) l

mutual
def canonTy (decls : List (String × String × String)) : Ty → Ty
  | .generic b ps => .generic (canonTy decls b) (canonTys decls ps)
  | .tuple b ps => .tuple (canonTy decls b) (canonTys decls ps)
  | .callable b ps => .callable (canonTy decls b) (canonTys decls ps)
  | .union ts => mkUnion (sortStable (fun a b => keyLt (tyKey decls a) (tyKey decls b)) (canonTys decls ts))
  | .annotated t as => .annotated (canonTy decls t) as
  | .cls n => .named n                                   -- ClassTypeToNamedType
  | t => t
def canonTys (decls : List (String × String × String)) : List Ty → List Ty
  | [] => []
  | t :: ts => canonTy decls t :: canonTys decls ts
end

abbrev DeclTab := List (String × String × String)

def canonParam (dt : DeclTab) (p : Param) : Param :=
  { p with ty := canonTy dt p.ty, mutated := p.mutated.map (canonTy dt) }

def canonSig (dt : DeclTab) (s : Sig) : Sig :=
  { params := s.params.map (canonParam dt), starargs := s.starargs.map (canonParam dt),
    starstarargs := s.starstarargs.map (canonParam dt), ret := canonTy dt s.ret,
    exceptions := sortStable (fun a b => keyLt (tyKey dt a) (tyKey dt b)) (s.exceptions.map (canonTy dt)),
    template := sortByName (·.name) s.template }

def canonFunc (dt : DeclTab) (f : Func) : Func := { f with sigs := f.sigs.map (canonSig dt) }
def canonConst (dt : DeclTab) (c : Const) : Const := { c with ty := canonTy dt c.ty }

/-- `_PreserveConstantsOrdering` -/
def preserveConstants (decorators : List String) (bases : List Ty) : Bool :=
  decorators.any (fun d => d = "attr.s" ∨ d = "dataclasses.dataclass") ||
  bases.any (fun b => tyName b = "collections.namedtuple" ∨ tyName b = "typing.NamedTuple")

mutual
def canonClass (dt : DeclTab) : Class → Class
  | .mk name kws bases methods constants classes decorators slots template =>
    let cs := constants.map (canonConst dt)
    .mk name (kws.map fun kv => (kv.1, canonTy dt kv.2)) (bases.map (canonTy dt))
      (sortByName (·.name) (methods.map (canonFunc dt)))
      (if preserveConstants decorators bases then cs else sortByName (·.name) cs)
      (sortByName Class.name (canonClasses dt classes))
      (sortByName id decorators) (slots.map (sortByName id)) template
def canonClasses (dt : DeclTab) : List Class → List Class
  | [] => []
  | c :: cs => canonClass dt c :: canonClasses dt cs
end

/-- constraints and bound of the declared type parameters, as `repr` strings (for the sort keys) -/
def declTab (tps : List TypeParamDecl) : DeclTab :=
  tps.map fun d => (d.name, reprTuple (reprTys [] d.constraints), optRepr (d.bound.map (reprTy [])))

/-- `ClassTypeToNamedType` + `CanonicalOrderingVisitor` -/
def canonUnit (u : TUnit) : TUnit :=
  let dt := declTab u.typeParams
  { name := u.name
    constants := sortByName (·.name) (u.constants.map (canonConst dt))
    typeParams := sortByName (·.name) (u.typeParams.map fun d =>
      { d with constraints := d.constraints.map (canonTy dt), bound := d.bound.map (canonTy dt) })
    classes := sortByName Class.name (canonClasses dt u.classes)
    functions := sortByName (·.name) (u.functions.map (canonFunc dt))
    aliases := sortByName (·.name) (u.aliases.map fun a => { a with ty := canonTy dt a.ty }) }

/-- `parser.canonical_pyi` on the tree of the text; a failing `VerifyVisitor` is an `AssertionError` -/
def canonicalPyi (m : PyModule) : PM PyModule := do
  let u ← convert m
  let c := canonUnit u
  if !verifyUnit c then .error (.parse "VerifyVisitor")
  -- the printer model only speaks for `Modelled` units
  if !(modelledGuards c).all (·.2) then .error (.unsupported "canonical form outside the printer model")
  .ok (printUnit c)

/-! ## `InFragment`: the emitted-dialect fragment the theorems of Props/C05.lean quantify over

`InFragment u` = `Modelled u` plus the guards below.  Each guard is there because the round trip
print → parse is *not* the identity up to `norm` without it (the harness probes them on the real code). -/

/-- simple names the stub parser treats specially by their last component (`matches_type`) -/
def reservedTypeNames : List String :=
  ["Literal", "Annotated", "Tuple", "Concatenate", "Callable", "Final", "TypeAlias", "Protocol", "nothing",
   "None", "Unpack", "Self"]

/-- `typing.X` names that do not survive the round trip as themselves -/
def typingBanned : List String :=
  ["List", "Dict", "Tuple", "Set", "FrozenSet", "Type", "Any", "Optional", "Union", "Intersection", "NoneType",
   "Final", "TypeAlias", "Self", "nothing", "tuple", "int", "float", "complex", "bytearray", "bytes",
   "memoryview"]

/-- … and those that are special as the base of a subscript -/
def typingBannedBase : List String :=
  typingBanned ++ ["Literal", "Annotated", "Concatenate", "Callable", "Protocol", "Unpack"]

def fSimple (g : GCtx) (x : String) : Bool :=
  !reservedTypeNames.contains x && !g.adds.contains x && !g.aliasNames.contains x

def fName (g : GCtx) (n : String) : Bool :=
  mName g n &&
  (match classify n with
   | .simple x => fSimple g x
   | .builtin x => fSimple g x
   | .typing x => !typingBanned.contains x
   | .dotted _ => false)

/-- the base of a subscript: additionally not a type parameter and not one of the special forms -/
def fBase (g : GCtx) (n : String) : Bool :=
  fName g n &&
  (match classify n with
   | .simple x => !g.tps.contains x && x ≠ "NoneType"
   | .builtin x => !g.tps.contains x && x ≠ "NoneType"
   | .typing x => !typingBannedBase.contains x
   | .dotted _ => false)

/-- the parameters of `Callable[..., R]` -/
def anyThenOne : List Ty → Bool
  | [.any, _] => true
  | _ => false

def pyDistinct : List Ty → Bool
  | [] => true
  | t :: ts => ts.all (fun s => !pyEqTy t s) && pyDistinct ts

mutual
def fTy (g : GCtx) (inParam : Bool) : Ty → Bool
  | .any => true
  | .nothing => true
  | .named n => fName g n
  | .cls n => fName g n
  | .late n => fName g n
  | .typeParam n _ => identOK n && noConcat n && fSimple g n && n ≠ "NoneType"
  | .generic b ps =>
    isNameTy b && (fBase g (tyBaseName b) || tyBaseName b = "typing.Callable") &&
    mTy g b && !ps.isEmpty && fTys g inParam ps &&
    (if tyExpr false b = .name "tuple" then ps.length = 1
     else if tyBaseName b = "typing.Callable" then anyThenOne ps
     else true)
  | .tuple b ps =>
    isNameTy b && mTy g b && tyExpr false b = .name "tuple" && fTys g inParam ps &&
      fBase g (tyBaseName b)
  | .callable b ps =>
    isNameTy b && tyBaseName b = "typing.Callable" && mTy g b && !ps.isEmpty && fTys g inParam ps &&
      normTys g.tps inParam ps.dropLast ≠ [.nothing]
  | .union ts =>
    !ts.isEmpty && !ts.any isUnionTy && fTys g inParam ts &&
      pyDistinct (unionRes inParam (normTys g.tps inParam ts)) &&
      !(unionRes inParam (normTys g.tps inParam ts)).isEmpty
  | .literal (.str s) => plainStr s
  | .literal (.enumMember _ _) => false
  | .literal _ => true
  | .annotated t as => fTy g inParam t && !as.isEmpty && as.all quotedPlain
def fTys (g : GCtx) (inParam : Bool) : List Ty → Bool
  | [] => true
  | t :: ts => fTy g inParam t && fTys g inParam ts
end

/-- names `_ann_assign` / `_bare_assign` / `_split_definitions` treat specially -/
def specialDeclNames : List String := ["__match_args__", "__slots__", "__all__"]

def fConst (g : GCtx) (c : Const) : Bool :=
  mConst g c && fTy g false c.ty && !specialDeclNames.contains c.name

def fDecl (g : GCtx) (d : TypeParamDecl) : Bool :=
  mDecl g d && fTys g false d.constraints &&
  (match d.bound with | some b => fTy g false b | none => true)

/-- an alias must print as `X = <type expression>`; `X = None` would be read back as a constant -/
def fAlias (g : GCtx) (a : Alias) : Bool :=
  mAlias g a && fTy g false a.ty && tyExpr false a.ty ≠ .none && !specialDeclNames.contains a.name

/-- the names of all module-level declarations, in the order `_check_for_duplicate_defs` sees them -/
def unitNames (u : TUnit) : List String :=
  u.functions.map (·.name) ++ u.constants.map (·.name) ++ u.typeParams.map (·.name) ++
  u.classes.map Class.name ++ u.aliases.map (·.name)

/-- the guards of `InFragment`, as named groups (reported by the driver) -/
def fragmentGuards (u : TUnit) : List (String × Bool) :=
  let g := unitCtx u
  [ ("f-modelled", modelled u),
    ("f-const", u.constants.all (fConst g)),
    ("f-typeparam", u.typeParams.all (fDecl g)),
    ("f-alias", u.aliases.all (fAlias g)),
    -- stages 2 and 3 (functions, classes) are covered by the correspondence only
    ("f-no-class", u.classes.isEmpty),
    ("f-no-func", u.functions.isEmpty),
    -- every declared name once (`_check_for_duplicate_defs`, and last-one-wins otherwise)
    ("f-names-once", decide (unitNames u).Nodup),
    -- `NoneType` is neither a type parameter nor an alias
    ("f-nonetype", !g.tps.contains "NoneType" && !g.aliasNames.contains "NoneType"),
    -- nothing is called `typing` (`_maybe_resolve_alias` looks up the first component of an alias target)
    ("f-no-typing-name", !(unitNames u).contains "typing") ]

/-- the emitted-dialect fragment the theorems of Props/C05.lean are about -/
def inFragment (u : TUnit) : Bool := (fragmentGuards u).all (·.2)

def failedGuards (u : TUnit) : List String :=
  ((modelledGuards u).filter (fun x => !x.2)).map (·.1) ++
  (if isUnsupported (convert (printUnit u)) then ["m-unsupported"] else []) ++
  ((fragmentGuards u).filter (fun x => !x.2)).map (·.1)

end PytypeModel.Pytd
