/-
C06 model: pytd types <-> abstract values, and what a downstream module reads from an upstream unit.
Core Lean only.

pytype                                                        here
------------------------------------------------------------  ------------------------------------------
abstract values the VM holds for an imported name              `AVal`  (a `cfg.Variable` = `List AVal`, its bindings)
  Instance(cls) / cached primitive instances / None            `AVal.inst c`
  Instance(cls) with instance_type_parameters                  `AVal.pinst c params`   (one Variable per template item)
  abstract.Tuple (pyval = one Variable per index)              `AVal.tup slots`
  PyTDClass (a class object)                                   `AVal.clsObj c`
  PyTDFunction (signatures kept verbatim: `sig.pytd_sig`)      `AVal.func f`
  Unsolvable / Empty                                           `AVal.unsolvable` / `AVal.empty`
`name.rpartition(".")` + `cls.module = module`                  `splitName`   (convert._pytd_class_to_value)
`pytd_utils.NamedTypeWithModule(name, module)`                 `joinName`    (output.value_instance_to_pytd_type)
convert.pytd_cls_to_instance_var(t)                            `toAbsVar t`
convert._constant_to_value(AsInstance(t)) (one union member)   `toAbsVal t`
  `_pytd_generic_type_to_instance_value`, `_pytd_class_to_instance_value`, TupleType -> tuple_to_value
output.value_to_pytd_type(v)                                   `toPytd v`
  `_value_to_parameter_types` (JoinTypes per template item),
  `MakeClassOrContainerType` (TupleType for tuples, bare class when there are no arguments)
pytd_utils.JoinTypes (dedupe with pytd `==`: unions as sets)   `joinTypes`, `sameTy`, `dedupe`
tracer_vm.pytd_for_types (module-level definition of B)        `exportTop`
load_pytd: what `a.x`, `a.f()`, `a.C.x`, `a.C().x`,            `resolveRead u r`  on the *loaded* unit (names qualified)
  `a.C().m()`, `from a import C` denote in the upstream unit
the downstream module derived from the upstream unit           `derive u`

Fragment (`InFragment`, decidable): Any, nothing, class names (scalars, None, user classes incl. nested),
`list/set/frozenset/tuple[X, ...]/dict` parameterised, heterogeneous tuples, flat unions, `type[C]`,
`type[Any]`.  Outside: TypeVars, Callable, Literal, Annotated, LateType, generic user classes,
`builtins.type`/`builtins.property` instances are mapped to `unsolvable` by the model and are *not* claimed.

The two transports of the upstream unit (text stub = C05, pickle = C12) are *parameters* (`Transports`):
only their specifications are used, not their models.
-/
import PytypeModel.Pytd.Types

namespace PytypeModel.Pytd.AbsConvert
open PytypeModel.Pytd

/-! ### class references: module + name -/

structure ClsRef where
  module : Option String
  name : String
  deriving DecidableEq, Repr, BEq, Inhabited

/-- `str.rpartition(".")` on a character list: split at the *last* dot -/
def rpartDot : List Char → Option (List Char × List Char)
  | [] => none
  | c :: cs =>
    match rpartDot cs with
    | some (m, b) => some (c :: m, b)
    | none => if c = '.' then some ([], cs) else none

/-- `module, dot, base_name = name.rpartition("."); if dot: cls.module = module` -/
def splitName (s : String) : ClsRef :=
  match rpartDot s.toList with
  | some (m, b) => ⟨some (String.ofList m), String.ofList b⟩
  | none => ⟨none, s⟩

/-- `NamedTypeWithModule(name, module).name` -/
def joinName : ClsRef → String
  | ⟨none, n⟩ => n
  | ⟨some m, n⟩ => m ++ "." ++ n

/-! ### abstract values -/

inductive AVal
  | inst (c : ClsRef)
  | pinst (c : ClsRef) (params : List (List AVal))
  | tup (slots : List (List AVal))
  | clsObj (c : ClsRef)
  | func (f : Func)
  | unsolvable
  | empty
  deriving Repr, Inhabited

abbrev AVar := List AVal

/-! ### pytd `==` on types and `JoinTypes` -/

def tyName : Ty → String
  | .named n | .cls n | .late n => n
  | _ => ""

mutual
/-- `a == b` for pytd type nodes: structural; union members compare as sets (`_SetOfTypes.__eq__`);
a `NamedType` never equals a `ClassType`. -/
def sameTy : Ty → Ty → Bool
  | .any, .any => true
  | .nothing, .nothing => true
  | .named a, .named b => a == b
  | .cls a, .cls b => a == b
  | .late a, .late b => a == b
  | .typeParam a s, .typeParam b t => a == b && s == t
  | .generic b1 p1, .generic b2 p2 => sameTy b1 b2 && sameList p1 p2
  | .tuple b1 p1, .tuple b2 p2 => sameTy b1 b2 && sameList p1 p2
  | .callable b1 p1, .callable b2 p2 => sameTy b1 b2 && sameList p1 p2
  | .union as, .union bs => subAll as bs && bs.all (fun b => memR as b)
  | .literal a, .literal b => decide (a = b)
  | .annotated t1 a1, .annotated t2 a2 => sameTy t1 t2 && a1 == a2
  | _, _ => false
termination_by structural x => x
def sameList : List Ty → List Ty → Bool
  | [], [] => true
  | a :: as, b :: bs => sameTy a b && sameList as bs
  | _, _ => false
termination_by structural x => x
/-- every member of the first list equals some member of the second -/
def subAll : List Ty → List Ty → Bool
  | [], _ => true
  | a :: as, bs => bs.any (fun b => sameTy a b) && subAll as bs
termination_by structural x => x
/-- some member of the first list equals `b` (recursion on the first list keeps `sameTy` structural) -/
def memR : List Ty → Ty → Bool
  | [], _ => false
  | a :: as, b => sameTy a b || memR as b
termination_by structural x => x
end

/-- `t in seen` for the list of types kept so far -/
def seenHas (seen : List Ty) (t : Ty) : Bool := seen.any (fun s => sameTy s t)

/-- the `queue`/`seen`/`new_types` loop of `JoinTypes` on already flattened input: `nothing` is dropped, a
type equal (pytd `==`) to an earlier kept one is dropped, order is kept -/
def dedupe (seen : List Ty) : List Ty → List Ty
  | [] => []
  | t :: ts =>
    if t = .nothing then dedupe seen ts
    else if seenHas seen t then dedupe seen ts
    else t :: dedupe (t :: seen) ts

/-- `queue.extendleft(reversed(t.type_list))`: union members are spliced in place (unions are flat) -/
def flatten : List Ty → List Ty
  | [] => []
  | .union ts :: rest => ts ++ flatten rest
  | t :: rest => t :: flatten rest

def noneTy : Ty := .named "builtins.NoneType"

def isNoneTy (t : Ty) : Bool := t = .named "builtins.NoneType" || t = .named "NoneType"

/-- the tail of `JoinTypes`, on the deduplicated member list -/
def joinCore (new : List Ty) : Ty :=
  match new with
  | [t] => t
  | new =>
    if new.any (· = .any) then
      (if new.any isNoneTy then .union [.any, noneTy] else .any)
    else if new.isEmpty then .nothing
    else .union new

/-- `pytd_utils.JoinTypes` -/
def joinTypes (ts : List Ty) : Ty := joinCore (dedupe [] (flatten ts))

/-! ### pytd -> abstract (convert.py) -/

/-- number of template items of the builtin container classes of the fragment (`cls.template`) -/
def arity (n : String) : Option Nat :=
  if n = "builtins.list" ∨ n = "builtins.set" ∨ n = "builtins.frozenset" ∨ n = "builtins.tuple" then some 1
  else if n = "builtins.dict" then some 2
  else none

/-- `_pytd_class_to_instance_value` / generic class without parameters (`upper_value` = Any per item) -/
def instOf (n : String) : AVal :=
  if n = "builtins.type" ∨ n = "builtins.property" then .unsolvable
  else match arity n with
    | some k => .pinst (splitName n) (List.replicate k [.unsolvable])
    | none => .inst (splitName n)

/-- "An omitted type parameter implies `Any`" -/
def padParams (k : Nat) (ps : List AVar) : List AVar :=
  ps ++ List.replicate (k - ps.length) [.unsolvable]

/-- `_pytd_generic_type_to_instance_value` once the parameters are converted (`raw` = the pytd parameters,
needed for `type[X]`) -/
def genericVal (b : Ty) (raw : List Ty) (ps : List AVar) : AVal :=
  if tyName b = "builtins.type" then
    match raw with
    | [.named c] => .clsObj (splitName c)
    | [.cls c] => .clsObj (splitName c)
    | [.late c] => .clsObj (splitName c)
    | _ => .unsolvable
  else match arity (tyName b) with
    | some k => .pinst (splitName (tyName b)) (padParams k ps)
    | none => .pinst (splitName (tyName b)) ps

mutual
/-- `pytd_cls_to_instance_var(t)`: the bindings of the Variable -/
def toAbsVar : Ty → AVar
  | .any => [.unsolvable]
  | .nothing => []
  | .union ts => toAbsMembers ts
  | .named n => [instOf n]
  | .cls n => [instOf n]
  | .generic b ps => [genericVal b ps (toAbsVars ps)]
  | .tuple _ ps => [.tup (toAbsVars ps)]
  | .late n => [instOf n]                  -- `_load_late_type`: the class it names (assumed to resolve)
  | .typeParam _ _ => [.unsolvable]
  | .callable _ _ => [.unsolvable]
  | .literal _ => [.unsolvable]
  | .annotated _ _ => [.unsolvable]
termination_by structural x => x
/-- `constant_to_value(AsInstance(t))` for one member of `UnpackUnion` -/
def toAbsVal : Ty → AVal
  | .any => .unsolvable
  | .nothing => .empty
  | .union _ => .unsolvable
  | .named n => instOf n
  | .cls n => instOf n
  | .generic b ps => genericVal b ps (toAbsVars ps)
  | .tuple _ ps => .tup (toAbsVars ps)
  | .late n => instOf n
  | .typeParam _ _ => .unsolvable
  | .callable _ _ => .unsolvable
  | .literal _ => .unsolvable
  | .annotated _ _ => .unsolvable
termination_by structural x => x
/-- the loop over `UnpackUnion(cls)`: `NothingType` members add no binding -/
def toAbsMembers : List Ty → AVar
  | [] => []
  | t :: ts => (if t = .nothing then [] else [toAbsVal t]) ++ toAbsMembers ts
termination_by structural x => x
def toAbsVars : List Ty → List AVar
  | [] => []
  | t :: ts => toAbsVar t :: toAbsVars ts
termination_by structural x => x
end

/-! ### abstract -> pytd (output.py) -/

mutual
/-- `value_to_pytd_type(node, v, None, None)` -/
def toPytd : AVal → Ty
  | .inst c => .named (joinName c)
  | .pinst c ps =>
    match toPytdVars ps with
    | [] => .named (joinName c)
    | args => .generic (.named (joinName c)) args
  | .tup slots => .tuple (.named "builtins.tuple") (toPytdVars slots)
  | .clsObj c => .generic (.named "builtins.type") [.named (joinName c)]
  | .func _ => .named "typing.Callable"
  | .unsolvable => .any
  | .empty => .nothing
termination_by structural x => x
/-- `_value_to_parameter_types`: per template item, `JoinTypes` of the item's visible values -/
def toPytdVars : List AVar → List Ty
  | [] => []
  | v :: vs => joinTypes (toPytdList v) :: toPytdVars vs
termination_by structural x => x
def toPytdList : AVar → List Ty
  | [] => []
  | v :: vs => toPytd v :: toPytdList vs
termination_by structural x => x
end

def AVal.isUnsolvable : AVal → Bool
  | .unsolvable => true
  | _ => false

def AVal.isEmpty : AVal → Bool
  | .empty => true
  | _ => false

/-- `tracer_vm.pytd_for_types` for one module-level name of the downstream module -/
def exportTop (v : AVar) : Ty :=
  if v.any AVal.isUnsolvable then .any
  else match v with
    | [] => .any                                        -- "No visible options"
    | [x] => if x.isEmpty then .any else toPytd x         -- NothingType of an Empty -> Any
    | _ => joinTypes (toPytdList v)

/-- what the downstream stub says about a name whose upstream declared type is `t` -/
def reexport (t : Ty) : Ty := exportTop (toAbsVar t)

/-! ### the closed form `normOut` (the explicit normalisation list)

1. `ClassType`/`NamedType` -> `NamedType` of the same name;
2. a bare generic container class gets `Any` parameters, missing parameters are filled with `Any`;
3. a tuple's base becomes `builtins.tuple`;
4. `type[Any]`, `builtins.type`, `builtins.property` -> `Any`;
5. at every union (and every parameter): `nothing` members dropped, members equal as pytd nodes merged (first
   kept), one member left -> that member, `Any` absorbs everything except `None` (nested: `Optional[Any]`);
6. at module level `Any` absorbs `None` too, and `nothing` / no member at all becomes `Any`. -/

/-- closed form of `toPytd (instOf n)` -/
def normName (n : String) : Ty :=
  if n = "builtins.type" ∨ n = "builtins.property" then .any
  else match arity n with
    | some k => (match List.replicate k Ty.any with
                 | [] => .named n
                 | args => .generic (.named n) args)
    | none => .named n

def padTys (k : Nat) (ps : List Ty) : List Ty := ps ++ List.replicate (k - ps.length) .any

/-- closed form of `toPytd (genericVal b raw ps)` given the normalised parameters -/
def normGeneric (b : Ty) (raw : List Ty) (ps : List Ty) : Ty :=
  if tyName b = "builtins.type" then
    match raw with
    | [.named c] => .generic (.named "builtins.type") [.named c]
    | [.cls c] => .generic (.named "builtins.type") [.named c]
    | [.late c] => .generic (.named "builtins.type") [.named c]
    | _ => .any
  else
    let args := match arity (tyName b) with
      | some k => padTys k ps
      | none => ps
    match args with
    | [] => .named (tyName b)
    | args => .generic (.named (tyName b)) args

mutual
/-- nested position: `JoinTypes (toPytd <$> toAbsVar t)` -/
def normIn : Ty → Ty
  | .any => .any
  | .nothing => .nothing
  | .union ts => joinTypes (normMembers ts)
  | .named n => normName n
  | .cls n => normName n
  | .generic b ps => normGeneric b ps (normIns ps)
  | .tuple _ ps => .tuple (.named "builtins.tuple") (normIns ps)
  | .late n => normName n
  | .typeParam _ _ => .any
  | .callable _ _ => .any
  | .literal _ => .any
  | .annotated _ _ => .any
termination_by structural x => x
/-- one union member: `toPytd (toAbsVal t)` -/
def normVal : Ty → Ty
  | .any => .any
  | .nothing => .nothing
  | .union _ => .any
  | .named n => normName n
  | .cls n => normName n
  | .generic b ps => normGeneric b ps (normIns ps)
  | .tuple _ ps => .tuple (.named "builtins.tuple") (normIns ps)
  | .late n => normName n
  | .typeParam _ _ => .any
  | .callable _ _ => .any
  | .literal _ => .any
  | .annotated _ _ => .any
termination_by structural x => x
def normMembers : List Ty → List Ty
  | [] => []
  | t :: ts => (if t = .nothing then [] else [normVal t]) ++ normMembers ts
termination_by structural x => x
def normIns : List Ty → List Ty
  | [] => []
  | t :: ts => normIn t :: normIns ts
termination_by structural x => x
end

/-- `exportTop` on the list of member types -/
def exportTys (ms : List Ty) : Ty :=
  if ms.any (· = .any) then .any
  else match ms with
    | [] => .any
    | [m] => if m = .nothing then .any else m
    | _ => joinTypes ms

/-- the member types of the Variable `toAbsVar t` -/
def topMembers : Ty → List Ty
  | .union ts => normMembers ts
  | .nothing => []
  | t => [normVal t]

/-- module-level position: the type the downstream stub shows -/
def normOut (t : Ty) : Ty := exportTys (topMembers t)

/-! ### the fragment -/

def isNameTy : Ty → Bool
  | .named _ | .cls _ | .late _ => true
  | _ => false

def isUnionTy : Ty → Bool
  | .union _ => true
  | _ => false

mutual
def inFragment : Ty → Bool
  | .any => true
  | .nothing => true
  | .named n => n ≠ "builtins.type" && n ≠ "builtins.property" && (rpartDot n.toList).isSome
  | .cls n => n ≠ "builtins.type" && n ≠ "builtins.property" && (rpartDot n.toList).isSome
  | .late n => n ≠ "builtins.type" && n ≠ "builtins.property" && (rpartDot n.toList).isSome
  | .generic b ps =>
    isNameTy b &&
    (if tyName b = "builtins.type" then
       (match ps with
        | [.named c] => (rpartDot c.toList).isSome
        | [.cls c] => (rpartDot c.toList).isSome
        | [.late c] => (rpartDot c.toList).isSome
        | [.any] => true
        | _ => false)
     else
       (match arity (tyName b) with
        | some k => ps.length == k
        | none => false) && inFragmentL ps)
  | .tuple b ps => isNameTy b && tyName b == "builtins.tuple" && inFragmentL ps
  | .union ts => inFragmentM ts
  | .typeParam _ _ => false
  | .callable _ _ => false
  | .literal _ => false
  | .annotated _ _ => false
termination_by structural x => x
def inFragmentL : List Ty → Bool
  | [] => true
  | t :: ts => inFragment t && inFragmentL ts
termination_by structural x => x
/-- union members: in the fragment and not themselves unions (unions are flat) -/
def inFragmentM : List Ty → Bool
  | [] => true
  | t :: ts => !isUnionTy t && inFragment t && inFragmentM ts
termination_by structural x => x
end

def InFragment (t : Ty) : Prop := inFragment t = true
instance (t : Ty) : Decidable (InFragment t) := by unfold InFragment; infer_instance

/-! ### emitted shape: what `output.py` + the optimiser leave in a stub (guard of the transport theorem)

Every union is flat, has at least two members, no `nothing`/`Any` member, and its members have pairwise
different *skeletons* (the type with every union collapsed to a point and `ClassType` read as `NamedType`);
generics are fully parameterised; there is no `type[Any]`. -/

mutual
def skel : Ty → Ty
  | .any => .any
  | .nothing => .nothing
  | .named n => .named n
  | .cls n => .named n
  | .late n => .named n
  | .typeParam n s => .typeParam n s
  | .generic b ps => .generic (skel b) (skels ps)
  | .tuple b ps => .tuple (skel b) (skels ps)
  | .callable b ps => .callable (skel b) (skels ps)
  | .union _ => .union []
  | .literal v => .literal v
  | .annotated t as => .annotated (skel t) as
termination_by structural x => x
def skels : List Ty → List Ty
  | [] => []
  | t :: ts => skel t :: skels ts
termination_by structural x => x
end

def nodupTys : List Ty → Bool
  | [] => true
  | t :: ts => !ts.any (fun x => decide (x = t)) && nodupTys ts

mutual
def emitted : Ty → Bool
  | .any => true
  | .nothing => false
  | .named n => n ≠ "builtins.type" && n ≠ "builtins.property" && (arity n).isNone
  | .cls n => n ≠ "builtins.type" && n ≠ "builtins.property" && (arity n).isNone
  | .late n => n ≠ "builtins.type" && n ≠ "builtins.property" && (arity n).isNone
  | .generic b ps =>
    isNameTy b &&
    (if tyName b = "builtins.type" then
       (match ps with
        | [.named _] => true
        | [.cls _] => true
        | [.late _] => true
        | _ => false)
     else
       (match arity (tyName b) with
        | some k => ps.length == k && k != 0
        | none => false) && emittedP ps)
  | .tuple b ps => isNameTy b && tyName b == "builtins.tuple" && emittedP ps
  | .union ts => decide (2 ≤ ts.length) && emittedM ts && nodupTys (skels ts)
  | .typeParam _ _ => false
  | .callable _ _ => false
  | .literal _ => false
  | .annotated _ _ => false
termination_by structural x => x
/-- parameters: emitted, or `nothing` (the empty container) -/
def emittedP : List Ty → Bool
  | [] => true
  | t :: ts => (t = .nothing || emitted t) && emittedP ts
termination_by structural x => x
/-- union members: emitted, not unions, not `Any` -/
def emittedM : List Ty → Bool
  | [] => true
  | t :: ts => !isUnionTy t && t ≠ .any && emitted t && emittedM ts
termination_by structural x => x
end

def Emitted (t : Ty) : Prop := emitted t = true
instance (t : Ty) : Decidable (Emitted t) := by unfold Emitted; infer_instance

/-! ### transports of the upstream unit -/

mutual
/-- `ClassType`/`LateType`/`NamedType` read as `NamedType` (`ClassTypeToNamedType`) -/
def strip : Ty → Ty
  | .cls n => .named n
  | .late n => .named n
  | .generic b ps => .generic (strip b) (strips ps)
  | .tuple b ps => .tuple (strip b) (strips ps)
  | .callable b ps => .callable (strip b) (strips ps)
  | .union ts => .union (strips ts)
  | .annotated t as => .annotated (strip t) as
  | .any => .any
  | .nothing => .nothing
  | .named n => .named n
  | .typeParam n s => .typeParam n s
  | .literal v => .literal v
termination_by structural x => x
def strips : List Ty → List Ty
  | [] => []
  | t :: ts => strip t :: strips ts
termination_by structural x => x
end

mutual
/-- the loader's resolution: every class name becomes a `ClassType` -/
def resolve : Ty → Ty
  | .named n => .cls n
  | .generic b ps => .generic (resolve b) (resolves ps)
  | .tuple b ps => .tuple (resolve b) (resolves ps)
  | .callable b ps => .callable (resolve b) (resolves ps)
  | .union ts => .union (resolves ts)
  | .annotated t as => .annotated (resolve t) as
  | .any => .any
  | .nothing => .nothing
  | .cls n => .cls n
  | .late n => .late n
  | .typeParam n s => .typeParam n s
  | .literal v => .literal v
termination_by structural x => x
def resolves : List Ty → List Ty
  | [] => []
  | t :: ts => resolve t :: resolves ts
termination_by structural x => x
end

/-- `ClassTypeToLateType(ignore=[module + ".", "builtins.", "typing."])` keeps a `ClassType` whose name is
one of the prefixes followed by a dot-free name -/
def keepsClassType (m : String) (n : String) : Bool :=
  [m ++ ".", "builtins.", "typing."].any fun p =>
    p.toList.isPrefixOf n.toList && !(n.toList.drop p.toList.length).contains '.'

mutual
/-- what a pickled unit holds after `PrepareForExport`: references to *nested* classes (and to other
modules) are `LateType`s, resolved by `convert` on demand -/
def lateTy (m : String) : Ty → Ty
  | .cls n => if keepsClassType m n then .cls n else .late n
  | .generic b ps => .generic (lateTy m b) (lateTys m ps)
  | .tuple b ps => .tuple (lateTy m b) (lateTys m ps)
  | .callable b ps => .callable (lateTy m b) (lateTys m ps)
  | .union ts => .union (lateTys m ts)
  | .annotated t as => .annotated (lateTy m t) as
  | .any => .any
  | .nothing => .nothing
  | .named n => .named n
  | .late n => .late n
  | .typeParam n s => .typeParam n s
  | .literal v => .literal v
termination_by structural x => x
def lateTys (m : String) : List Ty → List Ty
  | [] => []
  | t :: ts => lateTy m t :: lateTys m ts
termination_by structural x => x
end

def isNoneName (t : Ty) : Bool := t = .named "builtins.NoneType"

/-- the printer writes `Optional[...]`: `None` goes last (stable otherwise) -/
def noneLastL (ts : List Ty) : List Ty := ts.filter (fun t => !isNoneName t) ++ ts.filter isNoneName

/-- syntactic dedupe, first occurrence kept -/
def dedupSyn : List Ty → List Ty → List Ty
  | _, [] => []
  | seen, t :: ts =>
    if seen.any (fun x => decide (x = t)) then dedupSyn seen ts else t :: dedupSyn (t :: seen) ts

/-- a reference to `NoneType`, whatever the node class -/
def isNoneRef : Ty → Bool
  | .named n | .cls n | .late n => decide (n = "builtins.NoneType")
  | _ => false

def noneLastR (ts : List Ty) : List Ty := ts.filter (fun t => !isNoneRef t) ++ ts.filter isNoneRef

mutual
/-- the observation modulo which text and pickle agree *syntactically*: in every union `None` is moved
last (nothing else moves) -/
def nl : Ty → Ty
  | .union ts => .union (noneLastR (nls ts))
  | .generic b ps => .generic b (nls ps)
  | .tuple b ps => .tuple b (nls ps)
  | .callable b ps => .callable b (nls ps)
  | .annotated t as => .annotated (nl t) as
  | .any => .any
  | .nothing => .nothing
  | .named n => .named n
  | .cls n => .cls n
  | .late n => .late n
  | .typeParam n s => .typeParam n s
  | .literal v => .literal v
termination_by structural x => x
def nls : List Ty → List Ty
  | [] => []
  | t :: ts => nl t :: nls ts
termination_by structural x => x
end

mutual
/-- what print -> parse does to a type (the part of C05's `norm` that concerns the fragment): names lose
their class pointer, union members are normalised, duplicates merged, `None` moved last, a one-member union
is that member -/
def normText : Ty → Ty
  | .cls n => .named n
  | .late n => .named n
  | .generic b ps => .generic (normText b) (normTexts ps)
  | .tuple b ps => .tuple (normText b) (normTexts ps)
  | .callable b ps => .callable (normText b) (normTexts ps)
  | .union ts =>
    match dedupSyn [] (noneLastL (normTexts ts)) with
    | [t] => t
    | ms => .union ms
  | .annotated t as => .annotated (normText t) as
  | .any => .any
  | .nothing => .nothing
  | .named n => .named n
  | .typeParam n s => .typeParam n s
  | .literal v => .literal v
termination_by structural x => x
def normTexts : List Ty → List Ty
  | [] => []
  | t :: ts => normText t :: normTexts ts
termination_by structural x => x
end

/-! ### maps over a unit -/

def mapParam (f : Ty → Ty) (p : Param) : Param := { p with ty := f p.ty, mutated := p.mutated.map f }

def mapSig (f : Ty → Ty) (s : Sig) : Sig :=
  { s with params := s.params.map (mapParam f), starargs := s.starargs.map (mapParam f),
           starstarargs := s.starstarargs.map (mapParam f), ret := f s.ret,
           exceptions := s.exceptions.map f }

def mapFunc (f : Ty → Ty) (fn : Func) : Func := { fn with sigs := fn.sigs.map (mapSig f) }

def mapConst (f : Ty → Ty) (c : Const) : Const := { c with ty := f c.ty }

mutual
def mapClass (f : Ty → Ty) : Class → Class
  | .mk name kw bases methods constants classes decorators slots template =>
    .mk name kw (bases.map f) (methods.map (mapFunc f)) (constants.map (mapConst f)) (mapClasses f classes)
      decorators slots template
termination_by structural x => x
def mapClasses (f : Ty → Ty) : List Class → List Class
  | [] => []
  | c :: cs => mapClass f c :: mapClasses f cs
termination_by structural x => x
end

def mapUnit (f : Ty → Ty) (u : TUnit) : TUnit :=
  { u with constants := u.constants.map (mapConst f), classes := mapClasses f u.classes,
           functions := u.functions.map (mapFunc f) }

/-- The two ways the upstream unit reaches the downstream loader.  Only the specifications are used:
`text_spec` is what C05 provides (print then parse then resolve = `normText` on every type, names
re-resolved), `pickle_spec` what C12 provides (decode ∘ encode = id on the exported unit, in which
`PrepareForExport` has turned references to nested classes into `LateType`s; class pointers re-linked). -/
structure Transports where
  viaText : TUnit → TUnit
  viaPickle : TUnit → TUnit
  text_spec : ∀ u, viaText u = mapUnit (fun t => resolve (normText t)) u
  pickle_spec : ∀ u, viaPickle u = mapUnit (fun t => lateTy u.name (resolve t)) u

/-! ### what the downstream module reads -/

/-- a read of the downstream module; class and member names as in the loaded unit (`a.C`, `a.C.N`; members
of classes are bare) -/
inductive Read
  | const (x : String)                          -- `from a import x as x2`
  | call (f : String)                           -- `y = a.f()`
  | clsAttr (path : List String) (x : String)   -- `w = a.C.x`
  | instAttr (path : List String) (x : String)  -- `z = a.C().x`
  | methCall (path : List String) (m : String)  -- `m = a.C().meth()`
  | clsRef (path : List String)                 -- `from a import C as C2`
  deriving Repr, DecidableEq, Inhabited

def findConst (n : String) : List Const → Option Const
  | [] => none
  | c :: cs => if c.name = n then some c else findConst n cs

def findFunc (n : String) : List Func → Option Func
  | [] => none
  | f :: fs => if f.name = n then some f else findFunc n fs

def findClass (n : String) : List Class → Option Class
  | [] => none
  | c :: cs => if c.name = n then some c else findClass n cs

/-- `C`, then its nested class `C.N`, … -/
def classAt : List Class → List String → Option Class
  | _, [] => none
  | cs, [n] => findClass n cs
  | cs, n :: rest => match findClass n cs with
    | some c => classAt c.classes rest
    | none => none

/-- return type of a call without arguments: one signature (no overloads) -/
def retOf (f : Func) : Option Ty :=
  match f.sigs with
  | [s] => some s.ret
  | _ => none

/-- the declared type the loader hands to `convert` for a read (`none` = attribute/import error) -/
def resolveRead (u : TUnit) : Read → Option Ty
  | .const x => (findConst x u.constants).map (·.ty)
  | .call f => (findFunc f u.functions).bind retOf
  | .clsAttr p x => (classAt u.classes p).bind fun c => (findConst x c.constants).map (·.ty)
  | .instAttr p x => (classAt u.classes p).bind fun c => (findConst x c.constants).map (·.ty)
  | .methCall p m => (classAt u.classes p).bind fun c => (findFunc m c.methods).bind retOf
  | .clsRef p => (classAt u.classes p).map fun c => .generic (.cls "builtins.type") [.cls c.name]

/-- what the downstream stub shows for a read -/
def reexportRead (u : TUnit) (r : Read) : Option Ty := (resolveRead u r).map reexport

mutual
/-- reads of the derived downstream module for one class (`path` = the enclosing classes incl. itself) -/
def deriveClass (path : List String) : Class → List Read
  | .mk name _ _ methods constants classes _ _ _ =>
    let p := path ++ [name]
    [Read.clsRef p] ++ constants.map (fun c => Read.clsAttr p c.name)
      ++ constants.map (fun c => Read.instAttr p c.name)
      ++ (methods.filter (fun m => (retOf m).isSome)).map (fun m => Read.methCall p m.name)
      ++ deriveClasses p classes
termination_by structural x => x
def deriveClasses (path : List String) : List Class → List Read
  | [] => []
  | c :: cs => deriveClass path c ++ deriveClasses path cs
termination_by structural x => x
end

/-- the downstream module derived from the upstream unit: it re-exports every name -/
def derive (u : TUnit) : List Read :=
  u.constants.map (fun c => Read.const c.name)
    ++ (u.functions.filter (fun f => (retOf f).isSome)).map (fun f => Read.call f.name)
    ++ deriveClasses [] u.classes

/-! ### well-formed units: names are unique in every scope (true of every pytd unit pytype builds) -/

mutual
def wfClass : Class → Bool
  | .mk _ _ _ methods constants classes _ _ _ =>
    decide ((constants.map (·.name)).Nodup) && decide ((methods.map (·.name)).Nodup)
      && decide ((classes.map Class.name).Nodup) && wfClasses classes
termination_by structural x => x
def wfClasses : List Class → Bool
  | [] => true
  | c :: cs => wfClass c && wfClasses cs
termination_by structural x => x
end

def wfUnit (u : TUnit) : Bool :=
  decide ((u.constants.map (·.name)).Nodup) && decide ((u.functions.map (·.name)).Nodup)
    && decide ((u.classes.map Class.name).Nodup) && wfClasses u.classes

/-! ### class names mentioned by a type -/

mutual
def classRefs : Ty → List String
  | .named n | .cls n | .late n => [n]
  | .generic b ps | .tuple b ps | .callable b ps => classRefs b ++ classRefsL ps
  | .union ts => classRefsL ts
  | .annotated t _ => classRefs t
  | _ => []
termination_by structural x => x
def classRefsL : List Ty → List String
  | [] => []
  | t :: ts => classRefs t ++ classRefsL ts
termination_by structural x => x
end

end PytypeModel.Pytd.AbsConvert
