/-! # C12 — model of `serialize_ast.UndoModuleAliasesVisitor`

Late types are loaded out of context, so before a unit is serialised every `LateType` name that starts with a
module alias *of that unit* (`import gfx.primitives as shapes` → alias `shapes` ↦ module `gfx.primitives`) is
rewritten to the module's real name.  A dotted name is a list of components.

```
def VisitLateType(self, node):
  if "." not in node.name: return node
  prefix, suffix = node.name.rsplit(".", 1)
  while prefix:
    if prefix in self._module_aliases:
      return node.Replace(name=self._module_aliases[prefix] + "." + suffix)
    prefix, _, remainder = prefix.rpartition(".")
    suffix = f"{remainder}.{suffix}"
  return node
```
`_module_aliases` is a dict filled in the order of `node.aliases`: a later alias with the same name wins.
Core Lean only. -/
namespace PytypeModel.Pytd

abbrev Dotted := List String

/-- `self._module_aliases[k]` (dict filled front to back: the last entry for a key wins) -/
def lookupLast (al : List (Dotted × Dotted)) (k : Dotted) : Option Dotted :=
  (al.reverse.find? (fun p => p.1 == k)).map (·.2)

/-- the `while prefix:` loop, trying the prefixes of length `k, k-1, …, 1` -/
def undoAt (al : List (Dotted × Dotted)) (name : Dotted) : Nat → Dotted
  | 0 => name
  | k + 1 =>
    match lookupLast al (name.take (k + 1)) with
    | some m => m ++ name.drop (k + 1)
    | none => undoAt al name k

/-- `VisitLateType` on the name -/
def undoAlias (al : List (Dotted × Dotted)) (name : Dotted) : Dotted :=
  if name.length ≤ 1 then name else undoAt al name (name.length - 1)

/-- no alias name is a prefix of an aliased module's name and no module name is a prefix of an alias name:
rewriting cannot enable another rewriting -/
def noChain (al : List (Dotted × Dotted)) : Bool :=
  al.all fun am => al.all fun bn => !(bn.1.isPrefixOf am.2) && !(am.2.isPrefixOf bn.1)

end PytypeModel.Pytd
