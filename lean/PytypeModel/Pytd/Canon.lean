import PytypeModel.Pytd.Types
import PytypeModel.Core.StableSort

/-! # Canonical ordering of a pytd tree (C04)

Model of `pytd_visitors.CanonicalOrderingVisitor` (pytype/pytd/pytd_visitors.py:21-72) as applied by
`pytd_utils.CanonicalOrdering` in `io.generate_pyi_ast`.  Core Lean only.

The visitor is **bottom-up**: `_VisitNode` first rebuilds a node from its visited children and only then
calls `Visit<Class>` on it, so every `sorted(...)` compares *already canonicalised* children.

What the visitor sorts (Python `sorted`, i.e. a **stable** sort using `Node.__lt__`):

| node           | sorted                                                        | visited but order kept                |
|----------------|---------------------------------------------------------------|---------------------------------------|
| TypeDeclUnit   | constants, type_params, functions, classes, aliases           |                                       |
| Class          | methods, constants (unless dataclass/attrs/NamedTuple), classes, decorators, slots | keywords, bases, template |
| Signature      | template, exceptions                                          | params, starargs, starstarargs, return|
| UnionType      | type_list (then re-constructed: flatten + dedupe)             |                                       |
| Function       | —  (signatures are *not* sorted: lookup order)                | signatures, decorators                |
| GenericType/TupleType/CallableType, Parameter, TypeParameter, TemplateItem, Constant, Alias | — | all children |

`Node.__lt__` (pytd/parse/node.py:49) orders two nodes of the same class by
`_ToTuple() = tuple((type(f).__name__, str(f)) for f in fields)` and nodes of different classes by class
name, i.e. it is the lexicographic order of the **key** `(class name, _ToTuple())`.  `str` of a field is:
the string itself; Python's `repr` for tuples, enums, None, numbers; msgspec's structural
`Class(field=repr, …)` for every node class except `NamedType`/`ClassType`/`LateType`, whose `__str__` is
the bare name (the field's class name is part of the key, so these stay apart).  So the real key is a full
structural rendering of the node and two non-identical nodes of the emitted dialect do not tie (the harness
measures this on every case).  The model does not re-implement `repr`: it is generic in the key —
`Keys K` gives a key function for every kind of element that is sorted, `KOrd K` a total order on keys —
and the theorems say what is needed of it.  Ties (equal keys) keep their input order — `Core.isort` is
stable like `sorted` — which is exactly where a discovery order could leak into the result; the theorems in
`Props/C04.lean` are stated under "ties are identical" (`KeyInj`), and `canon_perm_not_full` shows a
coarser key for which the conclusion fails.
-/
namespace PytypeModel.Pytd.Canon
open PytypeModel.Pytd

/-- A decidable total order on sort keys (what `tuple.__lt__` on tuples of strings is). -/
structure KOrd (K : Type) where
  le : K → K → Bool
  total : ∀ a b, (le a b || le b a) = true
  trans : ∀ a b c, le a b = true → le b c = true → le a c = true
  antisymm : ∀ a b, le a b = true → le b a = true → a = b

/-- One key function per kind of element that `CanonicalOrderingVisitor` sorts.
`tparam`: module-level `TypeParameter`s; `titem`: `TemplateItem`s of a signature; `deco`: a class
decorator (an `Alias` in pytd.py, its name here); `slot`: a `__slots__` entry (a plain `str`). -/
structure Keys (K : Type) where
  ty : Ty → K
  const : Const → K
  func : Func → K
  cls : Class → K
  alias : Alias → K
  tparam : TypeParamDecl → K
  titem : TypeParamDecl → K
  deco : String → K
  slot : String → K

/-- `sorted(xs)` where `x < y` iff `key x < key y`: stable sort by key. -/
def sortOn {K α : Type} (o : KOrd K) (key : α → K) (l : List α) : List α :=
  Core.isort (fun a b => o.le (key a) (key b)) l

/-! ### `pytd.UnionType(...)` construction: `_FlattenTypes` -/

mutual
/-- Python `==` on type nodes: structural, except that two unions are equal when their member *sets* are
(`_SetOfTypes.__eq__` compares `frozenset(type_list)`), at every depth. -/
def eqU : Ty → Ty → Bool
  | .any, .any => true
  | .nothing, .nothing => true
  | .named a, .named b => a == b
  | .cls a, .cls b => a == b
  | .late a, .late b => a == b
  | .typeParam a s, .typeParam b t => a == b && s == t
  | .generic b1 p1, .generic b2 p2 => eqU b1 b2 && eqUs p1 p2
  | .tuple b1 p1, .tuple b2 p2 => eqU b1 b2 && eqUs p1 p2
  | .callable b1 p1, .callable b2 p2 => eqU b1 b2 && eqUs p1 p2
  | .union a, .union b => subU a b && b.all (fun y => hasU a y)
  | .literal a, .literal b => a == b
  | .annotated t1 a1, .annotated t2 a2 => eqU t1 t2 && a1 == a2
  | _, _ => false
termination_by structural t => t
/-- pointwise `==` of two tuples -/
def eqUs : List Ty → List Ty → Bool
  | [], [] => true
  | x :: xs, y :: ys => eqU x y && eqUs xs ys
  | _, _ => false
termination_by structural l => l
/-- every member of the first list is `==` to some member of the second -/
def subU : List Ty → List Ty → Bool
  | [], _ => true
  | x :: xs, ys => ys.any (fun y => eqU x y) && subU xs ys
termination_by structural l => l
/-- some member of the list is `==` to `y` -/
def hasU : List Ty → Ty → Bool
  | [], _ => false
  | x :: xs, y => eqU x y || hasU xs y
termination_by structural l => l
end

/-- `tuple(dict.fromkeys(xs))`: keep the first of every `==`-class (`seen` = the keys already in the dict). -/
def dedupFrom : List Ty → List Ty → List Ty
  | _, [] => []
  | seen, x :: xs =>
    if seen.any (fun k => eqU k x) then dedupFrom seen xs else x :: dedupFrom (x :: seen) xs

def dedupU (l : List Ty) : List Ty := dedupFrom [] l

/-- `pytd.UnionType(type_list)`: `__post_init__` splices nested unions and drops duplicates, keeping order. -/
def mkUnion (l : List Ty) : Ty := .union (dedupU (flattenUnionMembers l))

/-! ### the visitor -/

section
variable {K : Type} (o : KOrd K) (ks : Keys K)

mutual
/-- types: only `VisitUnionType` does anything; generic parameters keep their order -/
def canonTy : Ty → Ty
  | .generic b ps => .generic (canonTy b) (canonTys ps)
  | .tuple b ps => .tuple (canonTy b) (canonTys ps)
  | .callable b ps => .callable (canonTy b) (canonTys ps)
  | .union ts => mkUnion (sortOn o ks.ty (canonTys ts))
  | .annotated t as => .annotated (canonTy t) as
  | .any => .any
  | .nothing => .nothing
  | .named n => .named n
  | .cls n => .cls n          -- `ClassType.IterChildren` hides `cls`: never descended into
  | .late n => .late n
  | .typeParam n s => .typeParam n s
  | .literal v => .literal v
def canonTys : List Ty → List Ty
  | [] => []
  | t :: ts => canonTy t :: canonTys ts
end

/-- `TypeParameter` / `TemplateItem(type_param)`: children visited, nothing sorted -/
def canonTD (d : TypeParamDecl) : TypeParamDecl :=
  { d with constraints := canonTys o ks d.constraints, bound := d.bound.map (canonTy o ks) }

def canonParam (p : Param) : Param :=
  { p with ty := canonTy o ks p.ty, mutated := p.mutated.map (canonTy o ks) }

/-- `VisitSignature`: `template` and `exceptions` sorted, parameters keep their order -/
def canonSig (s : Sig) : Sig :=
  { params := s.params.map (canonParam o ks)
    starargs := s.starargs.map (canonParam o ks)
    starstarargs := s.starstarargs.map (canonParam o ks)
    ret := canonTy o ks s.ret
    exceptions := sortOn o ks.ty (canonTys o ks s.exceptions)
    template := sortOn o ks.titem (s.template.map (canonTD o ks)) }

/-- no `VisitFunction`: signatures are canonicalised one by one, their order is kept -/
def canonFunc (f : Func) : Func := { f with sigs := f.sigs.map (canonSig o ks) }

def canonConst (c : Const) : Const := { c with ty := canonTy o ks c.ty }

def canonAlias (a : Alias) : Alias := { a with ty := canonTy o ks a.ty }

/-- `Node.name` of a base as `IsNamedTuple` reads it (`GenericType.name` is `base_type.name`; node classes
without a `name` field inherit the class attribute `name = ""`). -/
def baseName : Ty → String
  | .named n => n
  | .cls n => n
  | .late n => n
  | .typeParam n _ => n
  | .generic b _ => baseName b
  | .tuple b _ => baseName b
  | .callable b _ => baseName b
  | _ => ""

/-- `_PreserveConstantsOrdering`: dataclass-like decorator or a NamedTuple base -/
def preserveConstants (decorators : List String) (bases : List Ty) : Bool :=
  decorators.any (fun d => d == "attr.s" || d == "dataclasses.dataclass") ||
  bases.any (fun b => baseName b == "collections.namedtuple" || baseName b == "typing.NamedTuple")

mutual
/-- `VisitClass` (children first) -/
def canonClass : Class → Class
  | .mk name keywords bases methods constants classes decorators slots template =>
    let consts := constants.map (canonConst o ks)
    .mk name
      (keywords.map fun kv => (kv.1, canonTy o ks kv.2))
      (canonTys o ks bases)
      (sortOn o ks.func (methods.map (canonFunc o ks)))
      (if preserveConstants decorators bases then consts else sortOn o ks.const consts)
      (sortOn o ks.cls (canonClasses classes))
      (sortOn o ks.deco decorators)
      (slots.map (sortOn o ks.slot))
      (template.map (canonTD o ks))
def canonClasses : List Class → List Class
  | [] => []
  | c :: cs => canonClass c :: canonClasses cs
end

/-- `VisitTypeDeclUnit` -/
def canonUnit (u : TUnit) : TUnit :=
  { name := u.name
    constants := sortOn o ks.const (u.constants.map (canonConst o ks))
    typeParams := sortOn o ks.tparam (u.typeParams.map (canonTD o ks))
    classes := sortOn o ks.cls (canonClasses o ks u.classes)
    functions := sortOn o ks.func (u.functions.map (canonFunc o ks))
    aliases := sortOn o ks.alias (u.aliases.map (canonAlias o ks)) }

end

/-! ### representation invariant of `UnionType`: flat (the constructor splices nested unions) -/

def isUnion : Ty → Bool
  | .union _ => true
  | _ => false

mutual
def flatTy : Ty → Bool
  | .generic b ps => flatTy b && flatTys ps
  | .tuple b ps => flatTy b && flatTys ps
  | .callable b ps => flatTy b && flatTys ps
  | .union ts => !ts.any isUnion && flatTys ts
  | .annotated t _ => flatTy t
  | _ => true
def flatTys : List Ty → Bool
  | [] => true
  | t :: ts => flatTy t && flatTys ts
end

def flatTD (d : TypeParamDecl) : Bool :=
  flatTys d.constraints && (match d.bound with | some b => flatTy b | none => true)
def flatParam (p : Param) : Bool :=
  flatTy p.ty && (match p.mutated with | some b => flatTy b | none => true)
def flatOptParam : Option Param → Bool
  | some p => flatParam p
  | none => true
def flatSig (s : Sig) : Bool :=
  s.params.all flatParam && flatOptParam s.starargs && flatOptParam s.starstarargs && flatTy s.ret &&
  flatTys s.exceptions && s.template.all flatTD
def flatFunc (f : Func) : Bool := f.sigs.all flatSig

mutual
def flatClass : Class → Bool
  | .mk _ keywords bases methods constants classes _ _ template =>
    keywords.all (fun kv => flatTy kv.2) && flatTys bases && methods.all flatFunc &&
    constants.all (fun c => flatTy c.ty) && flatClasses classes && template.all flatTD
def flatClasses : List Class → Bool
  | [] => true
  | c :: cs => flatClass c && flatClasses cs
end

/-- every `UnionType` in the unit is flat (what `_SetOfTypes.__post_init__` guarantees) -/
def flatUnit (u : TUnit) : Bool :=
  u.constants.all (fun c => flatTy c.ty) && u.typeParams.all flatTD && flatClasses u.classes &&
  u.functions.all flatFunc && u.aliases.all (fun a => flatTy a.ty)

/-! ### a concrete executable key: `(class name, name, printed type …)` as a list of strings

A deliberately **coarse** stand-in for `(type(n).__name__, n._ToTuple())`: the leading components (class
name, then the `name` field) are those of the real key, the rest is a pyi-like rendering that — unlike the
real `repr`-based key — does not separate `NamedType` from `ClassType` below the top level and ignores
signature contents.  It is used for the non-vacuity examples and for `canon_perm_not_full` (a key with
ties between different nodes).  The correspondence runs feed the *real* key values to the model instead
(driver `KEY` lines). -/

/-- lexicographic order on lists of strings (Python's tuple-of-str comparison) -/
def lexLe : List String → List String → Bool
  | [], _ => true
  | _ :: _, [] => false
  | a :: as, b :: bs => if a < b then true else if b < a then false else lexLe as bs

mutual
def showTy : Ty → String
  | .any => "Any"
  | .nothing => "Never"
  | .named n => n
  | .cls n => n
  | .late n => n
  | .typeParam n _ => n
  | .generic b ps => showTy b ++ "[" ++ showTys ps ++ "]"
  | .tuple b ps => showTy b ++ "[" ++ showTys ps ++ "]"
  | .callable b ps => showTy b ++ "[[" ++ showTys ps ++ "]]"
  | .union ts => "Union[" ++ showTys ts ++ "]"
  | .literal (.int n) => "Literal[" ++ toString n ++ "]"
  | .literal (.str s) => "Literal['" ++ s ++ "']"
  | .literal (.bool b) => "Literal[" ++ (if b then "True" else "False") ++ "]"
  | .literal (.enumMember c n) => "Literal[" ++ c ++ "." ++ n ++ "]"
  | .annotated t _ => "Annotated[" ++ showTy t ++ "]"
def showTys : List Ty → String
  | [] => ""
  | [t] => showTy t
  | t :: ts => showTy t ++ ", " ++ showTys ts
end

def tyClassName : Ty → String
  | .any => "AnythingType"
  | .nothing => "NothingType"
  | .named _ => "NamedType"
  | .cls _ => "ClassType"
  | .late _ => "LateType"
  | .typeParam _ _ => "TypeParameter"
  | .generic _ _ => "GenericType"
  | .tuple _ _ => "TupleType"
  | .callable _ _ => "CallableType"
  | .union _ => "UnionType"
  | .literal _ => "Literal"
  | .annotated _ _ => "Annotated"

def pkeyTy (t : Ty) : List String := [tyClassName t, showTy t]

def pkeys : Keys (List String) where
  ty := pkeyTy
  const c := ["Constant", c.name, tyClassName c.ty, showTy c.ty]
  func f := ["Function", f.name, toString f.sigs.length]
  cls c := ["Class", c.name]
  alias a := ["Alias", a.name, tyClassName a.ty, showTy a.ty]
  tparam d := ["TypeParameter", d.name, (d.scope.getD "None")]
  titem d := ["TemplateItem", d.name]
  deco s := ["Alias", s]
  slot s := [s]

/-! ### the two key orders used by the driver (laws proved here so that the driver stays Mathlib-free) -/

theorem str_tri (a b : String) : a < b ∨ a = b ∨ b < a := by
  by_cases h1 : a < b
  · exact .inl h1
  · by_cases h2 : b < a
    · exact .inr (.inr h2)
    · exact .inr (.inl (String.le_antisymm (String.not_lt.1 h2) (String.not_lt.1 h1)))

theorem lexLe_total : ∀ a b : List String, (lexLe a b || lexLe b a) = true
  | [], _ => by simp [lexLe]
  | _ :: _, [] => by simp [lexLe]
  | a :: as, b :: bs => by
    rcases str_tri a b with h | h | h
    · simp [lexLe, h]
    · subst h; simpa [lexLe, String.lt_irrefl] using lexLe_total as bs
    · simp [lexLe, h, String.lt_asymm h]

theorem lexLe_trans : ∀ a b c : List String, lexLe a b = true → lexLe b c = true → lexLe a c = true
  | [], _, _ => by simp [lexLe]
  | _ :: _, [], _ => by simp [lexLe]
  | _ :: _, _ :: _, [] => by simp [lexLe]
  | a :: as, b :: bs, c :: cs => by
    intro h1 h2
    rcases str_tri a b with hab | hab | hab
    · rcases str_tri b c with hbc | hbc | hbc
      · simp [lexLe, String.lt_trans hab hbc]
      · subst hbc; simp [lexLe, hab]
      · simp [lexLe, hbc, String.lt_asymm hbc] at h2
    · subst hab
      rcases str_tri a c with hbc | hbc | hbc
      · simp [lexLe, hbc]
      · subst hbc
        simp only [lexLe, String.lt_irrefl, if_false] at h1 h2 ⊢
        exact lexLe_trans as bs cs h1 h2
      · simp [lexLe, hbc, String.lt_asymm hbc] at h2
    · simp [lexLe, hab, String.lt_asymm hab] at h1

theorem lexLe_antisymm : ∀ a b : List String, lexLe a b = true → lexLe b a = true → a = b
  | [], [] => fun _ _ => rfl
  | [], _ :: _ => by simp [lexLe]
  | _ :: _, [] => by simp [lexLe]
  | a :: as, b :: bs => by
    intro h1 h2
    rcases str_tri a b with hab | hab | hab
    · simp [lexLe, hab, String.lt_asymm hab] at h2
    · subst hab
      simp only [lexLe, String.lt_irrefl, if_false] at h1 h2
      rw [lexLe_antisymm as bs h1 h2]
    · simp [lexLe, hab, String.lt_asymm hab] at h1

/-- tuple-of-strings order -/
def lexOrd : KOrd (List String) := ⟨lexLe, lexLe_total, lexLe_trans, lexLe_antisymm⟩

/-- natural numbers (ranks of real keys, driver `KT` mode) -/
def natOrd : KOrd Nat where
  le a b := Nat.ble a b
  total a b := by simp [Nat.ble_eq]; omega
  trans a b c := by simp [Nat.ble_eq]; omega
  antisymm a b := by simp [Nat.ble_eq]; omega

/-! ### ties: the checkable condition "no two elements of a sorted collection have the same key" -/

/-- no two elements (at different positions) of `l` have keys that compare equal -/
def noTies {K α : Type} (o : KOrd K) (key : α → K) : List α → Bool
  | [] => true
  | a :: l => l.all (fun b => !(o.le (key a) (key b) && o.le (key b) (key a))) && noTies o key l

section
variable {K : Type} (o : KOrd K) (ks : Keys K)

/-! `tiesFree… x`: in every `sorted(...)` call that canonicalising `x` performs, at every depth, the
(already canonicalised) elements have pairwise different keys.  This is the executable, keys-only
sufficient condition for the hypothesis `KeyInj` of `canon_perm` ("ties are identical"). -/

mutual
def tiesFreeTy : Ty → Bool
  | .generic b ps => tiesFreeTy b && tiesFreeTys ps
  | .tuple b ps => tiesFreeTy b && tiesFreeTys ps
  | .callable b ps => tiesFreeTy b && tiesFreeTys ps
  | .union ts => noTies o ks.ty (canonTys o ks ts) && tiesFreeTys ts
  | .annotated t _ => tiesFreeTy t
  | _ => true
def tiesFreeTys : List Ty → Bool
  | [] => true
  | t :: ts => tiesFreeTy t && tiesFreeTys ts
end

def tiesFreeOptTy : Option Ty → Bool
  | some t => tiesFreeTy o ks t
  | none => true
def tiesFreeTD (d : TypeParamDecl) : Bool := tiesFreeTys o ks d.constraints && tiesFreeOptTy o ks d.bound
def tiesFreeParam (p : Param) : Bool := tiesFreeTy o ks p.ty && tiesFreeOptTy o ks p.mutated
def tiesFreeOptParam : Option Param → Bool
  | some p => tiesFreeParam o ks p
  | none => true
def tiesFreeSig (s : Sig) : Bool :=
  s.params.all (tiesFreeParam o ks) && tiesFreeOptParam o ks s.starargs &&
  tiesFreeOptParam o ks s.starstarargs && tiesFreeTy o ks s.ret &&
  noTies o ks.ty (canonTys o ks s.exceptions) && tiesFreeTys o ks s.exceptions &&
  noTies o ks.titem (s.template.map (canonTD o ks)) && s.template.all (tiesFreeTD o ks)
def tiesFreeFunc (f : Func) : Bool := f.sigs.all (tiesFreeSig o ks)
def tiesFreeConst (c : Const) : Bool := tiesFreeTy o ks c.ty
def tiesFreeAlias (a : Alias) : Bool := tiesFreeTy o ks a.ty

mutual
def tiesFreeClass : Class → Bool
  | .mk _ keywords bases methods constants classes decorators slots template =>
    keywords.all (fun kv => tiesFreeTy o ks kv.2) && tiesFreeTys o ks bases &&
    noTies o ks.func (methods.map (canonFunc o ks)) && methods.all (tiesFreeFunc o ks) &&
    (preserveConstants decorators bases || noTies o ks.const (constants.map (canonConst o ks))) &&
    constants.all (tiesFreeConst o ks) &&
    noTies o ks.cls (canonClasses o ks classes) && tiesFreeClasses classes &&
    noTies o ks.deco decorators &&
    (match slots with | some sl => noTies o ks.slot sl | none => true) &&
    template.all (tiesFreeTD o ks)
def tiesFreeClasses : List Class → Bool
  | [] => true
  | c :: cs => tiesFreeClass c && tiesFreeClasses cs
end

def tiesFreeUnit (u : TUnit) : Bool :=
  noTies o ks.const (u.constants.map (canonConst o ks)) && u.constants.all (tiesFreeConst o ks) &&
  noTies o ks.tparam (u.typeParams.map (canonTD o ks)) && u.typeParams.all (tiesFreeTD o ks) &&
  noTies o ks.cls (canonClasses o ks u.classes) && tiesFreeClasses o ks u.classes &&
  noTies o ks.func (u.functions.map (canonFunc o ks)) && u.functions.all (tiesFreeFunc o ks) &&
  noTies o ks.alias (u.aliases.map (canonAlias o ks)) && u.aliases.all (tiesFreeAlias o ks)

end

end PytypeModel.Pytd.Canon
