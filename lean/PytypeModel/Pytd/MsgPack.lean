/-! # MessagePack — the subset msgspec emits for pytd structs (C12)

Bytes are modelled as `Nat`s (`encodeMP` only ever produces numbers `< 256`, theorem
`encodeMP_bytes` in `Proofs/CodecMP.lean`; string payloads are copied verbatim).  A `str` carries its
UTF-8 bytes: msgpack lengths are byte lengths.  `float`, `bin`, `ext` are never produced for pytd nodes
(no `float`/`bytes` field exists) and are rejected by the decoder.

Formats (msgspec 0.18 `mpack_encode_*`, checked byte-for-byte by the harness):
* int ≥ 0 : positive fixint `<128`, `cc` u8, `cd` u16, `ce` u32, `cf` u64 — always the *smallest unsigned*;
* int < 0 : negative fixint `≥ -32`, `d0` i8, `d1` i16, `d2` i32, `d3` i64 — the smallest signed;
* str : fixstr `<32`, `d9` str8, `da` str16, `db` str32;
* array : fixarray `<16`, `dc` array16, `dd` array32;  map : fixmap `<16`, `de` map16, `df` map32.
The decoder accepts every one of these formats (also non-minimal ones, like msgspec). -/
namespace PytypeModel.Pytd

abbrev Bytes := List Nat

inductive MP where
  | nil
  | bool (b : Bool)
  | int (i : Int)
  | str (s : Bytes)
  | arr (xs : List MP)
  | map (kvs : List (MP × MP))
  deriving Repr, Inhabited

/-! ### big-endian fixed-width numbers -/

/-- `k` big-endian bytes of `n` (most significant first). -/
def beBytes : Nat → Nat → Bytes
  | 0, _ => []
  | k + 1, n => beBytes k (n / 256) ++ [n % 256]

def beVal (bs : Bytes) : Nat := bs.foldl (fun a b => a * 256 + b) 0

/-- the first `k` bytes and the rest; `none` if fewer than `k` are left -/
def splitExact : Nat → Bytes → Option (Bytes × Bytes)
  | 0, bs => some ([], bs)
  | _ + 1, [] => none
  | k + 1, b :: bs => (splitExact k bs).map fun (a, r) => (b :: a, r)

/-- reads `k` bytes as a big-endian number -/
def readBE (k : Nat) (bs : Bytes) : Option (Nat × Bytes) :=
  (splitExact k bs).map fun (a, r) => (beVal a, r)

def readBytes (k : Nat) (bs : Bytes) : Option (Bytes × Bytes) := splitExact k bs

/-! ### encoder -/

def encInt (i : Int) : Bytes :=
  if 0 ≤ i then
    let n := i.toNat
    if n < 128 then [n]
    else if n < 2 ^ 8 then 0xcc :: beBytes 1 n
    else if n < 2 ^ 16 then 0xcd :: beBytes 2 n
    else if n < 2 ^ 32 then 0xce :: beBytes 4 n
    else 0xcf :: beBytes 8 n
  else
    if -32 ≤ i then [(256 + i).toNat]
    else if -(2 ^ 7) ≤ i then 0xd0 :: beBytes 1 (2 ^ 8 + i).toNat
    else if -(2 ^ 15) ≤ i then 0xd1 :: beBytes 2 (2 ^ 16 + i).toNat
    else if -(2 ^ 31) ≤ i then 0xd2 :: beBytes 4 (2 ^ 32 + i).toNat
    else 0xd3 :: beBytes 8 (2 ^ 64 + i).toNat

def strHead (n : Nat) : Bytes :=
  if n < 32 then [0xa0 + n]
  else if n < 2 ^ 8 then 0xd9 :: beBytes 1 n
  else if n < 2 ^ 16 then 0xda :: beBytes 2 n
  else 0xdb :: beBytes 4 n

def arrHead (n : Nat) : Bytes :=
  if n < 16 then [0x90 + n]
  else if n < 2 ^ 16 then 0xdc :: beBytes 2 n
  else 0xdd :: beBytes 4 n

def mapHead (n : Nat) : Bytes :=
  if n < 16 then [0x80 + n]
  else if n < 2 ^ 16 then 0xde :: beBytes 2 n
  else 0xdf :: beBytes 4 n

mutual
def encodeMP : MP → Bytes
  | .nil => [0xc0]
  | .bool false => [0xc2]
  | .bool true => [0xc3]
  | .int i => encInt i
  | .str s => strHead s.length ++ s
  | .arr xs => arrHead xs.length ++ encodeList xs
  | .map kvs => mapHead kvs.length ++ encodeKVs kvs
def encodeList : List MP → Bytes
  | [] => []
  | x :: xs => encodeMP x ++ encodeList xs
def encodeKVs : List (MP × MP) → Bytes
  | [] => []
  | (k, v) :: r => encodeMP k ++ (encodeMP v ++ encodeKVs r)
end

/-! ### what can be encoded: msgspec raises OverflowError outside the 64-bit int range; lengths are
32-bit in the format -/

mutual
def MP.wf : MP → Bool
  | .nil => true
  | .bool _ => true
  | .int i => decide (-(2 ^ 63) ≤ i) && decide (i < 2 ^ 64)
  | .str s => decide (s.length < 2 ^ 32)
  | .arr xs => decide (xs.length < 2 ^ 32) && MP.wfList xs
  | .map kvs => decide (kvs.length < 2 ^ 32) && MP.wfKVs kvs
def MP.wfList : List MP → Bool
  | [] => true
  | x :: xs => x.wf && MP.wfList xs
def MP.wfKVs : List (MP × MP) → Bool
  | [] => true
  | (k, v) :: r => k.wf && (v.wf && MP.wfKVs r)
end

/-! payload bytes are bytes -/
mutual
def MP.bytesOk : MP → Bool
  | .str s => s.all (· < 256)
  | .arr xs => MP.bytesOkList xs
  | .map kvs => MP.bytesOkKVs kvs
  | _ => true
def MP.bytesOkList : List MP → Bool
  | [] => true
  | x :: xs => x.bytesOk && MP.bytesOkList xs
def MP.bytesOkKVs : List (MP × MP) → Bool
  | [] => true
  | (k, v) :: r => k.bytesOk && (v.bytesOk && MP.bytesOkKVs r)
end

/-! ### decoder (fuel = structural recursion; `decodeMP` supplies enough, see `decF_complete`) -/

def signedOf (bits : Nat) (n : Nat) : Int :=
  if n < 2 ^ (bits - 1) then (n : Int) else (n : Int) - (2 ^ bits : Nat)

mutual
def decF : Nat → Bytes → Option (MP × Bytes)
  | 0, _ => none
  | _ + 1, [] => none
  | f + 1, b :: bs =>
    if b < 0x80 then some (.int b, bs)
    else if b < 0x90 then (decKVs f (b - 0x80) bs).map fun (kvs, r) => (.map kvs, r)
    else if b < 0xa0 then (decList f (b - 0x90) bs).map fun (xs, r) => (.arr xs, r)
    else if b < 0xc0 then (readBytes (b - 0xa0) bs).map fun (s, r) => (.str s, r)
    else if b = 0xc0 then some (.nil, bs)
    else if b = 0xc2 then some (.bool false, bs)
    else if b = 0xc3 then some (.bool true, bs)
    else if b = 0xcc then (readBE 1 bs).map fun (n, r) => (.int n, r)
    else if b = 0xcd then (readBE 2 bs).map fun (n, r) => (.int n, r)
    else if b = 0xce then (readBE 4 bs).map fun (n, r) => (.int n, r)
    else if b = 0xcf then (readBE 8 bs).map fun (n, r) => (.int n, r)
    else if b = 0xd0 then (readBE 1 bs).map fun (n, r) => (.int (signedOf 8 n), r)
    else if b = 0xd1 then (readBE 2 bs).map fun (n, r) => (.int (signedOf 16 n), r)
    else if b = 0xd2 then (readBE 4 bs).map fun (n, r) => (.int (signedOf 32 n), r)
    else if b = 0xd3 then (readBE 8 bs).map fun (n, r) => (.int (signedOf 64 n), r)
    else if b = 0xd9 then (readBE 1 bs).bind fun (n, r) => (readBytes n r).map fun (s, r) => (.str s, r)
    else if b = 0xda then (readBE 2 bs).bind fun (n, r) => (readBytes n r).map fun (s, r) => (.str s, r)
    else if b = 0xdb then (readBE 4 bs).bind fun (n, r) => (readBytes n r).map fun (s, r) => (.str s, r)
    else if b = 0xdc then (readBE 2 bs).bind fun (n, r) => (decList f n r).map fun (xs, r) => (.arr xs, r)
    else if b = 0xdd then (readBE 4 bs).bind fun (n, r) => (decList f n r).map fun (xs, r) => (.arr xs, r)
    else if b = 0xde then (readBE 2 bs).bind fun (n, r) => (decKVs f n r).map fun (kvs, r) => (.map kvs, r)
    else if b = 0xdf then (readBE 4 bs).bind fun (n, r) => (decKVs f n r).map fun (kvs, r) => (.map kvs, r)
    else if 0xe0 ≤ b ∧ b < 0x100 then some (.int ((b : Int) - 256), bs)
    else none
def decList : Nat → Nat → Bytes → Option (List MP × Bytes)
  | _, 0, bs => some ([], bs)
  | 0, _ + 1, _ => none
  | f + 1, n + 1, bs =>
    (decF f bs).bind fun (x, r) => (decList f n r).map fun (xs, r') => (x :: xs, r')
def decKVs : Nat → Nat → Bytes → Option (List (MP × MP) × Bytes)
  | _, 0, bs => some ([], bs)
  | 0, _ + 1, _ => none
  | f + 1, n + 1, bs =>
    (decF f bs).bind fun (k, r) => (decF f r).bind fun (v, r') =>
      (decKVs f n r').map fun (kvs, r'') => ((k, v) :: kvs, r'')
end

/-- decode one value from the front of `bs`; returns it and the unread rest -/
def decodeMP (bs : Bytes) : Option (MP × Bytes) := decF (2 * bs.length) bs

/-! ### equality test (nested inductive: no derive handler) -/
mutual
def MP.beq : MP → MP → Bool
  | .nil, .nil => true
  | .bool a, .bool b => a == b
  | .int a, .int b => a == b
  | .str a, .str b => a == b
  | .arr a, .arr b => MP.beqList a b
  | .map a, .map b => MP.beqKVs a b
  | _, _ => false
def MP.beqList : List MP → List MP → Bool
  | [], [] => true
  | x :: xs, y :: ys => MP.beq x y && MP.beqList xs ys
  | _, _ => false
def MP.beqKVs : List (MP × MP) → List (MP × MP) → Bool
  | [], [] => true
  | (k, v) :: xs, (k', v') :: ys => MP.beq k k' && (MP.beq v v' && MP.beqKVs xs ys)
  | _, _ => false
end

instance : BEq MP := ⟨MP.beq⟩

end PytypeModel.Pytd
