import PytypeModel.Pytd.Types

/-!
# C05 model, part 1: `pytype/pytd/printer.py` `PrintVisitor` as a function to a syntax tree

Core Lean only.  `pytd_utils.Print(unit)` produces *text*; the step text ↔ tree (tokenising,
precedence, indentation) is CPython's `ast.parse` and is **trusted** — the harness checks for every
case that `ast.parse(real printer text)` is exactly the tree computed here.

printer.py                                         here
-------------------------------------------------  -------------------------------------------
VisitNamedType/ClassType/LateType                  `nameExpr` (via `classify`)
VisitAnythingType / NothingType / TypeParameter    `tyExpr` (`Any`, `nothing`, name)
VisitGenericType (`tuple[X, ...]`, `Callable[..., R]`, `tuple[()]`)   `tyExpr` `.generic` / `.tuple`
VisitCallableType (`Callable[[a, b], r]`)          `tyExpr` `.callable`
VisitUnionType = _FormSetTypeList + _BuildUnion    `formSetTypeList` (dedupe, pep484 compat elision in
                                                    parameters), `buildUnion` (Literal/Optional/Union sugar)
VisitLiteral / VisitAnnotated                      `tyExpr` `.literal` / `.annotated`
_FromTyping + _TypingImports (counts, net effect)  `tyAdds` … `unitAdds`, `typingImports`
VisitParameter (Any / self / cls elision)          `paramArg`, `selfElided`, `clsElided`
VisitSignature (`/`, `*`, `*args`, `**kw`, body)   `sigArgs`, `starArg`, `sigBody`, `retExpr`
VisitFunction (decorators, one def per signature)  `funcDecorators`, `funcStmts`
VisitClass (bases, `object` dropped, body order)   `classStmt`
VisitConstant / VisitAlias / _FormatTypeParams     `constStmt`, `aliasStmt`, `typeParamStmt`
VisitTypeDeclUnit (section order, import block)    `printUnit`

What is **not** modelled (excluded by `Modelled` in PyiConvert.lean): name collisions
(`_NameCollision` → `typing.X` / `import typing`), module imports guessed for dotted external names,
ParamSpec/Concatenate, class keywords and decorators, function decorators other than the built-in
ones, exceptions (`raise`), `__slots__`-less TypedDict functional form, `_DropTypingConstant`.
-/
namespace PytypeModel.Pytd

/-! ## syntax trees (what `ast.parse` returns for printer text) -/

/-- expressions that occur in printed stubs -/
inductive PyExpr
  | name (id : String)
  | attr (e : PyExpr) (a : String)          -- `e.a`
  | sub (e : PyExpr) (args : List PyExpr)   -- `e[a]` (one arg) / `e[a, b]` (slice is a Tuple)
  | list (es : List PyExpr)                 -- `[a, b]` (Callable argument list)
  | emptyTuple                              -- `()`  (in `tuple[()]`)
  | ellipsis                                -- `...`
  | none                                    -- `None`
  | int (n : Int)                           -- negative: `UnaryOp(USub, Constant)`
  | str (s : String)
  | bool (b : Bool)
  deriving Repr, Inhabited

mutual
def PyExpr.beq : PyExpr → PyExpr → Bool
  | .name a, .name b => a == b
  | .attr e a, .attr f b => e.beq f && a == b
  | .sub e as, .sub f bs => e.beq f && PyExpr.beqList as bs
  | .list as, .list bs => PyExpr.beqList as bs
  | .emptyTuple, .emptyTuple => true
  | .ellipsis, .ellipsis => true
  | .none, .none => true
  | .int a, .int b => a == b
  | .str a, .str b => a == b
  | .bool a, .bool b => a == b
  | _, _ => false
def PyExpr.beqList : List PyExpr → List PyExpr → Bool
  | [], [] => true
  | a :: as, b :: bs => a.beq b && PyExpr.beqList as bs
  | _, _ => false
end

mutual
theorem PyExpr.beq_iff : ∀ (a b : PyExpr), a.beq b = true ↔ a = b
  | .name a, b => by cases b <;> simp [PyExpr.beq]
  | .attr e a, b => by cases b <;> simp [PyExpr.beq, PyExpr.beq_iff e]
  | .sub e as, b => by cases b <;> simp [PyExpr.beq, PyExpr.beq_iff e, PyExpr.beqList_iff as]
  | .list as, b => by cases b <;> simp [PyExpr.beq, PyExpr.beqList_iff as]
  | .emptyTuple, b => by cases b <;> simp [PyExpr.beq]
  | .ellipsis, b => by cases b <;> simp [PyExpr.beq]
  | .none, b => by cases b <;> simp [PyExpr.beq]
  | .int a, b => by cases b <;> simp [PyExpr.beq]
  | .str a, b => by cases b <;> simp [PyExpr.beq]
  | .bool a, b => by cases b <;> simp [PyExpr.beq]
theorem PyExpr.beqList_iff : ∀ (as bs : List PyExpr), PyExpr.beqList as bs = true ↔ as = bs
  | [], bs => by cases bs <;> simp [PyExpr.beqList]
  | a :: as, bs => by cases bs <;> simp [PyExpr.beqList, PyExpr.beq_iff a, PyExpr.beqList_iff as]
end

instance : DecidableEq PyExpr := fun a b => decidable_of_iff _ (PyExpr.beq_iff a b)

/-- one formal parameter; `dflt` = it is followed by `= ...` -/
structure PyArg where
  name : String
  ann : Option PyExpr := none
  dflt : Bool := false
  deriving Repr, Inhabited, DecidableEq

/-- `ast.arguments`; defaults are kept per parameter (`ast` keeps them right-aligned, which is the
same information once the text parses; text where a positional parameter without default follows one
with a default does not parse at all — see `PyiConvert.argsSyntaxOk`). -/
structure PyArgs where
  posonly : List PyArg := []
  args : List PyArg := []
  vararg : Option PyArg := none
  kwonly : List PyArg := []
  kwarg : Option PyArg := none
  deriving Repr, Inhabited, DecidableEq

/-- statements that occur in printed stubs -/
inductive PyStmt
  | importFrom (module : String) (names : List (String × Option String))
  | import_ (module : String) (asname : Option String)
  /-- `T = TypeVar('T', c₁, …, bound=b)` : `Assign([Name T], Call(func, [Constant name, c…], [bound=b]))` -/
  | typeVarDef (target : String) (func : PyExpr) (nameArg : String) (constraints : List PyExpr)
      (bound : Option PyExpr)
  | assign (target : String) (value : PyExpr)
  | annAssign (target : String) (ann : PyExpr) (value : Option PyExpr)
  | funcDef (name : String) (decorators : List PyExpr) (args : PyArgs) (returns : PyExpr)
      (body : List PyStmt)
  | classDef (name : String) (bases : List PyExpr) (decorators : List PyExpr) (body : List PyStmt)
  | ellipsisStmt                            -- `...` as the whole body
  | raise (e : PyExpr)
  deriving Repr, Inhabited

abbrev PyModule := List PyStmt

/-! ## names -/

/-- split at `'.'` (`str.split('.')`); `acc` is the current component, reversed -/
def splitDotsL : List Char → List Char → List String
  | acc, [] => [String.ofList acc.reverse]
  | acc, c :: cs => if c = '.' then String.ofList acc.reverse :: splitDotsL [] cs else splitDotsL (c :: acc) cs

/-- the dotted components of a name -/
def comps (s : String) : List String := splitDotsL [] s.toList

/-- `".".join(l)` -/
def joinDots : List String → String
  | [] => ""
  | [a] => a
  | a :: b :: rest => a ++ "." ++ joinDots (b :: rest)

/-- what `VisitNamedType` distinguishes (`prefix, _, suffix = name.rpartition(".")`) -/
inductive NameKind
  | simple (x : String)         -- no dot
  | builtin (x : String)        -- `builtins.x`
  | typing (x : String)         -- `typing.x`
  | dotted (cs : List String)   -- anything else with a dot
  deriving Repr, DecidableEq, Inhabited

def classifyC : List String → NameKind
  | [x] => .simple x
  | ["builtins", x] => .builtin x
  | ["typing", x] => .typing x
  | cs => .dotted cs

def classify (n : String) : NameKind := classifyC (comps n)

/-- `a.b.c` as nested `Attribute` nodes -/
def dottedExpr : List String → PyExpr
  | [] => .name ""
  | x :: xs => xs.foldl (fun e a => .attr e a) (.name x)

/-- the text `NoneType` is printed as `None` ("PEP 484 allows this special abbreviation"), and the
text `None` is a constant, not a name, for `ast.parse` -/
def simpleNameExpr (x : String) : PyExpr :=
  if x = "NoneType" ∨ x = "None" then .none else .name x

/-- `VisitNamedType` (no collision, dotted names found in the unit): the printed name -/
def nameExpr (n : String) : PyExpr :=
  match classify n with
  | .simple x => simpleNameExpr x
  | .builtin x => simpleNameExpr x
  | .typing x => simpleNameExpr x
  | .dotted cs => dottedExpr cs

/-- the `typing` member requested through `_FromTyping` when a named type is printed -/
def nameAdds (n : String) : List String :=
  match classify n with
  | .typing x => [x]
  | _ => []

/-- `GenericType.name` = `base_type.name` -/
def tyBaseName : Ty → String
  | .named n => n
  | .cls n => n
  | .late n => n
  | _ => ""

/-! ## unions: `_FormSetTypeList`, `_BuildUnion` -/

/-- `pep484._COMPAT_ITEMS` (checked against the real table by the harness on every run) -/
def compatItems : List (String × String) :=
  [("int", "float"), ("int", "complex"), ("float", "complex"), ("bytearray", "bytes"),
   ("memoryview", "bytes")]

/-- the members deleted by
`for compat, name in items: if compat in type_list and name in type_list: del type_list[compat]`
(sequential: a member already deleted is no longer "in"); `d` = deleted so far -/
def compatDrop (es : List PyExpr) : List (String × String) → List PyExpr → List PyExpr
  | [], d => d
  | (c, n) :: rest, d =>
    let has := fun (x : String) => es.contains (.name x) && !d.contains (.name x)
    compatDrop es rest (if has c && has n then .name c :: d else d)

section SetTypeList
variable {α : Type}

/-- order-preserving de-duplication by printed form, first occurrence kept (`dict.fromkeys` on the
printed members) -/
def dedupK (key : α → PyExpr) : List α → List α
  | [] => []
  | x :: xs => x :: (dedupK key xs).filter (fun y => key y ≠ key x)

/-- `_FormSetTypeList`: de-duplicate, and inside a parameter drop the pep484 compat members.
Generic in what carries the printed member `key a`: the printer applies it to the printed members
themselves, `norm` to normalised types (a member is identified by how it prints). -/
def formSetK (key : α → PyExpr) (inParam : Bool) (xs : List α) : List α :=
  let xs := dedupK key xs
  if inParam then xs.filter (fun a => !(compatDrop (xs.map key) compatItems []).contains (key a)) else xs

end SetTypeList

def formSetTypeList (inParam : Bool) (es : List PyExpr) : List PyExpr := formSetK id inParam es

/-- `re.fullmatch(r"Literal\[(?P<content>.*)\]", t)`: the printed member is `Literal[…]` -/
def litArgs : PyExpr → Option (List PyExpr)
  | .sub (.name "Literal") args => some args
  | _ => none

def isLitE (e : PyExpr) : Bool := (litArgs e).isSome

/-- `Union[…]` unless a single member is left -/
def unionOf : List PyExpr → PyExpr
  | [x] => x
  | l => .sub (.name "Union") l

/-- `_BuildUnion` as a function of what it extracts from the (duplicate-free) member list: the members
that are neither `Literal[…]` nor `None` in order, the contents of the `Literal[…]` members, and whether
`None` is a member.  `new_type_list` is `non` (with `None` somewhere in it) followed by one
`Literal[c₁, …]`; a single entry is returned as it is, `None` turns the rest into `Optional[…]` (the
recursive call regroups the literals again, which changes nothing), otherwise `Union[…]`. -/
def buildUnion3 (non : List PyExpr) (lits : List (List PyExpr)) (hasNone : Bool) : PyExpr :=
  let l := non ++ (if lits.isEmpty then [] else [.sub (.name "Literal") lits.flatten])
  if hasNone then (if l.isEmpty then .none else .sub (.name "Optional") [unionOf l]) else unionOf l

def buildUnion (es : List PyExpr) : PyExpr :=
  buildUnion3 (es.filter (fun e => !isLitE e && e ≠ .none)) (es.filterMap litArgs) (es.contains .none)

/-- the `_FromTyping` requests made by `_BuildUnion` -/
def buildUnionAdds3 (non : List PyExpr) (lits : List (List PyExpr)) (hasNone : Bool) : List String :=
  let l := non ++ (if lits.isEmpty then [] else [PyExpr.sub (.name "Literal") lits.flatten])
  (if hasNone ∧ ¬ l.isEmpty then ["Optional"] else []) ++ (match l with | [_] => [] | [] => [] | _ => ["Union"])

def buildUnionAdds (es : List PyExpr) : List String :=
  buildUnionAdds3 (es.filter (fun e => !isLitE e && e ≠ .none)) (es.filterMap litArgs) (es.contains .none)

/-! ## types -/

def litExpr : Lit → PyExpr
  | .int n => .int n
  | .str s => .str s
  | .bool b => .bool b
  | .enumMember c m => .attr (dottedExpr (comps c)) m

/-- `'text'` → `text` for annotation strings such as `'property'` -/
def unquote (s : String) : Option String :=
  match s.toList with
  | '\'' :: rest =>
    match rest.reverse with
    | '\'' :: mid => some (String.ofList mid.reverse)
    | _ => none
  | _ => none

def annExpr (s : String) : PyExpr :=
  match unquote s with
  | some c => .str c
  | none => .name s

mutual
/-- the printed type (`inParam` = `PrintVisitor.in_parameter`) -/
def tyExpr (inParam : Bool) : Ty → PyExpr
  | .any => .name "Any"
  | .nothing => .name "nothing"
  | .named n => nameExpr n
  | .cls n => nameExpr n
  | .late n => nameExpr n
  | .typeParam n _ => .name n
  | .generic b ps =>
    let be := tyExpr inParam b
    let pes := tyExprs inParam ps
    if be = .name "tuple" then .sub be (pes ++ [.ellipsis])            -- _NeedsTupleEllipsis
    else if tyBaseName b = "typing.Callable" then .sub be (.ellipsis :: pes.tail)  -- _NeedsCallableEllipsis
    else .sub be pes
  | .tuple b ps =>
    let be := tyExpr inParam b
    match ps with
    | [] => .sub be [.emptyTuple]                                     -- _IsEmptyTuple
    | _ => .sub be (tyExprs inParam ps)
  | .callable b ps =>
    let pes := tyExprs inParam ps
    .sub (tyExpr inParam b) [.list pes.dropLast, pes.getLastD (.name "")]
  | .union ts => buildUnion (formSetTypeList inParam (tyExprs inParam ts))
  | .literal v => .sub (.name "Literal") [litExpr v]
  | .annotated t as => .sub (.name "Annotated") (tyExpr inParam t :: as.map annExpr)
def tyExprs (inParam : Bool) : List Ty → List PyExpr
  | [] => []
  | t :: ts => tyExpr inParam t :: tyExprs inParam ts
end

mutual
/-- The `typing` members whose use count the visit of the type leaves positive (`_FromTyping` requests
minus `decrement_typing_count` calls): `Callable[Any, R]` is printed `Callable[..., R]` and its `Any` is
counted and un-counted again. -/
def tyAdds (inParam : Bool) : Ty → List String
  | .any => ["Any"]
  | .nothing => []
  | .named n => nameAdds n
  | .cls n => nameAdds n
  | .late n => nameAdds n
  | .typeParam _ _ => []
  | .generic b ps =>
    tyAdds inParam b ++
      (match ps with
       | [] => []
       | p :: rest =>
         if tyBaseName b = "typing.Callable" ∧ ¬ (tyExpr inParam b = .name "tuple") then tysAdds inParam rest
         else tyAdds inParam p ++ tysAdds inParam rest)
  | .tuple b ps => tyAdds inParam b ++ tysAdds inParam ps
  | .callable b ps => tyAdds inParam b ++ tysAdds inParam ps
  | .union ts => tysAdds inParam ts ++ buildUnionAdds (formSetTypeList inParam (tyExprs inParam ts))
  | .literal _ => ["Literal"]
  | .annotated t _ => tyAdds inParam t ++ ["Annotated"]
def tysAdds (inParam : Bool) : List Ty → List String
  | [] => []
  | t :: ts => tyAdds inParam t ++ tysAdds inParam ts
end

/-! ## parameters and signatures -/

/-- text before the first `[` of a printed type (`_strip_generics`), for name-like heads -/
def exprHead : PyExpr → Option (List String)
  | .name x => some [x]
  | .attr e a => (exprHead e).map (· ++ [a])
  | .sub e _ => exprHead e
  | _ => none

mutual
/-- `"." in text` for a printed type -/
def exprHasDot : PyExpr → Bool
  | .name x => x.toList.contains '.'
  | .attr _ _ => true
  | .sub e as => exprHasDot e || exprsHaveDot as
  | .list es => exprsHaveDot es
  | .ellipsis => true
  | .str s => s.toList.contains '.'
  | _ => false
def exprsHaveDot : List PyExpr → Bool
  | [] => false
  | e :: es => exprHasDot e || exprsHaveDot es
end

/-- `class_name()` inside `VisitParameter`: the innermost class name, or the joined path of the
enclosing classes when the printed type contains a dot and the class name does not -/
def className (path : List String) (e : PyExpr) : List String :=
  match path.getLast? with
  | none => []
  | some last => if exprHasDot e then path else [last]

/-- `node.name == "self" and class_name() == _strip_generics(node.type)` -/
def selfElided (path : List String) (name : String) (e : PyExpr) : Bool :=
  name = "self" && path ≠ [] && exprHead e = some (className path e)

/-- `node.name == "cls" and re.fullmatch(rf"(?:Type|type)\[{class_name()}(?:\[.+\])?\]", node.type)`
for a `type[…]` with one argument -/
def clsElided (path : List String) (name : String) (e : PyExpr) : Bool :=
  name = "cls" && path ≠ [] &&
    (match e with
     | .sub (.name h) [a] => (h = "type" || h = "Type") && exprHead a = some (className path e)
     | _ => false)

/-- `VisitParameter` (class context `path`; the empty path also stands for the copied visitor used by
`_FormatContainerContents`, whose `class_names` is empty) -/
def paramArg (path : List String) (p : Param) : PyArg :=
  let e := tyExpr true p.ty
  if p.ty = .any then { name := p.name, ann := none, dflt := p.optional }
  else if selfElided path p.name e || clsElided path p.name e then
    { name := p.name, ann := none, dflt := p.optional }
  else { name := p.name, ann := some e, dflt := p.optional }

/-- net typing uses of a parameter: an elided annotation (`Any`, `self`, `cls`) is counted by the visit of
the type and un-counted by `VisitParameter`.  (`_DecrementParameterImports` un-counts by a regular-expression
search of the annotation's text; `Modelled` requires the arguments of an elided generic `self`/`cls`
annotation to be plain names, where both sides are zero.) -/
def paramAdds (path : List String) (p : Param) : List String :=
  (if p.ty = .any ∨ selfElided path p.name (tyExpr true p.ty) ∨ clsElided path p.name (tyExpr true p.ty)
   then [] else tyAdds true p.ty) ++
  (match p.mutated with | some m => tyAdds true m | none => [])

def isGenericLike : Ty → Option (Ty × List Ty)
  | .generic b ps => some (b, ps)
  | .tuple b ps => some (b, ps)
  | .callable b ps => some (b, ps)
  | _ => none

/-- `_FormatContainerContents`: `*args: tuple[X]` is printed `*args: X`, anything non-generic as the
bare name -/
def starArg (p : Param) : PyArg :=
  match isGenericLike p.ty with
  | some (_, ps) => paramArg [] { p with ty := ps.getLastD .any, optional := false }
  | none => { name := p.name, ann := none, dflt := false }

/-- net typing uses of `*args` / `**kwargs`: the container's parameters before the last are visited but
not printed; a last parameter `Any` is un-counted; the `Tuple`/`Dict` decrement never has a matching
request in `Modelled` units (no `typing.Tuple`/`typing.Dict` names). -/
def starAdds (path : List String) (p : Param) : List String :=
  match isGenericLike p.ty with
  | some (b, ps) =>
    tyAdds true b ++ tysAdds true ps.dropLast ++
      (match ps.getLast? with | some .any => [] | some l => tyAdds true l | none => [])
  | none => paramAdds path p

/-- `VisitSignature` puts the parameters "in the right order"; for kinds in the order
posonly* regular* kwonly* the text parses to these `ast.arguments` -/
def sigArgs (path : List String) (s : Sig) : PyArgs :=
  { posonly := (s.params.filter (·.kind = .posOnly)).map (paramArg path)
    args := (s.params.filter (·.kind = .regular)).map (paramArg path)
    vararg := s.starargs.map starArg
    kwonly := (s.params.filter (·.kind = .kwOnly)).map (paramArg path)
    kwarg := s.starstarargs.map starArg }

/-- `-> T`; `nothing` is printed as `Never` -/
def retExpr (t : Ty) : PyExpr :=
  if tyExpr false t = .name "nothing" then .name "Never" else tyExpr false t

/-- the body: `x = NewType` for mutated parameters, `raise E()` for exceptions, else `...` -/
def sigBody (s : Sig) : List PyStmt :=
  let muts := s.params.filterMap (fun p => p.mutated.map (fun m => PyStmt.assign p.name (tyExpr false m)))
  let raises := s.exceptions.map (fun e => PyStmt.raise (tyExpr false e))
  if muts.isEmpty && raises.isEmpty then [.ellipsisStmt] else muts ++ raises

def optParamList (p : Option Param) : List Param := match p with | some x => [x] | none => []

def sigAdds (path : List String) (s : Sig) : List String :=
  (s.params.map (paramAdds path)).flatten ++ ((optParamList s.starargs).map (starAdds path)).flatten ++
  ((optParamList s.starstarargs).map (starAdds path)).flatten ++ tyAdds false s.ret ++
  (s.exceptions.map (tyAdds false)).flatten ++
  (if tyExpr false s.ret = .name "nothing" then ["Never"] else [])

/-! ## functions -/

/-- `utils.unique_list` -/
def dedupStr : List String → List String
  | [] => []
  | x :: xs => x :: (dedupStr xs).filter (· ≠ x)

/-- decorator lines in the order `VisitFunction` emits them: `_ProcessDecorators` (only plain names are
modelled), `@final`, the kind, `@abstractmethod`, `@coroutine`, `@overload` -/
def funcDecorators (f : Func) : List PyExpr :=
  (dedupStr f.decorators).map PyExpr.name ++
  (if f.final then [PyExpr.name "final"] else []) ++
  (match f.kind with
   | .staticmethod => if f.name ≠ "__new__" then [PyExpr.name "staticmethod"] else []
   | .classmethod => if f.name ≠ "__init_subclass__" then [PyExpr.name "classmethod"] else []
   | .property => [PyExpr.name "property"]
   | .method => []) ++
  (if f.abstract then [PyExpr.name "abstractmethod"] else []) ++
  (if f.coroutine then [PyExpr.name "coroutine"] else []) ++
  (if f.sigs.length > 1 then [PyExpr.name "overload"] else [])

/-- `VisitFunction`: one `def` per signature, all with the same decorators -/
def funcStmts (path : List String) (f : Func) : List PyStmt :=
  f.sigs.map fun s => .funcDef f.name (funcDecorators f) (sigArgs path s) (retExpr s.ret) (sigBody s)

def funcAdds (path : List String) (f : Func) : List String :=
  (f.sigs.map (sigAdds path)).flatten ++ (if f.final then ["final"] else []) ++
  (if f.sigs.length > 1 then ["overload"] else [])

/-! ## constants, aliases, type parameters -/

def constStmt (c : Const) : PyStmt :=
  .annAssign c.name (tyExpr false c.ty) (if c.value.isSome then some .ellipsis else none)

/-- (a constant's value `AnythingType` is visited, hence counted, and un-counted: printed as `...`) -/
def constAdds (c : Const) : List String := tyAdds false c.ty

def aliasStmt (a : Alias) : PyStmt := .assign a.name (tyExpr false a.ty)

def typeParamStmt (d : TypeParamDecl) : PyStmt :=
  .typeVarDef d.name (.name "TypeVar") d.name (d.constraints.map (tyExpr false)) (d.bound.map (tyExpr false))

def typeParamAdds (d : TypeParamDecl) : List String :=
  (d.constraints.map (tyAdds false)).flatten ++ (match d.bound with | some b => tyAdds false b | none => [])
    ++ ["TypeVar"]

/-- strings in Python's order (code points), strict insertion without duplicates -/
def insertStr (x : String) : List String → List String
  | [] => [x]
  | y :: ys => if x < y then x :: y :: ys else if x = y then y :: ys else y :: insertStr x ys

/-- `sorted(set(l))` -/
def sortUniq (l : List String) : List String := l.foldr insertStr []

/-- `_FormatTypeParams` returns the lines sorted; for identifier names with no duplicates that is the
order of the names (a space sorts before every identifier character) -/
def insertDecl (d : TypeParamDecl) : List TypeParamDecl → List TypeParamDecl
  | [] => [d]
  | e :: es => if d.name < e.name then d :: e :: es else e :: insertDecl d es

def sortDecls (l : List TypeParamDecl) : List TypeParamDecl := l.foldr insertDecl []

/-! ## classes -/

def slotsStmt (slots : List String) : PyStmt := .assign "__slots__" (.list (slots.map .str))

mutual
/-- `VisitClass`: header, then `__slots__`, nested classes, constants, methods; `...` if empty -/
def classStmt (path : List String) : Class → PyStmt
  | .mk name _ bases methods constants classes _ slots _ =>
    let bs := bases.map (tyExpr false)
    let bs := if bs = [.name "object"] then [] else bs
    let body :=
      (match slots with | some sl => [slotsStmt sl] | none => []) ++
      classStmts (path ++ [name]) classes ++ constants.map constStmt ++
      (methods.map (funcStmts (path ++ [name]))).flatten
    .classDef name bs [] (if body.isEmpty then [.ellipsisStmt] else body)
def classStmts (path : List String) : List Class → List PyStmt
  | [] => []
  | c :: cs => classStmt path c :: classStmts path cs
end

mutual
def classAdds (path : List String) : Class → List String
  | .mk name _ bases methods constants classes _ _ _ =>
    (bases.map (tyAdds false)).flatten ++ (methods.map (funcAdds (path ++ [name]))).flatten ++
    (constants.map constAdds).flatten ++ classesAdds (path ++ [name]) classes
def classesAdds (path : List String) : List Class → List String
  | [] => []
  | c :: cs => classAdds path c ++ classesAdds path cs
end

/-! ## the unit -/

def unitAdds (u : TUnit) : List String :=
  (u.constants.map constAdds).flatten ++ (u.typeParams.map typeParamAdds).flatten ++
  classesAdds [] u.classes ++ (u.functions.map (funcAdds [])).flatten ++
  (u.aliases.map (fun a => tyAdds false a.ty)).flatten

/-- `_TypingImports.to_import_statements`: the members whose count is not zero, sorted -/
def typingImports (adds : List String) : List String := sortUniq adds

def importStmts (adds : List String) : List PyStmt :=
  match typingImports adds with
  | [] => []
  | l => [.importFrom "typing" (l.map (fun x => (x, none)))]

/-- `VisitTypeDeclUnit`: imports, type parameters, aliases, constants, classes, functions -/
def printUnit (u : TUnit) : PyModule :=
  importStmts (unitAdds u) ++
  (sortDecls u.typeParams).map typeParamStmt ++
  u.aliases.map aliasStmt ++
  u.constants.map constStmt ++
  classStmts [] u.classes ++
  (u.functions.map (funcStmts [])).flatten

end PytypeModel.Pytd
