/-
C11: the decidable side conditions the theorems of Props/C11.lean are stated under (core Lean only,
so the driver can evaluate them on every correspondence case).

* `kok`      well-kinded types: the base of a generic is a class reference (or `Any`), the base of a
             `TupleType` is a tuple class, the base of a `CallableType` is `typing.Callable` — what every
             producer of pytd nodes guarantees.  `CombineContainers._key` is `(base_type, len(parameters))`
             for tuples *and* callables; without this a tuple and a callable over one base would be merged.
* `suwsOK`   at every union `SimplifyUnionsWithSuperclasses` reaches, `NamedType(n)` and `ClassType(n)`
             do not both occur (they are `!=` but have the same `str`, each counts the other as a subclass
             and both are dropped: known finding c11-mixed-name-kinds).
* `X.tys`    all type positions of a declaration.
-/
import PytypeModel.Pytd.Optimize

namespace PytypeModel.Pytd

def Ty.isSimple : Ty → Bool
  | .named _ | .cls _ | .late _ | .any => true
  | _ => false

mutual
def kok : Ty → Bool
  | .generic b ps => b.isSimple && kokList ps
  | .tuple b ps => b.isSimple && (containerNames .tuple).contains b.nameStr && kokList ps
  | .callable b ps => b.isSimple && (containerNames .callable).contains b.nameStr && kokList ps
  | .union ts => kokList ts
  | .annotated t _ => kok t
  | _ => true
def kokList : List Ty → Bool
  | [] => true
  | t :: ts => kok t && kokList ts
end

mutual
/-- `g` holds at every node the visitor rebuilds (just before the hook runs on it) -/
def buOK (g : Ty → Bool) (hook : Ty → Ty) : Ty → Bool
  | .generic b ps => buOK g hook b && buOKList g hook ps && g (.generic (b.bu hook) (buList hook ps))
  | .tuple b ps => buOK g hook b && buOKList g hook ps && g (.tuple (b.bu hook) (buList hook ps))
  | .callable b ps => buOK g hook b && buOKList g hook ps && g (.callable (b.bu hook) (buList hook ps))
  | .union ts => buOKList g hook ts && g (mkUnion (buList hook ts))
  | .annotated t as => buOK g hook t && g (.annotated (t.bu hook) as)
  | t => g t
def buOKList (g : Ty → Bool) (hook : Ty → Ty) : List Ty → Bool
  | [] => true
  | t :: ts => buOK g hook t && buOKList g hook ts
end

/-- the union does not hold `NamedType(n)` and `ClassType(n)` for the same `n` -/
def noMixed (ts : List Ty) : Bool :=
  ts.all (fun t => match t with
    | .named n => !(ts.any (fun x => decide (x = Ty.cls n)))
    | _ => true)

def suwsGuard : Ty → Bool
  | .union ts => noMixed ts
  | _ => true

def suwsOK (H : Hier) (t : Ty) : Bool := buOK suwsGuard (suwsHook H) t

/-! ### type positions -/

def Param.tys (p : Param) : List Ty := p.ty :: p.mutated.toList

def optParamTys : Option Param → List Ty
  | none => []
  | some p => p.tys

def TypeParamDecl.tys (d : TypeParamDecl) : List Ty := d.constraints ++ d.bound.toList

def Sig.tys (s : Sig) : List Ty :=
  s.params.flatMap Param.tys ++ optParamTys s.starargs ++ optParamTys s.starstarargs ++ [s.ret] ++
  s.exceptions ++ s.template.flatMap TypeParamDecl.tys

def Func.tys (f : Func) : List Ty := f.sigs.flatMap Sig.tys

mutual
def Class.tys : Class → List Ty
  | .mk _ kw bs ms cs ns _ _ tm =>
    kw.map (·.2) ++ bs ++ ms.flatMap Func.tys ++ cs.map (·.ty) ++ classesTys ns ++ tm.flatMap TypeParamDecl.tys
def classesTys : List Class → List Ty
  | [] => []
  | c :: cs => c.tys ++ classesTys cs
end

def TUnit.tys (u : TUnit) : List Ty :=
  u.constants.map (·.ty) ++ u.typeParams.flatMap TypeParamDecl.tys ++ classesTys u.classes ++
  u.functions.flatMap Func.tys ++ u.aliases.map (·.ty)

def TUnit.all (g : Ty → Bool) (u : TUnit) : Bool := u.tys.all g

/-- more fuel does not change what CombineContainers returns (evaluated by the driver on every
correspondence case: the fuel of `combineContainers` was enough) -/
def ccStable (t : Ty) : Bool := decide (cc (ccFuel t) t = cc (2 * ccFuel t + 7) t)

/-- the unit as CombineContainers receives it -/
def beforeCC (u : TUnit) : TUnit :=
  passCombineReturns.runUnit (passSimplifyUnions.runUnit (passRemoveDuplicates.runUnit (passNormalizeSelf.runUnit u)))

end PytypeModel.Pytd
