/-
C11 model, part 1: Python `==` on pytd type nodes, the `UnionType` constructor normalisation
(`pytd._FlattenTypes`) and `pytd_utils.JoinTypes`.  Core Lean only.

pytd.py / pytd_utils.py                          here
-----------------------------------------------  ------------------------------------------
node `==` (msgspec structs; `_SetOfTypes.__eq__`  `Ty.pyEq`   (union members compared as sets,
  compares `frozenset(type_list)`; ClassType by      recursively; everything else field-wise)
  class+name)
`x in seen` / dict.fromkeys / OrderedSet          `pyMem`, `dedupPy` (first occurrence kept)
`_FlattenTypes` (one level) + dict.fromkeys       `mkUnion`
`JoinTypes(types)`                                `joinTypes`
-/
import PytypeModel.Pytd.Types

namespace PytypeModel.Pytd

/-- `t.name`: the class name of a NamedType/ClassType/LateType; for a generic the name of its base -/
def Ty.nameStr : Ty → String
  | .named n | .cls n | .late n => n
  | .generic b _ | .tuple b _ | .callable b _ => b.nameStr
  | _ => ""

/-! ### Python equality of type nodes -/

/-- `Literal(a) == Literal(b)`: the values compare as Python objects, so `True == 1` and `False == 0`. -/
def Lit.pyEq : Lit → Lit → Bool
  | .int a, .int b => a == b
  | .str a, .str b => a == b
  | .bool a, .bool b => a == b
  | .int a, .bool b => a == (if b then 1 else 0)
  | .bool a, .int b => b == (if a then 1 else 0)
  | .enumMember c n, .enumMember d m => c == d && n == m
  | _, _ => false

mutual
/-- `a == b` for pytd type nodes.  Unions compare as sets of members (order and multiplicity are
ignored, pytd.py `_SetOfTypes.__eq__`); all other nodes compare field by field. -/
def Ty.pyEq : Ty → Ty → Bool
  | .any, .any => true
  | .nothing, .nothing => true
  | .named a, .named b => a == b
  | .cls a, .cls b => a == b
  | .late a, .late b => a == b
  | .typeParam a s, .typeParam b t => a == b && s == t
  | .generic b1 p1, .generic b2 p2 => b1.pyEq b2 && pyEqList p1 p2
  | .tuple b1 p1, .tuple b2 p2 => b1.pyEq b2 && pyEqList p1 p2
  | .callable b1 p1, .callable b2 p2 => b1.pyEq b2 && pyEqList p1 p2
  | .union as, .union bs => pyEqSub as bs && bs.all (fun b => pyEqMemL as b)
  | .literal a, .literal b => a.pyEq b
  | .annotated t1 a1, .annotated t2 a2 => t1.pyEq t2 && a1 == a2
  | _, _ => false
/-- tuples of types: same length, pointwise equal -/
def pyEqList : List Ty → List Ty → Bool
  | [], [] => true
  | a :: as, b :: bs => a.pyEq b && pyEqList as bs
  | _, _ => false
/-- every member of `as` has an equal member in `bs` -/
def pyEqSub : List Ty → List Ty → Bool
  | [], _ => true
  | a :: as, bs => bs.any (fun b => a.pyEq b) && pyEqSub as bs
/-- some member of `as` equals `b` -/
def pyEqMemL : List Ty → Ty → Bool
  | [], _ => false
  | a :: as, b => a.pyEq b || pyEqMemL as b
end

/-- `t in seen` for a Python set / list of type nodes. -/
def pyMem (seen : List Ty) (t : Ty) : Bool := seen.any (fun s => s.pyEq t)

/-- order-preserving removal of later `==`-duplicates (`dict.fromkeys`, the `seen` set of JoinTypes). -/
def dedupAux (seen : List Ty) : List Ty → List Ty
  | [] => []
  | t :: ts => if pyMem seen t then dedupAux seen ts else t :: dedupAux (t :: seen) ts

def dedupPy (ts : List Ty) : List Ty := dedupAux [] ts

/-- `UnionType(type_list)`: `__post_init__` splices member unions (one level — they were normalised
when they were built) and removes duplicates, keeping first occurrences.
(`msgspec.structs.replace`, i.e. `node.Replace(type_list=…)`, does *not* run this; see Optimize.lean.) -/
def mkUnion (ts : List Ty) : Ty := .union (dedupPy (flattenUnionMembers ts))

/-! ### JoinTypes -/

mutual
/-- the queue loop of JoinTypes: unions are flattened to any depth, `NothingType` is dropped -/
def flatTy : Ty → List Ty
  | .union ts => flatList ts
  | .nothing => []
  | t => [t]
def flatList : List Ty → List Ty
  | [] => []
  | t :: ts => flatTy t ++ flatList ts
end

def Ty.isAny : Ty → Bool
  | .any => true
  | _ => false

def noneName : String := "builtins.NoneType"

/-- `t in (NamedType("builtins.NoneType"), NamedType("NoneType"))` -/
def Ty.isNoneNamed : Ty → Bool
  | .named n => n == noneName || n == "NoneType"
  | _ => false

/-- the tail of JoinTypes, on the flattened duplicate-free `new_types` -/
def joinCore (ms : List Ty) : Ty :=
  match ms with
  | [t] => t
  | ms =>
    if ms.any Ty.isAny then
      if ms.any Ty.isNoneNamed then .union [.any, .named noneName] else .any
    else if ms.isEmpty then .nothing
    else mkUnion ms

/-- pytd_utils.JoinTypes -/
def joinTypes (ts : List Ty) : Ty := joinCore (dedupPy (flatList ts))

end PytypeModel.Pytd
