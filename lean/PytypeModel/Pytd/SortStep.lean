/-! # Python's `sorted` as used by `CanonicalOrderingVisitor` (C12, C04)

`sorted(xs)` is a stable sort that only calls `__lt__`.  Model: stable insertion sort on a strict
comparison `lt` (every stable comparison sort computes the same list when `lt` is a strict weak order,
which `Node.__lt__` is: it compares the class names / the stringified field tuples). -/
namespace PytypeModel.Pytd

/-- insert `x` (which stood *before* everything in the list) keeping equal elements in input order -/
def insertStable {α : Type} (lt : α → α → Bool) (x : α) : List α → List α
  | [] => [x]
  | y :: ys => if lt y x then y :: insertStable lt x ys else x :: y :: ys

def sortStable {α : Type} (lt : α → α → Bool) : List α → List α
  | [] => []
  | x :: xs => insertStable lt x (sortStable lt xs)

/-- no later element is strictly smaller than an earlier one -/
def sortedBy {α : Type} (lt : α → α → Bool) : List α → Prop
  | [] => True
  | x :: xs => (∀ y ∈ xs, lt y x = false) ∧ sortedBy lt xs

end PytypeModel.Pytd
