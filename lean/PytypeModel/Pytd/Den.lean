/-
C11 semantics: a universe of values over an arbitrary class hierarchy, the set of values a pytd
type admits (`den`), and the widening order it induces on parameters, signatures, overload sets,
classes and units.

Values.  `inst c slots` is an instance of class `c`; `slots[i]` lists the values it holds for its
i-th type parameter (a list's elements, a dict's keys / values, …).  A heterogeneous tuple holds its
items, in order, in slot 0.  A function object is an instance whose slot 1 lists the results it may
return (slot 0, the arguments, is not constrained: callables are contravariant there and the
optimiser never looks at it).  `lit l` is a literal constant.

A generic `b[p…]` admits the values its base `b` admits (for a class: instances of its subclasses)
whose slots fit the parameters.

`Sem.sub c d` is the subclass relation of the hierarchy (*arbitrary*; the lemmas say which passes need
it to be transitive / antisymmetric), `Sem.tp` the valuation of type parameters.
-/
import PytypeModel.Pytd.Join

namespace PytypeModel.Pytd

inductive Val
  | inst (cls : String) (slots : List (List Val))
  | lit (l : Lit)
  deriving Inhabited

def Lit.cls : Lit → String
  | .int _ => "builtins.int"
  | .str _ => "builtins.str"
  | .bool _ => "builtins.bool"
  | .enumMember c _ => c

def Val.clsOf : Val → String
  | .inst c _ => c
  | .lit l => l.cls

def Val.slots : Val → List (List Val)
  | .inst _ s => s
  | .lit _ => []

/-- the items of a heterogeneous tuple value: exactly one slot -/
def Val.items (v : Val) : Option (List Val) :=
  match v.slots with
  | [es] => some es
  | _ => none

/-- the results a function value may return: slot 1 -/
def Val.results (v : Val) : List Val :=
  match v.slots with
  | _ :: rs :: _ => rs
  | _ => []

/-- `v` is the literal `l` (compared as Python compares the constants) -/
def Val.isLit (l : Lit) : Val → Prop
  | .lit l' => l.pyEq l' = true
  | .inst _ _ => False

structure Sem where
  /-- `sub c d`: class `c` is `d` or one of its (transitive) subclasses -/
  sub : String → String → Prop
  /-- values a type parameter (name, scope) stands for -/
  tp : String → Option String → Val → Prop

mutual
/-- `den S t v`: the value `v` is admitted by the type `t`. -/
def den (S : Sem) : Ty → Val → Prop
  | .any, _ => True
  | .nothing, _ => False
  | .named n, v => S.sub v.clsOf n
  | .cls n, v => S.sub v.clsOf n
  | .late n, v => S.sub v.clsOf n
  | .typeParam n s, v => S.tp n s v
  | .generic b ps, v => den S b v ∧ denSlots S ps v.slots
  | .tuple b ps, v => den S b v ∧ ∃ es, v.items = some es ∧ denTup S ps es
  | .callable b ps, v => den S b v ∧ ∀ r, r ∈ v.results → denLast S ps r
  | .union ts, v => denAny S ts v
  | .literal l, v => v.isLit l
  | .annotated t _, v => den S t v
/-- i-th slot values are admitted by the i-th parameter (as far as both exist: `zip`) -/
def denSlots (S : Sem) : List Ty → List (List Val) → Prop
  | p :: ps, es :: ess => (∀ e, e ∈ es → den S p e) ∧ denSlots S ps ess
  | _, _ => True
/-- heterogeneous tuple: same length, item-wise -/
def denTup (S : Sem) : List Ty → List Val → Prop
  | [], [] => True
  | p :: ps, e :: es => den S p e ∧ denTup S ps es
  | _, _ => False
/-- the last parameter (the return type of a callable) admits `v` -/
def denLast (S : Sem) : List Ty → Val → Prop
  | [], _ => True
  | p :: ps, v =>
    match ps with
    | [] => den S p v
    | _ :: _ => denLast S ps v
def denAny (S : Sem) : List Ty → Val → Prop
  | [], _ => False
  | t :: ts, v => den S t v ∨ denAny S ts v
end

/-- pointwise relation on two lists of equal length -/
def All2 {α β : Type} (R : α → β → Prop) : List α → List β → Prop
  | [], [] => True
  | a :: as, b :: bs => R a b ∧ All2 R as bs
  | _, _ => False

/-- `a` is at most as wide as `b`. -/
def TyLe (S : Sem) (a b : Ty) : Prop := ∀ v, den S a v → den S b v

def TyEquiv (S : Sem) (a b : Ty) : Prop := ∀ v, den S a v ↔ den S b v

/-! ### widening of declarations

A parameter type is a set of *accepted arguments*, a return / exception / mutated type a set of
*promised outcomes*, a constant type a set of possible values: in all positions widening means that
the admitted set grows.  An overload set is the union of its signatures.  -/

/-- the type a parameter is known to have after the call -/
def Param.after (p : Param) : Ty := p.mutated.getD p.ty

def ParamLe (S : Sem) (p q : Param) : Prop :=
  p.name = q.name ∧ p.kind = q.kind ∧ p.optional = q.optional ∧ TyLe S p.ty q.ty ∧
  TyLe S p.after q.after

def OptParamLe (S : Sem) : Option Param → Option Param → Prop
  | none, none => True
  | some p, some q => ParamLe S p q
  | _, _ => False

def DeclLe (S : Sem) (d e : TypeParamDecl) : Prop :=
  d.name = e.name ∧ d.scope = e.scope ∧ All2 (TyLe S) d.constraints e.constraints ∧
  (match d.bound, e.bound with
   | none, none => True
   | some a, some b => TyLe S a b
   | _, _ => False)

def SigLe (S : Sem) (s s' : Sig) : Prop :=
  All2 (ParamLe S) s.params s'.params ∧ OptParamLe S s.starargs s'.starargs ∧
  OptParamLe S s.starstarargs s'.starstarargs ∧ TyLe S s.ret s'.ret ∧
  (∀ e, e ∈ s.exceptions → ∃ e', e' ∈ s'.exceptions ∧ TyLe S e e') ∧
  All2 (DeclLe S) s.template s'.template

/-- overload sets as unions: every signature is covered by a signature of the result -/
def FuncLe (S : Sem) (f g : Func) : Prop :=
  f.name = g.name ∧ f.kind = g.kind ∧ (∀ s, s ∈ f.sigs → ∃ s', s' ∈ g.sigs ∧ SigLe S s s')

def ConstLe (S : Sem) (c d : Const) : Prop := c.name = d.name ∧ TyLe S c.ty d.ty

def AliasLe (S : Sem) (a b : Alias) : Prop := a.name = b.name ∧ TyLe S a.ty b.ty

mutual
def ClassLe (S : Sem) : Class → Class → Prop
  | .mk n kw bs ms cs ns _ _ tm, .mk n' kw' bs' ms' cs' ns' _ _ tm' =>
    n = n' ∧ All2 (fun a b => a.1 = b.1 ∧ TyLe S a.2 b.2) kw kw' ∧ All2 (TyLe S) bs bs' ∧
    All2 (FuncLe S) ms ms' ∧ All2 (ConstLe S) cs cs' ∧ ClassesLe S ns ns' ∧
    All2 (DeclLe S) tm tm'
def ClassesLe (S : Sem) : List Class → List Class → Prop
  | [], [] => True
  | c :: cs, d :: ds => ClassLe S c d ∧ ClassesLe S cs ds
  | _, _ => False
end

def UnitLe (S : Sem) (u w : TUnit) : Prop :=
  u.name = w.name ∧ All2 (ConstLe S) u.constants w.constants ∧
  All2 (DeclLe S) u.typeParams w.typeParams ∧ ClassesLe S u.classes w.classes ∧
  All2 (FuncLe S) u.functions w.functions ∧ All2 (AliasLe S) u.aliases w.aliases

end PytypeModel.Pytd
