import PytypeModel.Core.StableSort

/-! # The error log's report: `_sorted_errors` and `unique_sorted_errors` (C04)

Model of pytype/errors/errors.py: `Error.get_unique_representation` / `_position` (l.425-447),
`_compare_traceback_strings` (l.128), `ErrorLog._sorted_errors` (l.646) and
`ErrorLog.unique_sorted_errors` (l.613-644) with `MAX_TRACEBACKS = 3`.  Core Lean only.

An `Err` carries the fields of `errors.Error` that the report reads.  `file` is `filename or ""` and
`method` is `methodname or ""` (`None` and `""` are both falsy at every use).  `details` and `tb` keep
`None` apart from `""` because the code does (`None != ""` in the representation tuple and in
`left == right`).
-/
namespace PytypeModel.Errors

structure Err where
  file : String
  line : Nat
  col : Nat
  method : String
  name : String
  message : String
  details : Option String
  tb : Option String
  deriving DecidableEq, Repr, Inhabited

def MAX_TRACEBACKS : Nat := 3
def TRACEBACK_MARKER : String := "Called from (traceback):"
/-- `utils.COLOR_ERROR_NAME_TEMPLATE % "error"` -/
def ERROR_RED : String := "\x1b[1m\x1b[31merror\x1b[39m\x1b[0m"

/-- `Error._position` -/
def position (e : Err) : String :=
  let method := if e.method.isEmpty then "" else "in " ++ e.method
  if !e.file.isEmpty then
    e.file ++ ":" ++ toString e.line ++ ":" ++ toString (e.col + 1) ++ ": " ++ ERROR_RED ++ ": " ++ method
  else if e.line != 0 then
    toString e.line ++ ":" ++ toString (e.col + 1) ++ ": " ++ ERROR_RED ++ ": " ++ method
  else ""

/-- `Error.get_unique_representation`: `(self._position(), self._message, self._details, self._name)` -/
structure Rep where
  pos : String
  message : String
  details : Option String
  name : String
  deriving DecidableEq, Repr

def rep (e : Err) : Rep := ⟨position e, e.message, e.details, e.name⟩

/-! ### `_sorted_errors`: `sorted(self._errors, key=lambda x: (x.filename or "", x.line))` -/

/-- `(f₁, l₁) <= (f₂, l₂)` on `(str, int)` tuples -/
def keyLe (a b : Err) : Bool :=
  if a.file < b.file then true else if b.file < a.file then false else a.line ≤ b.line

/-- stable, like `sorted` -/
def sortedErrors (log : List Err) : List Err := Core.isort keyLe log

/-! ### `_compare_traceback_strings` -/

/-- `left[len(TRACEBACK_MARKER):] if left else ""` -/
def stripMarker : Option String → List Char
  | none => []
  | some s => s.toList.drop TRACEBACK_MARKER.length

/-- `some 0` equal, `some 1` left ends with right, `some (-1)` right ends with left, `none` not comparable -/
def compareTb (left right : Option String) : Option Int :=
  if left = right then some 0
  else
    let l := stripMarker left
    let r := stripMarker right
    if r.isSuffixOf l then some 1
    else if l.isSuffixOf r then some (-1)
    else none

/-! ### `unique_sorted_errors` -/

/-- The `for previous_error in list(errors)` loop for the current error `e` over the group as it was when
the loop started.  Result: the group after the loop's in-place removals, and whether the loop hit `break`
(`e` discarded).  A `previous_error` with a longer traceback is removed (`traceback_cmp < 0`) and the loop
goes on; at the first one that is equal or shorter (`>= 0`) the loop breaks, leaving the rest untouched. -/
def scan (e : Err) : List Err → List Err × Bool
  | [] => ([], false)
  | p :: rest =>
    match compareTb e.tb p.tb with
    | none => let r := scan e rest; (p :: r.1, r.2)
    | some c => if c < 0 then scan e rest else (p :: rest, true)

/-- loop + `else: if len(errors) < MAX_TRACEBACKS: errors.append(error)` -/
def addToGroup (e : Err) (g : List Err) : List Err :=
  let r := scan e g
  if r.2 then r.1 else if r.1.length < MAX_TRACEBACKS then r.1 ++ [e] else r.1

/-- the dict `unique_errors` as an insertion-ordered association list -/
abbrev Groups := List (Rep × List Err)

/-- one iteration of `for error in self._sorted_errors()` -/
def insertErr : Groups → Err → Groups
  | [], e => [(rep e, [e])]
  | (r, g) :: rest, e => if r = rep e then (r, addToGroup e g) :: rest else (r, g) :: insertErr rest e

def groupsOf (sorted : List Err) : Groups := sorted.foldl insertErr []

/-- `sum(unique_errors.values(), [])` -/
def flatten (d : Groups) : List Err := d.flatMap (·.2)

def uniqueSortedErrors (log : List Err) : List Err := flatten (groupsOf (sortedErrors log))

/-- Decidable guard of `errors_sorted`: two logged errors with the same unique representation have the
same sort key.  (The representation embeds `filename:line:` in a formatted string; with a filename or
method name that itself contains `:<digits>:<digits>: <ERROR_RED>: in ` two different positions can format
to the same string.  One analysis uses a single filename and code-object names, where this cannot
happen.) -/
def repKeyOK (log : List Err) : Bool :=
  log.all fun a => log.all fun b => !(rep a = rep b) || (a.file == b.file && a.line == b.line)

end PytypeModel.Errors
