/-! # C15 — the shell around the analysis: `io.check_or_generate_pyi`'s except-chain

Model of (pytype/io.py) `check_or_generate_pyi`, (pytype/pyc/compiler.py) `CompileError.__init__`,
(pytype/pyc/compile_bytecode.py) `compile_src_to_pyc`'s error branch and (pytype/errors/errors.py)
`Error.__init__`'s `line or 0`.  Core Lean only.

`load_pytd.create_loader(options)` runs before the `try:` — whatever it raises (a `UsageError` when the
typeshed cannot be initialised) propagates unconditionally and is not a `StageResult`.

What is *not* here: the analysis itself (`vm.run_program`, `CallTracer.analyze`, ...).  It appears only as
"the stage that raised, and what it raised". -/
namespace PytypeModel.Shell

/-- The stages `check_py` / `generate_pyi` go through, in program order (vm.run_program, analyze.py, io.py). -/
inductive Stage
  | read        -- io.read_source_file
  | preprocess  -- preprocess.augment_annotations
  | directive   -- directors.parse_src  (ast.parse + comment scan: SyntaxError / SkipFileError)
  | compile     -- pyc.compile_src      (CompileError, UsageError on version mismatch)
  | blocks      -- blocks.process_code
  | director    -- directors.Director, merge_annotations
  | fold        -- constant_folding.fold_constants (ConstantError)
  | run         -- vm.run_bytecode (module body)
  | analyze     -- CallTracer.analyze (second pass over all definitions)
  | infer       -- compute_types / resolve_ast / convert_structural
  | output      -- VerifyVisitor, optimize.Optimize, CanonicalOrdering, Print
  deriving DecidableEq, Repr, Inhabited

/-- What was raised, as far as the except-chain can tell: the *most specific* class among those the chain
names, plus the attribute each handler reads (`None` = Python `None`). -/
inductive Exc
  | usage                                -- utils.UsageError
  | compileErr (line : Nat)              -- pyc.CompileError; `e.line` is always an int (see `compileErrorLine`)
  | constant (lineno : Option Nat)       -- constant_folding.ConstantError; `e.lineno = op.line`
  | indentation (lineno : Option Nat)    -- IndentationError (and TabError), subclass of SyntaxError
  | libcst (rawLine : Nat)               -- libcst.ParserSyntaxError; `e.raw_line`
  | syntax (lineno : Option Nat)         -- SyntaxError that is not an IndentationError
  | skipFile                             -- directors.SkipFileError
  | other                                -- any other subclass of Exception: an internal failure
  | baseExc                              -- BaseException outside Exception (KeyboardInterrupt, SystemExit)
  deriving DecidableEq, Repr, Inhabited

inductive StageResult
  | ok
  | raised (stage : Stage) (e : Exc)
  deriving DecidableEq, Repr, Inhabited

/-- The classes named by the `except` clauses, in source order. -/
inductive Clause
  | usage | compileErr | constErr | indentErr | libcstErr | syntaxErr | skipFile | exception
  deriving DecidableEq, Repr

/-- io.py, `check_or_generate_pyi`: the order of the `except` clauses. -/
def chain : List Clause :=
  [.usage, .compileErr, .constErr, .indentErr, .libcstErr, .syntaxErr, .skipFile, .exception]

/-- `isinstance(e, <class of clause>)` according to the real class hierarchy:
UsageError, CompileError, ConstantError, ParserSyntaxError, SkipFileError, SyntaxError derive from Exception
directly; IndentationError derives from SyntaxError. -/
def Clause.isInstance : Clause → Exc → Bool
  | .usage,      .usage          => true
  | .compileErr, .compileErr _   => true
  | .constErr,   .constant _     => true
  | .indentErr,  .indentation _  => true
  | .libcstErr,  .libcst _       => true
  | .syntaxErr,  .syntax _       => true
  | .syntaxErr,  .indentation _  => true
  | .skipFile,   .skipFile       => true
  | .exception,  .baseExc        => false
  | .exception,  _               => true
  | _, _                         => false

/-- Python's `try/except`: the first clause whose class the exception is an instance of. -/
def firstClause (e : Exc) : Option Clause := chain.find? (fun c => c.isInstance e)

/-- `other_error_info` appended to the default stub text. -/
inductive Info
  | none
  | skipFile     -- "# skip-file found, file not analyzed"
  | caught       -- "# Caught error in pytype: ..." + traceback
  deriving DecidableEq, Repr

structure ErrorEntry where
  name : String
  line : Nat
  deriving DecidableEq, Repr

/-- The three things `check_or_generate_pyi` can do. -/
inductive Result
  /-- `else:` branch — the analysis' own context, its stub (None under --check) and its error log -/
  | analysed
  /-- fresh `Context`, `GetDefaultAst`, `DEFAULT_SRC + info`; `errors` is the *whole* error log -/
  | defaultStub (info : Info) (errors : List ErrorEntry)
  /-- the exception leaves `check_or_generate_pyi` -/
  | reraise
  deriving DecidableEq, Repr

/-- errors.py `Error.__init__`: `self._line = line or 0`. -/
def errLine : Option Nat → Nat
  | some n => n
  | none => 0

def compilerErrorName : String := "python-compiler-error"

/-- `ctx.errorlog.python_compiler_error(options.input, line, msg)` on the fresh context (no filter installed):
exactly one entry. -/
def compilerError (line : Option Nat) : Result :=
  .defaultStub .none [⟨compilerErrorName, errLine line⟩]

/-- The line each compile-error handler passes on (`e.line`, `e.lineno`, `e.raw_line`, `e.lineno`). -/
def Exc.reportedLine : Exc → Option Nat
  | .compileErr l => some l
  | .constant l => l
  | .indentation l => l
  | .libcst l => some l
  | .syntax l => l
  | _ => none

/-- Body of each handler. `nofail`, `check` are `options.nofail`, `options.check`. -/
def handle (c : Clause) (e : Exc) (nofail check : Bool) : Result :=
  match c with
  | .usage => .reraise
  | .compileErr | .constErr | .indentErr | .libcstErr | .syntaxErr => compilerError e.reportedLine
  | .skipFile => .defaultStub .skipFile []
  | .exception =>
    if nofail then .defaultStub (if check then .none else .caught) [] else .reraise

/-- `check_or_generate_pyi` as a function of what happened inside `check_py` / `generate_pyi`. -/
def outcome (sr : StageResult) (nofail check : Bool) : Result :=
  match sr with
  | .ok => .analysed
  | .raised _ e =>
    match firstClause e with
    | none => .reraise           -- no clause matches: the exception propagates
    | some c => handle c e nofail check

/-- The (stage, exception) pairs pytype's own code raises on purpose ("declared sets"). Anything else
that is raised — `other`/`baseExc` at any stage — is an internal failure. -/
def StageResult.declared : StageResult → Bool
  | .ok => true
  | .raised .read .usage => true
  | .raised .directive (.syntax _) => true
  | .raised .directive (.indentation _) => true
  | .raised .directive (.libcst _) => true
  | .raised .directive .skipFile => true
  | .raised .compile (.compileErr _) => true
  | .raised .compile .usage => true
  | .raised .fold (.constant _) => true
  | _ => false

def Exc.isCompileFailure : Exc → Bool
  | .compileErr _ | .constant _ | .indentation _ | .libcst _ | .syntax _ => true
  | _ => false

/-! ## compile_src: CPython failure → `(line, message)` -/

/-- What `str(err)` of the exception raised by `compile()` looks like to
`_COMPILE_ERROR_RE = ^(.*) \((.*), line (\d+)\)$`: SyntaxError.__str__ gives "msg (file, line N)" when
filename and lineno are set; anything else (no lineno, a non-SyntaxError such as RecursionError /
MemoryError / ValueError, a message containing a newline) does not match. -/
inductive CompileFailure
  | located (line : Nat)
  | unlocated
  deriving DecidableEq, Repr

/-- compiler.py `CompileError.__init__`: regex group 3, else 1. -/
def compileErrorLine : CompileFailure → Nat
  | .located n => n
  | .unlocated => 1

/-- The StageResult a failing `compile()` turns into (compile_bytecode writes `\1 + str(err)`,
`compile_src_string_to_pyc_string` raises `CompileError`). -/
def compileStage (f : CompileFailure) : StageResult :=
  .raised .compile (.compileErr (compileErrorLine f))

/-! ## the exception object as the chain sees it: `isinstance` bits and attributes -/

/-- attributes the handlers read (`None` = absent or Python `None`) -/
structure Attrs where
  line : Option Nat      -- CompileError.line
  lineno : Option Nat    -- ConstantError.lineno, SyntaxError.lineno
  rawLine : Option Nat   -- libcst.ParserSyntaxError.raw_line
  deriving DecidableEq, Repr

/-- `[isinstance(e, C) for C in chain]` -/
def Exc.bits (e : Exc) : List Bool := chain.map (·.isInstance e)

def Exc.attrs : Exc → Attrs
  | .compileErr l => ⟨some l, none, none⟩
  | .constant l => ⟨none, l, none⟩
  | .indentation l => ⟨none, l, none⟩
  | .syntax l => ⟨none, l, none⟩
  | .libcst l => ⟨none, none, some l⟩
  | _ => ⟨none, none, none⟩

/-- Decode observed `isinstance` bits (chain order) into the kind; `none` when the combination does not
occur in the real class hierarchy (K reports such an observation as a disagreement). -/
def Exc.ofBits (bits : List Bool) (a : Attrs) : Option Exc :=
  match bits with
  | [true, false, false, false, false, false, false, true] => some .usage
  | [false, true, false, false, false, false, false, true] => a.line.map .compileErr
  | [false, false, true, false, false, false, false, true] => some (.constant a.lineno)
  | [false, false, false, true, false, true, false, true] => some (.indentation a.lineno)
  | [false, false, false, false, true, false, false, true] => a.rawLine.map .libcst
  | [false, false, false, false, false, true, false, true] => some (.syntax a.lineno)
  | [false, false, false, false, false, false, true, true] => some .skipFile
  | [false, false, false, false, false, false, false, true] => some .other
  | [false, false, false, false, false, false, false, false] => some .baseExc
  | _ => none

/-! ## text protocol helpers (driver) -/

def Result.render : Result → String
  | .analysed => "ANALYSED"
  | .reraise => "RERAISE"
  | .defaultStub info errs =>
    let i := match info with
      | .none => "none" | .skipFile => "skip" | .caught => "caught"
    let es := errs.map fun e => s!"{e.name}@{e.line}"
    s!"DEFAULT info={i} errors=[{",".intercalate es}]"

end PytypeModel.Shell
