import PytypeModel.Generated.OpcodeDispatch

/-! # C15 — opcode dispatch (`vm.py` `run_instruction`, `byte_CALL_INTRINSIC_1/2`; `opcodes._make_opcodes`)

`_make_opcodes` resolves every name the pycnite reader yields through `globals()[op.name]` (KeyError when
there is no such class), `run_instruction` looks up `byte_<name>` and raises `VirtualMachineError` when
it is missing.  Core Lean only; the tables are regenerated from /repo on every run.  Opcode names are
interned (`Generated.OpcodeDispatch.names`, id = position), so that the kernel compares `Nat`s. -/
namespace PytypeModel.Shell
open PytypeModel.Generated.OpcodeDispatch

/-- names the pycnite reader can yield for a version's table (CACHE and EXTENDED_ARG are never yielded),
plus the opcodes `opcodes.py` synthesises itself. -/
def producibleOf (table : List (Nat × Nat)) : List Nat :=
  (table.filter fun p => !skippedCodes.contains p.1).map (·.2) ++ synthesized

inductive Dispatch
  | keyError                -- `g[op.name]` fails in `_make_opcodes`
  | vmError                 -- `getattr(self, "byte_" + name, None) is None` → VirtualMachineError
  | handler (name : Nat)    -- the bound method `byte_<name>` that is called
  deriving DecidableEq, Repr

/-- `_make_opcodes` followed by `run_instruction`'s lookup. The class name is the opcode name
(`for_python_version` keeps `__name__`). -/
def dispatch (name : Nat) : Dispatch :=
  if !opcodeClasses.contains name then .keyError
  else if handlers.contains name then .handler name
  else .vmError

/-- `byte_CALL_INTRINSIC_1/2`: `getattr(self, "byte_" + op.argval, None)`. -/
def dispatchIntrinsic (name : Nat) : Dispatch :=
  if handlers.contains name then .handler name else .vmError

def Dispatch.isHandler : Dispatch → Bool
  | .handler _ => true
  | _ => false

/-- every producible opcode of every table reaches a handler -/
def allDispatch : Bool :=
  tables.all fun t => (producibleOf t.2).all fun n => (dispatch n).isHandler

def allIntrinsics : Bool := intrinsics.all fun n => (dispatchIntrinsic n).isHandler

/-! text protocol (driver only; strings are never compared by the kernel) -/

def nameOf (i : Nat) : String := names.getD i "?"

/-- a name that is in none of the tables gets the fresh id `names.length` -/
def idOf (s : String) : Nat := names.idxOf s

def Dispatch.render : Dispatch → String
  | .keyError => "KEYERROR"
  | .vmError => "VMERROR"
  | .handler n => s!"byte_{nameOf n}"

end PytypeModel.Shell
