/-
Model of pytype/tools/analyze_project/pytype_runner.py (the planner part of
`PytypeRunner`).  Core Lean only (no Mathlib) so the driver links.

Python                                          model
----------------------------------------------  ---------------------------------------------
module_utils.Module(path,target,name,kind)      Mod {id, kind, ext}; `id` stands for the file
                                                (full_path / output path / name are injective
                                                functions of `id`: stated naming hypothesis);
                                                `ext` = name.startswith('pytype_extensions.')
conf.inputs  (self.filenames, a set of paths)   req : List Nat   (may mention absent files)
get_module_action                               moduleAction
sorted_sources = [(group, deps), ...]           List (List Mod × List Mod)
yield_sorted_modules                            yieldGroup / yieldSorted (Item = one yielded tuple)
dict (insertion ordered)                        association list with dget / dset / dupdate
get_imports_map (KeyError when a dep has no     getImportsMap  (Except, Err.keyError)
  module_to_output entry)
setup_build loop body                           stepItem ; whole loop: runItems ; result: plan
write_build_statement                           Step {mod, first, act, deps, imports}
  output = pyi_dir/<outpath mod>.pyi<suffix>      Step.out = Out.pyi mod first (first ⇔ suffix "-1")
  imports file = imports_dir/<name>.imports<suffix>  determined by (mod, first) as well
default_output (imports/default.pyi)            Out.default
-/
namespace PytypeModel.Plan

inductive Kind | loc | direct | builtin | system
  deriving DecidableEq, Repr

/-- importlab kinds for which no stub is generated. -/
def Kind.isBS : Kind → Bool
  | .builtin => true
  | .system => true
  | _ => false

structure Mod where
  id : Nat
  kind : Kind
  ext : Bool
  deriving DecidableEq, Repr

inductive Action | check | infer | genDefault
  deriving DecidableEq, Repr

inductive Stage | single | first | second
  deriving DecidableEq, Repr

inductive Err | keyError
  deriving DecidableEq, Repr

/-- `not name.startswith('pytype_extensions.') and kind in ('Builtin','System')` -/
def Mod.isGen (m : Mod) : Bool := !m.ext && m.kind.isBS

/-- `get_module_action` -/
def moduleAction (req : List Nat) (m : Mod) : Action :=
  if m.isGen then .genDefault else if req.contains m.id then .check else .infer

/-- one tuple yielded by `yield_sorted_modules` -/
structure Item where
  mod : Mod
  act : Action
  deps : List Mod
  stage : Stage
  deriving DecidableEq, Repr

/-- `if action == CHECK: action = INFER` in the first pass -/
def firstAct : Action → Action
  | .check => .infer
  | a => a

/-- body of the `for group, deps in self.sorted_sources` loop.  A group with exactly one module
is a single pass; anything else (also the empty group) goes through the two-pass branch, whose
second pass uses `deps += tuple(second_pass_deps)` (= the whole group, in order) and skips
GENERATE_DEFAULT modules. -/
def yieldGroup (req : List Nat) (g : List Mod × List Mod) : List Item :=
  match g.1 with
  | [m] => [⟨m, moduleAction req m, g.2, .single⟩]
  | ms =>
    ms.map (fun m => ⟨m, firstAct (moduleAction req m), g.2, .first⟩) ++
    (ms.filter (fun m => decide (moduleAction req m ≠ .genDefault))).map
      (fun m => ⟨m, moduleAction req m, g.2 ++ ms, .second⟩)

def yieldSorted (req : List Nat) (gs : List (List Mod × List Mod)) : List Item :=
  gs.flatMap (yieldGroup req)

/-! ### insertion-ordered dicts keyed by modules -/

def dget {β : Type} : List (Mod × β) → Mod → Option β
  | [], _ => none
  | (k', v) :: r, k => if k' = k then some v else dget r k

/-- `d[k] = v` (an existing key keeps its position) -/
def dset {β : Type} : List (Mod × β) → Mod → β → List (Mod × β)
  | [], k, v => [(k, v)]
  | (k', v') :: r, k, v => if k' = k then (k, v) :: r else (k', v') :: dset r k v

/-- `d.update(e)` -/
def dupdate {β : Type} (d e : List (Mod × β)) : List (Mod × β) :=
  e.foldl (fun acc kv => dset acc kv.1 kv.2) d

/-- what a build step writes (`default` is imports/default.pyi, written at plan time) -/
inductive Out | default | pyi (m : Mod) (first : Bool)
  deriving DecidableEq, Repr

abbrev ImportsMap := List (Mod × Out)

/-- one `build` statement together with the `.imports` file it refers to -/
structure Step where
  mod : Mod
  first : Bool
  act : Action
  deps : List Out
  imports : ImportsMap
  deriving DecidableEq, Repr

def Step.out (s : Step) : Out := .pyi s.mod s.first

/-- the stubs the analysis of this step may open: the values of its imports map -/
def Step.reads (s : Step) : List Out := s.imports.map (·.2)

/-- `get_imports_map(deps, module_to_imports_map, module_to_output)`, accumulator form of the
`for m in deps` loop -/
def getImportsMapAux (m2im : List (Mod × ImportsMap)) (m2o : List (Mod × Out)) :
    List Mod → ImportsMap → Except Err ImportsMap
  | [], im => .ok im
  | m :: ds, im =>
    match dget m2o m with
    | none => .error .keyError
    | some o =>
      getImportsMapAux m2im m2o ds
        (dset (match dget m2im m with
               | some x => dupdate im x
               | none => im) m o)

def getImportsMap (deps : List Mod) (m2im : List (Mod × ImportsMap)) (m2o : List (Mod × Out)) :
    Except Err ImportsMap :=
  getImportsMapAux m2im m2o deps []

/-- `tuple(module_to_output[m] for m in deps if module_to_output[m] != default_output)`
(only evaluated after `get_imports_map` succeeded, so every lookup is defined) -/
def declaredDeps (m2o : List (Mod × Out)) (deps : List Mod) : List Out :=
  deps.filterMap fun m =>
    match dget m2o m with
    | some .default => none
    | some o => some o
    | none => none

/-- loop state of `setup_build` -/
structure St where
  files : List Nat
  m2im : List (Mod × ImportsMap)
  m2o : List (Mod × Out)
  steps : List Step
  deriving Repr

def St.init : St := ⟨[], [], [], []⟩

/-- `files >= self.filenames` -/
def skipping (req : List Nat) (st : St) : Bool := req.all fun f => st.files.contains f

def Item.isFirst (it : Item) : Bool := decide (it.stage = .first)

/-- body of the `for module, action, deps, stage in self.yield_sorted_modules()` loop -/
def stepItem (req : List Nat) (st : St) (it : Item) : Except Err St :=
  if skipping req st then .ok st
  else if it.act = .genDefault then .ok { st with m2o := dset st.m2o it.mod .default }
  else
    match getImportsMap it.deps st.m2im st.m2o with
    | .error e => .error e
    | .ok im =>
      let s : Step := ⟨it.mod, it.isFirst, it.act, declaredDeps st.m2o it.deps, im⟩
      .ok { files := if it.isFirst then st.files
                     else if st.files.contains it.mod.id then st.files else st.files ++ [it.mod.id]
            m2im := dset st.m2im it.mod im
            m2o := dset st.m2o it.mod s.out
            steps := st.steps ++ [s] }

def runItems (req : List Nat) : List Item → St → Except Err St
  | [], st => .ok st
  | it :: r, st =>
    match stepItem req st it with
    | .error e => .error e
    | .ok st' => runItems req r st'

/-- `setup_build`: final loop state (build statements in file order, returned `files`) -/
def setupBuild (req : List Nat) (gs : List (List Mod × List Mod)) : Except Err St :=
  runItems req (yieldSorted req gs) St.init

/-- the build statements of build.ninja, in file order -/
def plan (req : List Nat) (gs : List (List Mod × List Mod)) : Except Err (List Step) :=
  match setupBuild req gs with
  | .error e => .error e
  | .ok st => .ok st.steps

/-! ### input contracts (what `deps_from_import_graph` guarantees) -/

/-- no file occurs twice among the source groups -/
def WF (gs : List (List Mod × List Mod)) : Prop := ((gs.flatMap (·.1)).map (·.id)).Nodup

instance (gs : List (List Mod × List Mod)) : Decidable (WF gs) := by unfold WF; infer_instance

/-- groups are in dependency order: every dep of a group is a member of an earlier group -/
def depsClosedAux : List Mod → List (List Mod × List Mod) → Bool
  | _, [] => true
  | seen, g :: t => g.2.all (fun d => seen.contains d) && depsClosedAux (seen ++ g.1) t

def depsClosed (gs : List (List Mod × List Mod)) : Bool := depsClosedAux [] gs

end PytypeModel.Plan
