/-
Model of `escape_ninja_path` (pytype_runner.py), of ninja's `$`-unescaping
(manual, "Lexical syntax"; lexer.in `Lexer::ReadEvalString`), and of the line
format of `.imports` files (`PytypeRunner.write_imports` /
`imports_map_loader.ImportsMapBuilder._read_from_file`).  Core Lean only.

Python / ninja                                  model
----------------------------------------------  ---------------------------------------------
re.sub(r'(?P<char>[\n :$])', r'$\g<char>', p)   escape
ReadEvalString(path=true)  (ReadPath)           readPath : text up to an unescaped ' ' ':' '|' '\n'
ReadEvalString(path=false) (variable value)     readValue: text up to '\n'; ' ' ':' '|' literal
  `$$` `$ ` `$:`  literal `$`, space, colon      Mode.dollar
  `$\n` + following spaces: line continuation    Mode.cont   (contributes nothing)
  `$name` `${name}`: variable reference          Mode.var / Mode.brace; the plan defines no
                                                 variables, so a reference evaluates to ""
  other `$x`: "bad $-escape"; NUL, lone '\r'     Err
'%s %s\n' % item                                importsLine
line.strip(); line.split(" ", 1)                parseImportsLine
-/
namespace PytypeModel.Ninja

/-- the character class `[\n :$]` of `escape_ninja_path` -/
def isSpecial (c : Char) : Bool := c = '\n' || c = ' ' || c = ':' || c = '$'

def escape : List Char → List Char
  | [] => []
  | c :: cs => if isSpecial c then '$' :: c :: escape cs else c :: escape cs

/-- every `$` is followed by a special character which it escapes; no other special
character occurs: "no unescaped space / colon / `$` / newline". -/
def wellEscaped : List Char → Bool
  | [] => true
  | [c] => !isSpecial c
  | c :: d :: r => if c = '$' then isSpecial d && wellEscaped r else !isSpecial c && wellEscaped (d :: r)

/-! ### ninja's evaluation of an escaped string -/

inductive Err | badEscape | lexError | unexpectedEOF
  deriving DecidableEq, Repr

/-- `simple_varname = [a-zA-Z0-9_-]+` -/
def isSimpleVarChar (c : Char) : Bool := c.isAlphanum || c = '_' || c = '-'

/-- `varname = [a-zA-Z0-9_.-]+` (inside `${...}`) -/
def isVarChar (c : Char) : Bool := isSimpleVarChar c || c = '.'

inductive Mode | norm | dollar | var | brace0 | brace | cont | dollarCR
  deriving DecidableEq, Repr

inductive Trans
  | go (m : Mode) (push : Option Char)
  | stop            -- the string ends *before* this character
  | fail (e : Err)

/-- path terminators of `ReadEvalString(path=true)`: `[ :|\n]` -/
def isPathEnd (c : Char) : Bool := c = ' ' || c = ':' || c = '|' || c = '\n'

/-- transition on character `c` (with one character of lookahead for "\r\n") in normal text -/
def transNorm (path : Bool) (c : Char) (next : Option Char) : Trans :=
  if c = '$' then .go .dollar none
  else if c = '\n' then .stop
  else if c = '\r' then (if next = some '\n' then .stop else .fail .lexError)
  else if c = Char.ofNat 0 then .fail .unexpectedEOF
  else if path && isPathEnd c then .stop
  else .go .norm (some c)

def trans (path : Bool) (m : Mode) (c : Char) (next : Option Char) : Trans :=
  match m with
  | .norm => transNorm path c next
  | .dollar =>
    if c = '$' || c = ' ' || c = ':' then .go .norm (some c)
    else if c = '\n' then .go .cont none
    else if c = '\r' then .go .dollarCR none
    else if c = '{' then .go .brace0 none
    else if isSimpleVarChar c then .go .var none
    else .fail .badEscape
  | .dollarCR => if c = '\n' then .go .cont none else .fail .badEscape
  | .var => if isSimpleVarChar c then .go .var none else transNorm path c next
  | .brace0 => if isVarChar c then .go .brace none else .fail .badEscape
  | .brace => if isVarChar c then .go .brace none else if c = '}' then .go .norm none else .fail .badEscape
  | .cont => if c = ' ' then .go .cont none else transNorm path c next

/-- the evaluator: returns the evaluated text and the unread rest.  End of input is accepted
like a terminator in plain text and after a variable name (a real file always ends in '\n'). -/
def evalAux (path : Bool) : Mode → List Char → List Char → Except Err (List Char × List Char)
  | m, [], acc =>
    match m with
    | .norm | .var => .ok (acc.reverse, [])
    | _ => .error .unexpectedEOF
  | m, c :: cs, acc =>
    match trans path m c cs.head? with
    | .go m' none => evalAux path m' cs acc
    | .go m' (some x) => evalAux path m' cs (x :: acc)
    | .stop => .ok (acc.reverse, c :: cs)
    | .fail e => .error e

def readPath (s : List Char) : Except Err (List Char × List Char) := evalAux true .norm s []
def readValue (s : List Char) : Except Err (List Char × List Char) := evalAux false .norm s []

/-- the right-hand side of `  name = value`: ninja skips the blanks after `=` before reading -/
def readBinding (s : List Char) : Except Err (List Char × List Char) :=
  readValue (s.dropWhile (· = ' '))

/-- the characters ninja cannot carry in a path at all, however escaped:
newline (`$\n` is a continuation), `|`, carriage return, NUL. -/
def pathOK (p : List Char) : Bool :=
  p.all fun c => !(c = '\n' || c = '|' || c = '\r' || c = Char.ofNat 0)

/-- same for a variable value written with `escape_ninja_path` -/
def valueOK (p : List Char) : Bool :=
  p.all fun c => !(c = '\n' || c = '\r' || c = Char.ofNat 0)

/-- what may follow a path token on a `build` line -/
def endsToken : List Char → Bool
  | [] => true
  | c :: _ => isPathEnd c

/-! ### `.imports` lines -/

/-- `str.isspace` -/
def isPyWs (c : Char) : Bool :=
  let n := c.toNat
  (9 ≤ n && n ≤ 13) || (28 ≤ n && n ≤ 32) || n = 133 || n = 160 || n = 5760 ||
  (8192 ≤ n && n ≤ 8202) || n = 8232 || n = 8233 || n = 8239 || n = 8287 || n = 12288

def strip (l : List Char) : List Char :=
  ((l.dropWhile isPyWs).reverse.dropWhile isPyWs).reverse

/-- `'%s %s' % (key, value)` (the line without its '\n') -/
def importsLine (k v : List Char) : List Char := k ++ ' ' :: v

def splitFirstSpace : List Char → Option (List Char × List Char)
  | [] => none
  | c :: cs =>
    if c = ' ' then some ([], cs)
    else match splitFirstSpace cs with
      | some (a, b) => some (c :: a, b)
      | none => none

/-- one line of `_read_from_file`: `none` for a blank line; `some none` models the ValueError of
`short_path, path = line.split(" ", 1)` when there is no space. -/
def parseImportsLine (line : List Char) : Option (Option (List Char × List Char)) :=
  match strip line with
  | [] => none
  | l => some (splitFirstSpace l)

end PytypeModel.Ninja
