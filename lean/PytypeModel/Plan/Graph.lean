import PytypeModel.Plan.Runner

/-! # C19 — model of `pytype_runner.deps_from_import_graph`

The stage in front of the planner: it turns importlab's import graph into the `sorted_sources` the planner
consumes, and it is where the planner's input contract (`WF`, `depsClosed`) comes from.

Python                                              model
--------------------------------------------------  -------------------------------------------------
a file of the graph                                 `GFile`: a source (`.src m`, `m` = `resolved_file_to_module`
                                                    of the provenance entry) or a type stub (`.stub k`,
                                                    `_is_type_stub`: `.pyi` / `.pytd`)
`reversed(import_graph.deps_list())`                `List GNode`, dependencies first; `deps` are positions in
                                                    that list (the harness numbers importlab's node objects)
`_get_filenames(node)` (a `str` or a NodeSet,       `GNode.files`, already in file-name order (the sort itself is
sorted by file name)                                done by the harness: stated in the trusted base)
`utils.unique_list`                                 `uniqueList` (first occurrences, in order)
`stubs_to_source_deps` (defaultdict(list))          `StubMap` with `sget` / `sextend`
loop body                                           `gstep`;  whole function: `depsFromGraph`

Core Lean only. -/
namespace PytypeModel.Plan

inductive GFile
  | src (m : Mod)
  | stub (k : Nat)
  deriving DecidableEq, Repr

structure GNode where
  files : List GFile
  deps : List Nat
  deriving Repr

/-- `split_files`: (stubs, sources), each in the order of the input -/
def stubsOf : List GFile → List Nat
  | [] => []
  | .stub k :: r => k :: stubsOf r
  | .src _ :: r => stubsOf r

def sourcesOf : List GFile → List Mod
  | [] => []
  | .src m :: r => m :: sourcesOf r
  | .stub _ :: r => sourcesOf r

/-- `utils.unique_list`, accumulator form -/
def uniqueAux {α : Type} [DecidableEq α] : List α → List α → List α
  | [], _ => []
  | x :: r, seen => if seen.contains x then uniqueAux r seen else x :: uniqueAux r (x :: seen)

def uniqueList {α : Type} [DecidableEq α] (l : List α) : List α := uniqueAux l []

abbrev StubMap := List (Nat × List Mod)

/-- `stubs_to_source_deps[k]` (a missing key reads as the empty list) -/
def sget : StubMap → Nat → List Mod
  | [], _ => []
  | (k', v) :: r, k => if k' = k then v else sget r k

/-- `stubs_to_source_deps[k].extend(xs)` -/
def sextend : StubMap → Nat → List Mod → StubMap
  | [], k, xs => [(k, xs)]
  | (k', v) :: r, k, xs => if k' = k then (k', v ++ xs) :: r else (k', v) :: sextend r k xs

/-- the files of the dep nodes, flattened: `itertools.chain.from_iterable(_get_filenames(d) for d in deps)` -/
def depFiles (nodes : List GNode) (n : GNode) : List GFile :=
  n.deps.flatMap fun j => match nodes[j]? with | some d => d.files | none => []

/-- `for stub in stubs: …` — each stub of the node collects the node's source deps and what the node's stub deps
already stand for -/
def collectStub (stubDeps : List Nat) (sourceDeps : List Mod) (sm : StubMap) (s : Nat) : StubMap :=
  stubDeps.foldl (fun sm2 sd => sextend sm2 s (sget sm2 sd)) (sextend sm s sourceDeps)

structure GSt where
  stubMap : StubMap
  out : List (List Mod × List Mod)
  deriving Repr

/-- the body of `for node, deps in reversed(import_graph.deps_list())` -/
def gstep (nodes : List GNode) (st : GSt) (n : GNode) : GSt :=
  let flat := uniqueList (depFiles nodes n)
  let stubDeps := stubsOf flat
  let sourceDeps := sourcesOf flat
  let sm := (stubsOf n.files).foldl (collectStub stubDeps sourceDeps) st.stubMap
  match sourcesOf n.files with
  | [] => { st with stubMap := sm }
  | srcs => { stubMap := sm, out := st.out ++ [(srcs, sourceDeps ++ stubDeps.flatMap (sget sm))] }

def gfold (nodes : List GNode) : List GNode → GSt → GSt
  | [], st => st
  | n :: r, st => gfold nodes r (gstep nodes st n)

/-- `deps_from_import_graph(import_graph)` -/
def depsFromGraph (nodes : List GNode) : List (List Mod × List Mod) := (gfold nodes nodes ⟨[], []⟩).out

/-! ### what importlab guarantees about its graph (decidable, evaluated by the driver on every real graph) -/

/-- the node list is in dependency order: a node's deps come strictly before it -/
def topoFrom : Nat → List GNode → Bool
  | _, [] => true
  | i, n :: r => n.deps.all (· < i) && topoFrom (i + 1) r

def topo (nodes : List GNode) : Bool := topoFrom 0 nodes

/-- no type stub occurs twice among the files of the graph (a file is in exactly one node) -/
def stubsDistinct (nodes : List GNode) : Bool := decide ((nodes.flatMap fun n => stubsOf n.files).Nodup)

/-- all sources of the graph, in node order -/
def graphSources (nodes : List GNode) : List Mod := nodes.flatMap fun n => sourcesOf n.files

end PytypeModel.Plan
