/-!
# C13 — model of the pending-keyword-names register of the 3.11+ call protocol
(`vm.py`: `byte_KW_NAMES`, `call_function_from_stack_311`)

CPython 3.11/3.12 passes keyword arguments as `KW_NAMES names; CALL n`: the last `len names` of the `n` stack operands
are the values of the keywords `names`, the others are positional.  pytype keeps the pending names in the VM attribute
`_kw_names`; `call_function_from_stack_311` splits the operands with it and **clears it before it transfers control**,
because the callee's body is interpreted inline (further `CALL`s run before this one returns).

The model works on the *dynamic* event trace of one analysis (what the harness records from the real VM):
  `kw ns`      — `byte_KW_NAMES` executed with names `ns`
  `call n`     — `call_function_from_stack_311` entered with `n` operands (receiver included for method calls)
and answers, for every `call`, how the operands are split.  Core Lean only. -/
namespace PytypeModel.KwReg

inductive Ev
  | kw (ns : List String)
  | call (n : Nat)
  deriving Repr, DecidableEq

/-- what one `call` event does with its operands: number of positional ones and the keyword names (in order) -/
structure Split where
  npos : Nat
  named : List String
  deriving Repr, DecidableEq

/-- `call_function_from_stack_311`: `posargs = args[:-n_kw]`, `namedargs = zip(_kw_names, args[-n_kw:])`.
(Python's `args[:-k]` for `k > len args` is empty: `n - k` truncated at 0; `zip` stops at the shorter side.) -/
def split (reg : List String) (n : Nat) : Split :=
  if reg.isEmpty then ⟨n, []⟩ else ⟨n - reg.length, reg.take n⟩

/-- the VM: state = the register; output = one `Split` per `call` event -/
def run : List String → List Ev → List Split
  | _, [] => []
  | _, .kw ns :: r => run ns r
  | reg, .call n :: r => split reg n :: run [] r          -- `self._kw_names = ()` before the helper runs the callee

/-- the specification, stated on the trace alone: a call's keyword names are those of the `KW_NAMES` instruction
that immediately precedes it; a call that is not immediately preceded by one has none (in particular every call made
while another call is in progress — they come later in the trace) -/
def spec : List Ev → List Split
  | [] => []
  | .kw ns :: .call n :: r => split ns n :: spec r
  | .kw _ :: r => spec r
  | .call n :: r => ⟨n, []⟩ :: spec r

/-- compiler output: `KW_NAMES` is always immediately followed by its `CALL` (decidable, evaluated on every trace) -/
def wellPaired : List Ev → Bool
  | [] => true
  | .kw _ :: .call _ :: r => wellPaired r
  | .kw _ :: _ => false
  | .call _ :: r => wellPaired r

end PytypeModel.KwReg
