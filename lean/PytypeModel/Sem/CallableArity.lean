/-
Model of the arity clause of pytype/matcher.py `_match_signature_against_callable` (a function value against
`Callable[[A1, …, An], R]`), and of what PEP 484 / CPython mean by it.  Core Lean only.

Python (matcher.py, after the ParamSpec branch)                         model
----------------------------------------------------------------------  -----------------------------
sig.mandatory_param_count()  = #{positional params without default}     `FSig.mandatory`
                             + #{keyword-only params without default}
sig.maximum_param_count()    = None if *args or **kwargs                `FSig.maximum`
                             else #positional + #keyword-only
if mandatory > num_args: no match                                       `arityMatch`
if maximum is not None and maximum < num_args: no match

A `Callable[[A1..An], R]` is called with exactly n positional arguments and nothing else, so a function is an
inhabitant (as far as arity goes) iff CPython can bind n positional arguments: `cpyAccepts`
(= `inspect.signature(f).bind(*n_values)` succeeds = the C13 specification `cpyBind` on the call shape (n, [])).
The parameter *types* are outside this model: the correspondence uses unannotated functions.
-/
namespace PytypeModel.Sem.CallableArity

/-- the shape of a function signature, by counts -/
structure FSig where
  reqPos : Nat          -- positional(-only or -or-keyword) parameters without default
  optPos : Nat          -- positional parameters with a default
  varargs : Bool
  reqKw : Nat           -- keyword-only parameters without default
  optKw : Nat           -- keyword-only parameters with a default
  kwargs : Bool
deriving DecidableEq, Repr

def FSig.mandatory (s : FSig) : Nat := s.reqPos + s.reqKw

def FSig.maximum (s : FSig) : Option Nat :=
  if s.varargs || s.kwargs then none else some (s.reqPos + s.optPos + (s.reqKw + s.optKw))

/-- pytype: the arity clause of `_match_signature_against_callable` -/
def arityMatch (s : FSig) (n : Nat) : Bool :=
  if s.mandatory > n then false
  else match s.maximum with
    | some m => !(m < n)
    | none => true

/-- CPython: `f(*n positional arguments)` binds -/
def cpyAccepts (s : FSig) (n : Nat) : Bool :=
  decide (s.reqPos ≤ n) && (s.varargs || decide (n ≤ s.reqPos + s.optPos)) && (s.reqKw == 0)

/-- where the two agree: no keyword-only parameter, and `**kwargs` only together with `*args` -/
def Guard (s : FSig) : Bool := s.reqKw == 0 && s.optKw == 0 && (!s.kwargs || s.varargs)

/-! ## a value *declared* `Callable[[D1..Dm], R]` against `Callable[[E1..En], R]`
(`matcher._match_callable_args_against_callable`): same length, then position by position the EXPECTED argument type
is matched against the DECLARED one (contravariance).  Argument types are the scalar builtin classes; `subS a b` is
pytype's class match "an `a` is accepted where `b` is expected" (MRO + the PEP 484 promotions bool → int → float). -/

inductive Scal where
  | int | str | float | object | bool
deriving DecidableEq, Repr

def subS : Scal → Scal → Bool
  | _, .object => true
  | .int, .int => true
  | .str, .str => true
  | .float, .float => true
  | .bool, .bool => true
  | .bool, .int => true
  | .bool, .float => true
  | .int, .float => true
  | _, _ => false

/-- the arity test followed by the `zip` loop over the argument positions -/
def matchArgs : List Scal → List Scal → Bool
  | [], [] => true
  | d :: ds, e :: es => subS e d && matchArgs ds es
  | _, _ => false

end PytypeModel.Sem.CallableArity
