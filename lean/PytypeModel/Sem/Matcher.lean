import PytypeModel.Sem.Values
import PytypeModel.Generated.Compat

/-
Model of the decision pytype's matcher reaches for a *fully known* value against an annotation of grammar F2,
of the three enforcement sites, and the independent PEP-484 membership relation `member` (the specification).
Core Lean only.

pytype (/repo)                                                   model
---------------------------------------------------------------  ---------------------------------------------
annotation_utils: annotation expression ↦ abstract value         `Ann` (Optional a = Union[a, None])
matcher.compute_one_match: `for view in get_views([var])`         `views`, then `matchV H view ann` per view
  match_var_against_type: variable without bindings ⇒ match       `matchV _ .nothing _ = true`
  _match_value_against_type: Unsolvable (Any) ⇒ match; Union:     `.any`; `matchAny` (some option matches, *per view*)
    some option matches
  _match_type_against_type:
    left a Class  vs type[X]: instantiate left, match X           `.typeC`, `.typeU` (X a union), `.typeAny`
                  vs object / Callable / type ⇒ match             `.object`, `.callable`
    left a function vs object / bare Callable ⇒ match             `.callable`
    otherwise _match_instance_against_type:
      _satisfies_noniterable_str (str vs Iterable/Sequence/       `strIterOk`  (tables `Generated.Compat.conflictingIterTypes`,
        Collection/Container[str] is rejected)                       `strTypes`)
      match_from_mro + _match_base_class_flat, compat builtins    `fromMro` over `scalMro` with `Generated.Compat.compatItemsDefault`
        (int→float→complex, and NoneType→bool under the default
         option none_is_not_bool=False)
      user classes: some class of the MRO is the expected class   `Hierarchy.sub`
      builtin containers against their own class and the ABCs     `contUnder`, `tupleUnder`, dict: `Iterable`(key)/`Mapping`
        of their MRO (builtins.pytd / typing.pytd: list <: Sequence <: Iterable, set/frozenset <: AbstractSet <: Iterable,
        dict <: Mapping <: Iterable[_K], tuple/str/bytes <: Sequence; `typing.Collection` is in NO builtin MRO)
      _match_instance_parameters / _match_instance_param_         parameter of the chosen view against the parameter
        against_class_param (`view[instance_param]`)                annotation
      _match_heterogeneous_tuple_instance: same length and        `matchTup`;  against Sequence/Iterable/tuple[a, ...]:
        element-wise                                                every element against `a`
      typing.Collection[a]: not in the MRO ⇒ protocol matching    `.coll`: builtin containers match whatever `a` is;
        (_match_against_protocol on __len__/__iter__/__contains__)   str / bytes behave as for Sequence (element str / int)
compute_one_match(match_all_views=True)   (return, assignment)   `matches`     = every view matches
compute_matches(match_all_views=False)    (arguments)            `matchesArg`  = some view matches
vm._check_return → bad-return-type                               `siteError .ret`
_interpreter_function.match_args → wrong-arg-types               `siteError .arg`
context.check_annotation_type_mismatch(allow_none=True)          `siteError .asg` (a bare `None` is never reported)
  → annotation-type-mismatch

Not modelled: the 1024-combination limit of deep_variable_product (beyond it pytype matches `Any`), TypeVars,
TypedDict, user Protocols, Literal, overloads, parameterised Callable, instances with `__call__`/`__iter__`.
-/
namespace PytypeModel.Sem
open PytypeModel.Generated

/-- annotations without arguments -/
inductive Base where
  | int | float | complex | str | bytes | bool | none | object | any | callable | typeAny
deriving DecidableEq, Repr

/-- one-parameter generics: `list`, `set`, `frozenset`, `tuple[a, ...]`, `Sequence`, `Iterable`, `Collection` -/
inductive G1 where
  | list | set | fset | tupHom | seq | iter | coll
deriving DecidableEq, Repr

/-- two-parameter generics: `dict`, `Mapping` -/
inductive G2 where
  | dict | map
deriving DecidableEq, Repr

/-- annotation grammar F2 -/
inductive Ann where
  | base (b : Base)
  | cls (k : Nat)              -- `K<k>`
  | typeC (k : Nat)            -- `type[K<k>]`
  | typeU (ks : List Nat) (bs : List Scal)   -- `type[Union[K<k1>, …, b1, …]]` (user classes and builtin scalar classes)
  | opt (a : Ann)              -- `Optional[a]`
  | union (as : List Ann)      -- `Union[a1, …, an]`
  | gen1 (g : G1) (a : Ann)
  | gen2 (g : G2) (k v : Ann)
  | tup (as : List Ann)        -- `tuple[a1, …, an]` (`tuple[()]` for n = 0)
deriving Repr

mutual
/-- membership in the fragment: class indices are classes of the hierarchy, unions have at least two options.
(TypeVars, TypedDict, user Protocols, Literal, overloads, parameterised Callable are not expressible in `Ann`.) -/
def InF2 (H : Hierarchy) : Ann → Bool
  | .base _ => true
  | .cls k => decide (k < H.size)
  | .typeC k => decide (k < H.size)
  | .typeU ks bs => decide (2 ≤ ks.length + bs.length) && ks.all fun k => decide (k < H.size)
  | .opt a => InF2 H a
  | .union as => decide (2 ≤ as.length) && InF2L H as
  | .gen1 _ a => InF2 H a
  | .gen2 _ k v => InF2 H k && InF2 H v
  | .tup as => InF2L H as
def InF2L (H : Hierarchy) : List Ann → Bool
  | [] => true
  | a :: as => InF2 H a && InF2L H as
end

/-! ### builtin tables -/

/-- class name as it appears in `pep484._COMPAT_ITEMS` -/
def Scal.name : Scal → String
  | .int => "int" | .float => "float" | .complex => "complex" | .str => "str"
  | .bytes => "bytes" | .bool => "bool" | .none => "NoneType"

/-- MRO of the scalar builtin classes restricted to the scalar classes (builtins.pytd: `class bool(int)`);
`object` and the `Supports*` protocols are left out, no annotation of F2 names them except `object`. -/
def scalMro : Scal → List Scal
  | .bool => [.bool, .int]
  | s => [s]

/-- `_match_base_class_flat`: same class, or the pair is a compatible builtin -/
def flatMatch (c t : Scal) : Bool :=
  c == t || Compat.compatItemsDefault.contains (c.name, t.name)

/-- `match_from_mro` for a scalar instance against a scalar class -/
def fromMro (s t : Scal) : Bool := (scalMro s).any fun c => flatMatch c t

/-- is the annotation exactly `str`? (`type_param … .full_name in str_types`) -/
def Ann.isStr : Ann → Bool
  | .base .str => true
  | _ => false

/-- typing name of the three iterable ABCs (to consult the generated `conflicting_iter_types`) -/
def G1.typingName : G1 → String
  | .list => "builtins.list" | .set => "builtins.set" | .fset => "builtins.frozenset" | .tupHom => "builtins.tuple"
  | .seq => "typing.Sequence" | .iter => "typing.Iterable" | .coll => "typing.Collection"

/-- `_satisfies_noniterable_str (str, g[a])` -/
def strIterOk (g : G1) (a : Ann) : Bool :=
  !(Compat.conflictingIterTypes.contains g.typingName && Compat.strTypes.contains "builtins.str" && a.isStr)

/-- `list`/`set`/`frozenset` instance: does `g` name the class itself or an ABC of its MRO (typing.pytd)?
`Collection` is matched structurally (protocol) and every builtin container has `__len__/__iter__/__contains__`. -/
def contUnder : Cont → G1 → Bool
  | .list, .list | .list, .seq | .list, .iter | .list, .coll => true
  | .set, .set | .set, .iter | .set, .coll => true
  | .fset, .fset | .fset, .iter | .fset, .coll => true
  | _, _ => false

/-- a tuple instance against the one-parameter generics -/
def tupleUnder : G1 → Bool
  | .tupHom | .seq | .iter | .coll => true
  | _ => false

/-- str / bytes instances are `Sequence`s -/
def seqLike : G1 → Bool
  | .seq | .iter | .coll => true
  | _ => false

/-- annotations without arguments against a view -/
def matchBase (w : VTy) (b : Base) : Bool :=
  match b with
  | .any | .object => true
  | .int => (match w with | .scal s => fromMro s .int | _ => false)
  | .float => (match w with | .scal s => fromMro s .float | _ => false)
  | .complex => (match w with | .scal s => fromMro s .complex | _ => false)
  | .str => (match w with | .scal s => fromMro s .str | _ => false)
  | .bytes => (match w with | .scal s => fromMro s .bytes | _ => false)
  | .bool => (match w with | .scal s => fromMro s .bool | _ => false)
  | .none => (match w with | .scal s => fromMro s .none | _ => false)
  | .callable => (match w with | .func | .clsobj _ | .bclsobj _ => true | _ => false)
  | .typeAny => (match w with | .clsobj _ | .bclsobj _ => true | _ => false)

/-- the builtin class objects the harness uses as values: `int`, `float`, `bool` (any other index: a builtin class
that is not a scalar class, e.g. `list`) -/
def scalOfB : Nat → Option Scal
  | 0 => some .int
  | 1 => some .float
  | 2 => some .bool
  | _ => none

/-- a class object against `type[Union[…]]`: `_match_type_against_type` instantiates the class and matches the
instance against the union (so the compat builtins apply to class objects too: `int` is a `type[float]`) -/
def matchTypeU (H : Hierarchy) (w : VTy) (ks : List Nat) (bs : List Scal) : Bool :=
  match w with
  | .clsobj c => ks.any fun k => H.sub c k
  | .bclsobj b => (match scalOfB b with | some s => bs.any fun t => fromMro s t | none => false)
  | _ => false

mutual
/-- the matcher's decision for ONE view -/
def matchV (H : Hierarchy) : VTy → Ann → Bool
  | .nothing, _ => true
  | w, .base b => matchBase w b
  | w, .cls k => (match w with | .inst c => H.sub c k | _ => false)
  | w, .typeC k => (match w with | .clsobj c => H.sub c k | _ => false)
  | w, .typeU ks bs => matchTypeU H w ks bs
  | w, .opt a => matchV H w a || matchBase w .none
  | w, .union as => matchAny H w as
  | w, .gen1 g a =>
    (match w with
     | .cont c p => contUnder c g && (g == .coll || matchV H p a)
     | .tuple es => tupleUnder g && (g == .coll || es.all fun e => matchV H e a)
     | .dict k _ => (g == .iter && matchV H k a) || g == .coll
     | .scal .str => seqLike g && strIterOk g a && matchV H (.scal .str) a
     | .scal .bytes => seqLike g && matchV H (.scal .int) a
     | _ => false)
  | w, .gen2 _ ka va => (match w with | .dict k v => matchV H k ka && matchV H v va | _ => false)
  | w, .tup as => (match w with | .tuple es => matchTup H es as | _ => false)
/-- some option of a union matches -/
def matchAny (H : Hierarchy) : VTy → List Ann → Bool
  | _, [] => false
  | w, a :: as => matchV H w a || matchAny H w as
/-- `tuple[a1..an]`: same length, element-wise -/
def matchTup (H : Hierarchy) : List VTy → List Ann → Bool
  | [], [] => true
  | e :: es, a :: as => matchV H e a && matchTup H es as
  | _, _ => false
end

/-- return / assignment sites (`match_all_views=True`): every view matches -/
def «matches» (H : Hierarchy) (t : ATy) (a : Ann) : Bool := (views t).all fun w => matchV H w a

/-- argument site (`match_all_views=False`): some view matches -/
def matchesArg (H : Hierarchy) (t : ATy) (a : Ann) : Bool := (views t).any fun w => matchV H w a

inductive Site where
  | arg | ret | asg
deriving DecidableEq, Repr

/-- is the value a bare `None`? (`value.data == [convert.none]`) -/
def ATy.isNone : ATy → Bool
  | .scal .none => true
  | _ => false

/-- the funnel of the three enforcement sites: is an error reported? -/
def siteError (H : Hierarchy) (s : Site) (t : ATy) (a : Ann) : Bool :=
  match s with
  | .arg => !matchesArg H t a
  | .ret => !«matches» H t a
  | .asg => !(t.isNone || «matches» H t a)

/-! ### the specification: PEP-484 membership of a ground value in an annotation -/

/-- scalar classes: nominal subclassing (`bool <: int`) and the numeric promotion `int → float → complex` -/
def memBase (v : Val) (b : Base) : Bool :=
  match b with
  | .any | .object => true
  | .int => (match v with | .int _ | .bool _ => true | _ => false)
  | .float => (match v with | .int _ | .bool _ | .float _ => true | _ => false)
  | .complex => (match v with | .int _ | .bool _ | .float _ | .complex _ => true | _ => false)
  | .str => (match v with | .str _ => true | _ => false)
  | .bytes => (match v with | .bytes _ => true | _ => false)
  | .bool => (match v with | .bool _ => true | _ => false)
  | .none => (match v with | .none => true | _ => false)
  | .callable => (match v with | .func _ | .clsobj _ | .bclsobj _ => true | _ => false)
  | .typeAny => (match v with | .clsobj _ | .bclsobj _ => true | _ => false)

/-- class-level counterpart of `memBase`: the builtin scalar class `s` is `t`, a subclass of it (`bool <: int`), or
promoted to it (`int → float → complex`) -/
def clsPromotes (s t : Scal) : Bool :=
  match s, t with
  | .int, .int | .int, .float | .int, .complex => true
  | .float, .float | .float, .complex => true
  | .bool, .bool | .bool, .int | .bool, .float | .bool, .complex => true
  | _, _ => false

/-- a class object inhabits `type[Union[…]]` iff it is a subclass of (or promoted to) one of the options -/
def memTypeU (H : Hierarchy) (v : Val) (ks : List Nat) (bs : List Scal) : Bool :=
  match v with
  | .clsobj c => ks.any fun k => H.sub c k
  | .bclsobj b => (match scalOfB b with | some s => bs.any fun t => clsPromotes s t | none => false)
  | _ => false

mutual
/-- `member H v a`: the run-time value of the ground expression `v` inhabits `a`.  Containers element-wise, fixed
tuples by length and position, ABC membership by the run-time's registered hierarchy (list/tuple/str/bytes are
Sequences; those, sets, frozensets and dicts are Collections and Iterables — a dict iterates over its keys);
`str` is a `Sequence[str]`, `bytes` a `Sequence[int]` (declared element types: they count even for `""`). -/
def member (H : Hierarchy) : Val → Ann → Bool
  | v, .base b => memBase v b
  | v, .cls k => (match v with | .inst c => H.sub c k | _ => false)
  | v, .typeC k => (match v with | .clsobj c => H.sub c k | _ => false)
  | v, .typeU ks bs => memTypeU H v ks bs
  | v, .opt a => member H v a || memBase v .none
  | v, .union as => memberAny H v as
  | v, .gen1 g a =>
    (match v with
     | .list xs => (match g with | .list | .seq | .iter | .coll => xs.all fun x => member H x a | _ => false)
     | .set xs => (match g with | .set | .iter | .coll => xs.all fun x => member H x a | _ => false)
     | .fset xs => (match g with | .fset | .iter | .coll => xs.all fun x => member H x a | _ => false)
     | .tuple xs => (match g with | .tupHom | .seq | .iter | .coll => xs.all fun x => member H x a | _ => false)
     | .dict ks _ => (match g with | .iter | .coll => ks.all fun x => member H x a | _ => false)
     | .str n => (match g with | .seq | .iter | .coll => member H (.str n) a | _ => false)
     | .bytes _ => (match g with | .seq | .iter | .coll => member H (.int 0) a | _ => false)
     | _ => false)
  | v, .gen2 _ ka va =>
    (match v with
     | .dict ks vs => (ks.all fun x => member H x ka) && (vs.all fun x => member H x va)
     | _ => false)
  | v, .tup as => (match v with | .tuple xs => memberTup H xs as | _ => false)
def memberAny (H : Hierarchy) : Val → List Ann → Bool
  | _, [] => false
  | v, a :: as => member H v a || memberAny H v as
def memberTup (H : Hierarchy) : List Val → List Ann → Bool
  | [], [] => true
  | x :: xs, a :: as => member H x a && memberTup H xs as
  | _, _ => false
end


/-! ### the guard of the exactness theorem

Regions where the decision above deliberately or accidentally differs from `member` (each replayed on the real
code as a known finding, see `Props/C02.lean`):
* a `str` value against `Sequence[str]`/`Iterable[str]`/`Collection[str]` (`_satisfies_noniterable_str`);
* `None` against `bool` (`none_is_not_bool=False` adds `("NoneType","bool")` to the compat table);
* `Collection[a]` anywhere in the annotation (structural protocol match: for builtin containers `a` is never
  looked at; the real protocol matcher moreover has side effects on the typegraph that make it drop failing views,
  which this model does not describe — the correspondence check is one-sided there);
* unions with two or more parameterised options against a value with a multi-binding variable
  (the option is chosen per view: `[1, "a"]` matches `Union[list[int], list[str]]`).
Each conjunct of `Guard` excludes one region by a condition on the value or on the annotation alone. -/

mutual
/-- `p` holds for the value and all values nested in it -/
def Val.allSub (p : Val → Bool) : Val → Bool
  | .list xs => p (.list xs) && Val.allSubL p xs
  | .tuple xs => p (.tuple xs) && Val.allSubL p xs
  | .set xs => p (.set xs) && Val.allSubL p xs
  | .fset xs => p (.fset xs) && Val.allSubL p xs
  | .dict ks vs => p (.dict ks vs) && Val.allSubL p ks && Val.allSubL p vs
  | v => p v
def Val.allSubL (p : Val → Bool) : List Val → Bool
  | [] => true
  | x :: xs => Val.allSub p x && Val.allSubL p xs
end

mutual
/-- `p` holds for the annotation and all annotations nested in it -/
def Ann.allSub (p : Ann → Bool) : Ann → Bool
  | .opt a => p (.opt a) && Ann.allSub p a
  | .union as => p (.union as) && Ann.allSubL p as
  | .gen1 g a => p (.gen1 g a) && Ann.allSub p a
  | .gen2 g k v => p (.gen2 g k v) && Ann.allSub p k && Ann.allSub p v
  | .tup as => p (.tup as) && Ann.allSubL p as
  | a => p a
def Ann.allSubL (p : Ann → Bool) : List Ann → Bool
  | [] => true
  | a :: as => Ann.allSub p a && Ann.allSubL p as
end

def Val.notStr : Val → Bool | .str _ => false | _ => true
def Val.notNone : Val → Bool | .none => false | _ => true
/-- a display with at most one element (its parameter variables hold at most one binding) -/
def Val.smallDisplay : Val → Bool
  | .list xs | .set xs | .fset xs => xs.length ≤ 1
  | .dict ks vs => ks.length ≤ 1 && vs.length ≤ 1
  | _ => true

/-- not `Sequence[str]` / `Iterable[str]` / `Collection[str]` -/
def Ann.notStrIter : Ann → Bool
  | .gen1 g a => strIterOk g a
  | _ => true
def Ann.notBool : Ann → Bool | .base .bool => false | _ => true
def Ann.notColl : Ann → Bool | .gen1 .coll _ => false | _ => true
/-- an option whose match only looks at the class of the value (no parameters, not itself a union) -/
def Ann.flat : Ann → Bool
  | .base _ | .cls _ | .typeC _ | .typeU _ _ => true
  | _ => false
/-- a union with at most one option that is not flat -/
def Ann.simpleUnion : Ann → Bool
  | .union as => (as.filter fun a => !a.flat).length ≤ 1
  | _ => true

/-- the decidable guard of `match_exact_partial` -/
def Guard (v : Val) (a : Ann) : Bool :=
  (v.allSub Val.notStr || a.allSub Ann.notStrIter) &&
  (v.allSub Val.notNone || a.allSub Ann.notBool) &&
  a.allSub Ann.notColl &&
  (v.allSub Val.smallDisplay || a.allSub Ann.simpleUnion)

/-! ### displays and run-time values: CPython merges equal keys of a set/dict display (`1 == True`, `0 == False`) -/

/-- conservative key (a prefix code): two keys with different `pyKey` are different in Python.  (`int`/`bool` are
compared by numeric value, tuples element-wise; frozensets only by size; everything else by identity of the literal.) -/
def intCode (n : Int) : Nat := if n < 0 then 2 * (-n).toNat + 1 else 2 * n.toNat

mutual
def Val.pyKey : Val → List Nat
  | .int n => [0, intCode n]
  | .bool b => [0, if b then 2 else 0]
  | .float n => [1, intCode n]
  | .complex n => [2, intCode n]
  | .str n => [3, n]
  | .bytes n => [4, n]
  | .none => [5]
  | .inst k => [6, k]
  | .clsobj k => [7, k]
  | .bclsobj b => [8, b]
  | .func i => [9, i]
  | .tuple xs => 10 :: xs.length :: Val.pyKeyL xs
  | .fset xs => [11, xs.length]
  | _ => [12]
def Val.pyKeyL : List Val → List Nat
  | [] => []
  | x :: xs => Val.pyKey x ++ Val.pyKeyL xs
end

def Val.pyKeys : List Val → List (List Nat)
  | [] => []
  | x :: xs => Val.pyKey x :: Val.pyKeys xs

/-- pairwise different -/
def distinctKeys : List (List Nat) → Bool
  | [] => true
  | k :: ks => !ks.contains k && distinctKeys ks

/-- the keys of this display are pairwise different in Python -/
def Val.distinctHere : Val → Bool
  | .set xs | .fset xs => distinctKeys (Val.pyKeys xs)
  | .dict ks vs => distinctKeys (Val.pyKeys ks) && ks.length == vs.length
  | _ => true

def Val.isFset : Val → Bool | .fset _ => true | _ => false
/-- a set display none of whose elements contains a `frozenset(...)` call -/
def Val.setCallFree : Val → Bool
  | .set xs => Val.allSubL (fun x => !x.isFset) xs
  | _ => true

/-- value side of fragment F2: no `frozenset(...)` call anywhere inside a *set display*.  (`convert.build_set` pastes
the element bindings with their original origins; the call moves to a new CFG node, which hides the elements
evaluated before it, and views choosing a hidden element are dropped by the `HasCombination` re-filter of
`compute_one_match`: `x: set[frozenset[int]] = {1, frozenset()}` is not reported — a known finding; `abs` does not
describe visibility.) -/
def Val.inF2 (v : Val) : Bool := v.allSub Val.setCallFree

/-- no display anywhere in the expression has two keys CPython would merge: the expression denotes exactly the
listed elements -/
def Val.pyDistinct (v : Val) : Bool := v.allSub Val.distinctHere

end PytypeModel.Sem
