/-
Ground values, class hierarchies and abstract types for the `Sem` models (C02; core Lean only).

pytype (/repo)                                             model
---------------------------------------------------------  ------------------------------------------------
a ground value expression of fragment F2                   `Val` (the *expression*: displays as written)
 (scalar literals, None, list/tuple/set/dict displays,
  frozenset([...]), K<i>(), class objects, lambdas/defs)
CPython evaluating a set/dict display merges equal keys    `Val.pyDistinct` (no display has two keys that
 (1 == True, 0 == False)                                     CPython would merge ⇒ expression = run-time value)
the generated classes K0..K(n-1) with their MROs           `Hierarchy` (each MRO a *given* list, `object` left out)
what `convert` / the VM build for such an expression:      `ATy`, `abs : Val → ATy`
  convert.constant_to_value: scalars ↦ instances of their    `ATy.scal`
    class (the value itself is irrelevant to the matcher)
  vm BUILD_TUPLE / tuple constants ↦ abstract.Tuple with     `ATy.tuple es` (one single-binding variable per element)
    one variable per element
  BUILD_LIST/BUILD_SET/LIST_EXTEND/SET_UPDATE/frozenset(…)   `ATy.cont c ps` (`ps` = the bindings of the parameter
    ↦ Instance(list|set|frozenset) whose parameter `_T`        variable, one per element; `[]` = no binding, the
    is ONE variable holding a binding per element              "nothing" parameter of an empty container)
  BUILD_MAP/BUILD_CONST_KEY_MAP ↦ Instance(dict) with `_K`   `ATy.dict ks vs`
    and `_V` variables
  K<i>() ↦ Instance(K<i>);  K<i> ↦ the InterpreterClass;     `ATy.inst`, `ATy.clsobj`, `ATy.bclsobj`, `ATy.func`
    int/str/list ↦ PyTDClass;  lambda/def ↦ InterpreterFunction
abstract_utils.get_views / cfg_utils.deep_variable_product `VTy`, `views : ATy → List VTy`: one binding chosen for
  (one binding per variable reachable from the chosen        every parameter variable of the chosen values
   values)
-/
namespace PytypeModel.Sem

/-- classes of the scalar literals -/
inductive Scal where
  | int | float | complex | str | bytes | bool | none
deriving DecidableEq, Repr

/-- the three generic builtin containers whose instances carry one parameter variable `_T` -/
inductive Cont where
  | list | set | fset
deriving DecidableEq, Repr

/-- ground value expressions.  `float n` stands for the literal `n.5`, `complex n` for `(n+1)j` (so that a float or
complex literal never equals a literal of another type); `str n` / `bytes n` is the n-th string / bytes literal
(contents are irrelevant to typing; `str 0` is `""`).  `dict ks vs`: keys and values of a dict display, position-wise. -/
inductive Val where
  | int (n : Int) | bool (b : Bool) | float (n : Int) | complex (n : Int)
  | str (n : Nat) | bytes (n : Nat) | none
  | inst (k : Nat)            -- `K<k>()`
  | clsobj (k : Nat)          -- the class object `K<k>`
  | bclsobj (b : Nat)         -- a builtin class object (`int`, `str`, `list`, …), identified by an index
  | func (i : Nat)            -- a lambda or a module-level `def`
  | list (xs : List Val) | tuple (xs : List Val) | set (xs : List Val) | fset (xs : List Val)
  | dict (ks : List Val) (vs : List Val)
deriving Repr

/-- a generated class hierarchy: `mro[k]` is the linearisation of `K<k>` (starting with `k`, `object` omitted),
taken as data (pytype's and CPython's linearisation agree on it: property C10) -/
structure Hierarchy where
  mro : List (List Nat)
deriving Repr

namespace Hierarchy
def size (H : Hierarchy) : Nat := H.mro.length
/-- MRO of `K<c>` (a class outside the table only has itself) -/
def mroOf (H : Hierarchy) (c : Nat) : List Nat := H.mro.getD c [c]
/-- `K<k>` occurs in the MRO of `K<c>` -/
def sub (H : Hierarchy) (c k : Nat) : Bool := (H.mroOf c).contains k
end Hierarchy

/-- abstract value built by pytype for a ground expression (see the table at the top) -/
inductive ATy where
  | scal (s : Scal)
  | inst (k : Nat) | clsobj (k : Nat) | bclsobj (b : Nat) | func
  | cont (c : Cont) (ps : List ATy)
  | dict (ks vs : List ATy)
  | tuple (es : List ATy)
deriving Repr

mutual
/-- what pytype knows about a ground expression -/
def abs : Val → ATy
  | .int _ => .scal .int
  | .bool _ => .scal .bool
  | .float _ => .scal .float
  | .complex _ => .scal .complex
  | .str _ => .scal .str
  | .bytes _ => .scal .bytes
  | .none => .scal .none
  | .inst k => .inst k
  | .clsobj k => .clsobj k
  | .bclsobj b => .bclsobj b
  | .func _ => .func
  | .list xs => .cont .list (absL xs)
  | .set xs => .cont .set (absL xs)
  | .fset xs => .cont .fset (absL xs)
  | .tuple xs => .tuple (absL xs)
  | .dict ks vs => .dict (absL ks) (absL vs)
def absL : List Val → List ATy
  | [] => []
  | x :: xs => abs x :: absL xs
end

/-- one *view*: a binding chosen for every variable (`nothing` = a variable without bindings) -/
inductive VTy where
  | nothing
  | scal (s : Scal)
  | inst (k : Nat) | clsobj (k : Nat) | bclsobj (b : Nat) | func
  | cont (c : Cont) (p : VTy)
  | dict (k v : VTy)
  | tuple (es : List VTy)
deriving Repr

/-- `[x :: r | x ∈ xs, r ∈ rest]` -/
def consAll (xs : List VTy) (rest : List (List VTy)) : List (List VTy) :=
  xs.flatMap fun x => rest.map fun r => x :: r

mutual
/-- all views of a value (`deep_variable_product`): for a container every binding of the parameter variable in
turn, each with all of its own views; the parameter variables of a dict, and the element variables of a tuple, vary
independently -/
def views : ATy → List VTy
  | .scal s => [.scal s]
  | .inst k => [.inst k]
  | .clsobj k => [.clsobj k]
  | .bclsobj b => [.bclsobj b]
  | .func => [.func]
  | .cont c ps => (viewsVar ps).map (VTy.cont c)
  | .dict ks vs => (viewsVar ks).flatMap fun k => (viewsVar vs).map fun v => VTy.dict k v
  | .tuple es => (viewsProd es).map VTy.tuple
/-- views of one variable given by its bindings -/
def viewsVar : List ATy → List VTy
  | [] => [.nothing]
  | p :: ps => views p ++ viewsRest ps
/-- views of the remaining bindings of a non-empty variable -/
def viewsRest : List ATy → List VTy
  | [] => []
  | p :: ps => views p ++ viewsRest ps
/-- independent choice for each element of a tuple -/
def viewsProd : List ATy → List (List VTy)
  | [] => [[]]
  | e :: es => consAll (views e) (viewsProd es)
end

/-- no variable of the abstract value holds two bindings (every display has at most one element) -/
def ATy.singleView (t : ATy) : Bool := (views t).length == 1

end PytypeModel.Sem
