import PytypeModel.Sem.Dispatch
import PytypeModel.Generated.BuiltinOps

/-! The regenerated builtin tables (Generated/BuiltinOps.lean) as the `BView` the dispatch model
consults.  Core Lean only; imported by the driver and by Props/C14. -/
namespace PytypeModel.Dispatch
open PytypeModel.Generated

def outcomeOfCode : Nat → Outcome
  | 0 => .ok
  | 1 => .typeError
  | 2 => .attrError
  | _ => .other

def convRow (r : BuiltinOps.Row) : Row :=
  { key := (r.kind, r.aux, r.l, r.r), py := r.py, cpy := r.cpy.map outcomeOfCode, adv := r.adv }

def genView : BView :=
  { chunks := BuiltinOps.rows.map (·.map convRow), chunkSize := BuiltinOps.chunkSize,
    index := BuiltinOps.rowIndex, user := BuiltinOps.userIdx,
    userIter := BuiltinOps.userIterIdx }

/-- the index function enumerates the rows in order: the key of the j-th row of chunk ci has
position ci * chunkSize + j (so every row is found under its own key) -/
def indexedFrom (T : BView) : Nat → List (List Row) → Bool
  | _, [] => true
  | ci, ch :: rest =>
    (List.range ch.length).all (fun j =>
      match ch[j]? with
      | some r => Nat.beq (T.index r.key) (ci * T.chunkSize + j)
      | none => false)
    && indexedFrom T (ci + 1) rest

def genViewIndexed : Bool := indexedFrom genView 0 genView.chunks

end PytypeModel.Dispatch
