/-
Model of pytype/abstract/_pytd_function.py `PyTDSignature._map_args` + `_fill_in_missing_parameters` — how a call to a
function that is *declared in a stub* (builtins, typing, every imported module) is bound — on the same `Sig` / `Call`
shapes as the interpreter-function binder (`Sem/ArgBind.lean`), with CPython's `cpyBind` on the declared signature as
the specification.  Core Lean only.

Python                                                                     model
-------------------------------------------------------------------------  -------------------------------
for name, arg in zip(self.signature.param_names, args.posargs): arg_dict    `positional s c` (shared with ArgBind)
len(posargs) > len(param_names) and not pytd_sig.starargs → WrongArgCount   first test of `mapArgsPytd`
for name in namedargs: posonly → skipped; name in arg_dict → Duplicate…      `hasDuplicatePytd`
kws − {p.name for p in pytd_sig.params}; not starstarargs → WrongKeyword…    `extraKws` (shared)
kws & posonly_names; not kwargs_name → WrongKeywordArgs                      `posonlyKws` (shared)
_fill_in_missing_parameters: p not optional, p.name ∉ arg_dict → Missing…    `requiredPytd`, `hasMissingPytd`
arg_dict (what each declared parameter is matched against)                   `argDictPytd`

`has_visible_namedarg` is `True` for the ground calls of the property; `args.starargs` / `args.starstarargs` are
`None` (no unpacking at the call site: outside the property's quantifier, as for the interpreter binder).  A parameter
is optional iff it has a default (`Sig.defaults`), for keyword-only parameters too.  Extra positionals are matched
against the element type of `*args` under the names `_N`, extra keywords against the value type of `**kwargs`: they
carry no binding decision and are not in the model's dictionary.
-/
import PytypeModel.Sem.ArgBind

namespace PytypeModel.ArgBind

/-- `arg_dict` after the positional and the named loop: later insertion does not overwrite here (a second value for
a name raises instead), so plain concatenation is enough; lookup finds a keyword first, which is sound because a
keyword that is also bound positionally is an error. -/
def argDictPytd (s : Sig) (c : Call) : Dict :=
  kwEntries (c.kws.filter fun k => !s.posonly.contains k) ++ positional s c

/-- `elif name in arg_dict: raise DuplicateKeyword` (for a name that is not positional-only) -/
def hasDuplicatePytd (s : Sig) (c : Call) : Bool :=
  c.kws.any fun k => !s.posonly.contains k && ((positional s c).lookup k).isSome

/-- the parameters `_fill_in_missing_parameters` insists on: `not p.optional`, positional and keyword-only alike -/
def requiredPytd (s : Sig) : List Name :=
  (s.params ++ s.kwonly).filter fun n => !s.defaults.contains n

def hasMissingPytd (s : Sig) (c : Call) : Bool :=
  (requiredPytd s).any fun k => ((argDictPytd s c).lookup k).isNone

/-- `PyTDSignature._map_args` followed by `_fill_in_missing_parameters`, in the order the code raises -/
def mapArgsPytd (s : Sig) (c : Call) : Except BindErr Dict :=
  if c.npos > s.params.length && s.varargs.isNone then .error .wrongArgCount
  else if hasDuplicatePytd s c then .error .duplicateKeyword
  else if !(extraKws s c).isEmpty && s.kwargs.isNone then .error .wrongKeywordArgs
  else if !(posonlyKws s c).isEmpty && s.kwargs.isNone then .error .wrongKeywordArgs
  else if hasMissingPytd s c then .error .missingParameter
  else .ok (argDictPytd s c)

end PytypeModel.ArgBind
