/-
Model of pytype/abstract/_function_base.py `SignedFunction._map_args` (the routine every
InterpreterFunction call goes through: `_interpreter_function.py` `call` → `_find_matching_sig` →
`match_and_map_args` → `_map_args`), as a decision procedure over *shapes*, and of CPython's argument
binding (`initialize_locals` in Python/ceval.c, equivalently `inspect.Signature.bind`) as the
specification.  Core Lean only (no Mathlib) so the driver links.

Python (`_map_args`, after the fix 3ee955c)                     model (`mapArgs`)
--------------------------------------------------------------  ------------------------------------------
sig.param_names = posonly ++ poskw; sig.posonly_params          `Sig.params`, `Sig.posonly`
sig.kwonly_params, sig.varargs_name, sig.kwargs_name            `Sig.kwonly`, `Sig.varargs`, `Sig.kwargs`
sig.defaults (dict name → value, positional and kw-only)        `Sig.defaults` (the names that have one)
args.posargs, args.namedargs (call site, no */** at the call)   `Call.npos`, `Call.kws` (call order)
callargs: dict, `update` = later value wins                     `Dict` = association list, update = prepend,
                                                                  `List.lookup` finds the latest value
callargs = {defaults}                                           `defaultsDict`
positional = dict(zip(sig.param_names, posargs))                `positional`
for key in set(positional) - posonly: key in kws → Duplicate…   `hasDuplicate`
extra_kws = kwnames - (param_names + kwonly); ¬kwargs → Wrong…  `extraKws`
posonly_kws = kwnames & posonly; ¬kwargs → WrongKeywordArgs     `posonlyKws`
callargs.update(positional); callargs.update(kws ∖ posonly_kws) `callargs0`
nondefault params, then all kwonly: key ∉ callargs → Missing…   `required`, `hasMissing`
varargs: tuple(posargs[argcount:])  | len(posargs) > argcount   `withVarargs`
kwargs: Dict.update(namedargs, omit = (param_names ∖ posonly_kws) + kwonly)   `omitNames`, `withKwargs`

`args.starargs` / `args.starstarargs` (star-args at the call site) are outside the property's
quantifier; `Call` has no such field.  Names are identifiers interned as `Nat`.
-/
namespace PytypeModel.ArgBind

abbrev Name := Nat

/-- which call-site argument (or default) a parameter received -/
inductive ArgRef where
  | pos (i : Nat)                    -- the i-th positional argument of the call
  | kw (k : Name)                    -- the keyword argument `k=`
  | default                          -- the parameter's default value
  | varargsTuple (is : List Nat)     -- `*args`: tuple of these positional arguments, in order
  | kwargsDict (ks : List Name)      -- `**kwargs`: dict of these keyword arguments, in call order
deriving DecidableEq, Repr

/-- pytype's error classes raised by `_map_args` -/
inductive BindErr where
  | duplicateKeyword     -- error_types.DuplicateKeyword  → [duplicate-keyword-argument]
  | wrongKeywordArgs     -- error_types.WrongKeywordArgs  → [wrong-keyword-args]
  | missingParameter     -- error_types.MissingParameter  → [missing-parameter]
  | wrongArgCount        -- error_types.WrongArgCount     → [wrong-arg-count]
deriving DecidableEq, Repr

/-- the TypeErrors CPython raises while binding -/
inductive CpyErr where
  | tooManyPositional    -- f() takes N positional arguments but M were given
  | multipleValues       -- f() got multiple values for argument 'x'
  | unexpectedKeyword    -- f() got an unexpected keyword argument 'x'
  | posonlyAsKeyword     -- f() got some positional-only arguments passed as keyword arguments
  | missingPositional    -- f() missing N required positional argument(s)
  | missingKwonly        -- f() missing N required keyword-only argument(s)
deriving DecidableEq, Repr

structure Sig where
  posonly : List Name
  poskw : List Name
  varargs : Option Name
  kwonly : List Name
  kwargs : Option Name
  defaults : List Name
deriving DecidableEq, Repr

structure Call where
  npos : Nat
  kws : List Name
deriving DecidableEq, Repr

abbrev Dict := List (Name × ArgRef)

deriving instance DecidableEq for Except

/-- `sig.param_names` -/
def Sig.params (s : Sig) : List Name := s.posonly ++ s.poskw

/-- every name the callee's frame gets, in signature order -/
def Sig.allNames (s : Sig) : List Name :=
  s.posonly ++ s.poskw ++ s.varargs.toList ++ s.kwonly ++ s.kwargs.toList

/-- what the Python compiler guarantees: no duplicate argument names -/
def Sig.WF (s : Sig) : Prop := s.allNames.Nodup
/-- what the Python grammar guarantees: no repeated keyword at a call -/
def Call.WF (c : Call) : Prop := c.kws.Nodup

instance (s : Sig) : Decidable s.WF := inferInstanceAs (Decidable (List.Nodup _))
instance (c : Call) : Decidable c.WF := inferInstanceAs (Decidable (List.Nodup _))

/-- `dict(zip(names, posargs))` where the i-th positional argument is `pos i`
(`i` is the index of the first name, `n` the number of positional arguments left). -/
def zipPos : List Name → Nat → Nat → Dict
  | [], _, _ => []
  | _ :: _, _, 0 => []
  | p :: ps, i, n + 1 => (p, .pos i) :: zipPos ps (i + 1) n

def kwEntries (ks : List Name) : Dict := ks.map fun k => (k, ArgRef.kw k)

/-! ## pytype: `_map_args` -/

def defaultsDict (s : Sig) : Dict := s.defaults.map fun n => (n, ArgRef.default)

def positional (s : Sig) (c : Call) : Dict := zipPos s.params 0 c.npos

/-- `for key in set(positional) - posonly_names: if key in kws: raise DuplicateKeyword` -/
def hasDuplicate (s : Sig) (c : Call) : Bool :=
  (positional s c).any fun e => !s.posonly.contains e.1 && c.kws.contains e.1

/-- `kwnames.difference(sig.param_names + sig.kwonly_params)` -/
def extraKws (s : Sig) (c : Call) : List Name :=
  c.kws.filter fun k => !(s.params ++ s.kwonly).contains k

/-- `kwnames & posonly_names` -/
def posonlyKws (s : Sig) (c : Call) : List Name :=
  c.kws.filter fun k => s.posonly.contains k

/-- defaults, then `update(positional)`, then `update(kws minus posonly_kws)` -/
def callargs0 (s : Sig) (c : Call) : Dict :=
  kwEntries (c.kws.filter fun k => !(posonlyKws s c).contains k) ++ positional s c ++ defaultsDict s

/-- `itertools.chain(self.get_nondefault_params(), ((key, True) for key in sig.kwonly_params))` -/
def required (s : Sig) : List Name :=
  (s.params.filter fun n => !s.defaults.contains n) ++ s.kwonly

def hasMissing (s : Sig) (c : Call) : Bool :=
  (required s).any fun k => ((callargs0 s c).lookup k).isNone

/-- `extraneous = posargs[argcount:]` -/
def extraneous (s : Sig) (c : Call) : List Nat :=
  List.range' s.params.length (c.npos - s.params.length)

def withVarargs (s : Sig) (c : Call) (d : Dict) : Except BindErr Dict :=
  match s.varargs with
  | some v => .ok ((v, .varargsTuple (extraneous s c)) :: d)
  | none => if c.npos > s.params.length then .error .wrongArgCount else .ok d

/-- `omit = tuple(n for n in sig.param_names if n not in posonly_kws) + sig.kwonly_params` -/
def omitNames (s : Sig) (c : Call) : List Name :=
  (s.params.filter fun n => !(posonlyKws s c).contains n) ++ s.kwonly

def withKwargs (s : Sig) (c : Call) (d : Dict) : Dict :=
  match s.kwargs with
  | some kw => (kw, .kwargsDict (c.kws.filter fun k => !(omitNames s c).contains k)) :: d
  | none => d

/-- `SignedFunction._map_args`: the `callargs` dictionary or the raised error. -/
def mapArgs (s : Sig) (c : Call) : Except BindErr Dict :=
  if hasDuplicate s c then .error .duplicateKeyword
  else if !(extraKws s c).isEmpty && s.kwargs.isNone then .error .wrongKeywordArgs
  else if !(posonlyKws s c).isEmpty && s.kwargs.isNone then .error .wrongKeywordArgs
  else if hasMissing s c then .error .missingParameter
  else match withVarargs s c (callargs0 s c) with
    | .error e => .error e
    | .ok d => .ok (withKwargs s c d)

/-- the value each name of the callee's frame receives, in signature order
(`none` = not in the dictionary) -/
def view (s : Sig) (d : Dict) : List (Name × Option ArgRef) :=
  s.allNames.map fun p => (p, d.lookup p)

/-! ## CPython: `initialize_locals` (Python/ceval.c) -/

/-- names a keyword argument can bind: `co_varnames[posonlyargcount : argcount + kwonlyargcount]` -/
def Sig.kwBindable (s : Sig) : List Name := s.poskw ++ s.kwonly

/-- one iteration of the keyword loop: state = (bound parameters, contents of the ** dict).
`allKws` = all keyword names of the call: when a keyword matches no parameter and there is no
`**kwargs`, CPython first asks `positional_only_passed_as_keyword`, which scans *all* keywords. -/
def cpyKw (s : Sig) (allKws : List Name) (st : Dict × List Name) (k : Name) :
    Except CpyErr (Dict × List Name) :=
  if s.kwBindable.contains k then
    if (st.1.lookup k).isSome then .error .multipleValues
    else .ok ((k, .kw k) :: st.1, st.2)
  else if s.kwargs.isSome then .ok (st.1, st.2 ++ [k])
  else if allKws.any (fun k' => s.posonly.contains k') then .error .posonlyAsKeyword
  else .error .unexpectedKeyword

def cpyKws (s : Sig) (allKws : List Name) :
    List Name → Dict × List Name → Except CpyErr (Dict × List Name)
  | [], st => .ok st
  | k :: ks, st =>
    match cpyKw s allKws st k with
    | .error e => .error e
    | .ok st' => cpyKws s allKws ks st'

/-- a parameter that was not given takes its default -/
def cpyVal (b : Dict) (p : Name) : ArgRef := (b.lookup p).getD .default

def cpyUnfilled (s : Sig) (b : Dict) (p : Name) : Bool :=
  (b.lookup p).isNone && !s.defaults.contains p

/-- CPython's binding: the local-variable slots in signature order, or the TypeError. -/
def cpyBind (s : Sig) (c : Call) : Except CpyErr Dict :=
  -- 1. copy positional arguments; 2. pack the rest into *args
  let b0 := zipPos s.params 0 c.npos
  -- 3. keyword arguments, in call order
  match cpyKws s c.kws c.kws (b0, []) with
  | .error e => .error e
  | .ok (b, extra) =>
    -- 4. too many positional arguments
    if c.npos > s.params.length && s.varargs.isNone then .error .tooManyPositional
    -- 5. missing positional arguments / defaults
    else if s.params.any (cpyUnfilled s b) then .error .missingPositional
    -- 6. missing keyword-only arguments / kwdefaults
    else if s.kwonly.any (cpyUnfilled s b) then .error .missingKwonly
    else .ok (
      s.params.map (fun p => (p, cpyVal b p))
      ++ (s.varargs.toList.map fun v =>
            (v, ArgRef.varargsTuple (List.range' s.params.length (c.npos - s.params.length))))
      ++ s.kwonly.map (fun p => (p, cpyVal b p))
      ++ (s.kwargs.toList.map fun kw => (kw, ArgRef.kwargsDict extra)))

/-! ## outcome classes ("an arity or keyword error") -/

inductive Outcome where
  | ok | keywordError | arityError
deriving DecidableEq, Repr

def BindErr.cls : BindErr → Outcome
  | .duplicateKeyword => .keywordError
  | .wrongKeywordArgs => .keywordError
  | .missingParameter => .arityError
  | .wrongArgCount => .arityError

def CpyErr.cls : CpyErr → Outcome
  | .multipleValues => .keywordError
  | .unexpectedKeyword => .keywordError
  | .posonlyAsKeyword => .keywordError
  | .tooManyPositional => .arityError
  | .missingPositional => .arityError
  | .missingKwonly => .arityError

def outcomeM : Except BindErr Dict → Outcome
  | .ok _ => .ok
  | .error e => e.cls

def outcomeC : Except CpyErr Dict → Outcome
  | .ok _ => .ok
  | .error e => e.cls

/-! ## receivers: bound methods, classmethods and constructors prepend the receiver to the
positional arguments; staticmethods and plain functions do not.  CPython always prepends it
(`method_vectorcall`).  pytype (`BoundFunction.call`):

    # The "self" parameter is automatically added to the list of arguments, but
    # only if the function actually takes any arguments.
    if self.argcount(node) >= 0:            # BoundFunction.argcount = underlying.argcount - 1
      args = args.replace(posargs=(self._callself,) + args.posargs)

so a method *without any positional parameter* (`def z():`, `def n(*va):`) is called without its
receiver — `boundCall`. -/

def Call.withReceiver (c : Call) : Call := { c with npos := c.npos + 1 }

/-- the argument record `BoundFunction.call` passes on to the underlying function -/
def boundCall (s : Sig) (c : Call) : Call :=
  if s.params.length ≥ 1 then c.withReceiver else c

/-- pytype binding `receiver.m(args)` -/
def mapArgsBound (s : Sig) (c : Call) : Except BindErr Dict := mapArgs s (boundCall s c)

/-- CPython binding `receiver.m(args)` -/
def cpyBindBound (s : Sig) (c : Call) : Except CpyErr Dict := cpyBind s c.withReceiver

/-- the signature `def m(self, <s>)` when `s` has no positional-only parameter:
`self` is positional-or-keyword. -/
def Sig.selfPoskw (me : Name) (s : Sig) : Sig := { s with poskw := me :: s.poskw }

/-- the signature `def m(self, <s>)` with `self` positional-only (`def m(self, x, /, y)` or
`def m(self, /, y)`). -/
def Sig.selfPosonly (me : Name) (s : Sig) : Sig := { s with posonly := me :: s.posonly }

/-- the same argument seen from the unbound call: positional indices shift by one -/
def ArgRef.shift : ArgRef → ArgRef
  | .pos i => .pos (i + 1)
  | .varargsTuple is => .varargsTuple (is.map (· + 1))
  | r => r

end PytypeModel.ArgBind
