import PytypeModel.Sem.MiniFlow
import PytypeModel.Generated.CompatTable

/-! The truthiness oracle pytype really uses on fragment F1, driven by the table regenerated from
`compare.compatible_with` on every run (translate/compat_table.py). -/
namespace PytypeModel.MiniFlow

/-- shape class of an abstract value (the argument `compatible_with` distinguishes) -/
def kindOf : V → String
  | .int n => if n == 0 then "int0" else "intNZ"
  | .float nz => if nz then "floatNZ" else "float0"
  | .str s => if s.isEmpty then "strEmpty" else "strNE"
  | .bytes ne => if ne then "bytesNE" else "bytesEmpty"
  | .bool b => if b then "boolT" else "boolF"
  | .none => "none"
  | .ubool => "ubool"
  | .list xs => if xs.isEmpty then "listEmpty" else "listNE"
  | .tuple xs => if xs.isEmpty then "tupleEmpty" else "tupleNE"
  | .set xs => if xs.isEmpty then "setEmpty" else "setNE"
  | .dict ks _ => if ks.isEmpty then "dictEmpty" else "dictNE"

def lookupRow (tbl : List (String × Bool × Bool × Bool × Bool)) (k : String) : Option (Bool × Bool × Bool × Bool) :=
  match tbl with
  | [] => none
  | (k', r) :: rest => if k == k' then some r else lookupRow rest k

/-- `jump_if`: a branch is pruned exactly when `compatible_with` says it cannot be taken. A class that
is missing from the table, or a row that allows neither outcome, keeps both branches. -/
def decOfTable (tbl : List (String × Bool × Bool × Bool × Bool)) : Dec := fun v =>
  match lookupRow tbl (kindOf v) with
  | some (true, false, _, _) => some true
  | some (false, true, _, _) => some false
  | _ => none

def decTable : Dec := decOfTable PytypeModel.Generated.compatTable

/-- the truth value shared by all concretisations of a shape class (`none`: both occur) -/
def kindTruth : String → Option Bool
  | "int0" | "float0" | "strEmpty" | "bytesEmpty" | "boolF" | "none" | "listEmpty" | "tupleEmpty"
  | "setEmpty" | "dictEmpty" => some false
  | "intNZ" | "floatNZ" | "strNE" | "bytesNE" | "boolT" | "listNE" | "tupleNE" | "setNE" | "dictNE" => some true
  | _ => none

/-- a row never prunes a branch some concretisation takes -/
def rowSound (r : String × Bool × Bool × Bool × Bool) : Bool :=
  match r with
  | (k, canT, canF, canNone, canNotNone) =>
    (match kindTruth k with
     | some true => canT
     | some false => canF
     | none => canT && canF) &&
    (if k == "none" then canNone else canNotNone)

def tableSound (tbl : List (String × Bool × Bool × Bool × Bool)) : Bool := tbl.all rowSound

end PytypeModel.MiniFlow
