/-
C01 — model of pytype's flow rules on the loop-free fragment F1 (phase a: module-level code).

The fragment: `x = e` and `if/elif/else` with
  e ::= literal | name | [e…] | (e…) | {e…} | {k: v…} | e if c else e | e and e | e or e | not e
      | e is None | e is not None | isinstance(e, T) | OPAQUE_k
`OPAQUE_k` stands for a condition whose value the analyser cannot know (the generator emits
`len(_L) > k`): concretely it is the boolean `ρ k`, abstractly it is the *unknown bool* `ubool`.

Abstract values are concrete values that may contain `ubool`.  The analyser explores every path:
whenever its decision procedure `dec` for truthiness answers "unknown" it keeps both branches
(vm_utils.jump_if / state.restrict_condition / compare.compatible_with); when it answers, the other
branch is pruned.  `dec` is a parameter: the theorems hold for every *sound* `dec`, and two instances
are provided — `decSem` (decides everything that is decidable) and `decTable` (driven by the table
regenerated from the real `compare.compatible_with`, see Generated/CompatTable.lean).

Core Lean only.
-/
namespace PytypeModel.MiniFlow

inductive Base | int | float | str | bytes | bool | none
  deriving BEq, DecidableEq, Repr, Inhabited

/-- values; `ubool` (an unknown bool) only occurs in abstract values -/
inductive V
  | int (n : Int)
  | float (nonzero : Bool)
  | str (s : String)
  | bytes (nonempty : Bool)
  | bool (b : Bool)
  | none
  | ubool
  | list (xs : List V)
  | tuple (xs : List V)
  | set (xs : List V)          -- a set whose elements are among `xs` (duplicates not collapsed)
  | dict (ks vs : List V)      -- a dict whose keys are among `ks` and values among `vs`
  deriving BEq, Repr, Inhabited

/-- literals that may occur in programs -/
inductive Scalar
  | int (n : Int) | float (nonzero : Bool) | str (s : String) | bytes (nonempty : Bool) | bool (b : Bool) | none
  deriving BEq, Repr, Inhabited

def Scalar.toV : Scalar → V
  | .int n => .int n
  | .float z => .float z
  | .str s => .str s
  | .bytes b => .bytes b
  | .bool b => .bool b
  | .none => .none

/-- the classes `isinstance` may be asked about -/
inductive TestTy | base (b : Base) | list | tuple | set | dict | object
  deriving BEq, DecidableEq, Repr, Inhabited

inductive Expr
  | lit (s : Scalar)
  | name (x : String)
  | list (es : List Expr)
  | tuple (es : List Expr)
  | set (es : List Expr)
  | dict (ks vs : List Expr)
  | ifexp (c a b : Expr)
  | and (a b : Expr)
  | or (a b : Expr)
  | not (a : Expr)
  | isNone (a : Expr)
  | isNotNone (a : Expr)
  | isinst (a : Expr) (t : TestTy)
  | opaque (k : Nat)
  deriving Repr, Inhabited

inductive Stmt
  | assign (x : String) (e : Expr)
  | ite (c : Expr) (thn els : List Stmt)
  deriving Repr, Inhabited

abbrev Env := List (String × V)

def Env.get (env : Env) (x : String) : Option V :=
  match env with
  | [] => none
  | (y, v) :: rest => if x == y then some v else Env.get rest x

def Env.set (env : Env) (x : String) (v : V) : Env := (x, v) :: env

/-! ### concrete semantics (CPython on the fragment; `ρ` gives the opaque conditions) -/

/-- Python truthiness of a concrete value (`ubool` never occurs concretely; it is given `false`
and every theorem is stated for `Concrete` values). -/
def truth : V → Bool
  | .int n => n != 0
  | .float nz => nz
  | .str s => !s.isEmpty
  | .bytes ne => ne
  | .bool b => b
  | .none => false
  | .ubool => false
  | .list xs => !xs.isEmpty
  | .tuple xs => !xs.isEmpty
  | .set xs => !xs.isEmpty
  | .dict ks _ => !ks.isEmpty

def isNoneV : V → Bool
  | .none => true
  | _ => false

/-- `isinstance(v, T)` (bool is a subclass of int) -/
def isInst : V → TestTy → Bool
  | _, .object => true
  | .int _, .base .int => true
  | .bool _, .base .int => true
  | .bool _, .base .bool => true
  | .ubool, .base .int => true
  | .ubool, .base .bool => true
  | .float _, .base .float => true
  | .str _, .base .str => true
  | .bytes _, .base .bytes => true
  | .none, .base .none => true
  | .list _, .list => true
  | .tuple _, .tuple => true
  | .set _, .set => true
  | .dict _ _, .dict => true
  | _, _ => false

mutual
def evalC (ρ : Nat → Bool) (env : Env) : Expr → Option V
  | .lit s => some s.toV
  | .name x => env.get x
  | .list es => (evalCs ρ env es).map V.list
  | .tuple es => (evalCs ρ env es).map V.tuple
  | .set es => (evalCs ρ env es).map V.set
  | .dict ks vs =>
    match evalCs ρ env ks, evalCs ρ env vs with
    | some a, some b => some (.dict a b)
    | _, _ => none
  | .ifexp c a b =>
    match evalC ρ env c with
    | some vc => if truth vc then evalC ρ env a else evalC ρ env b
    | none => none
  | .and a b =>
    match evalC ρ env a with
    | some va => if truth va then evalC ρ env b else some va
    | none => none
  | .or a b =>
    match evalC ρ env a with
    | some va => if truth va then some va else evalC ρ env b
    | none => none
  | .not a => (evalC ρ env a).map fun v => .bool (!truth v)
  | .isNone a => (evalC ρ env a).map fun v => .bool (isNoneV v)
  | .isNotNone a => (evalC ρ env a).map fun v => .bool (!isNoneV v)
  | .isinst a t => (evalC ρ env a).map fun v => .bool (isInst v t)
  | .opaque k => some (.bool (ρ k))
def evalCs (ρ : Nat → Bool) (env : Env) : List Expr → Option (List V)
  | [] => some []
  | e :: es =>
    match evalC ρ env e, evalCs ρ env es with
    | some v, some vs => some (v :: vs)
    | _, _ => none
end

mutual
def execC (ρ : Nat → Bool) (env : Env) : Stmt → Option Env
  | .assign x e => (evalC ρ env e).map (env.set x)
  | .ite c thn els =>
    match evalC ρ env c with
    | some vc => if truth vc then execCs ρ env thn else execCs ρ env els
    | none => none
def execCs (ρ : Nat → Bool) (env : Env) : List Stmt → Option Env
  | [] => some env
  | s :: ss =>
    match execC ρ env s with
    | some env' => execCs ρ env' ss
    | none => none
end

/-! ### abstract semantics: all paths the analyser keeps -/

/-- a truthiness oracle for abstract values: `some b` = certainly `b`, `none` = keep both. -/
abbrev Dec := V → Option Bool

/-- what is known about a value after a short-circuit operator returned it *because* its truth value
was `b` (the compiler turns `a or b` in a condition into jumps, so the outcome is never re-tested) -/
def narrow (b : Bool) : V → V
  | .ubool => .bool b
  | .float _ => .float b
  | v => v

def bindAll {α β : Type} (xs : List α) (f : α → List β) : List β := xs.flatMap f

mutual
def evalA (dec : Dec) (env : Env) : Expr → List V
  | .lit s => [s.toV]
  | .name x => match env.get x with | some v => [v] | none => []
  | .list es => (evalAs dec env es).map V.list
  | .tuple es => (evalAs dec env es).map V.tuple
  | .set es => (evalAs dec env es).map V.set
  | .dict ks vs => bindAll (evalAs dec env ks) fun a => (evalAs dec env vs).map fun b => V.dict a b
  | .ifexp c a b =>
    bindAll (evalA dec env c) fun vc =>
      match dec vc with
      | some true => evalA dec env a
      | some false => evalA dec env b
      | none => evalA dec env a ++ evalA dec env b
  | .and a b =>
    bindAll (evalA dec env a) fun va =>
      match dec va with
      | some true => evalA dec env b
      | some false => [va]
      | none => narrow false va :: evalA dec env b
  | .or a b =>
    bindAll (evalA dec env a) fun va =>
      match dec va with
      | some true => [va]
      | some false => evalA dec env b
      | none => narrow true va :: evalA dec env b
  | .not a =>
    (evalA dec env a).map fun v =>
      match dec v with
      | some b => .bool (!b)
      | none => .ubool
  | .isNone a => (evalA dec env a).map fun v => .bool (isNoneV v)
  | .isNotNone a => (evalA dec env a).map fun v => .bool (!isNoneV v)
  | .isinst a t => (evalA dec env a).map fun v => .bool (isInst v t)
  | .opaque _ => [.ubool]
def evalAs (dec : Dec) (env : Env) : List Expr → List (List V)
  | [] => [[]]
  | e :: es => bindAll (evalA dec env e) fun v => (evalAs dec env es).map fun vs => v :: vs
end

mutual
def execA (dec : Dec) (env : Env) : Stmt → List Env
  | .assign x e => (evalA dec env e).map (env.set x)
  | .ite c thn els =>
    bindAll (evalA dec env c) fun vc =>
      match dec vc with
      | some true => execAs dec env thn
      | some false => execAs dec env els
      | none => execAs dec env thn ++ execAs dec env els
def execAs (dec : Dec) (env : Env) : List Stmt → List Env
  | [] => [env]
  | s :: ss => bindAll (execA dec env s) fun env' => execAs dec env' ss
end

/-! ### refinement: a concrete value is described by an abstract one -/

mutual
def refines : V → V → Bool
  | .bool _, .ubool => true
  | .int a, .int b => a == b
  | .float a, .float b => a == b
  | .str a, .str b => a == b
  | .bytes a, .bytes b => a == b
  | .bool a, .bool b => a == b
  | .none, .none => true
  | .list a, .list b => refinesL a b
  | .tuple a, .tuple b => refinesL a b
  | .set a, .set b => refinesL a b
  | .dict a c, .dict b d => refinesL a b && refinesL c d
  | _, _ => false
def refinesL : List V → List V → Bool
  | [], [] => true
  | a :: as, b :: bs => refines a b && refinesL as bs
  | _, _ => false
end

def refinesEnv : Env → Env → Bool
  | [], [] => true
  | (x, c) :: ce, (y, a) :: ae => x == y && refines c a && refinesEnv ce ae
  | _, _ => false

/-- soundness requirement on a truthiness oracle -/
def DecSound (dec : Dec) : Prop := ∀ a b, dec a = some b → ∀ c, refines c a = true → truth c = b

/-- decides everything decidable: only `ubool` is unknown. -/
def decSem : Dec
  | .ubool => none
  | v => some (truth v)

/-! ### types -/

inductive Ty
  | base (b : Base)
  | any
  | nothing
  | list (t : Ty)
  | set (t : Ty)
  | dict (k v : Ty)
  | tuple (ts : List Ty)
  | union (ts : List Ty)
  deriving BEq, Repr, Inhabited

def unionOf : List Ty → Ty
  | [] => .nothing
  | [t] => t
  | ts => .union ts

mutual
/-- what `convert`/`output` give for a ground value: precise tuples, element unions for the other
containers, `nothing` for the parameters of empty containers. -/
def typeOf : V → Ty
  | .int _ => .base .int
  | .float _ => .base .float
  | .str _ => .base .str
  | .bytes _ => .base .bytes
  | .bool _ => .base .bool
  | .ubool => .base .bool
  | .none => .base .none
  | .list xs => .list (unionOf (typesOf xs))
  | .set xs => .set (unionOf (typesOf xs))
  | .tuple xs => .tuple (typesOf xs)
  | .dict ks vs => .dict (unionOf (typesOf ks)) (unionOf (typesOf vs))
def typesOf : List V → List Ty
  | [] => []
  | x :: xs => typeOf x :: typesOf xs
end

mutual
/-- PEP-484 membership of a concrete value (bool <: int, int → float promotion). -/
def admits : Ty → V → Bool
  | .any, _ => true
  | .nothing, _ => false
  | .base .int, .int _ => true
  | .base .int, .bool _ => true
  | .base .float, .float _ => true
  | .base .float, .int _ => true
  | .base .float, .bool _ => true
  | .base .str, .str _ => true
  | .base .bytes, .bytes _ => true
  | .base .bool, .bool _ => true
  | .base .none, .none => true
  | .base _, _ => false
  | .list t, .list xs => admitsAll t xs
  | .list _, _ => false
  | .set t, .set xs => admitsAll t xs
  | .set _, _ => false
  | .dict k v, .dict ks vs => admitsAll k ks && admitsAll v vs
  | .dict _ _, _ => false
  | .tuple ts, .tuple xs => admitsEach ts xs
  | .tuple _, _ => false
  | .union ts, v => admitsAny ts v
def admitsAll : Ty → List V → Bool
  | _, [] => true
  | t, x :: xs => admits t x && admitsAll t xs
def admitsEach : List Ty → List V → Bool
  | [], [] => true
  | t :: ts, x :: xs => admits t x && admitsEach ts xs
  | _, _ => false
def admitsAny : List Ty → V → Bool
  | [], _ => false
  | t :: ts, v => admits t v || admitsAny ts v
end

mutual
/-- structural equality test on types (kernel-reducible, unlike the derived `BEq`) -/
def Ty.eqb : Ty → Ty → Bool
  | .base a, .base b => a == b
  | .any, .any => true
  | .nothing, .nothing => true
  | .list a, .list b => Ty.eqb a b
  | .set a, .set b => Ty.eqb a b
  | .dict a b, .dict c d => Ty.eqb a c && Ty.eqb b d
  | .tuple as, .tuple bs => Ty.eqbList as bs
  | .union as, .union bs => Ty.eqbList as bs
  | _, _ => false
def Ty.eqbList : List Ty → List Ty → Bool
  | [], [] => true
  | a :: as, b :: bs => Ty.eqb a b && Ty.eqbList as bs
  | _, _ => false
end

/-- `CollapseLongUnions(max_union = 7)`: more than 7 *distinct* members → `Any`. -/
def distinctCount (ts : List Ty) : Nat :=
  (ts.foldl (fun acc t => if acc.any (Ty.eqb t) then acc else t :: acc) []).length

def collapse (t : Ty) : Ty :=
  match t with
  | .union ts => if distinctCount ts > 7 then .any else t
  | t => t

/-- the type reported for a name: the union over all paths (then the long-union collapse). -/
def inferName (dec : Dec) (prog : List Stmt) (x : String) : Ty :=
  collapse (.union ((execAs dec [] prog).filterMap fun env => (env.get x).map typeOf))

mutual
/-- a syntactic subtype test, sound for `admits` (used to compare the analyser's answer with the
model's: the real answer must be at least as wide as every path's type). -/
def sub : Ty → Ty → Bool
  | _, .any => true
  | .nothing, _ => true
  | .union ts, u => subAll ts u
  | t, .union us => subAny t us
  | .base a, .base b => a == b || (a == .bool && b == .int) || ((a == .bool || a == .int) && b == .float)
  | .list a, .list b => sub a b
  | .set a, .set b => sub a b
  | .dict a b, .dict c d => sub a c && sub b d
  | .tuple as, .tuple bs => subEach as bs
  | _, _ => false
def subAll : List Ty → Ty → Bool
  | [], _ => true
  | t :: ts, u => sub t u && subAll ts u
def subAny : Ty → List Ty → Bool
  | _, [] => false
  | t, u :: us => sub t u || subAny t us
def subEach : List Ty → List Ty → Bool
  | [], [] => true
  | a :: as, b :: bs => sub a b && subEach as bs
  | _, _ => false
end

end PytypeModel.MiniFlow
