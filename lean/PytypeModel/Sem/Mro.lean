/-
Model of pytype's class linearisation and of CPython's (the specification), core Lean only.

pytype (/repo)                                        model
----------------------------------------------------  ------------------------------------------
pytd/mro.py  MergeSequences  (`while True` loop)       pyScan (one pass of the `for seq in seqs`)
                                                       mergeFuel / mergeSequences
             `getattr(cand, "SINGLETON", False)`       parameter `sing : α → Bool`
             `cand in s[1:] and s is not seq`          `(before ++ rest).any (inTail c)`  (own tail skipped)
             `del other_seq[0]` for every head == cand `popHead c` mapped over all sequences
             Dedup                                     dedup
             MROMerge                                  mroMerge  (MROError ↦ `.error .inconsistent`)
             _ComputeMRO (memo dict, `None` = in       stubMro   (in-progress list; the memo is
               progress ⇒ MROError)                      semantically transparent, see note below)
             GetBasesInMRO                             getBasesInMro
abstract/class_mixin.py compute_mro                    pyClassMro: `[[self]] ++ base mros ++ [bases]`
  (`base.mro` is the attribute stored when the base    pyMroTable: table filled in definition order
   class was created)
attribute.py _lookup_from_mro  `for base in cls.mro:   pyLookupIn (explicit loop with `break`)
   … break`
attribute.py _get_attribute_from_super_instance        pySkipSet / pyLookupSkip / pySuperRead
  (skip set = MRO prefix up to `current_cls`)

CPython 3.12 Objects/typeobject.c                      specification
----------------------------------------------------  ------------------------------------------
tail_contains(tuple, whence, o)                        inTail on the not-yet-consumed suffix
pmerge  (remain[] indices; every list incl. the        cScan / cMergeFuel / pmerge (suffixes instead of
  candidate's own is inspected)                          indices)
mro_implementation: n == 1 fast path, check_duplicates cClassMro
  ("duplicate base class"), pmerge(acc=[type], …)
type_new stores tp_mro                                 cMroTable
_PyType_Lookup / find_name_in_mro                      cLookupIn
super_getattro / _super_lookup_descr                   dropThrough / cSuperRead

Generic bases (`_Degenerify`, `ParameterizedClass` in compute_mro) are outside the model.
A class whose creation failed cannot be named afterwards in CPython; in both tables a class
with such a base (or an out-of-range base) gets `.error .badBase`, and the harness never
generates one.
-/
namespace PytypeModel.Mro

inductive MroError where
  | inconsistent   -- pytype MROError / CPython "Cannot create a consistent method resolution order"
  | duplicateBase  -- CPython "duplicate base class"
  | badBase        -- a base is not a (successfully created) class
  | cycle          -- _ComputeMRO met a class that is still being computed
  | fuel           -- fuel exhausted (never happens with the fuel the entry points pass)
deriving DecidableEq, Repr

abbrev Res (α : Type) := Except MroError (List α)

/-- (core has no `DecidableEq (Except ε α)`; needed to evaluate closed instances by `decide`) -/
instance exceptDecEq {ε α : Type} [DecidableEq ε] [DecidableEq α] : DecidableEq (Except ε α)
  | .ok a, .ok b => if h : a = b then isTrue (by rw [h]) else isFalse (fun e => h (by injection e))
  | .error a, .error b =>
    if h : a = b then isTrue (by rw [h]) else isFalse (fun e => h (by injection e))
  | .ok _, .error _ => isFalse (fun e => by cases e)
  | .error _, .ok _ => isFalse (fun e => by cases e)

/-- `res.append(cand)` / `PyList_Append(acc, candidate)` in front of the rest of the run -/
def consRes {α : Type} (c : α) : Res α → Res α
  | .ok r => .ok (c :: r)
  | .error e => .error e

section merge
variable {α : Type} [DecidableEq α]

/-- `c in s[1:]` -/
def inTail (c : α) (s : List α) : Bool := s.tail.contains c

/-- `if s and s[0] == c: del s[0]` -/
def popHead (c : α) : List α → List α
  | [] => []
  | x :: xs => if x = c then xs else x :: xs

def totalLen (seqs : List (List α)) : Nat := (seqs.map List.length).sum

/-- `not any(seqs)` -/
def allEmpty (seqs : List (List α)) : Bool := seqs.all List.isEmpty

/-- One execution of `for seq in seqs:` in MergeSequences, positioned at the sequences `after`
(`before` are the ones already rejected or empty).  `some (cand, seqs')` = `break` with the
candidate and the updated sequences; `none` = loop ran to the end (`cand is None`). -/
def pyScan (sing : α → Bool) (before : List (List α)) :
    List (List α) → Option (α × List (List α))
  | [] => none
  | [] :: rest => pyScan sing (before ++ [[]]) rest
  | (c :: tl) :: rest =>
    if sing c then
      some (c, (before ++ (c :: tl) :: rest).map (fun s => s.filter (fun x => x ≠ c)))
    else if (before ++ rest).any (inTail c) then
      pyScan sing (before ++ [c :: tl]) rest
    else
      some (c, (before ++ (c :: tl) :: rest).map (popHead c))

/-- the `while True:` loop, with fuel -/
def mergeFuel (sing : α → Bool) : Nat → List (List α) → Res α
  | 0, _ => .error .fuel
  | f + 1, seqs =>
    if allEmpty seqs then .ok []
    else match pyScan sing [] seqs with
      | none => .error .inconsistent
      | some (c, seqs') => consRes c (mergeFuel sing f seqs')

/-- `mro.MergeSequences` (ValueError ↦ `.inconsistent`). Every iteration removes at least one
element, so `totalLen + 1` iterations suffice (`Proofs/Mro.lean: mergeFuel_sufficient`). -/
def mergeSequences (sing : α → Bool) (seqs : List (List α)) : Res α :=
  mergeFuel sing (totalLen seqs + 1) seqs

/-- `mro.Dedup` -/
def dedupAux (seen : List α) : List α → List α
  | [] => []
  | x :: xs => if x ∈ seen then dedupAux seen xs else x :: dedupAux (x :: seen) xs

def dedup (s : List α) : List α := dedupAux [] s

/-- `mro.MROMerge` -/
def mroMerge (sing : α → Bool) (seqs : List (List α)) : Res α :=
  mergeSequences sing (seqs.map dedup)

/-! ### CPython: `pmerge` -/

/-- one pass of `for (i = 0; i < to_merge_size; i++)` of `pmerge`; differs from `pyScan` in that
the candidate's own list is inspected by `tail_contains` too, and there is no SINGLETON escape. -/
def cScan (before : List (List α)) : List (List α) → Option (α × List (List α))
  | [] => none
  | [] :: rest => cScan (before ++ [[]]) rest
  | (c :: tl) :: rest =>
    if (before ++ (c :: tl) :: rest).any (inTail c) then
      cScan (before ++ [c :: tl]) rest
    else
      some (c, (before ++ (c :: tl) :: rest).map (popHead c))

def cMergeFuel : Nat → List (List α) → Res α
  | 0, _ => .error .fuel
  | f + 1, seqs =>
    if allEmpty seqs then .ok []
    else match cScan [] seqs with
      | none => .error .inconsistent
      | some (c, seqs') => consRes c (cMergeFuel f seqs')

/-- `pmerge(acc, to_merge, n)`: the elements appended to `acc`, or the MRO TypeError. -/
def pmerge (seqs : List (List α)) : Res α := cMergeFuel (totalLen seqs + 1) seqs

end merge

/-! ### Hierarchies: class `i` has bases `H[i]`; in a well-formed hierarchy every base is `< i`
(definition order).  Class 0 is `object` (`H[0] = []`). -/

abbrev Hier := List (List Nat)

abbrev Table := List (Res Nat)

/-- every base of the class at position `n + k` of the program is an earlier class -/
def wfFrom : Nat → Hier → Bool
  | _, [] => true
  | n, bs :: rest => bs.all (fun b => decide (b < n)) && wfFrom (n + 1) rest

def wfHier (H : Hier) : Bool := wfFrom 0 H

def nodupBases (H : Hier) : Bool := H.all fun bs => decide bs.Nodup

/-- the stored MROs of the bases (`base.mro` / `tp_mro`); `none` if some base is not a class -/
def lookupBases (tbl : Table) : List Nat → Option (List (List Nat))
  | [] => some []
  | b :: bs =>
    match tbl.getD b (.error .badBase), lookupBases tbl bs with
    | .ok m, some ms => some (m :: ms)
    | _, _ => none

/-- `class_mixin.Class.compute_mro` (no SINGLETON among interpreter/pytd classes) -/
def pyClassMro (tbl : Table) (self : Nat) (bases : List Nat) : Res Nat :=
  match lookupBases tbl bases with
  | none => .error .badBase
  | some ms => mroMerge (fun _ => false) ([[self]] ++ ms ++ [bases])

/-- CPython `mro_implementation` for a new type `self` with `bases`. -/
def cClassMro (tbl : Table) (self : Nat) (bases : List Nat) : Res Nat :=
  match lookupBases tbl bases with
  | none => .error .badBase
  | some ms =>
    match ms, bases with
    | [m], [_] => .ok (self :: m)                                   -- n == 1 fast path
    | _, _ =>
      if ¬ bases.Nodup then .error .duplicateBase                   -- check_duplicates
      else consRes self (pmerge (ms ++ [bases]))                    -- acc = [type]

def buildTable (step : Table → Nat → List Nat → Res Nat) : Table → Hier → Table
  | tbl, [] => tbl
  | tbl, bs :: rest => buildTable step (tbl ++ [step tbl tbl.length bs]) rest

/-- MRO (or mro-error) pytype assigns to every class of the program, in definition order -/
def pyMroTable (H : Hier) : Table := buildTable pyClassMro [] H
/-- MRO (or TypeError) CPython assigns -/
def cMroTable (H : Hier) : Table := buildTable cClassMro [] H

def computeMro (H : Hier) (c : Nat) : Res Nat := (pyMroTable H).getD c (.error .badBase)
def cpythonMro (H : Hier) (c : Nat) : Res Nat := (cMroTable H).getD c (.error .badBase)

/-! ### attribute lookup: `defs c a` = class `c` defines attribute `a` in its own body -/

/-- `attribute.py _lookup_from_mro`: `for base in cls.mro: … if found: break` -/
def pyLookupIn (defs : Nat → Nat → Bool) (a : Nat) : List Nat → Option Nat
  | [] => none
  | c :: rest => if defs c a then some c else pyLookupIn defs a rest

/-- `find_name_in_mro`: first entry of `tp_mro` whose `__dict__` has the name -/
def cLookupIn (defs : Nat → Nat → Bool) (a : Nat) (mro : List Nat) : Option Nat :=
  mro.find? (fun c => defs c a)

/-- the class whose definition `C.a` resolves to (`.ok none` = attribute-error / AttributeError) -/
def pyLookup (H : Hier) (defs : Nat → Nat → Bool) (c a : Nat) : Except MroError (Option Nat) :=
  match computeMro H c with
  | .ok m => .ok (pyLookupIn defs a m)
  | .error e => .error e

def cLookup (H : Hier) (defs : Nat → Nat → Bool) (c a : Nat) : Except MroError (Option Nat) :=
  match cpythonMro H c with
  | .ok m => .ok (cLookupIn defs a m)
  | .error e => .error e

/-! ### lookups through `super()`: method `s` found in class `j` of `mro(type(self))` evaluates
`super(j, self).a` -/

/-- attribute.py `_get_attribute_from_super_instance`: `skip` = the entries of
`starting_cls.mro` up to and including `current_cls` (a *set* of classes) -/
def pySkipSet (cur : Nat) : List Nat → List Nat
  | [] => []
  | c :: rest => if c = cur then [c] else c :: pySkipSet cur rest

/-- `_lookup_from_mro(…, skip)`: `_lookup_from_mro_flat` returns None for `base in skip` -/
def pyLookupSkip (defs : Nat → Nat → Bool) (a : Nat) (skip : List Nat) : List Nat → Option Nat
  | [] => none
  | c :: rest =>
    if c ∈ skip then pyLookupSkip defs a skip rest
    else if defs c a then some c else pyLookupSkip defs a skip rest

/-- CPython `_super_lookup_descr`: find `su->type` in `starttype->tp_mro`, continue after it -/
def dropThrough (cur : Nat) : List Nat → List Nat
  | [] => []
  | c :: rest => if c = cur then rest else dropThrough cur rest

inductive SRes where
  | noClass               -- the class of the instance was not created
  | noMethod              -- no class in the MRO defines the reader method
  | noAttr                -- `super().a` finds nothing
  | definer (d : Nat)
deriving DecidableEq, Repr

/-- `K_i().s()` where `s` (looked up along `mro(i)`, `sdefs c a` = class `c` defines the reader for
`a`) is `def s(self): return super().a` -/
def pySuperRead (H : Hier) (defs sdefs : Nat → Nat → Bool) (i a : Nat) : SRes :=
  match computeMro H i with
  | .error _ => .noClass
  | .ok m =>
    match pyLookupIn sdefs a m with
    | none => .noMethod
    | some j =>
      match pyLookupSkip defs a (pySkipSet j m) m with
      | none => .noAttr
      | some d => .definer d

def cSuperRead (H : Hier) (defs sdefs : Nat → Nat → Bool) (i a : Nat) : SRes :=
  match cpythonMro H i with
  | .error _ => .noClass
  | .ok m =>
    match cLookupIn sdefs a m with
    | none => .noMethod
    | some j =>
      match cLookupIn defs a (dropThrough j m) with
      | none => .noAttr
      | some d => .definer d

/-! ### stub classes: `_ComputeMRO` / `GetBasesInMRO` on `pytd.ClassType` nodes.

`mros` (the memo dict) maps a class to `None` while it is being computed and to its MRO
afterwards; any MROError aborts the whole computation, so a finished entry is always the value
the recursion would recompute, and "`mros[base] is None`" is exactly "`base` is on the current
recursion stack" = `inprog`. Bases may be arbitrary here (stubs can be cyclic). -/

def mapE {β γ : Type} (f : β → Except MroError γ) : List β → Except MroError (List γ)
  | [] => .ok []
  | x :: xs =>
    match f x with
    | .error e => .error e
    | .ok y =>
      match mapE f xs with
      | .error e => .error e
      | .ok ys => .ok (y :: ys)

def stubMro (H : Hier) : Nat → List Nat → Nat → Res Nat
  | 0, _, _ => .error .fuel
  | f + 1, inprog, t =>
    if t ∈ inprog then .error .cycle
    else
      let bases := H.getD t []
      match mapE (fun b => stubMro H f (t :: inprog) b) bases with
      | .error e => .error e
      | .ok ms => mroMerge (fun _ => false) ([[t]] ++ ms ++ [bases])

/-- `GetBasesInMRO(cls)` for a class (not itself in `H`) with the given bases -/
def getBasesInMro (H : Hier) (bases : List Nat) : Res Nat :=
  match mapE (fun b => stubMro H (H.length + 1) [] b) bases with
  | .error e => .error e
  | .ok ms => mroMerge (fun _ => false) (ms ++ [bases])

end PytypeModel.Mro
