/-
Model of pytype's operator / subscript / attribute / call dispatch on ground operands (fragment
F14 of property C14) and of CPython's data model for the same statements.  Core Lean only.

pytype (/repo)                                         model
-----------------------------------------------------  ------------------------------------------
vm_utils._call_binop_on_bindings                        pyOptions / pyTryOptions / modelBinop
   options = [(x, y, name)]; if rname: append            `Op.name`, `Op.rname` (checked against the
     (y, x, rname); reverse when `_overrides`             regenerated slots table in Props/C14)
   attribute missing -> next option;
   call raises FailedFunctionCall -> remember, next      OptRes.missing / .fails / .returns
   no option returned: raise error / return None
vm_utils._overrides(subcls, supercls, attr)             overrides / overridesWalk
vm_utils.call_binary_operator (single-binding           modelBinop: error iff no option returns
   operands): error iff nothing was returned
vm.byte_BINARY_SUBSCR = binary_operator("__getitem__")   modelSub (REVERSE_NAME_MAPPING has no entry)
vm.unary_operator = _call(x, "__neg__", ())             modelNeg  (load_attr error is printed as
                                                          [unsupported-operands] for operator dunders)
attribute.get_attribute on an instance of a plain        pyGetAttr: instance members (`_get_member`),
   class (no __getattr__/__getattribute__/descriptors)    then the first definer in the MRO
vm.load_attr -> [attribute-error]                        modelAttr
abstract Instance.call -> `__call__` or NotCallable      modelCall
LOAD_ATTR + CALL                                         modelMCall

builtin operands: real pytype's verdict per (value class, operator, value class) comes from the
regenerated table (`BView.py`); only the Boolean "an error is reported" is visible there.  A builtin
signature applied to a user-class instance is read from the rows of two pseudo-classes: `user`
(dunder-less class) and `userIter` (class with `__getitem__`: pytype's matcher lets it pass for an
`Iterable`, e.g. in `set.__sub__`) — `userCode`.

CPython 3.12                                            specification
-----------------------------------------------------  ------------------------------------------
Objects/abstract.c binary_op1                            cpyBinop (user/user: full transcription)
Objects/typeobject.c SLOT1BINFULL (slot_nb_add …)        slotNb
   method_is_overloaded                                  methodIsOverloaded
   vectorcall_maybe (lookup fails -> NotImplemented)     callMaybe
PyObject_GetItem / PyNumber_Negative / PyObject_Call     cpySub / cpyNeg / cpyCall
object.__getattribute__ (no data descriptors in F14)     cpyGetAttr

Fragment F14 (user side): classes are plain (`class C(bases): …`, no metaclass, no builtin bases,
no `__getattr__`/`__getattribute__`/descriptors/`__slots__`); a class body holds methods
`def m(self[, o]): return <literal>|NotImplemented` and data attributes `k = <literal>`; an own
`__init__` only assigns literals to `self.<name>`; dunder names are bound to methods only and are
never instance attributes (`WF`).  The MRO of each class is *data* (computed by the interpreter in
the harness; its correctness is C10's business), self first, `object` omitted.
-/
namespace PytypeModel.Dispatch

/-- binary operators of F14 that have a reflected variant -/
inductive Op where
  | add | sub | mul | div
  deriving DecidableEq, Repr, Inhabited

def Op.name : Op → String
  | .add => "__add__" | .sub => "__sub__" | .mul => "__mul__" | .div => "__truediv__"

def Op.rname : Op → String
  | .add => "__radd__" | .sub => "__rsub__" | .mul => "__rmul__" | .div => "__rtruediv__"

def Op.symbol : Op → String
  | .add => "+" | .sub => "-" | .mul => "*" | .div => "/"

def Op.all : List Op := [.add, .sub, .mul, .div]

def getitemName : String := "__getitem__"
def negName : String := "__neg__"
def callName : String := "__call__"

/-- what a generated method returns: a literal (tagged by its builtin type) or `NotImplemented` -/
inductive Ret where
  | val (tag : Nat)
  | notImpl
  deriving DecidableEq, Repr, Inhabited

inductive Member where
  | method (r : Ret)
  | data (tag : Nat)
  deriving DecidableEq, Repr, Inhabited

structure ClassDef where
  /-- linearisation, self first, `object` omitted -/
  mro : List Nat
  /-- own class-body members -/
  members : List (String × Member)
  /-- names assigned on `self` by the class's own `__init__`, if it has one -/
  init : Option (List String)
  deriving Repr, Inhabited

abbrev Hier := List ClassDef

def classOf (H : Hier) (c : Nat) : ClassDef := H.getD c ⟨[], [], none⟩
def mroOf (H : Hier) (c : Nat) : List Nat := (classOf H c).mro
def ownMember (H : Hier) (c : Nat) (n : String) : Option Member := (classOf H c).members.lookup n

/-- first class of the list that defines `n` (attribute.py `_lookup_from_mro` / `_PyType_Lookup`) -/
def findDefiner (H : Hier) (n : String) : List Nat → Option (Nat × Member)
  | [] => none
  | d :: ds =>
    match ownMember H d n with
    | some m => some (d, m)
    | none => findDefiner H n ds

def lookupCls (H : Hier) (c : Nat) (n : String) : Option (Nat × Member) :=
  findDefiner H n (mroOf H c)

/-- instance attributes of a fresh instance: those of the first `__init__` in the MRO -/
def firstInit (H : Hier) : List Nat → List String
  | [] => []
  | d :: ds =>
    match (classOf H d).init with
    | some l => l
    | none => firstInit H ds

def instAttrs (H : Hier) (c : Nat) : List String := firstInit H (mroOf H c)

/-! ## builtin view (regenerated tables) -/

inductive Outcome where
  | ok | typeError | attrError | other
  deriving DecidableEq, Repr, Inhabited

/-- the two exception classes property C14 accepts as "real" for a reported error -/
def Outcome.bad : Outcome → Bool
  | .typeError => true
  | .attrError => true
  | _ => false

/-- row key: (kind, aux, left class, right class); kinds as in Generated/BuiltinOps.lean -/
abbrev RowKey := Nat × Nat × Nat × Nat

structure Row where
  key : RowKey
  /-- real pytype reports an error on the canonical statement of the row -/
  py : Bool
  /-- distinct CPython outcomes over all representative values of the classes -/
  cpy : List Outcome
  /-- the converse clause of C14 speaks about this row -/
  adv : Bool
  deriving Repr

structure BView where
  /-- the table in generation order, cut into chunks of `chunkSize` rows -/
  chunks : List (List Row)
  chunkSize : Nat
  /-- position of a key in generation order -/
  index : RowKey → Nat
  /-- class code of "instance of a user class defining none of the modelled dunders" -/
  user : Nat
  /-- class code of "instance of a user class with `__getitem__`" (pytype's matcher accepts it where
  a builtin signature asks for an `Iterable`: old-style iteration protocol) -/
  userIter : Nat

def BView.rows (T : BView) : List Row := T.chunks.flatten

/-- key equality by `Nat.beq` on the components (cheap for the kernel) -/
def keyEq (a b : RowKey) : Bool :=
  Nat.beq a.1 b.1 && (Nat.beq a.2.1 b.2.1 && (Nat.beq a.2.2.1 b.2.2.1 && Nat.beq a.2.2.2 b.2.2.2))

/-- the row at the key's position, if it carries that key -/
def BView.find (T : BView) (k : RowKey) : Option Row :=
  let i := T.index k
  match (T.chunks.getD (i / T.chunkSize) [])[i % T.chunkSize]? with
  | some r => if keyEq r.key k then some r else none
  | none => none
def BView.py (T : BView) (k : RowKey) : Bool :=
  match T.find k with | some r => r.py | none => false
def BView.cpy (T : BView) (k : RowKey) : List Outcome :=
  match T.find k with | some r => r.cpy | none => []
def BView.adv (T : BView) (k : RowKey) : Bool :=
  match T.find k with | some r => r.adv | none => false

def Op.kind : Op → Nat
  | .add => 0 | .sub => 1 | .mul => 2 | .div => 3
def kindSub : Nat := 4
def kindNeg : Nat := 5
def kindCall : Nat := 6
def kindAttr : Nat := 7
def kindMCall : Nat := 8
def kindFCall : Nat := 9

/-! ## statements -/

inductive Operand where
  | b (k : Nat)      -- a value of builtin value class k
  | u (c : Nat)      -- a fresh instance `C()` of user class c
  deriving DecidableEq, Repr, Inhabited

inductive Stmt where
  | bin (x : Operand) (op : Op) (y : Operand)
  | sub (x y : Operand)
  | neg (x : Operand)
  | call (x : Operand)
  | attrU (c : Nat) (n : String)
  | mcallU (c : Nat) (n : String)
  | attrB (k : Nat) (a : Nat)
  | mcallB (k : Nat) (a : Nat)
  | fcall (f : Nat) (x : Operand)
  deriving Repr, Inhabited

/-- class code under which an instance of user class `c` is looked up in the builtin table: builtin
signatures only distinguish user instances by the protocols they satisfy, and among the dunders of F14
only `__getitem__` (Iterable) matters -/
def userCode (T : BView) (H : Hier) (c : Nat) : Nat :=
  if (lookupCls H c getitemName).isSome then T.userIter else T.user

/-- class code under which an operand is looked up in the builtin table -/
def Operand.code (T : BView) (H : Hier) : Operand → Nat
  | .b k => k
  | .u c => userCode T H c

/-- the table row a statement consults (none: decided by the user-class dispatch alone) -/
def Stmt.row (T : BView) (H : Hier) : Stmt → Option RowKey
  | .bin (.u _) _ (.u _) => none
  | .bin x op y => some (op.kind, 0, x.code T H, y.code T H)
  | .sub (.u _) _ => none
  | .sub x y => some (kindSub, 0, x.code T H, y.code T H)
  | .neg (.u _) => none
  | .neg x => some (kindNeg, 0, x.code T H, 0)
  | .call (.u _) => none
  | .call x => some (kindCall, 0, x.code T H, 0)
  | .attrU _ _ => none
  | .mcallU _ _ => none
  | .attrB k a => some (kindAttr, a, k, 0)
  | .mcallB k a => some (kindMCall, a, k, 0)
  | .fcall f x => some (kindFCall, f, x.code T H, 0)

/-! ## pytype's dispatch -/

inductive ErrKind where
  | unsupported    -- [unsupported-operands]
  | attribute      -- [attribute-error]
  | notCallable    -- [not-callable]
  | reported       -- builtin table row: some error is reported (class not visible in the table)
  deriving DecidableEq, Repr, Inhabited

inductive PyRes where
  /-- no error; `some r`: the value returned by the user method that was selected -/
  | ok (r : Option Ret)
  | err (e : ErrKind)
  deriving DecidableEq, Repr, Inhabited

def PyRes.isErr : PyRes → Bool
  | .err _ => true
  | .ok _ => false

/-- `_overrides`: the loop over `subcls.mro` up to `supercls` -/
def overridesWalk (H : Hier) (sup : Nat) (n : String) : List Nat → Bool
  | [] => false
  | d :: ds =>
    if d == sup then false
    else if (ownMember H d n).isSome then true
    else overridesWalk H sup n ds

def overrides (H : Hier) (sub sup : Nat) (n : String) : Bool :=
  (mroOf H sub).contains sup && overridesWalk H sup n (mroOf H sub)

inductive OptRes where
  | missing                     -- get_attribute found nothing
  | fails                       -- call_function raised FailedFunctionCall
  | returns (r : Option Ret)
  deriving DecidableEq, Repr

/-- one entry `(left, right, attr)` of the option list: look `attr` up on `left`, call it with `right`.
`refl` says whether `attr` is the reflected name.  For a builtin `left` only acceptance of a user
instance is needed (both-builtin statements are read from the table as a whole): the row with the
dunder-less user instance has an error exactly when the builtin signature rejects it. -/
def pyOption (T : BView) (H : Hier) (op : Op) (refl : Bool) (left right : Operand) : OptRes :=
  match left with
  | .u c =>
    match lookupCls H c (if refl then op.rname else op.name) with
    | some (_, .method r) => .returns (some r)
    | some (_, .data _) => .fails
    | none => .missing
  | .b k =>
    let key : RowKey :=
      if refl then (op.kind, 0, right.code T H, k) else (op.kind, 0, k, right.code T H)
    if T.py key then .fails else .returns none

def pyTryOptions (T : BView) (H : Hier) (op : Op) : List (Operand × Operand × Bool) → PyRes
  | [] => .err .unsupported
  | (l, r, refl) :: rest =>
    match pyOption T H op refl l r with
    | .returns v => .ok v
    | _ => pyTryOptions T H op rest

def pyOptions (H : Hier) (op : Op) (x y : Operand) : List (Operand × Operand × Bool) :=
  let opts := [(x, y, false), (y, x, true)]
  match x, y with
  | .u c, .u c' => if overrides H c' c op.rname then opts.reverse else opts
  | _, _ => opts      -- `supercls in subcls.mro` is false: F14 user classes have no builtin bases

def modelBinop (T : BView) (H : Hier) (x : Operand) (op : Op) (y : Operand) : PyRes :=
  match x, y with
  | .b k, .b k' => if T.py (op.kind, 0, k, k') then .err .reported else .ok none
  | _, _ => pyTryOptions T H op (pyOptions H op x y)

def modelSub (T : BView) (H : Hier) (x y : Operand) : PyRes :=
  match x with
  | .u c =>
    match lookupCls H c getitemName with
    | some (_, .method r) => .ok (some r)
    | some (_, .data _) => .err .notCallable
    | none => .err .unsupported
  | .b k => if T.py (kindSub, 0, k, y.code T H) then .err .reported else .ok none

def modelNeg (T : BView) (H : Hier) (x : Operand) : PyRes :=
  match x with
  | .u c =>
    match lookupCls H c negName with
    | some (_, .method r) => .ok (some r)
    | some (_, .data _) => .err .notCallable
    | none => .err .unsupported
  | .b k => if T.py (kindNeg, 0, k, 0) then .err .reported else .ok none

def modelCall (T : BView) (H : Hier) (x : Operand) : PyRes :=
  match x with
  | .u c =>
    match lookupCls H c callName with
    | some (_, .method r) => .ok (some r)
    | some (_, .data _) => .err .notCallable
    | none => .err .notCallable
  | .b k => if T.py (kindCall, 0, k, 0) then .err .reported else .ok none

/-- `attribute.get_attribute` on an instance: instance members first, then the class MRO -/
def pyGetAttr (H : Hier) (c : Nat) (n : String) : Option Member :=
  if (instAttrs H c).contains n then some (.data 0)
  else (lookupCls H c n).map (·.2)

def modelAttr (H : Hier) (c : Nat) (n : String) : PyRes :=
  match pyGetAttr H c n with
  | some (.method r) => .ok (some r)      -- a bound method (tag: what calling it would return)
  | some (.data _) => .ok none
  | none => .err .attribute

def modelMCall (H : Hier) (c : Nat) (n : String) : PyRes :=
  match pyGetAttr H c n with
  | some (.method r) => .ok (some r)
  | some (.data _) => .err .notCallable
  | none => .err .attribute

def modelStmt (T : BView) (H : Hier) : Stmt → PyRes
  | .bin x op y => modelBinop T H x op y
  | .sub x y => modelSub T H x y
  | .neg x => modelNeg T H x
  | .call x => modelCall T H x
  | .attrU c n => modelAttr H c n
  | .mcallU c n => modelMCall H c n
  | .attrB k a => if T.py (kindAttr, a, k, 0) then .err .reported else .ok none
  | .mcallB k a => if T.py (kindMCall, a, k, 0) then .err .reported else .ok none
  | .fcall f x => if T.py (kindFCall, f, x.code T H, 0) then .err .reported else .ok none

/-! ## CPython's data model -/

/-- result of a slot call -/
inductive CRes where
  | val (tag : Nat)
  | notImpl
  | typeError            -- calling a non-callable class attribute (outside `WF`)
  deriving DecidableEq, Repr, Inhabited

/-- `vectorcall_maybe`: unbound-method lookup on the type; missing ⇒ NotImplemented -/
def callMaybe (H : Hier) (c : Nat) (n : String) : CRes :=
  match lookupCls H c n with
  | some (_, .method (.val t)) => .val t
  | some (_, .method .notImpl) => .notImpl
  | some (_, .data _) => .typeError
  | none => .notImpl

/-- the type's `nb_<op>` slot holds `slot_nb_<op>` iff `__op__` or `__rop__` is found in its MRO -/
def hasSlot (H : Hier) (op : Op) (c : Nat) : Bool :=
  (lookupCls H c op.name).isSome || (lookupCls H c op.rname).isSome

def isSubtype (H : Hier) (sub sup : Nat) : Bool := (mroOf H sub).contains sup

/-- `method_is_overloaded(left, right, name)`: the attribute resolved on `type(right)` exists and is
not the object resolved on `type(left)`; distinct definers give distinct function objects -/
def methodIsOverloaded (H : Hier) (left right : Nat) (n : String) : Bool :=
  match lookupCls H right n with
  | none => false
  | some (d, _) =>
    match lookupCls H left n with
    | none => true
    | some (d', _) => d != d'

/-- `slot_nb_<op>(self, other)` (SLOT1BINFULL) for two user-class instances -/
def slotNb (H : Hier) (op : Op) (self other : Nat) : CRes :=
  let doOther := self != other && hasSlot H op other
  if hasSlot H op self then
    let tryRefl := doOther && isSubtype H other self && methodIsOverloaded H self other op.rname
    let r1 := if tryRefl then callMaybe H other op.rname else .notImpl
    if tryRefl && r1 != .notImpl then r1
    else
      let doOther' := doOther && !tryRefl
      let r := callMaybe H self op.name
      if r != .notImpl || self == other then r
      else if doOther' then callMaybe H other op.rname
      else .notImpl
  else if doOther then callMaybe H other op.rname
  else .notImpl

def CRes.outcome : CRes → Outcome
  | .val _ => .ok
  | .notImpl => .typeError       -- binary_op: "unsupported operand type(s)"
  | .typeError => .typeError

/-- `binary_op1` for two user-class instances.  Both types' slots are the same C function, so
`slotw` is dropped whenever `slotv` is set. -/
def binaryOp1UU (H : Hier) (op : Op) (v w : Nat) : CRes :=
  let slotv := hasSlot H op v
  let slotw := v != w && hasSlot H op w && !slotv
  if slotv then
    -- (`slotw` is NULL here, the subclass-priority branch of binary_op1 is not taken)
    let x := slotNb H op v w
    if x != .notImpl then x
    else .notImpl
  else if slotw then slotNb H op v w
  else .notImpl

/-- possible outcomes of `x op y`.  For a builtin operand the type's own machinery (its `nb_` slot,
tried first because a user class is never a subclass of a builtin in F14, and the `sq_concat` /
`sq_repeat` fallbacks) is summarised by the table row with a dunder-less user instance. -/
def cpyBinop (T : BView) (H : Hier) (x : Operand) (op : Op) (y : Operand) : List Outcome :=
  match x, y with
  | .b k, .b k' => T.cpy (op.kind, 0, k, k')
  | .u c, .u c' => [(binaryOp1UU H op c c').outcome]
  | .b k, .u c =>
    let base := T.cpy (op.kind, 0, k, userCode T H c)
    if base.all Outcome.bad then
      match callMaybe H c op.rname with
      | .val _ => [.ok]
      | _ => base
    else base
  | .u c, .b k =>
    match callMaybe H c op.name with
    | .val _ => [.ok]
    | .typeError => [.typeError]
    | .notImpl => T.cpy (op.kind, 0, userCode T H c, k)

def cpySub (T : BView) (H : Hier) (x y : Operand) : List Outcome :=
  match x with
  | .u c =>
    match lookupCls H c getitemName with
    | some (_, .method _) => [.ok]      -- whatever it returns, also NotImplemented, is the value
    | some (_, .data _) => [.typeError]
    | none => [.typeError]              -- "object is not subscriptable"
  | .b k => T.cpy (kindSub, 0, k, y.code T H)

def cpyNeg (T : BView) (H : Hier) (x : Operand) : List Outcome :=
  match x with
  | .u c =>
    match lookupCls H c negName with
    | some (_, .method _) => [.ok]
    | some (_, .data _) => [.typeError]
    | none => [.typeError]              -- "bad operand type for unary -"
  | .b k => T.cpy (kindNeg, 0, k, 0)

def cpyCall (T : BView) (H : Hier) (x : Operand) : List Outcome :=
  match x with
  | .u c =>
    match lookupCls H c callName with
    | some (_, .method _) => [.ok]
    | some (_, .data _) => [.typeError]
    | none => [.typeError]              -- "object is not callable"
  | .b k => T.cpy (kindCall, 0, k, 0)

/-- `object.__getattribute__`: type lookup; data descriptors (none in F14) would win; then the
instance `__dict__`; then the type attribute; else AttributeError -/
def cpyGetAttr (H : Hier) (c : Nat) (n : String) : Option Member :=
  let t := lookupCls H c n
  let isDataDescriptor := false
  match t with
  | some (_, m) =>
    if isDataDescriptor then some m
    else if (instAttrs H c).contains n then some (.data 0)
    else some m
  | none => if (instAttrs H c).contains n then some (.data 0) else none

def cpyAttr (H : Hier) (c : Nat) (n : String) : List Outcome :=
  match cpyGetAttr H c n with
  | some _ => [.ok]
  | none => [.attrError]

def cpyMCall (H : Hier) (c : Nat) (n : String) : List Outcome :=
  match cpyGetAttr H c n with
  | some (.method _) => [.ok]
  | some (.data _) => [.typeError]
  | none => [.attrError]

def cpyStmt (T : BView) (H : Hier) : Stmt → List Outcome
  | .bin x op y => cpyBinop T H x op y
  | .sub x y => cpySub T H x y
  | .neg x => cpyNeg T H x
  | .call x => cpyCall T H x
  | .attrU c n => cpyAttr H c n
  | .mcallU c n => cpyMCall H c n
  | .attrB k a => T.cpy (kindAttr, a, k, 0)
  | .mcallB k a => T.cpy (kindMCall, a, k, 0)
  | .fcall f x => T.cpy (kindFCall, f, x.code T H, 0)

/-! ## well-formedness of the fragment -/

def isDunder (n : String) : Bool :=
  Op.all.any (fun op => n == op.name || n == op.rname) || n == getitemName || n == negName
    || n == callName

/-- dunder names are bound to methods in class bodies and never assigned on instances -/
def ClassDef.wf (cd : ClassDef) : Bool :=
  cd.members.all (fun (n, m) => !isDunder n || (match m with | .method _ => true | .data _ => false))
    && (match cd.init with | some l => l.all (fun n => !isDunder n) | none => true)

def WF (H : Hier) : Bool := H.all ClassDef.wf

/-- no generated method returns `NotImplemented` -/
def AllVal (H : Hier) : Bool :=
  H.all (fun cd => cd.members.all (fun (_, m) => m != .method .notImpl))

/-- clause 2 of C14: the advertised basic mistakes.  On user-class instances: missing attribute or
method, calling a non-callable; arithmetic/unary minus/subscripting only between builtin types. -/
def Stmt.advertised (T : BView) : Stmt → Bool
  | .bin (.b k) op (.b k') => T.adv (op.kind, 0, k, k')
  | .bin _ _ _ => false
  | .sub (.b k) (.b k') => T.adv (kindSub, 0, k, k')
  | .sub _ _ => false
  | .neg (.b k) => T.adv (kindNeg, 0, k, 0)
  | .neg _ => false
  | .call (.b k) => T.adv (kindCall, 0, k, 0)
  | .call (.u _) => true
  | .attrU _ _ => true
  | .mcallU _ _ => true
  | .attrB k a => T.adv (kindAttr, a, k, 0)
  | .mcallB k a => T.adv (kindMCall, a, k, 0)
  | .fcall _ _ => false

end PytypeModel.Dispatch
