import PytypeModel.Blocks.Opcodes

/-! # C16 — model of `pytype/pyc/opcodes.py`: `_add_setup_except`, `_add_exception_block`,
`_get_exception_bitmask`

Python 3.11+ has no block-setup opcodes: try ranges live in the exception table.  pytype re-creates markers:
for every *kept* table entry a synthetic `SETUP_EXCEPT_311` is filed in `offset_to_op` at `start - 0.5` (its
`target` is the handler's first op) and a synthetic `POP_BLOCK` at `end + 0.5`; jumps into / out of a range are
flagged `push_exc_block` / `pop_exc_block`.

Input here: the items of `offset_to_op` as `_make_opcodes` built them (real offsets, in bytes) and the
exception-table entries.  Output: the items after `_add_setup_except`, offsets **doubled** (so `x - 0.5` is
`2x - 1` and `x + 0.5` is `2x + 1`), sorted by offset — exactly the input of `Opcodes.mkList`.

`offset_to_op` is a dict: `setXKey` is dict assignment (the order of a dict is irrelevant here because
`_make_opcode_list` sorts the items).  Core Lean only. -/
namespace PytypeModel.Blocks
open PytypeModel.Generated.OpcodeTable

/-- an opcode as `_make_opcodes` leaves it -/
structure PreOp where
  off : Nat                -- byte offset
  cls : Nat                -- row in the generated table
  argval : Nat := 0        -- jump target (byte offset) for `has_known_jump()` classes; 0 otherwise
  line : Nat := 0
  deriving Repr, DecidableEq, Inhabited

/-- one exception-table entry (pycnite: `end` is inclusive) -/
structure ExcEntry where
  start : Nat
  stop : Nat
  target : Nat
  lasti : Bool
  deriving Repr, DecidableEq, Inhabited

/-- an item of `offset_to_op` after `_add_setup_except` -/
structure XOp where
  off : Nat                       -- 2 * offset
  cls : Nat
  argval : Nat := 0               -- byte offset, as in the input
  pre : Option Nat := none        -- `target` set by `_add_exception_block` (2 * offset of the handler op)
  push : Bool := false            -- push_exc_block
  pop : Bool := false             -- pop_exc_block
  deriving Repr, DecidableEq, Inhabited

def hasPreOff (ops : List PreOp) (o : Nat) : Bool := ops.any (·.off == o)

def preOpAt (ops : List PreOp) (o : Nat) : Option PreOp := ops.find? (·.off == o)

/-- `isinstance(offset_to_op[e.target], _IGNORED_EXCEPTION_TARGETS)` -/
def ignoredTarget (ops : List PreOp) (e : ExcEntry) : Except Err Bool :=
  match preOpAt ops e.target with
  | some t => .ok (info t.cls).ignoredExcTarget
  | none => .error .keyError

/-- the loop of `_add_setup_except` that selects entries: not an ignored target, and the first entry without
`lasti` whose start line has not been seen.  Returns the kept entries in table order. -/
def keptFrom (ops : List PreOp) : List ExcEntry → List Nat → Except Err (List ExcEntry)
  | [], _ => .ok []
  | e :: es, seen =>
    match ignoredTarget ops e with
    | .error x => .error x
    | .ok true => keptFrom ops es seen
    | .ok false =>
      match preOpAt ops e.start with
      | none => .error .keyError
      | some s =>
        if !e.lasti && !seen.contains s.line then
          match keptFrom ops es (s.line :: seen) with
          | .ok r => .ok (e :: r)
          | .error x => .error x
        else keptFrom ops es seen

def kept (ops : List PreOp) (entries : List ExcEntry) : Except Err (List ExcEntry) := keptFrom ops entries []

def hasXKey (m : List XOp) (k : Nat) : Bool := m.any (·.off == k)

/-- `max(...)` of a list of numbers (`none` = Python's `ValueError` for an empty sequence) -/
def maxOpt : List Nat → Option Nat
  | [] => none
  | x :: xs =>
    match maxOpt xs with
    | none => some x
    | some y => some (max x y)

/-- `max(i for i in offset_to_op if i < bound)` over the current keys (doubled) -/
def maxKeyBelow (m : List XOp) (bound : Nat) : Option Nat :=
  maxOpt ((m.map (·.off)).filter (· < bound))

/-- the key after which the POP_BLOCK is filed: `e.end` if it is a key of `offset_to_op`, else the largest key
below it (`ValueError` from `max()` of an empty sequence when there is none).  Doubled. -/
def endKey (m : List XOp) (e : ExcEntry) : Except Err Nat :=
  if hasXKey m (2 * e.stop) then .ok (2 * e.stop)
  else match maxKeyBelow m (2 * e.stop) with
    | some k => .ok k
    | none => .error .stopIteration

/-- `offset_to_op[k] = v` -/
def setXKey (m : List XOp) (x : XOp) : List XOp := x :: m.filter (fun y => y.off != x.off)

def setupOp (e : ExcEntry) : XOp :=
  { off := 2 * e.start - 1, cls := Cls.SETUP_EXCEPT_311, pre := some (2 * e.target) }

def popOp (k : Nat) : XOp := { off := k + 1, cls := Cls.POP_BLOCK }

/-- `_add_exception_block(offset_to_op, e)`: the SETUP is filed first, then the end is looked up.
A range starting at offset 0 would need the key `-0.5`; code objects start with RESUME, so `start ≥ 2` on
compiler output and the model refuses anything else. -/
def addBlock (m : List XOp) (e : ExcEntry) : Except Err (List XOp) :=
  if e.start == 0 then .error .unsupported
  else
    let m1 := setXKey m (setupOp e)
    match endKey m1 e with
    | .ok k => .ok (setXKey m1 (popOp k))
    | .error x => .error x

def addBlocks : List XOp → List ExcEntry → Except Err (List XOp)
  | m, [] => .ok m
  | m, e :: es =>
    match addBlock m e with
    | .ok m' => addBlocks m' es
    | .error x => .error x

/-- `exception_ranges[e.start] = e.end` for the kept entries (a dict: the last one for a start wins) -/
def rangeEnd (ks : List ExcEntry) (i : Nat) : Option Nat :=
  (ks.reverse.find? (·.start == i)).map (·.stop)

/-- `_get_exception_bitmask`: bit `i` for `i = 0 .. n-1`, carrying `exception_end` -/
def bitsFrom (ks : List ExcEntry) : Nat → Nat → Option Nat → List Bool
  | 0, _, _ => []
  | n + 1, i, cur =>
    let (bit, cur1) := match rangeEnd ks i with
      | some en => (true, some en)
      | none => (cur.isSome, cur)
    let cur2 := if cur1 == some i then none else cur1
    bit :: bitsFrom ks n (i + 1) cur2

def inExc (bits : List Bool) (i : Nat) : Bool := bits.getD i false

/-- the second loop of `_add_setup_except`: known jumps (other than the synthetic SETUP_EXCEPT_311) that leave or
enter an exception range -/
def flagOp (bits : List Bool) (x : XOp) : XOp :=
  if (info x.cls).hasKnownJump && !(x.cls == Cls.SETUP_EXCEPT_311) then
    let s := inExc bits (x.off / 2)
    let t := inExc bits x.argval
    if s && !t then { x with pop := true }
    else if t && !s then { x with push := true }
    else x
  else x

def toX (o : PreOp) : XOp := { off := 2 * o.off, cls := o.cls, argval := o.argval }

def insertSorted (x : XOp) : List XOp → List XOp
  | [] => [x]
  | y :: ys => if x.off ≤ y.off then x :: y :: ys else y :: insertSorted x ys

def sortX : List XOp → List XOp
  | [] => []
  | x :: xs => insertSorted x (sortX xs)

def maxKey (m : List XOp) : Nat := m.foldl (fun a x => max a x.off) 0

/-- `_add_setup_except(offset_to_op, exc_table)` followed by `sorted(offset_to_op.items())`.
`max(offset_to_op)` must be an integer offset for `range(max + 1)`: a synthetic last key is a `TypeError`
(reported as `unsupported`: never observed on compiler output, where code objects end in a real op). -/
def addSetupExcept (ops : List PreOp) (entries : List ExcEntry) : Except Err (List XOp) :=
  match kept ops entries with
  | .error x => .error x
  | .ok ks =>
    match addBlocks (ops.map toX) ks with
    | .error x => .error x
    | .ok m =>
      let mk := maxKey m
      if mk % 2 == 1 then .error .unsupported
      else
        let bits := bitsFrom ks (mk / 2 + 1) 0 none
        .ok (sortX (m.map (flagOp bits)))

/-! ### decidable premises of the theorems (evaluated by the driver on every real stream) -/

/-- the instruction after which the POP_BLOCK of `e` belongs: `e.stop` if it is an instruction offset, else the last
instruction before it -/
def endR (ops : List PreOp) (e : ExcEntry) : Option Nat :=
  if hasPreOff ops e.stop then some e.stop else maxOpt ((ops.map (·.off)).filter (· < e.stop))

/-- entries that end *between* two instructions do not share their last instruction with an earlier kept entry
(then the largest key below `e.stop` is that instruction itself, not a marker filed after it) -/
def endsFreshFrom (ops : List PreOp) : List ExcEntry → List ExcEntry → Bool
  | _, [] => true
  | done, e :: es =>
    (hasPreOff ops e.stop || done.all (fun d => endR ops d != endR ops e)) && (endR ops e).isSome &&
      endsFreshFrom ops (e :: done) es

def endsFresh (ops : List PreOp) (entries : List ExcEntry) : Bool :=
  match kept ops entries with
  | .ok ks => endsFreshFrom ops [] ks
  | .error _ => false


/-- wordcode: every instruction starts at an even byte offset -/
def evenOffs (ops : List PreOp) : Bool := ops.all (fun o => o.off % 2 == 0)

/-- every kept entry ends on an instruction of the stream -/
def stopsOnOps (ops : List PreOp) (entries : List ExcEntry) : Bool :=
  match kept ops entries with
  | .ok ks => ks.all (fun e => hasPreOff ops e.stop)
  | .error _ => false

/-- no kept range starts at offset 0 (code objects start with RESUME) -/
def startsPos (ops : List PreOp) (entries : List ExcEntry) : Bool :=
  match kept ops entries with
  | .ok ks => ks.all (fun e => e.start != 0)
  | .error _ => false

/-- the items in the form `Opcodes.mkList` consumes -/
def XOp.toRaw (x : XOp) : RawOp :=
  { off := x.off, cls := x.cls, argval := 2 * x.argval, pre := x.pre, pushExc := x.push }

end PytypeModel.Blocks
