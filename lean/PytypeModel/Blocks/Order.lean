import PytypeModel.Blocks.Surgery312
import PytypeModel.Blocks.PopBlock

/-! # C16 — model of `cfg_utils.compute_predecessors`, `cfg_utils.order_nodes` and of the edge
construction in `blocks.compute_order`

A graph is a list of node ids (`Block.id`, pairwise distinct) and `out : Nat → List Nat` (`node.outgoing`,
a Python set: only membership matters, see `order_nodes` below).

`order_nodes` is written over an **arbitrary** priority structure `P` (`PrioOps`): the priority sets only
decide *which* queued node is taken next, the invariants proved in `Props/C16.lean` hold for every choice.
The instance used by pytype is `listPrio` over the result of `computePredecessors`. -/
namespace PytypeModel.Blocks

/-! ## compute_predecessors -/

abbrev PredMap := List (Nat × List Nat)

/-- `a |= b` on duplicate-free lists -/
def unionL (a b : List Nat) : List Nat := a ++ b.filter (fun x => !a.contains x)

def pmSet (pm : PredMap) (n : Nat) (v : List Nat) : PredMap :=
  pm.map fun kv => if kv.1 == n then (kv.1, v) else kv

/-- the `while unprocessed:` loop (`unprocessed.pop(0)`: FIFO).  `predecessors[node]` on a node that is
not a key is the KeyError. -/
def predLoop (out : Nat → List Nat) : Nat → List (Nat × Nat) → PredMap → List Nat → Except Err (PredMap × List Nat)
  | _, [], pm, d => .ok (pm, d)
  | 0, _ :: _, _, _ => .error .outOfFuel
  | f + 1, (frm, node) :: rest, pm, d =>
    match pm.lookup node, pm.lookup frm with
    | some pn, some pf =>
      let new := unionL pn pf
      if new.length != pn.length then
        predLoop out f (rest ++ (out node).map fun n => (node, n)) (pmSet pm node new) (node :: d)
      else predLoop out f rest pm d
    | _, _ => .error .keyError

def edgeCount (nodes : List Nat) (out : Nat → List Nat) : Nat := (nodes.map fun n => (out n).length).sum

/-- fuel for one `start`: every pop either enlarges some predecessor set (at most `N·N` times in total) or
shortens the queue (`predLoop_fuel_sufficient`) -/
def predFuel (nodes : List Nat) (out : Nat → List Nat) : Nat :=
  (edgeCount nodes out + 1) * (nodes.length * nodes.length + 1)

def predStarts (out : Nat → List Nat) (fuel : Nat) : List Nat → PredMap → List Nat → Except Err (PredMap × List Nat)
  | [], pm, d => .ok (pm, d)
  | start :: rest, pm, d =>
    if d.contains start then predStarts out fuel rest pm d
    else
      match predLoop out fuel ((out start).map fun n => (start, n)) pm d with
      | .error e => .error e
      | .ok (pm', d') => predStarts out fuel rest pm' d'

/-- `compute_predecessors(nodes)` -/
def computePredecessors (nodes : List Nat) (out : Nat → List Nat) : Except Err PredMap :=
  match predStarts out (predFuel nodes out) nodes (nodes.map fun n => (n, [n])) [] with
  | .error e => .error e
  | .ok (pm, _) => .ok pm

/-! ## order_nodes -/

structure PrioOps (P : Type) where
  size : P → Nat                 -- `len(predecessors)`
  discard : P → Nat → P          -- `predecessors.discard(node)`
  minus : P → List Nat → P       -- `predecessor_map[n] - seen`

def listPrio : PrioOps (List Nat) where
  size := List.length
  discard := fun p n => p.filter (fun x => x != n)
  minus := fun p seen => p.filter (fun x => !seen.contains x)

/-- `(len(a), a.id) < (len(b), b.id)` -/
def better {P : Type} (po : PrioOps P) (a b : Nat × P) : Bool :=
  po.size a.2 < po.size b.2 || (po.size a.2 == po.size b.2 && a.1 < b.1)

/-- `min((len(predecessors), node.id, node) for node, predecessors in queue.items())`; queue keys are
distinct, hence no tie reaches the third component. -/
def pickMin {P : Type} (po : PrioOps P) : (Nat × P) → List (Nat × P) → (Nat × P)
  | best, [] => best
  | best, e :: es => pickMin po (if better po e best then e else best) es

/-- `for n in node.outgoing: if n not in queue: queue[n] = predecessor_map[n] - seen` -/
def enqueue {P : Type} (po : PrioOps P) (pm : Nat → P) (seen : List Nat) : List (Nat × P) → List Nat → List (Nat × P)
  | q, [] => q
  | q, n :: ns =>
    if q.any (fun e => e.1 == n) then enqueue po pm seen q ns
    else enqueue po pm seen (q ++ [(n, po.minus (pm n) seen)]) ns

/-- the `while queue:` loop.  Fuel `1 + |E|` suffices (`orderLoop_fuel_sufficient`). -/
def orderLoop {P : Type} (po : PrioOps P) (pm : Nat → P) (out : Nat → List Nat) :
    Nat → List (Nat × P) → List Nat → List Nat → Except Err (List Nat)
  | _, [], order, _ => .ok order
  | 0, _ :: _, _, _ => .error .outOfFuel
  | f + 1, e :: es, order, seen =>
    let node := (pickMin po e es).1
    let q := (e :: es).filter (fun x => x.1 != node)            -- del queue[node]
    if seen.contains node then orderLoop po pm out f q order seen
    else
      let seen' := node :: seen
      let q1 := q.map fun x => (x.1, po.discard x.2 node)
      orderLoop po pm out f (enqueue po pm seen' q1 (out node)) (order ++ [node]) seen'

/-- `order_nodes` without the final assert, over an arbitrary priority map -/
def orderNodesWith {P : Type} (po : PrioOps P) (pm : Nat → P) (nodes : List Nat) (out : Nat → List Nat) :
    Except Err (List Nat) :=
  match nodes with
  | [] => .ok []
  | root :: _ => orderLoop po pm out (1 + edgeCount nodes out) [(root, pm root)] [] []

def dedup : List Nat → List Nat
  | [] => []
  | x :: xs => if xs.contains x then dedup xs else x :: dedup xs

/-- `order_nodes(nodes)` as in cfg_utils.py, including
`assert len(set(order) | dead) == len(set(nodes))` -/
def orderNodes (nodes : List Nat) (out : Nat → List Nat) : Except Err (List Nat) :=
  match nodes with
  | [] => .ok []
  | root :: _ =>
    match computePredecessors nodes out with
    | .error e => .error e
    | .ok pmap =>
      let pm := fun n => (pmap.lookup n).getD []
      let dead := nodes.filter fun n => !(pm n).contains root
      match orderNodesWith listPrio pm nodes out with
      | .error e => .error e
      | .ok order =>
        if (dedup (order ++ dead)).length == (dedup nodes).length then .ok order else .error .assertion

/-! ## compute_order -/

/-- `first_op_to_block[x]` (dict comprehension: the last block starting with `x` wins) -/
def firstOpToBlock (blocks : List Block) (x : Nat) : Option Nat :=
  ((blocks.filter fun b => b.code.head? == some x).getLast?).map (·.id)

def edgeTo (blocks : List Block) (frm : Nat) : Option Nat → Except Err (List (Nat × Nat))
  | none => .ok []
  | some t =>
    match firstOpToBlock blocks t with
    | none => .error .keyError
    | some id => .ok [(frm, id)]

/-- the body of `for i, block in enumerate(blocks):` for one block; `nxt` = `next_block` -/
def blockEdges (ops : Array Op) (all : List Block) (processed : List Nat) (b : Block) (nxt : Option Block) :
    Except Err (List (Nat × Nat)) :=
  if processed.contains b.id then .ok []
  else
    match b.code.head?, b.code.getLast? with
    | some f, some l =>
      let fop := ops.getD f default
      let lop := ops.getD l default
      let e1 := match nxt with
        | some nb => if !(info lop.cls).noNext then [(b.id, nb.id)] else []
        | none => []
      match edgeTo all b.id fop.target with
      | .error e => .error e
      | .ok e2 =>
        match edgeTo all b.id lop.target with
        | .error e => .error e
        | .ok e3 =>
          match edgeTo all b.id lop.blockTarget with
          | .error e => .error e
          | .ok e4 => .ok (e1 ++ e2 ++ e3 ++ e4)
    | _, _ => .error .indexError

def allBlockEdges (ops : Array Op) (all : List Block) (processed : List Nat) : List Block → Except Err (List (Nat × Nat))
  | [] => .ok []
  | b :: rest =>
    match blockEdges ops all processed b rest.head? with
    | .error e => .error e
    | .ok es =>
      match allBlockEdges ops all processed rest with
      | .error e => .error e
      | .ok tl => .ok (es ++ tl)

def outOf (edges : List (Nat × Nat)) (n : Nat) : List Nat := (edges.filter fun e => e.1 == n).map (·.2)

structure OrderedOut where
  ops : Array Op                   -- the opcode objects after the surgery's retargeting
  blocks : List Block              -- the list handed to `order_nodes`
  edges : List (Nat × Nat)
  order : List Nat                 -- ids of the blocks in execution order
  deriving Inhabited

/-- `compute_order(bytecode, python_version)` -/
def computeOrder (ver : Nat) (ops : List Op) : Except Err OrderedOut :=
  match splitBytecode ver ops with
  | .error e => .error e
  | .ok (blocks0, edges0) =>
    match (if ver ≥ 12 then surgery ops.toArray blocks0
           else .ok { blocks := blocks0, ops := ops.toArray, edges := [], processed := [] }) with
    | .error e => .error e
    | .ok s =>
      match allBlockEdges s.ops s.blocks s.processed s.blocks with
      | .error e => .error e
      | .ok edges1 =>
        let edges := edges0 ++ s.edges ++ edges1
        match orderNodes (s.blocks.map (·.id)) (outOf edges) with
        | .error e => .error e
        | .ok order => .ok { ops := s.ops, blocks := s.blocks, edges := edges, order := order }

/-- which stage raised -/
inductive Stage | build | popBlock | order
  deriving Repr, DecidableEq

/-- `_order_code`: `build_opcodes` (from `_make_opcode_list` on), `add_pop_block_targets`, `compute_order` -/
def orderCode (ver : Nat) (raw : List RawOp) (entries : List (Nat × Nat)) (withPop : Bool := true) :
    Except (Stage × Err) OrderedOut :=
  match buildOps ver raw entries with
  | .error e => .error (.build, e)
  | .ok ops =>
    match (if withPop then addPopBlockTargets ops else .ok ops) with
    | .error e => .error (.popBlock, e)
    | .ok ops' =>
      match computeOrder ver ops' with
      | .error e => .error (.order, e)
      | .ok r => .ok r

end PytypeModel.Blocks
