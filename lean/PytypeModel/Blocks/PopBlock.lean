import PytypeModel.Blocks.Opcodes

/-! # C16 — model of `blocks.add_pop_block_targets`

A depth-first walk over `(op, block_stack)` pairs with a `seen` set keyed by op only; it assigns
`block_target` to `POP_BLOCK`, `RAISE_VARARGS` and `BREAK_LOOP` ops.  `todo` is a Python list used as a
stack (`todo.pop()`), modelled with the top at the head; `block_stack` is a tuple whose innermost block
is last, modelled with the innermost block at the head.  Ops are identified by index
(`opcode_list_wf`: `ops[i].idx = i`).  The loop takes fuel `2·n + 2` (`popBlock_fuel_sufficient`). -/
namespace PytypeModel.Blocks

@[inline] def opAt (ops : Array Op) (i : Nat) : Op := ops.getD i default
@[inline] def ciAt (ops : Array Op) (i : Nat) : Generated.OpcodeTable.ClsInfo := info (ops.getD i default).cls

structure PbSt where
  todo : List (Nat × List Nat) := []
  seen : List Nat := []
  bt : List (Nat × Nat) := []          -- assignments `op.block_target = …` (op index ↦ target index)
  deriving Repr, Inhabited

/-- `setup_op = op.target; while not isinstance(setup_op, setup_except_op): setup_op = setup_op.prev`
(`None.prev` → AttributeError = `none`) -/
def findSetupBack (ops : Array Op) : Nat → Nat → Option Nat
  | 0, _ => none
  | f + 1, i =>
    if (ciAt ops i).isSetupExcept then some i
    else match (opAt ops i).prev with
      | none => none
      | some p => findSetupBack ops f p

/-- the `isinstance` cascade of the loop body for op `i` with block stack `stack`:
(new block stack, entries the branch appends to `todo`, value assigned to `op.block_target`). -/
def pbBranch (ops : Array Op) (i : Nat) (stack : List Nat) :
    Except Err (List Nat × List (Nat × List Nat) × Option Nat) :=
  let op := opAt ops i
  let ci := info op.cls
  if ci.isPopBlock then
    match stack with
    | [] => .error .assertion                           -- assert block_stack, "POP_BLOCK without block."
    | top :: below => .ok (below, [], (opAt ops top).target)
  else if ci.isRaiseVarargs then
    .ok (stack, [], (stack.find? fun b => (ciAt ops b).isSetupExcept).bind fun b => (opAt ops b).target)
  else if ci.isBreakLoop then
    match stack.dropWhile (fun b => !(ciAt ops b).isSetupLoop) with
    | [] => .ok (stack, [], none)
    | b :: below =>
      match (opAt ops b).target with
      | none => .error .attrError                       -- `(None, …)` is queued and crashes when popped
      | some t =>
        if t == i then .error .assertion                -- assert b.target != op
        else .ok (stack, [(t, below)], some t)
  else if ci.isSetupExcept then
    match op.target with
    | none => .error .attrError                         -- idem
    | some t => .ok (i :: stack, [(t, stack)], none)
  else if ci.pushesBlock then
    match op.target with
    | none => .error .assertion                         -- assert op.target
    | some _ => .ok (i :: stack, [], none)
  else if ci.doesJump then
    match op.target with
    | none => .ok (stack, [], none)
    | some t =>
      if op.pushExc then
        match findSetupBack ops (ops.size + 1) t with
        | none => .error .attrError
        | some s => .ok (s :: stack, [(t, s :: stack)], none)
      else .ok (stack, [(t, stack)], none)
  else .ok (stack, [], none)

/-- the body of the `while todo:` loop for an op that was not seen yet (`st.todo` = `todo` after the pop). -/
def pbVisit (ops : Array Op) (i : Nat) (stack : List Nat) (st : PbSt) : Except Err PbSt :=
  match pbBranch ops i stack with
  | .error e => .error e
  | .ok (stack', pushed, bt) =>
    let bts := match bt with
      | some t => (i, t) :: st.bt
      | none => st.bt
    if (ciAt ops i).noNext then .ok { st with todo := pushed ++ st.todo, bt := bts }
    else
      match (opAt ops i).next with
      | none => .error .assertion                       -- assert op.next, "Bad instruction at end of bytecode"
      | some n => .ok { st with todo := (n, stack') :: (pushed ++ st.todo), bt := bts }

def pbLoop (ops : Array Op) : Nat → PbSt → Except Err PbSt
  | 0, st => if st.todo.isEmpty then .ok st else .error .outOfFuel
  | f + 1, st =>
    match st.todo with
    | [] => .ok st
    | (i, stack) :: rest =>
      if st.seen.contains i then pbLoop ops f { st with todo := rest }
      else
        match pbVisit ops i stack { st with todo := rest, seen := i :: st.seen } with
        | .error e => .error e
        | .ok st' => pbLoop ops f st'

/-- `add_pop_block_targets(bytecode)` -/
def addPopBlockTargets (ops : List Op) : Except Err (List Op) :=
  match ops with
  | [] => .ok []
  | first :: _ =>
    match pbLoop ops.toArray (2 * ops.length + 2) { todo := [(first.idx, [])] } with
    | .error e => .error e
    | .ok st => .ok (ops.map fun op => { op with blockTarget := st.bt.lookup op.idx })

end PytypeModel.Blocks
