import PytypeModel.Blocks.Order

/-! # C16 — decidable premises of the theorems, evaluated by the driver on every real stream

The same `Bool` functions are the hypotheses of the theorems in `Props/C16.lean` and what the
correspondence stage evaluates (through the driver) on every real opcode stream, so "the premises hold on
real code" is measured and not assumed. -/
namespace PytypeModel.Blocks

/-- strictly increasing offsets (`sorted(offset_to_op.items())` of a dict) -/
def strictlyIncreasing : List Nat → Bool
  | a :: b :: rest => decide (a < b) && strictlyIncreasing (b :: rest)
  | _ => true

/-- premise of `opcode_list_wf`: the items are sorted by distinct offsets, every jump argument of a
known-jump op is the offset of an item, every pre-set target is an item. -/
def rawWF (raw : List RawOp) : Bool :=
  strictlyIncreasing (raw.map (·.off)) &&
  raw.all fun r =>
    match r.pre with
    | some p => raw.any fun x => x.off == p
    | none => !(info r.cls).hasKnownJump || raw.any fun x => x.off == r.argval

/-- the conclusion of `opcode_list_wf` as a check: `index`, `next`, `prev` are positional and every target
is an index of the stream -/
def opsWFFrom : Nat → Option Nat → List Op → Bool
  | _, _, [] => true
  | i, prev, op :: rest =>
    op.idx == i && op.prev == prev &&
    op.next == (if rest.isEmpty then none else some (i + 1)) &&
    opsWFFrom (i + 1) (some i) rest

def opsWF (ops : List Op) : Bool :=
  opsWFFrom 0 none ops &&
  ops.all fun op =>
    (match op.target with | some t => decide (t < ops.length) | none => true) &&
    (match op.blockTarget with | some t => decide (t < ops.length) | none => true) &&
    (match op.eaft with | some t => decide (t < ops.length) | none => true)

/-- no jump target lies strictly inside a `yield_value_block` (the SEND exclusion is vacuous) -/
def noInteriorTarget (ver : Nat) (ops : List Op) : Bool :=
  (targetsOf ops).all fun t => !(sendInterior ver ops).contains t

def nodupNat : List Nat → Bool
  | [] => true
  | x :: xs => !xs.contains x && nodupNat xs

/-- guard of `surgery_partition_partial`: the merge list of `_remove_jmp_to_get_anext_and_merge` joins every
`END_ASYNC_FOR` block into at most one other block, no block is both source and destination, no block is
a destination twice. -/
def mergeGuard (n : Nat) (ml : List (Nat × Nat)) : Bool :=
  nodupNat (ml.map (·.1)) && nodupNat (ml.map (·.2)) && (ml.all fun p => !(ml.map (·.2)).contains p.1) &&
    ml.all fun p => decide (p.1 < n) && decide (p.2 < n)

/-- the ops `_remove_jump_back_block` removes: the code of the dropped blocks -/
def jumpBackRemoved (ops : Array Op) (blocks : List Block) : List Nat :=
  flat (blocks.filter fun b => match isJumpBackBlock ops b with | .ok true => true | _ => false)

/-- the ops `_remove_jmp_to_get_anext_and_merge` pops: the last op of every merging block -/
def poppedOps (blocks : List Block) (ml : List (Nat × Nat)) : List Nat :=
  ml.filterMap fun p => (blocks[p.1]?).bind (·.code.getLast?)

/-- the merge list that `compute_order` will use for this stream (`none`: an earlier stage raises) -/
def mergeListOf (ver : Nat) (ops : List Op) : Option (Nat × List (Nat × Nat)) :=
  match splitBytecode ver ops with
  | .error _ => none
  | .ok (blocks0, _) =>
    if ver ≥ 12 then
      match removeJumpBack ops.toArray blocks0 with
      | .error _ => none
      | .ok bs =>
        match mergeList ops.toArray bs with
        | .error _ => none
        | .ok ml => some (bs.length, ml)
    else some (blocks0.length, [])

def b01 (b : Bool) : String := if b then "1" else "0"

/-- what the driver reports next to every result -/
def premisesLine (ver : Nat) (raw : List RawOp) (entries : List (Nat × Nat)) (withPop : Bool) : String :=
  let rw := rawWF raw
  match buildOps ver raw entries with
  | .error _ => s!"rawwf={b01 rw}"
  | .ok ops0 =>
    let ops := match (if withPop then addPopBlockTargets ops0 else .ok ops0) with
      | .ok o => o
      | .error _ => ops0
    let sends := (ops.filter fun o => (info o.cls).isSend).length
    let ml := mergeListOf ver ops
    let removed := match splitBytecode ver ops with
      | .ok (bs, _) =>
        (match removeJumpBack ops.toArray bs with
         | .ok bs' => bs.length - bs'.length
         | .error _ => 0)
      | .error _ => 0
    s!"rawwf={b01 rw} opswf={b01 (opsWF ops)} nointerior={b01 (noInteriorTarget ver ops)} " ++
    s!"guard={b01 ((ml.map fun p => mergeGuard p.1 p.2).getD true)} sends={sends} merges={(ml.map fun p => p.2.length).getD 0} jbremoved={removed}"

end PytypeModel.Blocks
