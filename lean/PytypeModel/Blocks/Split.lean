import PytypeModel.Blocks.Opcodes

/-! # C16 — model of `blocks._split_bytecode` (incl. the 3.12 `SEND` branch,
`_preprocess_async_for_and_yield`)

The Python loop walks the list by index because the `SEND` branch jumps ahead to `end_block_idx`.  The
model is the equivalent one-pass state machine (one `stepOp` per opcode):

* `normal`  — the ordinary loop body (`code.append(op)`, then maybe close the block);
* `seek s`  — after the `SEND` with index `s`: ops are collected for `yield_value_block` until the first
              `JUMP_BACKWARD_NO_INTERRUPT` (`next(i for i in range(idx+1, …) if …)`; falling off the end
              is the `StopIteration`);
* `afterJ s`— the op at `end_block_idx = i + 1` is inspected (`IndexError` when there is none): a
              `CLEANUP_THROW` is swallowed into `yield_value_block`, anything else is processed normally.

A block's code is the list of the *indices* of its ops (an op object = its index, `opcode_list_wf`).
`edges` collects the `connect_outgoing` calls as `(from.id, to.id)`. -/
namespace PytypeModel.Blocks

structure Block where
  id : Nat
  code : List Nat
  deriving Repr, DecidableEq, Inhabited

/-- concatenation of the blocks' code -/
def flat (bs : List Block) : List Nat := bs.flatMap (·.code)

/-- `Block(code)`: `self.id = code[0].index` -/
def mkBlock (code : List Nat) : Block := ⟨code.headD 0, code⟩

inductive Mode
  | normal
  | seek (send : Nat)
  | afterJ (send : Nat)
  deriving Repr, DecidableEq, Inhabited

structure SplitSt where
  mode : Mode := .normal
  code : List Nat := []            -- `code` (normal) / the ops of `yield_value_block` so far (seek, afterJ)
  blocks : List Block := []
  edges : List (Nat × Nat) := []
  deriving Repr, Inhabited

structure Ctx where
  v312 : Bool                      -- `python_version >= (3, 12)`
  targets : List Nat               -- `{op.target for op in bytecode if op.target}`
  ops : Array Op                   -- the bytecode, for `isinstance(op.next, GET_ANEXT)`

def targetsOf (ops : List Op) : List Nat := ops.filterMap (·.target)

def clsAt (ops : Array Op) (i : Nat) : Nat := (ops.getD i default).cls

/-- the condition closing a block after `op` -/
def endsBlock (cx : Ctx) (op : Op) : Bool :=
  (info op.cls).noNext || (info op.cls).doesJump || (info op.cls).popsBlock ||
    match op.next with
    | none => true
    | some n => cx.targets.contains n && (!(info (clsAt cx.ops n)).isGetAnext || !cx.v312)

/-- ordinary loop body (also entered for the op at `end_block_idx`) -/
def stepNormal (cx : Ctx) (op : Op) (st : SplitSt) : SplitSt :=
  if cx.v312 && (info op.cls).isSend then
    { st with mode := .seek op.idx, code := [],
              blocks := if st.code.isEmpty then st.blocks else st.blocks ++ [mkBlock st.code] }
  else if endsBlock cx op then
    { st with code := [], blocks := st.blocks ++ [mkBlock (st.code ++ [op.idx])] }
  else { st with code := st.code ++ [op.idx] }

/-- end of `_preprocess_async_for_and_yield`: `send_block`, `yield_value_block`, the two
`connect_outgoing` calls (`prev_block` is the last block built so far; `None.connect_outgoing` is the
AttributeError). -/
def complete (send : Nat) (yv : List Nat) (st : SplitSt) : Except Err SplitSt :=
  match st.blocks.getLast? with
  | none => .error .attrError
  | some pb =>
    .ok { mode := .normal, code := [],
          blocks := st.blocks ++ [mkBlock [send], mkBlock yv],
          edges := st.edges ++ [(pb.id, send), (send, yv.headD 0)] }

def stepOp (cx : Ctx) (st : SplitSt) (op : Op) : Except Err SplitSt :=
  match st.mode with
  | .normal => .ok (stepNormal cx op st)
  | .seek s =>
    .ok { st with code := st.code ++ [op.idx],
                  mode := if (info op.cls).isJbni then .afterJ s else .seek s }
  | .afterJ s =>
    if (info op.cls).isCleanupThrow then complete s (st.code ++ [op.idx]) st
    else
      match complete s st.code st with
      | .error e => .error e
      | .ok st' => .ok (stepNormal cx op st')

def splitRun (cx : Ctx) : SplitSt → List Op → Except Err SplitSt
  | st, [] => .ok st
  | st, op :: rest =>
    match stepOp cx st op with
    | .error e => .error e
    | .ok st' => splitRun cx st' rest

/-- after the loop: a non-empty `code` that was never closed is silently dropped by the Python, too -/
def splitFinish (st : SplitSt) : Except Err (List Block × List (Nat × Nat)) :=
  match st.mode with
  | .normal => .ok (st.blocks, st.edges)
  | .seek _ => .error .stopIteration
  | .afterJ _ => .error .indexError

def mkCtx (ver : Nat) (ops : List Op) : Ctx := ⟨decide (ver ≥ 12), targetsOf ops, ops.toArray⟩

/-- `_split_bytecode(bytecode, processed_blocks, python_version)`.  (`processed_blocks.update(send_block,
yield_value_block)` adds the *opcodes* of the two blocks to the set — `set.update` iterates its arguments —
so no `Block` ever becomes a member through it; nothing to model.) -/
def splitBytecode (ver : Nat) (ops : List Op) : Except Err (List Block × List (Nat × Nat)) :=
  match splitRun (mkCtx ver ops) {} ops with
  | .error e => .error e
  | .ok st => splitFinish st

/-- Specification helper for the theorems: the indices that lie *inside* a `yield_value_block` after its
first op — the region the splitter does not cut (the SEND exclusion). Independent one-pass scan:
`outside`; `first` = the next op is the first op of a `yield_value_block` (it starts that block);
`inside` = after that, up to the `JUMP_BACKWARD_NO_INTERRUPT`; `afterJ` = the op after it is interior iff
it is a `CLEANUP_THROW`. -/
inductive ScanMode | outside | first | inside | afterJ
  deriving DecidableEq, Repr

/-- is the op read in scan state `m` strictly inside a `yield_value_block`? -/
def isInterior (m : ScanMode) (op : Op) : Bool :=
  match m with
  | .inside => true
  | .afterJ => (info op.cls).isCleanupThrow
  | _ => false

def nextScan (v312 : Bool) (m : ScanMode) (op : Op) : ScanMode :=
  match m with
  | .outside => if v312 && (info op.cls).isSend then .first else .outside
  | .first => if (info op.cls).isJbni then .afterJ else .inside
  | .inside => if (info op.cls).isJbni then .afterJ else .inside
  | .afterJ =>
    if (info op.cls).isCleanupThrow then .outside
    else if v312 && (info op.cls).isSend then .first else .outside

def sendInteriorFrom (v312 : Bool) : ScanMode → List Op → List Nat
  | _, [] => []
  | m, op :: rest =>
    (if isInterior m op then [op.idx] else []) ++ sendInteriorFrom v312 (nextScan v312 m op) rest

def sendInterior (ver : Nat) (ops : List Op) : List Nat := sendInteriorFrom (decide (ver ≥ 12)) .outside ops

end PytypeModel.Blocks
