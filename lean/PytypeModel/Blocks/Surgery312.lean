import PytypeModel.Blocks.Split

/-! # C16 — model of the 3.12 block surgery in `blocks.py`:
`_remove_jump_back_block` and `_remove_jmp_to_get_anext_and_merge`

`ops : Array Op` is the heap of opcode objects (index = identity); the second function mutates
`op.target` of some ops, so it returns a new heap. -/
namespace PytypeModel.Blocks

/-- the test of `_remove_jump_back_block` (`block.code[-1]` on an empty block would be the IndexError) -/
def isJumpBackBlock (ops : Array Op) (b : Block) : Except Err Bool :=
  match b.code.getLast? with
  | none => .error .indexError
  | some l =>
    let lop := ops.getD l default
    .ok ((info lop.cls).isJumpBackward
      && (match lop.target with
          | some t => (info (clsAt ops t)).isEndSend
          | none => false)
      && decide (b.code.length ≥ 2)
      && (info (clsAt ops (b.code.getD (b.code.length - 2) 0))).isCleanupThrow)

def removeJumpBack (ops : Array Op) : List Block → Except Err (List Block)
  | [] => .ok []
  | b :: rest =>
    match isJumpBackBlock ops b with
    | .error e => .error e
    | .ok drop =>
      match removeJumpBack ops rest with
      | .error e => .error e
      | .ok rest' => .ok (if drop then rest' else b :: rest')

/-- `op_to_block[x]`: position of the last block whose code contains `x` (later dict writes win) -/
def opToBlock (blocks : List Block) (x : Nat) : Option Nat :=
  ((blocks.zipIdx.filter fun p => p.1.code.contains x).getLast?).map (·.2)

/-- the pairs `(block_idx, op_to_block[code.end_async_for_target])` contributed by one block -/
def mergePairsOf (ops : Array Op) (blocks : List Block) (bi : Nat) : List Nat → Except Err (List (Nat × Nat))
  | [] => .ok []
  | x :: xs =>
    match mergePairsOf ops blocks bi xs with
    | .error e => .error e            -- (order of discovery of the error is irrelevant: both are KeyError)
    | .ok tl =>
      match (ops.getD x default).eaft with
      | none => .ok tl
      | some e =>
        match opToBlock blocks e with
        | none => .error .keyError
        | some mi => .ok ((bi, mi) :: tl)

def mergeListFrom (ops : Array Op) (blocks : List Block) : List (Block × Nat) → Except Err (List (Nat × Nat))
  | [] => .ok []
  | (b, bi) :: rest =>
    match mergePairsOf ops blocks bi b.code with
    | .error e => .error e
    | .ok hd =>
      match mergeListFrom ops blocks rest with
      | .error e => .error e
      | .ok tl => .ok (hd ++ tl)

def mergeList (ops : Array Op) (blocks : List Block) : Except Err (List (Nat × Nat)) :=
  mergeListFrom ops blocks blocks.zipIdx

structure MergeSt where
  blocks : List Block
  mapTarget : List (Nat × Nat) := []     -- `map_target`, newest binding first
  edges : List (Nat × Nat) := []
  processed : List Nat := []             -- ids of the blocks put into `processed_blocks`
  deriving Repr, Inhabited

/-- one iteration of `for block_idx, block_idx_to_merge in merge_list:` -/
def mergeStep (st : MergeSt) (p : Nat × Nat) : Except Err MergeSt :=
  match st.blocks[p.1]? with
  | none => .error .indexError
  | some b =>
    match b.code.getLast? with
    | none => .error .indexError                       -- `.code.pop()` on an empty list
    | some jb =>
      let code1 := b.code.dropLast
      -- `blocks[bi].code.extend(blocks[mi].code)` (same list object when bi = mi)
      let mcode := if p.1 = p.2 then code1 else ((st.blocks[p.2]?).map (·.code)).getD []
      let blocks := st.blocks.set p.1 { b with code := code1 ++ mcode }
      match (blocks[p.2]?).bind (·.code.head?) with
      | none => .error .indexError                     -- `blocks[mi].code[0]`
      | some first =>
        let edges :=
          match blocks[p.2 + 1]? with                  -- `if block_idx_to_merge < len(blocks) - 1`
          | some nb => st.edges ++ [(b.id, nb.id)]
          | none => st.edges
        .ok { blocks := blocks, mapTarget := (jb, first) :: st.mapTarget, edges := edges,
              processed := b.id :: st.processed }

def mergeSteps : MergeSt → List (Nat × Nat) → Except Err MergeSt
  | st, [] => .ok st
  | st, p :: ps =>
    match mergeStep st p with
    | .error e => .error e
    | .ok st' => mergeSteps st' ps

/-- `for block_idx in to_delete: del blocks[block_idx]` with `to_delete` the distinct merged-in positions
in descending order = keep exactly the positions that are not merged-in. -/
def deleteMerged (blocks : List Block) (dead : List Nat) : List Block :=
  (blocks.zipIdx.filter fun p => !dead.contains p.2).map (·.1)

/-- the final loop: `replace_op = map_target.get(block.code[-1].target)`; `block.code[-1].target = replace_op`.
The op object is shared by every block that contains it, hence the heap update. -/
def retarget (mapTarget : List (Nat × Nat)) : Array Op → List Block → Except Err (Array Op)
  | ops, [] => .ok ops
  | ops, b :: rest =>
    match b.code.getLast? with
    | none => .error .indexError
    | some l =>
      let lop := ops.getD l default
      match lop.target.bind (fun t => mapTarget.lookup t) with
      | none => retarget mapTarget ops rest
      | some r => retarget mapTarget (ops.setIfInBounds l { lop with target := some r }) rest

structure SurgeryOut where
  blocks : List Block
  ops : Array Op
  edges : List (Nat × Nat)
  processed : List Nat
  deriving Inhabited

/-- `_remove_jmp_to_get_anext_and_merge(blocks, processed_blocks)` -/
def mergeAnext (ops : Array Op) (blocks : List Block) : Except Err SurgeryOut :=
  match mergeList ops blocks with
  | .error e => .error e
  | .ok ml =>
    match mergeSteps { blocks := blocks } ml with
    | .error e => .error e
    | .ok st =>
      let blocks' := deleteMerged st.blocks (ml.map (·.2))
      match retarget st.mapTarget ops blocks' with
      | .error e => .error e
      | .ok ops' => .ok { blocks := blocks', ops := ops', edges := st.edges, processed := st.processed }

/-- the `if python_version >= (3, 12):` part of `compute_order` -/
def surgery (ops : Array Op) (blocks : List Block) : Except Err SurgeryOut :=
  match removeJumpBack ops blocks with
  | .error e => .error e
  | .ok bs => mergeAnext ops bs

end PytypeModel.Blocks
