import PytypeModel.Generated.OpcodeTable

/-! # C16 — model of `pytype/pyc/opcodes.py`: `_make_opcode_list`, `_add_jump_targets`,
`_add_async_for_jump_back_targets`

Input = the sorted `(offset, opcode)` items of `offset_to_op` **after** `_add_setup_except` (that function
stays outside the model and is reached through the correspondence runs).  Offsets are doubled so that the
synthetic `SETUP_EXCEPT_311` (`start - 0.5`) and `POP_BLOCK` (`end + 0.5`) entries sit at odd numbers.

An opcode object is identified by its final `index`; every "set of opcodes"/"dict keyed by opcode" of the
Python becomes a list of indices.  Flag columns come from `Generated/OpcodeTable.lean` (regenerated from
/repo on every run); the functions below never look at a class *name*.

Core Lean only. -/
namespace PytypeModel.Blocks
open PytypeModel.Generated.OpcodeTable

def tableArr : Array ClsInfo := table.toArray

/-- flags of class number `c` (row of the generated table).  Irreducible for the elaborator (so that
equation lemmas of the functions below never unfold the 200-row table); the kernel (`decide +kernel`)
evaluates it normally. -/
@[irreducible] def info (c : Nat) : ClsInfo := tableArr.getD c default

/-- Python exceptions the modelled functions can raise (+ fuel exhaustion of the model's own loops,
proved unreachable, and `unsupported` for one corner outside the model, see `resolveTarget`). -/
inductive Err
  | keyError | indexError | stopIteration | attrError | assertion | outOfFuel | unsupported
  deriving Repr, DecidableEq, Inhabited

def Err.toString : Err → String
  | .keyError => "KeyError" | .indexError => "IndexError" | .stopIteration => "StopIteration"
  | .attrError => "AttributeError" | .assertion => "AssertionError" | .outOfFuel => "OutOfFuel"
  | .unsupported => "Unsupported"

/-- one `(offset, op)` item of `offset_to_op` -/
structure RawOp where
  off : Nat                  -- 2 * offset
  cls : Nat                  -- row in the generated table
  argval : Nat := 0          -- for `has_known_jump()` classes: 2 * (jump target offset)
  pre : Option Nat := none   -- `op.target` already set by `_add_exception_block` (2 * offset of that op)
  pushExc : Bool := false    -- `op.push_exc_block` (set by `_add_setup_except`)
  deriving Repr, DecidableEq, Inhabited

/-- an `Opcode` instance, restricted to the attributes the block code reads or writes -/
structure Op where
  idx : Nat := 0
  off : Nat := 0
  cls : Nat := 0
  argval : Nat := 0
  pre : Option Nat := none
  pushExc : Bool := false
  next : Option Nat := none
  prev : Option Nat := none
  target : Option Nat := none
  blockTarget : Option Nat := none
  eaft : Option Nat := none          -- `end_async_for_target`
  deriving Repr, DecidableEq, Inhabited

/-- `_should_elide_opcode(op_items, i, python_version)`; `rest` = the items after `i`. -/
def shouldElide (ver : Nat) (r : RawOp) (rest : List RawOp) : Bool :=
  ver == 11 && (info r.cls).isJumpBackward &&
    match rest with
    | n :: _ => (info n.cls).isEndAsyncFor
    | [] => false

/-- does a later item survive (i.e. will `prev_op.next = op` be executed for the current op)? -/
def hasKept (ver : Nat) : List RawOp → Bool
  | [] => false
  | r :: rest => if shouldElide ver r rest then hasKept ver rest else true

/-- `_make_opcode_list`: the list `ops` (index, prev, next filled in).  `index` = number of ops kept so far,
`prev` = index of `prev_op`. -/
def mkList (ver : Nat) : List RawOp → Nat → Option Nat → List Op
  | [], _, _ => []
  | r :: rest, index, prev =>
    if shouldElide ver r rest then mkList ver rest index prev
    else
      { idx := index, off := r.off, cls := r.cls, argval := r.argval, pre := r.pre, pushExc := r.pushExc,
        prev := prev, next := if hasKept ver rest then some (index + 1) else none }
        :: mkList ver rest (index + 1) (some index)

/-- `_make_opcode_list`: the dict `offset_to_index` (an elided op's offset maps to the index of the next op). -/
def offsetToIndex (ver : Nat) : List RawOp → Nat → List (Nat × Nat)
  | [], _ => []
  | r :: rest, index =>
    (r.off, index) :: offsetToIndex ver rest (if shouldElide ver r rest then index else index + 1)

/-- one iteration of `_add_jump_targets`.
`if op.target:` — the target was pre-set to an opcode *object*; its index is that object's final index.
(If that object was elided — only conceivable for 3.11 — Python keeps a dangling object; the model
answers `unsupported` and the correspondence generator never produces it.)
`elif op.has_known_jump():` — `offset_to_index[op.argval]` (KeyError) then `ops[op.arg]` (IndexError). -/
def resolveTarget (ops : List Op) (o2i : List (Nat × Nat)) (op : Op) : Except Err Op :=
  match op.pre with
  | some p =>
    match ops.find? (fun o => o.off == p) with
    | some t => .ok { op with target := some t.idx, argval := t.idx }
    | none => .error .unsupported
  | none =>
    if (info op.cls).hasKnownJump then
      match o2i.lookup op.argval with
      | none => .error .keyError
      | some i => if i < ops.length then .ok { op with target := some i, argval := i } else .error .indexError
    else .ok op

/-- `for x in xs: f(x)` with the first exception propagating -/
def mapExcept {α β : Type} (f : α → Except Err β) : List α → Except Err (List β)
  | [] => .ok []
  | a :: l =>
    match f a with
    | .error e => .error e
    | .ok b =>
      match mapExcept f l with
      | .error e => .error e
      | .ok bs => .ok (b :: bs)

def addJumpTargets (ops : List Op) (o2i : List (Nat × Nat)) : Except Err (List Op) :=
  mapExcept (resolveTarget ops o2i) ops

def clsOf (ops : List Op) (i : Nat) : Nat := (ops.getD i default).cls

/-- one exception-table entry `(2*start, 2*target)` of `_add_async_for_jump_back_targets`:
every `JUMP_BACKWARD` whose target is the `GET_ANEXT` at `e.start` gets
`end_async_for_target = offset_to_op[e.target]`. -/
def asyncEntry (o2i : List (Nat × Nat)) (ops : List Op) (e : Nat × Nat) : Except Err (List Op) :=
  match o2i.lookup e.1 with
  | none => .ok ops                               -- `e.start in offset_to_op` is false
  | some s =>
    let hit := fun (o : Op) => (info o.cls).isJumpBackward && o.target == some s
    if (info (clsOf ops s)).isGetAnext && ops.any hit then
      match o2i.lookup e.2 with
      | none => .error .keyError                  -- `offset_to_op[e.target]`
      | some t => .ok (ops.map fun o => if hit o then { o with eaft := some t } else o)
    else .ok ops

def addAsyncFor (o2i : List (Nat × Nat)) : List (Nat × Nat) → List Op → Except Err (List Op)
  | [], ops => .ok ops
  | e :: es, ops =>
    match asyncEntry o2i ops e with
    | .error err => .error err
    | .ok ops' => addAsyncFor o2i es ops'

/-- `build_opcodes` from `_make_opcode_list` on (`ver` = minor version of `python_version`). -/
def buildOps (ver : Nat) (raw : List RawOp) (entries : List (Nat × Nat)) : Except Err (List Op) :=
  match addJumpTargets (mkList ver raw 0 none) (offsetToIndex ver raw 0) with
  | .error e => .error e
  | .ok ops1 => if ver ≥ 12 then addAsyncFor (offsetToIndex ver raw 0) entries ops1 else .ok ops1

end PytypeModel.Blocks
