import PytypeModel.Proofs.MiniFlowTable

/-! # C01 — inferred types admit every value the program computes (fragment F1, phase a)

Partial: the theorems are about the model of pytype's *flow rules* on F1 (path exploration with
pruning by `compatible_with`, union of the per-path types, long-union collapse); the typegraph/solver
that implements path exploration in pytype is tied to this model only by correspondence (K). -/
namespace PytypeModel.Props.C01
open PytypeModel.MiniFlow

/-- **Soundness of the flow rules.** For every loop-free program of F1, every outcome `ρ` of the
conditions the analyser cannot decide, and every truthiness oracle `dec` that never prunes a branch
some concretisation takes: if the program runs to completion and `x` holds `c` at the end, then the
type inferred for `x` admits `c`. Unbounded program size, nesting and value depth. -/
theorem flow_sound (dec : Dec) (hd : DecSound dec) (ρ : Nat → Bool) (prog : List Stmt) (env : Env)
    (x : String) (c : V) (hrun : execCs ρ [] prog = some env) (hx : env.get x = some c) :
    admits (inferName dec prog x) c = true :=
  flow_sound_aux dec hd ρ prog env x c hrun hx

/-- Every row of the table regenerated from the real `compare.compatible_with` /
`state._match_condition` is sound: a branch (true / false / is-None / is-not-None) is declared
impossible only if no concrete value of that shape class takes it. (`decide +kernel` over the
regenerated table: a change to `compatible_with` that prunes too much breaks this obligation.) -/
theorem compat_table_sound : tableSound PytypeModel.Generated.compatTable = true := by decide +kernel

/-- `prune_sound`: pytype's own pruning oracle (table-driven) is sound. -/
theorem prune_sound : DecSound decTable := decOfTable_sound _ compat_table_sound

/-- soundness with pytype's own pruning rules -/
theorem flow_sound_pytype_rules (ρ : Nat → Bool) (prog : List Stmt) (env : Env) (x : String) (c : V)
    (hrun : execCs ρ [] prog = some env) (hx : env.get x = some c) :
    admits (inferName decTable prog x) c = true :=
  flow_sound decTable prune_sound ρ prog env x c hrun hx

/-- soundness of the most precise oracle (used as the lower bound in the correspondence: the real
answer must be at least as wide as this one) -/
theorem flow_sound_sem (ρ : Nat → Bool) (prog : List Stmt) (env : Env) (x : String) (c : V)
    (hrun : execCs ρ [] prog = some env) (hx : env.get x = some c) :
    admits (inferName decSem prog x) c = true :=
  flow_sound decSem decSem_sound ρ prog env x c hrun hx

/-- the abstraction of a ground value (precise tuples, element unions, `nothing` for empty
containers) admits every value it describes -/
theorem typeOf_admits (c a : V) (h : refines c a = true) : admits (typeOf a) c = true :=
  admits_typeOf c a h

/-- the comparison used by the correspondence is sound: `sub a b` implies every value admitted by `a`
is admitted by `b`; so "pytype's type is ⊒ the model's" transfers `flow_sound` to pytype's answer. -/
theorem sub_sound (a b : Ty) (h : sub a b = true) (c : V) (hc : admits a c = true) :
    admits b c = true := PytypeModel.MiniFlow.sub_sound a b h c hc

/-- collapsing a long union to `Any` only widens -/
theorem collapse_widens (t : Ty) (c : V) (h : admits t c = true) : admits (collapse t) c = true :=
  admits_collapse t c h

/-- consequence used by K: any reported type at least as wide as the model's answer is sound. -/
theorem wider_is_sound (dec : Dec) (hd : DecSound dec) (ρ : Nat → Bool) (prog : List Stmt) (env : Env)
    (x : String) (c : V) (reported : Ty) (hrun : execCs ρ [] prog = some env) (hx : env.get x = some c)
    (hw : sub (inferName dec prog x) reported = true) : admits reported c = true :=
  sub_sound _ _ hw c (flow_sound dec hd ρ prog env x c hrun hx)

/-! non-vacuity: a program with an undecidable branch, a prunable branch, a correlated test and
containers; both outcomes of the opaque condition run to completion and are admitted. -/
def demo : List Stmt :=
  [ .ite (.opaque 0) [.assign "x" (.lit .none), .assign "y" (.lit (.int 1))]
                     [.assign "x" (.lit (.int 2)), .assign "y" (.lit (.str "s"))],
    .ite (.isNone (.name "x")) [.assign "z" (.name "y")] [.assign "z" (.lit .none)],
    .ite (.lit (.int 0)) [.assign "q" (.lit (.int 1))] [.assign "q" (.lit (.str "q"))],
    .assign "t" (.tuple [.name "x", .name "y"]),
    .assign "b" (.not (.opaque 1)) ]

example : (execCs (fun _ => true) [] demo).isSome = true := by decide
example : (execCs (fun _ => false) [] demo).isSome = true := by decide
example : (execAs decSem [] demo).length = 2 := by decide +kernel
example : ((execCs (fun _ => true) [] demo).bind (·.get "z")) = some (.int 1) := by rfl
example : inferName decTable demo "z" = .union [.base .int, .base .none] := by rfl   -- path-sensitive: no `str`
example : inferName decTable demo "q" = .union [.base .str, .base .str] := by rfl    -- `if 0:` branch pruned
example : admits (inferName decTable demo "z") (.str "s") = false := by
  have : inferName decTable demo "z" = .union [.base .int, .base .none] := by rfl
  rw [this]; simp [admits, admitsAny]

end PytypeModel.Props.C01
