import PytypeModel.Proofs.MiniFlowTable
import PytypeModel.Typegraph.Program
import PytypeModel.Proofs.TypegraphHide

/-! # C01 — inferred types admit every value the program computes (fragment F1, phase a)

Partial: the theorems are about the model of pytype's *flow rules* on F1 (path exploration with
pruning by `compatible_with`, union of the per-path types, long-union collapse); the typegraph/solver
that implements path exploration in pytype is tied to this model only by correspondence (K). -/
namespace PytypeModel.Props.C01
open PytypeModel.MiniFlow

/-- **Soundness of the flow rules.** For every loop-free program of F1, every outcome `ρ` of the
conditions the analyser cannot decide, and every truthiness oracle `dec` that never prunes a branch
some concretisation takes: if the program runs to completion and `x` holds `c` at the end, then the
type inferred for `x` admits `c`. Unbounded program size, nesting and value depth. -/
theorem flow_sound (dec : Dec) (hd : DecSound dec) (ρ : Nat → Bool) (prog : List Stmt) (env : Env)
    (x : String) (c : V) (hrun : execCs ρ [] prog = some env) (hx : env.get x = some c) :
    admits (inferName dec prog x) c = true :=
  flow_sound_aux dec hd ρ prog env x c hrun hx

/-- Every row of the table regenerated from the real `compare.compatible_with` /
`state._match_condition` is sound: a branch (true / false / is-None / is-not-None) is declared
impossible only if no concrete value of that shape class takes it. (`decide +kernel` over the
regenerated table: a change to `compatible_with` that prunes too much breaks this obligation.) -/
theorem compat_table_sound : tableSound PytypeModel.Generated.compatTable = true := by decide +kernel

/-- `prune_sound`: pytype's own pruning oracle (table-driven) is sound. -/
theorem prune_sound : DecSound decTable := decOfTable_sound _ compat_table_sound

/-- soundness with pytype's own pruning rules -/
theorem flow_sound_pytype_rules (ρ : Nat → Bool) (prog : List Stmt) (env : Env) (x : String) (c : V)
    (hrun : execCs ρ [] prog = some env) (hx : env.get x = some c) :
    admits (inferName decTable prog x) c = true :=
  flow_sound decTable prune_sound ρ prog env x c hrun hx

/-- soundness of the most precise oracle (used as the lower bound in the correspondence: the real
answer must be at least as wide as this one) -/
theorem flow_sound_sem (ρ : Nat → Bool) (prog : List Stmt) (env : Env) (x : String) (c : V)
    (hrun : execCs ρ [] prog = some env) (hx : env.get x = some c) :
    admits (inferName decSem prog x) c = true :=
  flow_sound decSem decSem_sound ρ prog env x c hrun hx

/-- the abstraction of a ground value (precise tuples, element unions, `nothing` for empty
containers) admits every value it describes -/
theorem typeOf_admits (c a : V) (h : refines c a = true) : admits (typeOf a) c = true :=
  admits_typeOf c a h

/-- the comparison used by the correspondence is sound: `sub a b` implies every value admitted by `a`
is admitted by `b`; so "pytype's type is ⊒ the model's" transfers `flow_sound` to pytype's answer. -/
theorem sub_sound (a b : Ty) (h : sub a b = true) (c : V) (hc : admits a c = true) :
    admits b c = true := PytypeModel.MiniFlow.sub_sound a b h c hc

/-- collapsing a long union to `Any` only widens -/
theorem collapse_widens (t : Ty) (c : V) (h : admits t c = true) : admits (collapse t) c = true :=
  admits_collapse t c h

/-- consequence used by K: any reported type at least as wide as the model's answer is sound. -/
theorem wider_is_sound (dec : Dec) (hd : DecSound dec) (ρ : Nat → Bool) (prog : List Stmt) (env : Env)
    (x : String) (c : V) (reported : Ty) (hrun : execCs ρ [] prog = some env) (hx : env.get x = some c)
    (hw : sub (inferName dec prog x) reported = true) : admits reported c = true :=
  sub_sound _ _ hw c (flow_sound dec hd ρ prog env x c hrun hx)

/-! non-vacuity: a program with an undecidable branch, a prunable branch, a correlated test and
containers; both outcomes of the opaque condition run to completion and are admitted. -/
def demo : List Stmt :=
  [ .ite (.opaque 0) [.assign "x" (.lit .none), .assign "y" (.lit (.int 1))]
                     [.assign "x" (.lit (.int 2)), .assign "y" (.lit (.str "s"))],
    .ite (.isNone (.name "x")) [.assign "z" (.name "y")] [.assign "z" (.lit .none)],
    .ite (.lit (.int 0)) [.assign "q" (.lit (.int 1))] [.assign "q" (.lit (.str "q"))],
    .assign "t" (.tuple [.name "x", .name "y"]),
    .assign "b" (.not (.opaque 1)) ]

example : (execCs (fun _ => true) [] demo).isSome = true := by decide
example : (execCs (fun _ => false) [] demo).isSome = true := by decide
example : (execAs decSem [] demo).length = 2 := by decide +kernel
example : ((execCs (fun _ => true) [] demo).bind (·.get "z")) = some (.int 1) := by rfl
example : inferName decTable demo "z" = .union [.base .int, .base .none] := by rfl   -- path-sensitive: no `str`
example : inferName decTable demo "q" = .union [.base .str, .base .str] := by rfl    -- `if 0:` branch pruned
example : admits (inferName decTable demo "z") (.str "s") = false := by
  have : inferName decTable demo "z" = .union [.base .int, .base .none] := by rfl
  rw [this]; simp [admits, admitsAny]

/-! ## how a container's type parameter accumulates across CFG nodes (mechanism of `fix:` 23d3aba)

pytype keeps the element types of a container in one typegraph Variable per type parameter.  The solver treats every
node at which a Variable has a binding as a *blocker* for the Variable's other bindings (`blockedOf`, model of
`solver.cc` `FindSolution`) — "a later assignment hides the earlier ones".  An operation that only *adds* to a container
(`dict.update`, `DICT_UPDATE`, `LIST_EXTEND`) must therefore rebind what the parameter already holds at the node where
it merges the new types; `Dict.update`, `byte_DICT_UPDATE` and `byte_LIST_EXTEND` did not, and the emitted stub lost
the older element types.

The two histories below are the two versions of the merge on the smallest graph that shows it — nodes 0 → 1 → 2, the
parameter `T` (variable 0) holding `int` (data 1) since node 0, the update's element variable (variable 1) holding `str`
(data 2) at node 1 — executed by the model of `cfg.Program` (`Typegraph/Program.lean`, the model behind C07/C08).  The
harness replays both op by op on the real `cfg.Program` and compares every answer (stage K of C01). -/
section accumulate
open PytypeModel.Typegraph

/-- nodes 0 → 1 → 2; `T` = variable 0 with binding 0 = `int` at node 0; variable 1 with binding 1 = `str` at node 1 -/
def accSetup : List Op :=
  [.newNode none, .connectNew 0 none, .connectNew 1 none,
   .newVar, .addBinding 0 1 (some ([], 0)),
   .newVar, .addBinding 1 2 (some ([], 1))]

/-- `T.PasteVariable(update, node 1)` — what `merge_instance_type_parameter` does -/
def accMergeOnly : List Op := accSetup ++ [.pasteVariable 0 1 (some 1) []]

/-- `T.PasteVariable(T.AssignToNewVariable(node 1), node 1)` first — `Instance.rebind_instance_type_parameter` —
then the same merge -/
def accRebindThenMerge : List Op :=
  accSetup ++ [.assignVar 0 (some 1), .pasteVariable 0 2 (some 1) [], .pasteVariable 0 1 (some 1) []]

example : wfHistory (PState.init []) accMergeOnly = true ∧ wfHistory (PState.init []) accRebindThenMerge = true := by
  decide

/-- Without the rebind the older element type is invisible from every later node: `int` (binding 0) cannot be seen
from node 2 and `Variable.Filter` at node 2 returns `str` alone — the stub says `list[str]`. -/
theorem merge_only_hides_older :
    freshAnswer [] accMergeOnly (.visible 0 2) = .bool false ∧
    freshAnswer [] accMergeOnly (.filter 0 2 true) = .ids [2] ∧
    freshAnswer [] accMergeOnly (.visible 0 1) = .bool false := by decide

/-- With the rebind both element types are visible from node 1 on: `Variable.Filter` returns `int` and `str`. -/
theorem rebind_keeps_older :
    freshAnswer [] accRebindThenMerge (.visible 0 2) = .bool true ∧
    freshAnswer [] accRebindThenMerge (.filter 0 2 true) = .ids [0, 3] ∧
    freshAnswer [] accRebindThenMerge (.visible 0 1) = .bool true := by decide

/-- … and before the merge the older type was visible in both histories (the merge is what hides it) -/
theorem older_visible_before_merge :
    freshAnswer [] accSetup (.visible 0 2) = .bool true ∧ freshAnswer [] accSetup (.filter 0 2 true) = .ids [0] := by
  decide

/-! The same two facts for **every** graph, on the declarative visibility relation `Expl` (which the solver decides on
acyclic unconditioned graphs: `Props.C07.solve_iff_expl`). -/

/-- A goal that is not produced at `n` is visible from `n` iff one of its origin nodes is reached by a backward path on
which its variable is not bound again, and it is visible there. -/
theorem visible_iff_clear_path (g : Graph) (b : BId) (n : NodeId) (hreg : (g.node n).bindings.contains b = false) :
    Expl g n [b] ↔ ∃ m, m ∈ finishNodes g [b] ∧ ClearPath g (blockedOf g [b]) n m ∧ Expl g m [b] :=
  visible_away_iff g b n hreg

/-- **A later binding hides the older ones** — in any graph, however it was built: if the variable of `b` is bound at
`k` and every backward path from `n` to an origin node of `b` passes through `k`, `b` is not visible from `n`.  This is
what `merge_instance_type_parameter` at a later node does to the element types a container already has. -/
theorem hidden_by_later_binding (g : Graph) (b : BId) (n k : NodeId) (hreg : (g.node n).bindings.contains b = false)
    (hk : k ∈ blockedOf g [b]) (hsep : ∀ m, m ∈ finishNodes g [b] → ¬ ClearPath g [k] n m) : ¬ Expl g n [b] :=
  later_binding_hides g b n k hreg hk hsep

/-- **Rebinding keeps them visible** — in any graph: once `b` has an origin at `k` whose source set is `{b}` itself
(what `rebind_instance_type_parameter` = `PasteVariable(AssignToNewVariable(k), k)` creates: the copy's only origin is
at `k`, so `PasteBinding` copies it verbatim), `b` is visible at `k` and from every node that reaches `k` by a backward
path on which the variable is not bound again — whatever else is merged into the variable at `k`. -/
theorem rebound_stays_visible (g : Graph) (b : BId) (n k : NodeId) (ob : Origin)
    (hregk : (g.node k).bindings.contains b = true)
    (hb : g.findOrigin b k = some ob) (hbs : [b] ∈ ob.sourceSets) :
    Expl g k [b] ∧
    ((g.node n).bindings.contains b = false → k ∈ finishNodes g [b] → ClearPath g (blockedOf g [b]) n k → Expl g n [b]) :=
  ⟨rebound_visible_here g b k ob hregk hb hbs,
   fun hreg hk hp => rebound_visible_later g b n k hreg hk hp (rebound_visible_here g b k ob hregk hb hbs)⟩

/-- The operation itself, for every program state with a well-formed graph (every graph built by a history is:
`Props.C07.built_graph_wf`): `Binding::AddOrigin(k, {b})` applied to `b` — which is what pasting the copy back amounts
to — makes `b` visible at `k`. -/
theorem rebind_op_makes_visible (s : PState) (hwf : s.g.WF) (b : BId) (k : NodeId) (hb : s.okB b = true)
    (hk : s.okNode k = true) : Expl (s.addOrigin b k [b]).g k [b] := by
  simp only [PState.okB, PState.okNode, decide_eq_true_eq] at hb hk
  exact addOrigin_self_visible s.g hwf b k hb hk

/-- non-vacuity: the graph of `accRebindThenMerge` meets the hypotheses (b = 0, k = 1, n = 2) … -/
example : let g := ((PState.init []).run accRebindThenMerge).g
    (g.node 1).bindings.contains 0 = true ∧ g.findOrigin 0 1 = some ⟨1, [[0]]⟩ ∧
    (g.node 2).bindings.contains 0 = false ∧ 1 ∈ finishNodes g [0] := by
  decide
/-- … and the graph of `accMergeOnly` those of `hidden_by_later_binding` (b = 0, n = 2, k = 1; the only origin node
of `b` is 0 and the only way back from 2 leads through 1) -/
example : let g := ((PState.init []).run accMergeOnly).g
    (g.node 2).bindings.contains 0 = false ∧ 1 ∈ blockedOf g [0] ∧ finishNodes g [0] = [0] ∧
    g.incoming 2 = [1] := by decide

end accumulate

end PytypeModel.Props.C01
