import PytypeModel.Proofs.SolverReach
import PytypeModel.Typegraph.Program

/-! # C07 — the typegraph solver decides binding visibility correctly

Only property theorems and non-vacuity examples live here.  Model: `PytypeModel.Typegraph.Solver`
(`solve g memo n attrs` = `Solver::Solve` on a solver whose memo is `memo`; `[]` = fresh solver),
declarative side: `PytypeModel.Typegraph.Expl`. -/
namespace PytypeModel.Props.C07
open PytypeModel.Typegraph

/-- **accepted ⇒ every goal individually reachable**, for every graph without node conditions — cyclic
graphs, multiple origins and source sets, any fuel-independent memo state reachable by earlier queries
included (`MemoInv … []` holds of the empty memo and is preserved by `solve`, see `solve_keeps_inv`). -/
theorem solve_goals_reachable_partial (g : Graph) (hnc : g.NoConditions) (memo : Memo)
    (hm : MemoInv g memo []) (n : NodeId) (attrs : List BId)
    (h : (solve g memo n attrs).1 = true) : ∀ b ∈ attrs, GoalReachable g n b :=
  (solve_sound g hnc memo n attrs hm).2 h

/-- the fresh-solver instance of the statement above -/
theorem solve_goals_reachable_fresh (g : Graph) (hnc : g.NoConditions) (n : NodeId) (attrs : List BId)
    (h : (solve g [] n attrs).1 = true) : ∀ b ∈ attrs, GoalReachable g n b :=
  solve_goals_reachable_partial g hnc [] (memoInv_nil g []) n attrs h

/-- the invariant needed above is kept by every query, so the statement holds for every query of a
whole query sequence on one solver -/
theorem solve_keeps_inv (g : Graph) (hnc : g.NoConditions) (memo : Memo) (hm : MemoInv g memo [])
    (n : NodeId) (attrs : List BId) : MemoInv g (solve g memo n attrs).2 [] :=
  (solve_sound g hnc memo n attrs hm).1

/-- the path finder only reports paths that exist: `FindNodeBackwards(start, finish, blocked).path_exists`
implies `finish` is backward reachable from `start` (all graphs). -/
theorem find_node_backwards_sound (g : Graph) (start fin : NodeId) (blocked : List NodeId)
    (h : (findNodeBackwards g start fin blocked).1 = true) : BackReach g start fin :=
  findNodeBackwards_sound g start fin blocked h

/-! ### the clause is false with conditions on a cycle (known finding c07-provisional-true)

`p = 0 ⇄ q = 1`; `p.condition = x`; `x` (binding 1) originates at `q` from `{y}`, `y` (binding 2) at `p`
from `{x}`; `g` (binding 0) has **no origin at all**.  `IsVisible(g, p)`: `(p,{g}) → (q,{g,x}) → (p,{g,y})
→ (q,{g,x})` which is on the stack, the only new position, hence recalled as provisionally `true`. -/
def provisionalOps : List Op := [
  .newNode none, .connectNew 0 none, .connectTo 1 0,
  .newVar, .addBinding 0 0 none, .newVar, .newVar, .addBinding 1 1 none, .addBinding 2 2 none,
  .addOrigin 1 1 [2], .addOrigin 2 0 [1], .setCond 0 (some 1)]

def provisionalGraph : Graph := ((PState.init []).run provisionalOps).g

set_option maxRecDepth 100000 in
theorem provisional_witness :
    wfHistory (PState.init []) provisionalOps = true ∧
    (solve provisionalGraph [] 0 [0]).1 = true ∧ (provisionalGraph.binding 0).origins = [] := by
  decide +kernel

/-- **"accepted ⇒ every goal reachable" is false on cyclic graphs with conditions** -/
theorem solve_goals_reachable_not_full :
    ¬ (∀ (g : Graph) (n : NodeId) (attrs : List BId),
        (solve g [] n attrs).1 = true → ∀ b ∈ attrs, GoalReachable g n b) := by
  intro hall
  obtain ⟨o, ho, _⟩ := hall provisionalGraph 0 [0] provisional_witness.2.1 0 (List.mem_singleton.2 rfl)
  rw [provisional_witness.2.2] at ho
  exact absurd ho (List.not_mem_nil)

/-! ### statements not (yet) proved

-- OPEN  solve_iff_expl : g.WF → g.Acyclic → g.NoConditions → ((solve g [] n G).1 = true ↔ Expl g n (ofList G))
-- OPEN  solve_subset   : g.WF → g.Acyclic → g.NoConditions → (solve g [] n G).1 = true → G' ⊆ G → (solve g [] n G').1 = true
-- OPEN  solve_goals_reachable_acyclic : g.WF → g.Acyclic → (solve g [] n G).1 = true → ∀ b ∈ G, GoalReachable g n b
-- OPEN  solve_complete_cond : g.Acyclic → ExplCond g n G → (solve g [] n G).1 = true
These are covered by the search stage's independent path-enumerating reference on the real answers only. -/

/-! ### non-vacuity -/

/-- an unconditioned *cyclic* graph on which the theorem's hypotheses hold with a `true` answer:
`0 ⇄ 1 → 2`, `a` at node 0, `b` at node 1 from `{a}`; `{a,b}` accepted at node 2. -/
def demoOps : List Op := [
  .newNode none, .connectNew 0 none, .connectTo 1 0, .connectNew 1 none,
  .newVar, .addBinding 0 0 (some ([], 0)), .newVar, .addBinding 1 1 (some ([0], 1))]

def demoGraph : Graph := ((PState.init []).run demoOps).g

set_option maxRecDepth 100000 in
example : wfHistory (PState.init []) demoOps = true ∧
    (solve demoGraph [] 2 [0, 1]).1 = true ∧ (solve demoGraph [] 0 [1]).1 = true ∧
    (solve demoGraph [] 2 [1]).1 = true := by decide +kernel

theorem demo_noConditions : demoGraph.NoConditions :=
  Graph.noConditions_of_all _ (by decide +kernel)

example : GoalReachable demoGraph 2 1 :=
  solve_goals_reachable_fresh demoGraph demo_noConditions 2 [0, 1] (by decide +kernel) 1 (by simp)

-- a rejected combination: two bindings of one variable
set_option maxRecDepth 100000 in
example : (solve ((PState.init []).run (demoOps ++ [.addBinding 0 7 (some ([], 1))])).g [] 2 [0, 2]).1 = false := by
  decide +kernel

end PytypeModel.Props.C07
