import PytypeModel.Proofs.SolverWF
import PytypeModel.Proofs.SolverBfs
import PytypeModel.Typegraph.Program

/-! # C07 — the typegraph solver decides binding visibility correctly

Only property theorems and non-vacuity examples live here.  Model: `PytypeModel.Typegraph.Solver`
(`solve g memo n attrs` = `Solver::Solve` on a solver whose memo is `memo`; `[]` = fresh solver),
declarative side: `PytypeModel.Typegraph.Expl`. -/
namespace PytypeModel.Props.C07
open PytypeModel.Typegraph

/-- **accepted ⇒ every goal individually reachable**, for every graph without node conditions — cyclic
graphs, multiple origins and source sets, any fuel-independent memo state reachable by earlier queries
included (`MemoInv … []` holds of the empty memo and is preserved by `solve`, see `solve_keeps_inv`). -/
theorem solve_goals_reachable_partial (g : Graph) (hnc : g.NoConditions) (memo : Memo)
    (hm : MemoInv g memo []) (n : NodeId) (attrs : List BId)
    (h : (solve g memo n attrs).1 = true) : ∀ b ∈ attrs, GoalReachable g n b :=
  (solve_sound g hnc memo n attrs hm).2 h

/-- the fresh-solver instance of the statement above -/
theorem solve_goals_reachable_fresh (g : Graph) (hnc : g.NoConditions) (n : NodeId) (attrs : List BId)
    (h : (solve g [] n attrs).1 = true) : ∀ b ∈ attrs, GoalReachable g n b :=
  solve_goals_reachable_partial g hnc [] (memoInv_nil g []) n attrs h

/-- the invariant needed above is kept by every query, so the statement holds for every query of a
whole query sequence on one solver -/
theorem solve_keeps_inv (g : Graph) (hnc : g.NoConditions) (memo : Memo) (hm : MemoInv g memo [])
    (n : NodeId) (attrs : List BId) : MemoInv g (solve g memo n attrs).2 [] :=
  (solve_sound g hnc memo n attrs hm).1

/-- **accepted ⇒ every goal individually reachable**, for every well-formed *acyclic* graph — node
conditions, multiple origins and source sets allowed. -/
theorem solve_goals_reachable_acyclic (g : Graph) (rank : NodeId → Nat) (hwf : g.WF)
    (hac : g.AcyclicBy rank) (n : NodeId) (attrs : List BId)
    (h : (solve g [] n attrs).1 = true) : ∀ b ∈ attrs, GoalReachable g n b :=
  (solve_sound_acyclic hwf hac [] n attrs (memoInv2_nil g [])).2 h

/-- every graph built through the Python entry points (any well-formed history) is well-formed, so `g.WF`
is no restriction on the graphs pytype can construct. -/
theorem built_graph_wf (addrs : List Nat) (ops : List Op) (h : wfHistory (PState.init addrs) ops = true) :
    ((PState.init addrs).run ops).g.WF := wf_run addrs ops h

/-- **the memoised search computes the memo-free recursion** on well-formed acyclic graphs: `Solve` on a
fresh solver equals `solveVal`, which is defined from `spec` alone, and `spec` unfolds by `stepVal`
(goal removal at the node, then `any` over the new positions) — no memo, no stack, no cycle skip. -/
theorem solve_eq_memo_free (g : Graph) (rank : NodeId → Nat) (hwf : g.WF) (hac : g.AcyclicBy rank)
    (n : NodeId) (attrs : List BId) : (solve g [] n attrs).1 = solveVal g rank n attrs :=
  (solve_spec hwf hac [] n attrs (memoInv3_nil _ _)).2

theorem spec_unfold (g : Graph) (rank : NodeId → Nat) (hwf : g.WF) (hac : g.AcyclicBy rank)
    (st : SState) : spec g rank st = stepVal g (spec g rank) st := by
  have hinv : MemoInv3 (spec g rank) (Memo.set [] st true) (st :: []) := by
    intro s b hs
    rw [Memo.find_set] at hs
    split at hs
    · rename_i heq; subst heq; exact Or.inl List.mem_cons_self
    · simp [Memo.find] at hs
  have hrec : RecOK3 rank (spec g rank) (rank st.pos) (recall g (rank st.pos)) :=
    fun stack memo st' hlt hm hab => recall_spec hwf hac st' _ hlt stack memo hm hab
  have h2 := (findSolution_pure hwf hac (spec g rank) (recall g (rank st.pos)) [] _ st hrec hinv
    (above_nil rank _)).2
  rw [← h2]
  unfold spec recall
  simp only [Memo.find]

/-- the path finder only reports paths that exist: `FindNodeBackwards(start, finish, blocked).path_exists`
implies `finish` is backward reachable from `start`, and so is every condition node it reports (all graphs). -/
theorem find_node_backwards_sound (g : Graph) (start fin : NodeId) (blocked : List NodeId)
    (h : (findNodeBackwards g start fin blocked).1 = true) :
    BackReach g start fin ∧ ∀ x ∈ (findNodeBackwards g start fin blocked).2, BackReach g start x :=
  ⟨findNodeBackwards_sound g start fin blocked h, findNodeBackwards_cpath_reach g start fin blocked⟩

/-- **the path finder decides clear paths exactly** (every graph, cycles included; the fuel bound
`bfsFuel = E + 2` is proved sufficient): `FindNodeBackwards(start, finish, blocked).path_exists` iff there is
a backward path from `start` to `finish` none of whose nodes other than `finish` is blocked — "no variable
in the set is re-bound in between". -/
theorem find_node_backwards_iff (g : Graph) (start fin : NodeId) (blocked : List NodeId) :
    (findNodeBackwards g start fin blocked).1 = true ↔ ClearPath g blocked start fin :=
  findNodeBackwards_iff g start fin blocked

/-- `remove_finished_goals` on a well-formed graph: what is removed originates at the node, what remains
does not, and every input goal is one or the other (all graphs). -/
theorem remove_finished_goals_sound (g : Graph) (hwf : g.WF) (pos : NodeId) (goals R N : List BId)
    (h : (R, N) ∈ removeFinishedGoals g pos goals) :
    (∀ b ∈ R, (g.findOrigin b pos).isSome) ∧ (∀ b ∈ N, g.findOrigin b pos = none) ∧
    (∀ b ∈ goals, b ∈ R ∨ b ∈ N) :=
  removeFinishedGoals_inv hwf pos goals h

/-! ### the clause is false with conditions on a cycle (known finding c07-provisional-true)

`p = 0 ⇄ q = 1`; `p.condition = x`; `x` (binding 1) originates at `q` from `{y}`, `y` (binding 2) at `p`
from `{x}`; `g` (binding 0) has **no origin at all**.  `IsVisible(g, p)`: `(p,{g}) → (q,{g,x}) → (p,{g,y})
→ (q,{g,x})` which is on the stack, the only new position, hence recalled as provisionally `true`. -/
def provisionalOps : List Op := [
  .newNode none, .connectNew 0 none, .connectTo 1 0,
  .newVar, .addBinding 0 0 none, .newVar, .newVar, .addBinding 1 1 none, .addBinding 2 2 none,
  .addOrigin 1 1 [2], .addOrigin 2 0 [1], .setCond 0 (some 1)]

def provisionalGraph : Graph := ((PState.init []).run provisionalOps).g

set_option maxRecDepth 100000 in
theorem provisional_witness :
    wfHistory (PState.init []) provisionalOps = true ∧
    (solve provisionalGraph [] 0 [0]).1 = true ∧ (provisionalGraph.binding 0).origins = [] := by
  decide +kernel

/-- **"accepted ⇒ every goal reachable" is false on cyclic graphs with conditions** -/
theorem solve_goals_reachable_not_full :
    ¬ (∀ (g : Graph) (n : NodeId) (attrs : List BId),
        (solve g [] n attrs).1 = true → ∀ b ∈ attrs, GoalReachable g n b) := by
  intro hall
  obtain ⟨o, ho, _⟩ := hall provisionalGraph 0 [0] provisional_witness.2.1 0 (List.mem_singleton.2 rfl)
  rw [provisional_witness.2.2] at ho
  exact absurd ho (List.not_mem_nil)

/-! ### statements not (yet) proved

-- OPEN  solve_iff_expl : g.WF → g.AcyclicBy rank → g.NoConditions → ((solve g [] n G).1 = true ↔ Expl g n (ofList G))
--       (proved so far: solve = the memo-free recursion `solveVal`/`stepVal`; missing: `stepVal ↔ Expl`, i.e.
--        `trav` ↔ `Removal` and completeness of the BFS w.r.t. `ClearPath`)
-- OPEN  solve_subset   : g.WF → g.Acyclic → g.NoConditions → (solve g [] n G).1 = true → G' ⊆ G → (solve g [] n G').1 = true
-- OPEN  solve_complete_cond : g.Acyclic → ExplCond g n G → (solve g [] n G).1 = true
These are covered by the search stage's independent path-enumerating reference on the real answers only. -/

/-! ### non-vacuity -/

/-- an unconditioned *cyclic* graph on which the theorem's hypotheses hold with a `true` answer:
`0 ⇄ 1 → 2`, `a` at node 0, `b` at node 1 from `{a}`; `{a,b}` accepted at node 2. -/
def demoOps : List Op := [
  .newNode none, .connectNew 0 none, .connectTo 1 0, .connectNew 1 none,
  .newVar, .addBinding 0 0 (some ([], 0)), .newVar, .addBinding 1 1 (some ([0], 1))]

def demoGraph : Graph := ((PState.init []).run demoOps).g

set_option maxRecDepth 100000 in
example : wfHistory (PState.init []) demoOps = true ∧
    (solve demoGraph [] 2 [0, 1]).1 = true ∧ (solve demoGraph [] 0 [1]).1 = true ∧
    (solve demoGraph [] 2 [1]).1 = true := by decide +kernel

theorem demo_noConditions : demoGraph.NoConditions :=
  Graph.noConditions_of_all _ (by decide +kernel)

example : GoalReachable demoGraph 2 1 :=
  solve_goals_reachable_fresh demoGraph demo_noConditions 2 [0, 1] (by decide +kernel) 1 (by simp)

-- a rejected combination: two bindings of one variable
set_option maxRecDepth 100000 in
example : (solve ((PState.init []).run (demoOps ++ [.addBinding 0 7 (some ([], 1))])).g [] 2 [0, 2]).1 = false := by
  decide +kernel

end PytypeModel.Props.C07
