import PytypeModel.Proofs.SolverWF
import PytypeModel.Proofs.SolverBfs
import PytypeModel.Proofs.SolverExpl
import PytypeModel.Proofs.SolverSubset
import PytypeModel.Proofs.SolverIds
import PytypeModel.Typegraph.Program

/-! # C07 — the typegraph solver decides binding visibility correctly

Only property theorems and non-vacuity examples live here.  Model: `PytypeModel.Typegraph.Solver`
(`solve g memo n attrs` = `Solver::Solve` on a solver whose memo is `memo`; `[]` = fresh solver),
declarative side: `PytypeModel.Typegraph.Expl`. -/
namespace PytypeModel.Props.C07
open PytypeModel.Typegraph

/-- **accepted ⇒ every goal individually reachable**, for every graph without node conditions — cyclic
graphs, multiple origins and source sets, any fuel-independent memo state reachable by earlier queries
included (`MemoInv … []` holds of the empty memo and is preserved by `solve`, see `solve_keeps_inv`). -/
theorem solve_goals_reachable_partial (g : Graph) (hnc : g.NoConditions) (memo : Memo)
    (hm : MemoInv g memo []) (n : NodeId) (attrs : List BId)
    (h : (solve g memo n attrs).1 = true) : ∀ b ∈ attrs, GoalReachable g n b :=
  (solve_sound g hnc memo n attrs hm).2 h

/-- the fresh-solver instance of the statement above -/
theorem solve_goals_reachable_fresh (g : Graph) (hnc : g.NoConditions) (n : NodeId) (attrs : List BId)
    (h : (solve g [] n attrs).1 = true) : ∀ b ∈ attrs, GoalReachable g n b :=
  solve_goals_reachable_partial g hnc [] (memoInv_nil g []) n attrs h

/-- the invariant needed above is kept by every query, so the statement holds for every query of a
whole query sequence on one solver -/
theorem solve_keeps_inv (g : Graph) (hnc : g.NoConditions) (memo : Memo) (hm : MemoInv g memo [])
    (n : NodeId) (attrs : List BId) : MemoInv g (solve g memo n attrs).2 [] :=
  (solve_sound g hnc memo n attrs hm).1

/-- **accepted ⇒ every goal individually reachable**, for every well-formed *acyclic* graph — node
conditions, multiple origins and source sets allowed. -/
theorem solve_goals_reachable_acyclic (g : Graph) (rank : NodeId → Nat) (hwf : g.WF)
    (hac : g.AcyclicBy rank) (n : NodeId) (attrs : List BId)
    (h : (solve g [] n attrs).1 = true) : ∀ b ∈ attrs, GoalReachable g n b :=
  (solve_sound_acyclic hwf hac [] n attrs (memoInv2_nil g [])).2 h

/-- every graph built through the Python entry points (any well-formed history) is well-formed, so `g.WF`
is no restriction on the graphs pytype can construct. -/
theorem built_graph_wf (addrs : List Nat) (ops : List Op) (h : wfHistory (PState.init addrs) ops = true) :
    ((PState.init addrs).run ops).g.WF := wf_run addrs ops h

/-- every graph built through the Python entry points (any well-formed history: all thirteen mutating operations,
queries in between) has only valid binding ids in its source sets, so `g.IdsOK` — a hypothesis of the exactness
and subset theorems — is no restriction on the graphs pytype can construct either (invariant by induction over the
history, `Proofs/SolverIds.lean`). -/
theorem built_graph_ids_ok (addrs : List Nat) (ops : List Op) (h : wfHistory (PState.init addrs) ops = true) :
    ((PState.init addrs).run ops).g.IdsOK := idsOK_built addrs ops h

/-- **the memoised search computes the memo-free recursion** on well-formed acyclic graphs: `Solve` on a
fresh solver equals `solveVal`, which is defined from `spec` alone, and `spec` unfolds by `stepVal`
(goal removal at the node, then `any` over the new positions) — no memo, no stack, no cycle skip. -/
theorem solve_eq_memo_free (g : Graph) (rank : NodeId → Nat) (hwf : g.WF) (hac : g.AcyclicBy rank)
    (n : NodeId) (attrs : List BId) : (solve g [] n attrs).1 = solveVal g rank n attrs :=
  (solve_spec hwf hac [] n attrs (memoInv3_nil _ _)).2

theorem spec_unfold (g : Graph) (rank : NodeId → Nat) (hwf : g.WF) (hac : g.AcyclicBy rank)
    (st : SState) : spec g rank st = stepVal g (spec g rank) st := by
  have hinv : MemoInv3 (spec g rank) (Memo.set [] st true) (st :: []) := by
    intro s b hs
    rw [Memo.find_set] at hs
    split at hs
    · rename_i heq; subst heq; exact Or.inl List.mem_cons_self
    · simp [Memo.find] at hs
  have hrec : RecOK3 rank (spec g rank) (rank st.pos) (recall g (rank st.pos)) :=
    fun stack memo st' hlt hm hab => recall_spec hwf hac st' _ hlt stack memo hm hab
  have h2 := (findSolution_pure hwf hac (spec g rank) (recall g (rank st.pos)) [] _ st hrec hinv
    (above_nil rank _)).2
  rw [← h2]
  unfold spec recall
  simp only [Memo.find]

/-- **`remove_finished_goals` computes exactly the declarative `Removal` relation** (every graph; the fuel
bound `travFuel = (B+1)² + 1` is proved sufficient) for an id-ordered goal set of valid ids. -/
theorem remove_finished_goals_iff (g : Graph) (hids : g.IdsOK) (pos : NodeId) (goals : List BId)
    (hs : Sorted goals) (hb : ∀ x ∈ goals, x < g.bindings.length) (R N : List BId) :
    (R, N) ∈ removeFinishedGoals g pos goals ↔
      Removal g pos (hereGoals g pos goals) [] [] (awayGoals g pos goals) R N :=
  removeFinishedGoals_iff g hids pos goals hs hb R N

/-- **memo-free recursion ⇔ explanation**: on a well-formed acyclic graph without node conditions the
value of a solver state is `true` exactly when its goal set is explained at its node (`Expl`: goals
originating here replaced by one of their source sets, no two removed goals on one variable, then a
backward path on which no variable of the remaining goals is re-bound to an origin of one of them). -/
theorem spec_iff_expl (g : Graph) (rank : NodeId → Nat) (hwf : g.WF) (hac : g.AcyclicBy rank)
    (hnc : g.NoConditions) (hids : g.IdsOK) (st : SState) (hs : Sorted st.goals)
    (hb : ∀ x ∈ st.goals, x < g.bindings.length) :
    spec g rank st = true ↔ Expl g st.pos st.goals :=
  PytypeModel.Typegraph.spec_iff_expl hwf hac hnc hids (rank st.pos) st rfl hs hb

/-- **`HasCombination` ⇔ explanation** on well-formed acyclic unconditioned graphs (fresh solver): the
combination is accepted iff it is explained and, for two or more goals (the `CanHaveSolution`
pre-pass), every single goal is explained on its own. -/
theorem solve_iff_expl_partial (g : Graph) (rank : NodeId → Nat) (hwf : g.WF) (hac : g.AcyclicBy rank)
    (hnc : g.NoConditions) (hids : g.IdsOK) (n : NodeId) (attrs : List BId)
    (hb : ∀ x ∈ attrs, x < g.bindings.length) :
    (solve g [] n attrs).1 = true ↔
      (attrs.length > 1 → ∀ b ∈ attrs, Expl g n [b]) ∧ Expl g n (ofList attrs) :=
  solve_iff_expl_prepass hwf hac hnc hids n attrs hb

/-- **`HasCombination` ⇔ explanation — the exactness clause of C07**: on every well-formed acyclic typegraph
without node conditions (ids valid), a fresh solver accepts a set of bindings at a node exactly when some
backward path explains it.  (`g.WF` holds of every graph built through the API, `built_graph_wf`.) -/
theorem solve_iff_expl (g : Graph) (rank : NodeId → Nat) (hwf : g.WF) (hac : g.AcyclicBy rank)
    (hnc : g.NoConditions) (hids : g.IdsOK) (n : NodeId) (attrs : List BId)
    (hb : ∀ x ∈ attrs, x < g.bindings.length) :
    (solve g [] n attrs).1 = true ↔ Expl g n (ofList attrs) :=
  solve_iff_expl_full hwf hac hnc hids n attrs hb

/-- **every subset of an accepted combination is accepted** (well-formed acyclic unconditioned graphs) -/
theorem solve_subset (g : Graph) (rank : NodeId → Nat) (hwf : g.WF) (hac : g.AcyclicBy rank)
    (hnc : g.NoConditions) (hids : g.IdsOK) (n : NodeId) (attrs sub : List BId)
    (hb : ∀ x ∈ attrs, x < g.bindings.length) (hsub : ∀ x ∈ sub, x ∈ attrs)
    (h : (solve g [] n attrs).1 = true) : (solve g [] n sub).1 = true :=
  solve_subset_acyclic hwf hac hnc hids n attrs sub hb hsub h

/-- **exactness for every graph pytype can build**: after ANY well-formed history of API operations, if the graph
reached is acyclic and has no node conditions, a fresh solver accepts a combination exactly when a backward path
explains it.  `WF` and `IdsOK` are discharged by `built_graph_wf` / `built_graph_ids_ok`; what is left are the
two graph classes the property itself names. -/
theorem solve_iff_expl_built (addrs : List Nat) (ops : List Op) (h : wfHistory (PState.init addrs) ops = true)
    (rank : NodeId → Nat) (hac : ((PState.init addrs).run ops).g.AcyclicBy rank)
    (hnc : ((PState.init addrs).run ops).g.NoConditions) (n : NodeId) (attrs : List BId)
    (hb : ∀ x ∈ attrs, x < ((PState.init addrs).run ops).g.bindings.length) :
    (solve ((PState.init addrs).run ops).g [] n attrs).1 = true ↔
      Expl ((PState.init addrs).run ops).g n (ofList attrs) :=
  solve_iff_expl _ rank (built_graph_wf addrs ops h) hac hnc (built_graph_ids_ok addrs ops h) n attrs hb

/-- **subset closure for every graph pytype can build** (acyclic, unconditioned) -/
theorem solve_subset_built (addrs : List Nat) (ops : List Op) (h : wfHistory (PState.init addrs) ops = true)
    (rank : NodeId → Nat) (hac : ((PState.init addrs).run ops).g.AcyclicBy rank)
    (hnc : ((PState.init addrs).run ops).g.NoConditions) (n : NodeId) (attrs sub : List BId)
    (hb : ∀ x ∈ attrs, x < ((PState.init addrs).run ops).g.bindings.length) (hsub : ∀ x ∈ sub, x ∈ attrs)
    (hs : (solve ((PState.init addrs).run ops).g [] n attrs).1 = true) :
    (solve ((PState.init addrs).run ops).g [] n sub).1 = true :=
  solve_subset _ rank (built_graph_wf addrs ops h) hac hnc (built_graph_ids_ok addrs ops h) n attrs sub hb hsub hs

/-- explanations are subset-closed (every well-formed graph with valid ids, cycles and conditions allowed) -/
theorem expl_subset_closed (g : Graph) (hwf : g.WF) (hids : g.IdsOK) (n : NodeId) (G G' : List BId)
    (h : Expl g n G) (hs : Sorted G') (hb : ∀ x ∈ G', x < g.bindings.length) (hsub : ∀ x ∈ G', x ∈ G) :
    Expl g n G' :=
  expl_subset hwf hids h G' hs hb hsub

/-- the path finder only reports paths that exist: `FindNodeBackwards(start, finish, blocked).path_exists`
implies `finish` is backward reachable from `start`, and so is every condition node it reports (all graphs). -/
theorem find_node_backwards_sound (g : Graph) (start fin : NodeId) (blocked : List NodeId)
    (h : (findNodeBackwards g start fin blocked).1 = true) :
    BackReach g start fin ∧ ∀ x ∈ (findNodeBackwards g start fin blocked).2, BackReach g start x :=
  ⟨findNodeBackwards_sound g start fin blocked h, findNodeBackwards_cpath_reach g start fin blocked⟩

/-- **the path finder decides clear paths exactly** (every graph, cycles included; the fuel bound
`bfsFuel = E + 2` is proved sufficient): `FindNodeBackwards(start, finish, blocked).path_exists` iff there is
a backward path from `start` to `finish` none of whose nodes other than `finish` is blocked — "no variable
in the set is re-bound in between". -/
theorem find_node_backwards_iff (g : Graph) (start fin : NodeId) (blocked : List NodeId) :
    (findNodeBackwards g start fin blocked).1 = true ↔ ClearPath g blocked start fin :=
  findNodeBackwards_iff g start fin blocked

/-- `remove_finished_goals` on a well-formed graph: what is removed originates at the node, what remains
does not, and every input goal is one or the other (all graphs). -/
theorem remove_finished_goals_sound (g : Graph) (hwf : g.WF) (pos : NodeId) (goals R N : List BId)
    (h : (R, N) ∈ removeFinishedGoals g pos goals) :
    (∀ b ∈ R, (g.findOrigin b pos).isSome) ∧ (∀ b ∈ N, g.findOrigin b pos = none) ∧
    (∀ b ∈ goals, b ∈ R ∨ b ∈ N) :=
  removeFinishedGoals_inv hwf pos goals h

/-! ### the clause is false with conditions on a cycle (known finding c07-provisional-true)

`p = 0 ⇄ q = 1`; `p.condition = x`; `x` (binding 1) originates at `q` from `{y}`, `y` (binding 2) at `p`
from `{x}`; `g` (binding 0) has **no origin at all**.  `IsVisible(g, p)`: `(p,{g}) → (q,{g,x}) → (p,{g,y})
→ (q,{g,x})` which is on the stack, the only new position, hence recalled as provisionally `true`. -/
def provisionalOps : List Op := [
  .newNode none, .connectNew 0 none, .connectTo 1 0,
  .newVar, .addBinding 0 0 none, .newVar, .newVar, .addBinding 1 1 none, .addBinding 2 2 none,
  .addOrigin 1 1 [2], .addOrigin 2 0 [1], .setCond 0 (some 1)]

def provisionalGraph : Graph := ((PState.init []).run provisionalOps).g

set_option maxRecDepth 100000 in
theorem provisional_witness :
    wfHistory (PState.init []) provisionalOps = true ∧
    (solve provisionalGraph [] 0 [0]).1 = true ∧ (provisionalGraph.binding 0).origins = [] := by
  decide +kernel

/-- **"accepted ⇒ every goal reachable" is false on cyclic graphs with conditions** -/
theorem solve_goals_reachable_not_full :
    ¬ (∀ (g : Graph) (n : NodeId) (attrs : List BId),
        (solve g [] n attrs).1 = true → ∀ b ∈ attrs, GoalReachable g n b) := by
  intro hall
  obtain ⟨o, ho, _⟩ := hall provisionalGraph 0 [0] provisional_witness.2.1 0 (List.mem_singleton.2 rfl)
  rw [provisional_witness.2.2] at ho
  exact absurd ho (List.not_mem_nil)

/-! ### statements not proved

-- OPEN  solve_subset_full (all graphs): false on cyclic conditioned graphs (known finding
--       c07-provisional-true-subset, replayed by the check); not proved for cyclic unconditioned graphs.
-- OPEN  solve_complete_cond : g.WF → g.AcyclicBy rank → ExplCond g n G → (solve g [] n G).1 = true
--       ("with conditions the solver never rejects a combination that has an explaining path"); no theorem —
--       the clause is evaluated only by the search stage's independent reference (harness/tgref.py).
-- (closed in this round: IdsOK is preserved by every well-formed history — `built_graph_ids_ok`.) -/

/-! ### non-vacuity -/

/-- an unconditioned *cyclic* graph on which the theorem's hypotheses hold with a `true` answer:
`0 ⇄ 1 → 2`, `a` at node 0, `b` at node 1 from `{a}`; `{a,b}` accepted at node 2. -/
def demoOps : List Op := [
  .newNode none, .connectNew 0 none, .connectTo 1 0, .connectNew 1 none,
  .newVar, .addBinding 0 0 (some ([], 0)), .newVar, .addBinding 1 1 (some ([0], 1))]

def demoGraph : Graph := ((PState.init []).run demoOps).g

set_option maxRecDepth 100000 in
example : wfHistory (PState.init []) demoOps = true ∧
    (solve demoGraph [] 2 [0, 1]).1 = true ∧ (solve demoGraph [] 0 [1]).1 = true ∧
    (solve demoGraph [] 2 [1]).1 = true := by decide +kernel

theorem demo_noConditions : demoGraph.NoConditions :=
  Graph.noConditions_of_all _ (by decide +kernel)

example : GoalReachable demoGraph 2 1 :=
  solve_goals_reachable_fresh demoGraph demo_noConditions 2 [0, 1] (by decide +kernel) 1 (by simp)

/-- an acyclic unconditioned graph `0 → 1 → 2` (`a` at 0; `b` at 1 from `{a}`; `c`, a second binding of `b`'s
variable, also at 1): all hypotheses of `solve_iff_expl_partial` hold; `{a,b}` is explained at 2; `{b,c}` is
not, although `b` and `c` are each explained on their own. -/
def chainOps : List Op := [
  .newNode none, .connectNew 0 none, .connectNew 1 none,
  .newVar, .addBinding 0 0 (some ([], 0)), .newVar, .addBinding 1 1 (some ([0], 1)),
  .addBinding 1 7 (some ([], 1))]

def chainGraph : Graph := ((PState.init []).run chainOps).g

set_option maxRecDepth 100000 in
theorem chain_facts : wfHistory (PState.init []) chainOps = true ∧ chainGraph.wfB = true ∧
    chainGraph.forwardB = true ∧ chainGraph.idsOKB = true ∧
    chainGraph.nodes.all (fun nd => nd.condition.isNone) = true ∧ chainGraph.bindings.length = 3 ∧
    (solve chainGraph [] 2 [0, 1]).1 = true ∧ (solve chainGraph [] 2 [1, 2]).1 = false ∧
    (solve chainGraph [] 2 [1]).1 = true ∧ (solve chainGraph [] 2 [2]).1 = true := by
  decide +kernel

theorem chain_iff (attrs : List BId) (hb : ∀ x ∈ attrs, x < 3) :
    (solve chainGraph [] 2 attrs).1 = true ↔
      (attrs.length > 1 → ∀ b ∈ attrs, Expl chainGraph 2 [b]) ∧ Expl chainGraph 2 (ofList attrs) :=
  solve_iff_expl_partial chainGraph _ (Graph.wf_of_wfB _ chain_facts.2.1)
    (Graph.acyclicBy_of_forwardB _ chain_facts.2.2.1) (Graph.noConditions_of_all _ chain_facts.2.2.2.2.1)
    (Graph.idsOK_of_idsOKB _ chain_facts.2.2.2.1) 2 attrs
    (fun x hx => chain_facts.2.2.2.2.2.1 ▸ hb x hx)

example : Expl chainGraph 2 (ofList [0, 1]) :=
  ((chain_iff [0, 1] (by decide)).1 chain_facts.2.2.2.2.2.2.1).2

-- `solve_iff_expl` and `solve_subset` apply to it: {a,b} accepted at 2, hence {b} accepted at 2
example : (solve chainGraph [] 2 [1]).1 = true :=
  solve_subset chainGraph _ (Graph.wf_of_wfB _ chain_facts.2.1)
    (Graph.acyclicBy_of_forwardB _ chain_facts.2.2.1) (Graph.noConditions_of_all _ chain_facts.2.2.2.2.1)
    (Graph.idsOK_of_idsOKB _ chain_facts.2.2.2.1) 2 [0, 1] [1]
    (fun x hx => chain_facts.2.2.2.2.2.1 ▸ (by simp at hx; rcases hx with rfl | rfl <;> decide))
    (by simp) chain_facts.2.2.2.2.2.2.1

example : ¬ Expl chainGraph 2 (ofList [1, 2]) := fun h =>
  absurd ((solve_iff_expl chainGraph _ (Graph.wf_of_wfB _ chain_facts.2.1)
    (Graph.acyclicBy_of_forwardB _ chain_facts.2.2.1) (Graph.noConditions_of_all _ chain_facts.2.2.2.2.1)
    (Graph.idsOK_of_idsOKB _ chain_facts.2.2.2.1) 2 [1, 2]
    (fun x hx => chain_facts.2.2.2.2.2.1 ▸ (by simp at hx; rcases hx with rfl | rfl <;> decide))).2 h)
    (by rw [chain_facts.2.2.2.2.2.2.2.1]; simp)

example : ¬ ((∀ b ∈ [1, 2], Expl chainGraph 2 [b]) ∧ Expl chainGraph 2 (ofList [1, 2])) := fun h =>
  absurd ((chain_iff [1, 2] (by decide)).2 ⟨fun _ => h.1, h.2⟩)
    (by rw [chain_facts.2.2.2.2.2.2.2.1]; simp)

-- a rejected combination: two bindings of one variable
set_option maxRecDepth 100000 in
example : (solve ((PState.init []).run (demoOps ++ [.addBinding 0 7 (some ([], 1))])).g [] 2 [0, 2]).1 = false := by
  decide +kernel

end PytypeModel.Props.C07
