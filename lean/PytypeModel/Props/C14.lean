import PytypeModel.Proofs.DispatchMain
import PytypeModel.Proofs.DispatchUser
import PytypeModel.Sem.DispatchTable
import PytypeModel.Generated.Slots

/-! # C14 — errors on fully known code are real, and plain type mistakes are caught (fragment F14)

Only property theorems and non-vacuity examples live here.

`modelStmt` is pytype's dispatch (vm_utils._call_binop_on_bindings / attribute.get_attribute /
call_function) on one straight-line statement whose operands are builtin values (a value class of
the regenerated table) or fresh instances of plain user classes with arbitrary dunder tables;
`cpyStmt` is CPython's data model (binary_op1 / slot_nb_* / getattr / call) for the same statement.
`genView` is the regenerated table: REAL pytype's verdict and CPython's outcome set per row.
`knownFalse` / `knownMissed` are the rows recorded as known findings (known_findings.json, C14);
the theorems quantify around exactly those rows. -/
namespace PytypeModel.Props.C14
open PytypeModel.Dispatch PytypeModel.Generated

/-! ## regenerated data -/

/-- slots.py / vm.py agree with the operator→dunder pairs the model uses: the reflected name of each
binary operator, no reflected name for `__getitem__`/`__neg__`, and the BINARY_OP argument CPython
emits for the operator's symbol is routed by `byte_BINARY_OP` to a handler that calls
`binary_operator(state, "<dunder>")`; unary minus is `unary_operator(state, "__neg__")` and
BINARY_SUBSCR is `binary_operator(state, "__getitem__")`. -/
theorem slots_agree :
    (Op.all.all fun op =>
      Slots.reverseNameMapping.lookup op.name == some op.rname &&
      (match Slots.cpythonNbOps.idxOf? op.symbol with
       | some i =>
         (Slots.vmHandlers.lookup (Slots.binaryOpHandlers.getD i "")) == some ("binary_operator", op.name)
       | none => false)) = true
    ∧ Slots.reverseNameMapping.lookup getitemName = none
    ∧ Slots.reverseNameMapping.lookup negName = none
    ∧ Slots.vmHandlers.lookup "byte_BINARY_SUBSCR" = some ("binary_operator", getitemName)
    ∧ Slots.vmHandlers.lookup "byte_UNARY_NEGATIVE" = some ("unary_operator", negName) := by
  decide

/-- Both directions over the regenerated tables, as far as true: outside the known-finding rows,
(1) every row where real pytype reports an error raises TypeError/AttributeError in CPython for all
representative values, and (2) every advertised basic mistake that raises TypeError/AttributeError
for some representative values is reported by real pytype. -/
theorem builtin_table_agrees :
    RowsOK1 genView BuiltinOps.knownFalse = true ∧ RowsOK2 genView BuiltinOps.knownMissed = true := by
  constructor <;> decide +kernel

/-- the known-finding rows that still disagree really are counterexamples in the tables (kernel
re-check of the translator's classification) -/
theorem known_rows_confirmed :
    (BuiltinOps.stillFalse.all fun k => genView.py k && !(genView.cpy k).all Outcome.bad) = true ∧
    (BuiltinOps.stillMissed.all fun k =>
      genView.adv k && !genView.py k && (genView.cpy k).any Outcome.bad) = true := by
  constructor <;> decide +kernel

/-- the full-strength table statements (no exception rows) are false as long as a known row still
disagrees: `{"a": 1}[0]`-like rows for clause 1, `{1} - [1]`-like rows for clause 2 -/
theorem builtin_table_agrees_not_full :
    (BuiltinOps.stillFalse ≠ [] → RowsOK1 genView [] = false) ∧
    (BuiltinOps.stillMissed ≠ [] → RowsOK2 genView [] = false) := by
  constructor <;> intro _ <;> decide +kernel

/-! ## clause 1: every reported error is real -/

/-- **Clause 1, full on F14.**  For every hierarchy of user classes (arbitrary MROs, arbitrary
dunder subsets, methods returning values or `NotImplemented`), every statement of F14: if the model
of pytype reports an error, then — unless the statement consults one of the known-finding rows —
CPython raises TypeError or AttributeError (for all representative values of builtin operands). -/
theorem no_false_error (H : Hier) (s : Stmt) (herr : (modelStmt genView H s).isErr = true)
    (hrow : ∀ k, s.row genView H = some k → k ∉ BuiltinOps.knownFalse) :
    ∀ o ∈ cpyStmt genView H s, o = .typeError ∨ o = .attrError := by
  have h := stmt_no_false_error genView _ builtin_table_agrees.1 H s herr hrow
  intro o ho
  have := (List.all_eq_true.mp h) o ho
  cases o <;> simp_all [Outcome.bad]

/-- user-class operands only: no table, no exception — every `[unsupported-operands]` the dispatch
model produces on `C() op D()` is a TypeError of `binary_op1`, for all hierarchies and any view. -/
theorem no_false_error_user (T : BView) (H : Hier) (c c' : Nat) (op : Op)
    (herr : (modelBinop T H (.u c) op (.u c')).isErr = true) :
    cpyBinop T H (.u c) op (.u c') = [.typeError] := by
  obtain ⟨h1, h2⟩ := (modelBinop_err_iff T H op (.u c) (.u c') (by simp)).1 herr
  have hf1 := pyOption_u_fails h1
  have hf2 := pyOption_u_fails h2
  simp only [Bool.false_eq_true, if_false, if_true] at hf1 hf2
  have := binaryOp1UU_noVal (callMaybe_noVal_of_optFails hf1) (callMaybe_noVal_of_optFails hf2)
  simp [cpyBinop, CRes.outcome_of_noVal this]

/-- the exception in `no_false_error` is needed: a statement that consults a known-finding row,
reported by (real) pytype, raising KeyError at run time (`{"a": 1}[0]`: row sub/dict_str_int/int) -/
theorem no_false_error_not_full :
    BuiltinOps.stillFalse ≠ [] →
    ¬ (∀ (H : Hier) (s : Stmt), (modelStmt genView H s).isErr = true →
        ∀ o ∈ cpyStmt genView H s, o = .typeError ∨ o = .attrError) := by
  intro _ hall
  have := hall [] (.sub (.b 13) (.b 0)) (by decide +kernel) .other (by decide +kernel)
  simp at this

/-! ## clause 2: the advertised basic mistakes are caught -/

/-- **Clause 2 as the property states it**: arithmetic + - * /, unary minus, subscripting between
builtin types; a missing attribute or method on a builtin or user-class instance; calling a
non-callable.  If CPython raises TypeError/AttributeError (for some representative values) the model
of pytype reports an error, unless the statement consults a known-finding row. -/
theorem catches_builtin (H : Hier) (s : Stmt) (hadv : s.advertised genView = true)
    (hbad : ∃ o ∈ cpyStmt genView H s, o = .typeError ∨ o = .attrError)
    (hrow : ∀ k, s.row genView H = some k → k ∉ BuiltinOps.knownMissed) :
    (modelStmt genView H s).isErr = true := by
  refine stmt_catches genView _ builtin_table_agrees.2 H s hadv ?_ hrow
  obtain ⟨o, ho, hb⟩ := hbad
  exact List.any_eq_true.mpr ⟨o, ho, by rcases hb with rfl | rfl <;> rfl⟩

/-- on user-class instances unary minus, subscripting, call and method call are caught exactly -/
theorem user_unary_sub_call_exact (T : BView) (H : Hier) (c : Nat) (y : Operand) (n : String) :
    ((modelNeg T H (.u c)).isErr = true ↔ cpyNeg T H (.u c) = [.typeError]) ∧
    ((modelSub T H (.u c) y).isErr = true ↔ cpySub T H (.u c) y = [.typeError]) ∧
    ((modelCall T H (.u c)).isErr = true ↔ cpyCall T H (.u c) = [.typeError]) ∧
    ((modelMCall H c n).isErr = true ↔ (cpyMCall H c n).any Outcome.bad = true) :=
  ⟨user_neg_iff T H c, user_sub_iff T H c y, user_call_iff T H c, user_mcall_iff H c n⟩

/-- attribute error ↔ no class in the MRO defines the name and it is not an instance attribute;
and that is exactly when CPython raises AttributeError -/
theorem attr_missing (H : Hier) (c : Nat) (n : String) :
    ((modelAttr H c n).isErr = true ↔
      (n ∉ instAttrs H c ∧ ∀ d ∈ mroOf H c, ownMember H d n = none)) ∧
    (cpyAttr H c n = [.attrError] ↔
      (n ∉ instAttrs H c ∧ ∀ d ∈ mroOf H c, ownMember H d n = none)) :=
  ⟨modelAttr_err_iff H c n, cpyAttr_attrError_iff H c n⟩

/-! ## the converse on user-class operands is false (and not required by the property) -/

/-- `class A: def __radd__(self, o): return 0` -/
def onlyRadd : Hier := [⟨[0], [("__radd__", .method (.val 0))], none⟩]

/-- `A() + A()` with only `__radd__`: pytype tries `(y, x, "__radd__")` and accepts, CPython never
calls the reflected method for identical types and raises TypeError — a missed error on user
classes, which clause 2 does not list. -/
theorem user_same_type_radd_missed :
    modelBinop genView onlyRadd (.u 0) .add (.u 0) = .ok (some (.val 0)) ∧
    cpyBinop genView onlyRadd (.u 0) .add (.u 0) = [.typeError] := by
  constructor <;> decide +kernel

/-- …and it is the only kind when no method returns `NotImplemented` (decidable guard `WF ∧ AllVal`) -/
theorem user_missed_only_same_type (T : BView) (H : Hier) (hwf : WF H = true) (hav : AllVal H = true)
    (op : Op) (c c' : Nat)
    (hc : cpyBinop T H (.u c) op (.u c') = [.typeError])
    (hm : (modelBinop T H (.u c) op (.u c')).isErr = false) :
    c = c' ∧ lookupCls H c op.name = none ∧ (lookupCls H c op.rname).isSome = true :=
  user_missed_characterised T H op c c' (dundersVal_of_guard hwf hav) hc hm

/-- with `NotImplemented` the guard is needed: `class B: def __add__(self, o): return NotImplemented`,
`class D: pass`; `B() + D()` is accepted by pytype (the call "succeeds") and a TypeError in CPython -/
theorem user_missed_notimpl :
    let H : Hier := [⟨[0], [("__add__", .method .notImpl)], none⟩, ⟨[1], [], none⟩]
    (modelBinop genView H (.u 0) .add (.u 1)).isErr = false ∧
    cpyBinop genView H (.u 0) .add (.u 1) = [.typeError] := by
  constructor <;> decide +kernel

/-! ## non-vacuity -/

/-- ```
class A0:            k0 = 1; __init__: self.i0 = 2; __add__ -> 1; __radd__ -> 2; m0()
class A1(A0):        __radd__ -> 3; __getitem__ -> NotImplemented; __call__ -> 0; __neg__ -> NotImplemented
class A2:            __sub__ -> NotImplemented
class M:             __radd__ -> 0
class R(A2, M):      pass
``` -/
def demoH : Hier := [
  ⟨[0], [("k0", .data 0), ("__add__", .method (.val 1)), ("__radd__", .method (.val 2)),
         ("m0", .method (.val 0))], some ["i0"]⟩,
  ⟨[1, 0], [("__radd__", .method (.val 3)), ("__getitem__", .method .notImpl),
            ("__call__", .method (.val 0)), ("__neg__", .method .notImpl)], none⟩,
  ⟨[2], [("__sub__", .method .notImpl)], none⟩,
  ⟨[3], [("__radd__", .method (.val 0))], none⟩,
  ⟨[4, 2, 3], [], none⟩]

example : WF demoH = true := by decide
-- the table is non-empty (that the index function finds every row under its own key is checked on
-- the compiled model by the harness: driver command `rowcheck`)
example : (genView.chunks.map List.length).sum = BuiltinOps.rowCount := by decide +kernel
-- overriding subclass: reversed option list, `A0() + A1()` is `A1.__radd__` in both worlds
example : modelBinop genView demoH (.u 0) .add (.u 1) = .ok (some (.val 3)) := by decide +kernel
example : binaryOp1UU demoH .add 0 1 = .val 3 := by decide
example : modelBinop genView demoH (.u 1) .add (.u 0) = .ok (some (.val 1)) := by decide +kernel
-- hypotheses of `no_false_error` hold on a user/user, a mixed and a builtin statement
example : (modelStmt genView demoH (.bin (.u 0) .sub (.u 2))).isErr = true := by decide +kernel
example : cpyStmt genView demoH (.bin (.u 0) .sub (.u 2)) = [.typeError] := by decide +kernel
example : (modelStmt genView demoH (.bin (.b 0) .sub (.u 2))).isErr = true := by decide +kernel
example : (Stmt.bin (.b 0) .sub (.u 2)).row genView demoH = some (1, 0, 0, 19) := by decide +kernel
example : (1, 0, 0, 19) ∉ BuiltinOps.knownFalse := by decide +kernel
example : (modelStmt genView demoH (.bin (.b 0) .add (.b 4))).isErr = true := by decide +kernel
example : cpyStmt genView demoH (.bin (.b 0) .add (.b 4)) = [.typeError] := by decide +kernel
-- mixed operands where the user class's reflected method is used: `1 + A0()`
example : modelStmt genView demoH (.bin (.b 0) .add (.u 0)) = .ok (some (.val 2)) := by decide +kernel
example : cpyStmt genView demoH (.bin (.b 0) .add (.u 0)) = [.ok] := by decide +kernel
-- a class with `__getitem__` is an `Iterable` for pytype's matcher: `{1, 2} - A1()` is accepted through
-- `set.__sub__(self, y: Iterable)` (table row set_int - useri) and a TypeError in CPython (not required
-- by clause 2: user-class operand)
example : (Stmt.bin (.b 16) .sub (.u 1)).row genView demoH = some (1, 0, 16, 20) ∧
    modelStmt genView demoH (.bin (.b 16) .sub (.u 1)) = .ok none ∧
    cpyStmt genView demoH (.bin (.b 16) .sub (.u 1)) = [.typeError] := by decide +kernel
-- attribute lookup: instance attribute, inherited class attribute, missing
example : modelAttr demoH 1 "i0" = .ok none ∧ modelAttr demoH 1 "k0" = .ok none ∧
    modelAttr demoH 1 "zz" = .err .attribute ∧ cpyAttr demoH 1 "zz" = [.attrError] := by decide
example : modelMCall demoH 0 "k0" = .err .notCallable ∧ cpyMCall demoH 0 "k0" = [.typeError] := by decide
-- hypotheses of `catches_builtin` hold: `-"a"`, `(1)()`, `"a".foo`
example : (Stmt.neg (.b 4)).advertised genView = true ∧ cpyStmt genView demoH (.neg (.b 4)) = [.typeError]
    ∧ (modelStmt genView demoH (.neg (.b 4))).isErr = true := by decide +kernel
example : (Stmt.call (.b 0)).advertised genView = true ∧ cpyStmt genView demoH (.call (.b 0)) = [.typeError] := by
  decide +kernel
example : (Stmt.attrB 4 16).advertised genView = true ∧ cpyStmt genView demoH (.attrB 4 16) = [.attrError] := by
  decide +kernel
-- the known finding of the design round is in the exception list and still a counterexample
example : (4, 0, 13, 0) ∈ BuiltinOps.knownFalse ∧ genView.py (4, 0, 13, 0) = true ∧
    genView.cpy (4, 0, 13, 0) = [.other] := by decide +kernel
-- multiple inheritance: `A2() + R()` resolves `M.__radd__` in both worlds
example : modelBinop genView demoH (.u 2) .add (.u 4) = .ok (some (.val 0)) ∧
    binaryOp1UU demoH .add 2 4 = .val 0 := by constructor <;> decide +kernel

end PytypeModel.Props.C14
