import PytypeModel.Proofs.PyiUnitG

/-! # C05 — every stub pytype emits is a valid stub that pytype reads back unchanged

`printUnit : TUnit → PyModule` is the model of `printer.PrintVisitor` (`pytd_utils.Print`) as a function to the
syntax tree of the printed text, `convert : PyModule → Except ParseErr TUnit` the model of
`parser.parse_string` (module name `None`, as `canonical_pyi` calls it), `normUnit` the explicit list of
normalisations, `verifyUnit` the model of `VerifyVisitor`, `canonicalPyi` of `parser.canonical_pyi`
(`PytypeModel/Pytd/Printer.lean`, `PyiConvert.lean`).  Text ↔ tree is CPython's `ast.parse` and is trusted
(checked case by case by the harness).  Only property theorems and non-vacuity examples live here.

`inFragment u` is decidable (`fragmentGuards`): the unit is `Modelled`, consists of constants, type
parameters and aliases whose types are in the emitted dialect (`fTy`: every `Ty` form — `Any`, `nothing`,
builtins / `typing` / local names, type parameters, generic classes, `tuple[X, ...]`, `tuple[X, Y]`,
`Callable[[…], R]`, `Callable[..., R]`, `type[X]`, `Optional`/`Union`/`Literal` sugar incl. the pep484 compat
elision, `Literal` values, `Annotated[T, 'property']`), and every name is declared once.  Functions and
classes (stages 2 and 3) are outside the proved fragment and covered by the correspondence only. -/
namespace PytypeModel.Props.C05
open PytypeModel.Pytd

/-! ## stage 1: types -/

/-- Parsing the printed form of a fragment type and post-processing it gives exactly `norm` of the type, in
every parser state that has the needed `typing` members imported (`EnvOK`). -/
theorem type_round_trip (g : GCtx) (hg : GOK g) (inParam : Bool) (t : Ty) (hf : fTy g inParam t = true)
    (hsub : ∀ x ∈ tyAdds inParam t, x ∈ g.adds) (d : Defs) (henv : EnvOK g d (tyAdds inParam t)) :
    ∃ pre, parseTy d (tyExpr inParam t) = .ok pre ∧ postTy g.tps pre = normTy g.tps inParam t := by
  obtain ⟨pre, h1, h2, _⟩ := (tyGood hg inParam t hf hsub).2.2 d henv
  exact ⟨pre, h1, h2⟩

/-- The normal form prints exactly like the type (also inside a parameter, where `Union[int, float]` is
printed `float`). -/
theorem type_print_fixpoint (g : GCtx) (hg : GOK g) (inParam : Bool) (t : Ty) (hf : fTy g inParam t = true)
    (hsub : ∀ x ∈ tyAdds inParam t, x ∈ g.adds) :
    tyExpr inParam (normTy g.tps inParam t) = tyExpr inParam t :=
  (tyGood hg inParam t hf hsub).1

/-- … and requests the same `typing` members, so the import block is reproduced as well. -/
theorem type_imports_preserved (g : GCtx) (hg : GOK g) (inParam : Bool) (t : Ty)
    (hf : fTy g inParam t = true) (hsub : ∀ x ∈ tyAdds inParam t, x ∈ g.adds) (X : String) :
    X ∈ tyAdds inParam (normTy g.tps inParam t) ↔ X ∈ tyAdds inParam t :=
  (tyGood hg inParam t hf hsub).2.1 X

/-! ## units (constants, type variables, aliases, the import block) -/

/-- The printed stub parses, and the re-read declarations are `norm u` (in particular the parser does not
reject what the printer emits). -/
theorem parse_print (u : TUnit) (h : inFragment u = true) : convert (printUnit u) = .ok (normUnit u) :=
  convert_print h

/-- Printing the re-read declarations reproduces the stub, import block included. -/
theorem print_fixpoint (u : TUnit) (h : inFragment u = true) : printUnit (normUnit u) = printUnit u :=
  print_norm h

/-- Parse-then-print is the identity on emitted text: `Print(parse(text)) == text`. -/
theorem reparse_reprints (u : TUnit) (h : inFragment u = true) :
    ∃ n, convert (printUnit u) = .ok n ∧ printUnit n = printUnit u :=
  ⟨normUnit u, convert_print h, print_norm h⟩

/-- The structural verifier accepts the re-read declarations. -/
theorem verify_preserved (u : TUnit) (h : inFragment u = true) (_hv : verifyUnit u = true) :
    verifyUnit (normUnit u) = true :=
  verify_normUnit h

/-- The decidable side condition of `canonical_idempotent`: the canonically ordered re-read unit `c` is again
in the fragment and verified, and normalising and re-ordering it once more prints the same (the driver
evaluates this for every unit; it held for every in-fragment unit generated so far). -/
def CanonStable (u : TUnit) : Prop :=
  let c := canonUnit (normUnit u)
  inFragment c = true ∧ verifyUnit c = true ∧ verifyUnit (canonUnit (normUnit c)) = true ∧
    (modelledGuards (canonUnit (normUnit c))).all (·.2) = true ∧
    printUnit (canonUnit (normUnit c)) = printUnit c

/-- `canonical_pyi` is idempotent on emitted text.  Partial: under `CanonStable u`; the unconditional
statement (the fragment is closed under `norm` and canonical ordering, and re-ordering undoes the member
reordering of `norm`) is not proved. -/
theorem canonical_idempotent (u : TUnit) (h : inFragment u = true) (hs : CanonStable u) :
    ∃ m, canonicalPyi (printUnit u) = .ok m ∧ canonicalPyi m = .ok m := by
  obtain ⟨h1, h2, h3, h4, h5⟩ := hs
  refine ⟨printUnit (canonUnit (normUnit u)), canonicalPyi_print h h2 (modelledGuards_of_inFragment h1), ?_⟩
  rw [canonicalPyi_print h1 h3 h4, h5]

/-! ## non-vacuity -/

/-- ```
from typing import Any, Callable, Literal, Optional, TypeVar, Union
T = TypeVar('T', bound=int)
Vec = list[int]
x: Optional[Union[int, Literal[1, 'a']]]
y: Callable[[int, T], tuple[str, ...]]
z: type[Any] = ...
``` -/
def demo : TUnit :=
  { name := "m"
    constants := [
      { name := "x", ty := .union [.literal (.int 1), .cls "builtins.NoneType", .cls "builtins.int",
                                   .literal (.str "a")] },
      { name := "y", ty := .callable (.cls "typing.Callable")
          [.cls "builtins.int", .typeParam "T" (some "m"),
           .generic (.cls "builtins.tuple") [.cls "builtins.str"]] },
      { name := "z", ty := .generic (.cls "builtins.type") [.any], value := some (.bool true) } ]
    typeParams := [{ name := "T", bound := some (.cls "builtins.int") }]
    aliases := [{ name := "Vec", ty := .generic (.cls "builtins.list") [.cls "builtins.int"] }] }

example : inFragment demo = true := by decide +kernel
example : verifyUnit demo = true := by decide +kernel
/-- the normal form differs from the unit (ClassType → NamedType, literals and None moved, scope dropped) -/
example : (normUnit demo).constants.map (·.ty) ≠ demo.constants.map (·.ty) := by decide +kernel
/-- a unit outside the fragment: a constant whose type is the bare `typing.List` -/
example : inFragment { name := "m", constants := [{ name := "x", ty := .named "typing.List" }] } = false := by
  decide +kernel

end PytypeModel.Props.C05
