import PytypeModel.Proofs.PyiTypes

/-! # C05 — every stub pytype emits is a valid stub that pytype reads back unchanged

`print : TUnit → PyModule` (`printUnit`, model of `printer.PrintVisitor`) and
`convert : PyModule → Except ParseErr TUnit` (model of `parser.parse_string` with module name `None`) are in
`PytypeModel/Pytd/Printer.lean` and `PyiConvert.lean`; text ↔ tree is CPython's `ast.parse` and is trusted
(checked case by case by the harness).  Only property theorems and non-vacuity examples live here. -/
namespace PytypeModel.Props.C05
open PytypeModel.Pytd

/-! ## stage 1: types (every `Ty` form of the emitted dialect) -/

/-- Parsing the printed form of a fragment type and post-processing it gives exactly `norm` of the type, in
every parser state that has the needed `typing` members imported (`EnvOK`). -/
theorem type_round_trip (g : GCtx) (hg : GOK g) (inParam : Bool) (t : Ty) (hf : fTy g inParam t = true)
    (hsub : ∀ x ∈ tyAdds inParam t, x ∈ g.adds) (d : Defs) (henv : EnvOK g d (tyAdds inParam t)) :
    ∃ pre, parseTy d (tyExpr inParam t) = .ok pre ∧ postTy g.tps pre = normTy g.tps inParam t := by
  obtain ⟨pre, h1, h2, _⟩ := (tyGood hg inParam t hf hsub).2.2 d henv
  exact ⟨pre, h1, h2⟩

/-- The normal form prints exactly like the type: parse-then-print reproduces the text. -/
theorem type_print_fixpoint (g : GCtx) (hg : GOK g) (inParam : Bool) (t : Ty) (hf : fTy g inParam t = true)
    (hsub : ∀ x ∈ tyAdds inParam t, x ∈ g.adds) :
    tyExpr inParam (normTy g.tps inParam t) = tyExpr inParam t :=
  (tyGood hg inParam t hf hsub).1

/-- … and requests the same `typing` members, so the import block is reproduced as well. -/
theorem type_imports_preserved (g : GCtx) (hg : GOK g) (inParam : Bool) (t : Ty)
    (hf : fTy g inParam t = true) (hsub : ∀ x ∈ tyAdds inParam t, x ∈ g.adds) (X : String) :
    X ∈ tyAdds inParam (normTy g.tps inParam t) ↔ X ∈ tyAdds inParam t :=
  (tyGood hg inParam t hf hsub).2.1 X

end PytypeModel.Props.C05
