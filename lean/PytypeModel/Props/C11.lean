/-
C11 — "Stub optimisation only ever widens types and is idempotent".

Model: Pytd/Join.lean (Python `==`, UnionType constructor, JoinTypes), Pytd/Optimize.lean (the visitors
of optimize.py and the `Optimize` pipeline), Pytd/Den.lean (values over an arbitrary class hierarchy,
`den`, the widening order on declarations), Pytd/Guards.lean (decidable side conditions).

What is proved here
* every visitor widens (`*_widens`), JoinTypes is exact;
* the pipeline widens at unit level (`optimize_widens`) — hence every constant, function (overload
  sets as unions), class of the unit (`optimize_widens_functions` …) — and at type level
  (`optimize_widens_ty`), for every hierarchy `S` that contains the declared inheritance edges, is a
  preorder and has no cycles, every option setting without `remove_mutable`, unbounded nesting;
* the side conditions are necessary: `widens_not_full_mixed` (NamedType and ClassType of one class in a
  union: both are dropped — known finding c11-mixed-name-kinds), `widens_not_full_cyclic`;
* `lossless_changes`: apart from container merging, union collapsing and object→Any every type-level
  step of the lossless pipeline is exact;
* idempotence is false of the pipeline: `optimize_idempotent_not_full` (duplicate signatures appear
  only after container merging — known finding c11-dup-sigs-after-merge) and
  `optimize_idempotent_not_full_object` (object→Any leaves `Union[Any, …]` — known finding
  c11-union-any-after-adjust); `optimize_idempotent_partial` and the idempotent single visitors.
-/
import PytypeModel.Proofs.OptimizeMutable

namespace PytypeModel.Props.C11
open PytypeModel.Pytd

/-! ## every visitor widens -/

/-- JoinTypes denotes exactly the union of its arguments (flattening, dropping `nothing`, removing
duplicates, absorbing into `Any` lose and add nothing). -/
theorem joinTypes_exact (S : Sem) (ts : List Ty) (v : Val) : den S (joinTypes ts) v ↔ ∃ t, t ∈ ts ∧ den S t v := by
  rw [joinTypes_den, denAny_iff]

/-- Python-equal types admit the same values. -/
theorem pyEq_sound (S : Sem) (a b : Ty) (h : a.pyEq b = true) (v : Val) : den S a v ↔ den S b v :=
  pyEq_den S a b h v

theorem simplifyUnions_widens (S : Sem) (t : Ty) (v : Val) : den S t v → den S (simplifyUnions t) v :=
  simplifyUnions_le S t v

/-- CombineContainers, for every amount of fuel, on well-kinded types (tuple/callable degeneration included). -/
theorem combineContainers_widens (S : Sem) (n : Nat) (t : Ty) (hk : kok t = true) (v : Val) :
    den S t v → den S (cc n t) v :=
  (cc_le n t hk).1 v

theorem simplifyContainers_widens (S : Sem) (t : Ty) (v : Val) : den S t v → den S (simplifyContainers t) v :=
  simplifyContainers_le S t v

/-- SimplifyUnionsWithSuperclasses: `S` contains the edges of the hierarchy the visitor was given, is a
preorder without cycles, and no union holds NamedType(n) and ClassType(n) together. -/
theorem simplifyUnionsWithSuperclasses_widens (S : Sem) (H : Hier) (hs : HierSound S H) (ha : Antisymm S)
    (t : Ty) (hg : suwsOK H t = true) (v : Val) : den S t v → den S (suws H t) v :=
  suws_le hs ha t hg v

theorem findCommonSuperClasses_widens (S : Sem) (H : Hier) (hs : HierSound S H) (t : Ty) (v : Val) :
    den S t v → den S (fcs H t) v :=
  fcs_le hs t v

theorem collapseLongUnions_widens (S : Sem) (max : Nat) (t : Ty) (v : Val) : den S t v → den S (collapse max t) v :=
  collapse_le S max t v

theorem adjustGenericType_widens (S : Sem) (t : Ty) (v : Val) : den S t v → den S (adjustGeneric t) v :=
  adjustGeneric_le S t v

theorem normalizeGenericSelfTypes_widens (S : Sem) (c : Ctx) (f : Func) : FuncLe S f (normalizeSelf c f) :=
  normalizeSelf_le c f

theorem removeDuplicates_widens (S : Sem) (f : Func) : FuncLe S f (removeDuplicates f) := removeDuplicates_le f

theorem combineReturnsAndExceptions_widens (S : Sem) (f : Func) : FuncLe S f (combineReturns f) := combineReturns_le f

theorem absorbMutableParameters_widens (S : Sem) (p : Param) : ParamLe S p (absorbParam p) := absorbParam_le p

theorem mergeTypeParameters_widens (S : Sem) (c : Ctx) (s : Sig) : SigLe S s (mergeTypeParamsSig c s) :=
  mergeTypeParamsSig_le c s

/-! ## the pipeline widens -/

/-- **optimize_widens** (TUnit level).  For every semantic hierarchy `S` that is a preorder without
cycles and contains the superclass edges the pipeline collected (`pipelineHier`: deps, the unit's
own classes, abc table), every option setting without `remove_mutable`, every unit whose types are
well-kinded, provided `SimplifyUnionsWithSuperclasses` never meets NamedType(n) next to ClassType(n):
every constant, alias, base, parameter, return, exception and bound type is widened, and every
signature of every function is covered by a signature of the optimised function. -/
theorem optimize_widens (S : Sem) (o : Opts) (deps abcs : Hier) (u : TUnit)
    (hs : HierSound S (pipelineHier o deps abcs u)) (ha : Antisymm S) (hk : UnitKok u)
    (hg : o.hasDeps = true → ∀ t, t ∈ (stageA u).tys → suwsOK (pipelineHier o deps abcs u) t = true)
    (hm : o.removeMutable = false) : UnitLe S u (optimize o deps abcs u) :=
  optimize_le o deps abcs u hs ha hk hg hm

/-- `remove_mutable=True` included: `optimize = stageD2 ∘ optimizeBeforeAdjustSelf` (by `rfl`), and the part
before `visitors.AdjustSelf` — AbsorbMutableParameters, the second CombineContainers, MergeTypeParameters
(modelled where no enclosing class has type parameters) — only widens. -/
theorem optimize_widens_before_adjustSelf (S : Sem) (o : Opts) (deps abcs : Hier) (u : TUnit)
    (hs : HierSound S (pipelineHier o deps abcs u)) (ha : Antisymm S) (hk : UnitKok u)
    (hg : o.hasDeps = true → ∀ t, t ∈ (stageA u).tys → suwsOK (pipelineHier o deps abcs u) t = true) :
    optimize o deps abcs u = stageD2 o (optimizeBeforeAdjustSelf o deps abcs u) ∧
    UnitLe S u (optimizeBeforeAdjustSelf o deps abcs u) :=
  ⟨rfl, optimizeBeforeAdjustSelf_le o deps abcs u hs ha hk hg⟩

/-- … and `AdjustSelf` touches nothing but a receiver (`self` / `cls`) typed `Any` inside a class,
which it re-annotates with the class: the one deliberate narrowing of the pipeline. -/
theorem adjustSelf_only_receiver (c : Ctx) (p : Param) :
    adjustSelfParam c p = p ∨ (p.ty = .any ∧ (p.name = "self" ∨ p.name = "cls") ∧ c.cls.isSome = true) :=
  adjustSelfParam_spec c p

/-- Func level: overload sets as unions — every signature is covered by one of the optimised function. -/
theorem optimize_widens_functions (S : Sem) (o : Opts) (deps abcs : Hier) (u : TUnit)
    (hs : HierSound S (pipelineHier o deps abcs u)) (ha : Antisymm S) (hk : UnitKok u)
    (hg : o.hasDeps = true → ∀ t, t ∈ (stageA u).tys → suwsOK (pipelineHier o deps abcs u) t = true)
    (hm : o.removeMutable = false) : All2 (FuncLe S) u.functions (optimize o deps abcs u).functions :=
  (optimize_le o deps abcs u hs ha hk hg hm).2.2.2.2.1

/-- Class level (methods, constants, bases, nested classes). -/
theorem optimize_widens_classes (S : Sem) (o : Opts) (deps abcs : Hier) (u : TUnit)
    (hs : HierSound S (pipelineHier o deps abcs u)) (ha : Antisymm S) (hk : UnitKok u)
    (hg : o.hasDeps = true → ∀ t, t ∈ (stageA u).tys → suwsOK (pipelineHier o deps abcs u) t = true)
    (hm : o.removeMutable = false) : ClassesLe S u.classes (optimize o deps abcs u).classes :=
  (optimize_le o deps abcs u hs ha hk hg hm).2.2.2.1

/-- Sig level: the parameters of the covering signature accept at least the same arguments, its
return type still admits every promised result. -/
theorem optimize_widens_signature (S : Sem) (f g : Func) (h : FuncLe S f g) (s : Sig) (hs : s ∈ f.sigs) :
    ∃ s', s' ∈ g.sigs ∧ All2 (ParamLe S) s.params s'.params ∧ TyLe S s.ret s'.ret :=
  let ⟨s', h1, h2⟩ := h.2.2 s hs
  ⟨s', h1, h2.1, h2.2.2.2.1⟩

/-- Ty level: the pipeline as it acts on one type position (parameter / return / constant). -/
theorem optimize_widens_ty (S : Sem) (o : Opts) (H : Hier) (pos : Pos) (t : Ty)
    (hs : HierSound S H) (ha : Antisymm S) (hk : kok t = true)
    (hg : o.hasDeps = true → suwsOK H (simplifyContainers (combineContainers (simplifyUnions t))) = true)
    (v : Val) : den S t v → den S (optimizeTy o H pos t) v := by
  intro hv
  have h1 := simplifyUnions_le S t v hv
  have h2 := combineContainers_le S _ (simplifyUnions_kok t hk) v h1
  have h3 := simplifyContainers_le S _ v h2
  unfold optimizeTy
  simp only
  apply simplifyContainers_le S
  have h4 : den S (if o.hasDeps = true then
      (if o.lossy = true then fcs H (suws H (simplifyContainers (combineContainers (simplifyUnions t))))
       else suws H (simplifyContainers (combineContainers (simplifyUnions t))))
      else simplifyContainers (combineContainers (simplifyUnions t))) v := by
    split
    · rename_i hd
      have := suws_le hs ha _ (hg hd) v h3
      split
      · exact fcs_le hs _ v this
      · exact this
    · exact h3
  have h5 : ∀ x : Ty, den S x v → den S (if (o.maxUnion != 0) = true then collapse o.maxUnion x else x) v := by
    intro x hx
    split
    · exact collapse_le S _ x v hx
    · exact hx
  have h6 : ∀ x : Ty, den S x v → den S (if (pos == Pos.param) = true then x else adjustGeneric x) v := by
    intro x hx
    split
    · exact hx
    · exact adjustGeneric_le S x v hx
  exact h6 _ (h5 _ h4)

/-! ## lossless settings: where the strict widenings come from -/

/-- the type-level steps of the lossless pipeline, named -/
def step1 (t : Ty) : Ty := simplifyUnions t
def step2 (t : Ty) : Ty := combineContainers (step1 t)
def step3 (t : Ty) : Ty := simplifyContainers (step2 t)
def step4 (o : Opts) (H : Hier) (t : Ty) : Ty := if o.hasDeps then suws H (step3 t) else step3 t
def step5 (o : Opts) (H : Hier) (t : Ty) : Ty := if o.maxUnion != 0 then collapse o.maxUnion (step4 o H t) else step4 o H t
def step6 (o : Opts) (H : Hier) (pos : Pos) (t : Ty) : Ty := if pos == .param then step5 o H t else adjustGeneric (step5 o H t)

theorem optimizeTy_steps (o : Opts) (H : Hier) (pos : Pos) (t : Ty) (hl : o.lossy = false) :
    optimizeTy o H pos t = simplifyContainers (step6 o H pos t) := by
  simp [optimizeTy, step6, step5, step4, step3, step2, step1, hl]

/-- **lossless_changes**: with `lossy=False` a value admitted after optimisation was admitted before,
unless CombineContainers changed the type (container merging, incl. tuple/callable degeneration),
CollapseLongUnions changed it (a union longer than `max_union` became `Any`, or `Any` absorbed its
union), or `object` became `Any` in a return/constant position.  All other steps — SimplifyUnions,
SimplifyContainers, SimplifyUnionsWithSuperclasses — are exact. -/
theorem lossless_changes (S : Sem) (o : Opts) (H : Hier) (pos : Pos) (t : Ty) (hl : o.lossy = false) (v : Val) :
    den S (optimizeTy o H pos t) v →
      den S t v ∨ step2 t ≠ step1 t ∨ step5 o H t ≠ step4 o H t ∨ step6 o H pos t ≠ step5 o H t := by
  intro hv
  rw [optimizeTy_steps o H pos t hl] at hv
  have h6 := simplifyContainers_ge S _ v hv
  by_cases e6 : step6 o H pos t = step5 o H t
  · by_cases e5 : step5 o H t = step4 o H t
    · by_cases e2 : step2 t = step1 t
      · left
        rw [e6, e5] at h6
        have h3 : den S (step3 t) v := by
          unfold step4 at h6
          split at h6
          · exact suws_ge S H _ v h6
          · exact h6
        have h2 := simplifyContainers_ge S _ v h3
        rw [e2] at h2
        exact simplifyUnions_ge S t v h2
      · exact Or.inr (Or.inl e2)
    · exact Or.inr (Or.inr (Or.inl e5))
  · exact Or.inr (Or.inr (Or.inr e6))

/-- the exact visitors, one by one -/
theorem simplifyUnions_exact (S : Sem) (t : Ty) (v : Val) : den S (simplifyUnions t) v ↔ den S t v :=
  ⟨simplifyUnions_ge S t v, simplifyUnions_le S t v⟩

theorem simplifyContainers_exact (S : Sem) (t : Ty) (v : Val) : den S (simplifyContainers t) v ↔ den S t v :=
  ⟨simplifyContainers_ge S t v, simplifyContainers_le S t v⟩

theorem simplifyUnionsWithSuperclasses_exact (S : Sem) (H : Hier) (hs : HierSound S H) (ha : Antisymm S)
    (t : Ty) (hg : suwsOK H t = true) (v : Val) : den S (suws H t) v ↔ den S t v :=
  ⟨suws_ge S H t v, suws_le hs ha t hg v⟩

/-! ## the side conditions are necessary -/

def eqSem : Sem := ⟨fun a b => a = b, fun _ _ _ => False⟩

/-- NamedType("A") next to ClassType("A"): each counts the other as a subclass, both are dropped. -/
theorem widens_not_full_mixed :
    ¬ ∀ (S : Sem) (H : Hier) (t : Ty), HierSound S H → Antisymm S → kok t = true →
        ∀ v, den S t v → den S (suws H t) v := by
  intro h
  have hl : ∀ a, Hier.lookup [("A", ([] : List String))] a = [] := by
    intro a
    by_cases h : "A" = a <;> simp [Hier.lookup, h]
  have hs : HierSound eqSem [("A", [])] :=
    ⟨fun a b hb => by rw [hl a] at hb; exact (List.not_mem_nil hb).elim, fun _ => rfl, fun _ _ _ h1 h2 => Eq.trans h1 h2⟩
  have := h eqSem [("A", [])] (.union [.named "A", .cls "A"]) hs (fun _ _ h _ => h) (by decide +kernel)
    (.inst "A" []) (by simp [denAny, eqSem, Val.clsOf])
  have e : suws [("A", [])] (.union [.named "A", .cls "A"]) = .nothing := by decide +kernel
  rw [e] at this
  simp at this

/-- a cyclic "hierarchy": A and B each absorb the other. -/
theorem widens_not_full_cyclic :
    ¬ ∀ (S : Sem) (H : Hier) (t : Ty), HierSound S H → suwsOK H t = true →
        ∀ v, den S t v → den S (suws H t) v := by
  intro h
  have hs : HierSound ⟨fun _ _ => True, fun _ _ _ => False⟩ [("A", ["B"]), ("B", ["A"])] :=
    ⟨fun _ _ _ => trivial, fun _ => trivial, fun _ _ _ _ _ => trivial⟩
  have := h _ [("A", ["B"]), ("B", ["A"])] (.union [.named "A", .named "B"]) hs (by decide +kernel)
    (.inst "A" []) (by simp [denAny])
  have e : suws [("A", ["B"]), ("B", ["A"])] (.union [.named "A", .named "B"]) = .nothing := by decide +kernel
  rw [e] at this
  simp at this

/-! ## idempotence -/

def listOf (t : Ty) : Ty := .generic (.named "list") [t]

/-- `def f(x: list[int] | list[str]) -> int` / `def f(x: list[int | str]) -> int` -/
def dupWitness : TUnit :=
  { name := "m", functions := [
      { name := "f", sigs := [
          { params := [{ name := "x", ty := .union [listOf (.named "int"), listOf (.named "str")] }], ret := .named "int" },
          { params := [{ name := "x", ty := listOf (.union [.named "int", .named "str"]) }], ret := .named "int" }] }] }

def sigCounts (u : TUnit) : List Nat := u.functions.map (·.sigs.length)

/-- the full statement is false: CombineContainers makes the two signatures equal after
RemoveDuplicates / CombineReturnsAndExceptions have run; the second run removes one. -/
theorem optimize_idempotent_not_full :
    ¬ ∀ (o : Opts) (deps abcs : Hier) (u : TUnit),
        optimize o deps abcs (optimize o deps abcs u) = optimize o deps abcs u := by
  intro h
  have h1 : sigCounts (optimize {} [] [] dupWitness) = [2] := by decide +kernel
  have h2 : sigCounts (optimize {} [] [] (optimize {} [] [] dupWitness)) = [1] := by decide +kernel
  rw [h {} [] [] dupWitness, h1] at h2
  exact absurd h2 (by decide)

/-- `def f(x) -> object | list[int]` (ClassType, as the VM emits it) -/
def objWitness : TUnit :=
  { name := "m", functions := [
      { name := "f", sigs := [
          { params := [{ name := "x", ty := .any }],
            ret := .union [.cls "builtins.object", .generic (.cls "builtins.list") [.cls "builtins.int"]] }] }] }

def rets (u : TUnit) : List Ty := u.functions.flatMap (fun f => f.sigs.map (·.ret))

/-- a second root cause: object→Any runs after the union simplifications and leaves `Union[Any, list[int]]`,
which the next run joins to `Any`. -/
theorem optimize_idempotent_not_full_object :
    ¬ ∀ (o : Opts) (deps abcs : Hier) (u : TUnit),
        optimize o deps abcs (optimize o deps abcs u) = optimize o deps abcs u := by
  intro h
  have h1 : rets (optimize {} [] [] objWitness) =
      [.union [.any, .generic (.cls "builtins.list") [.cls "builtins.int"]]] := by decide +kernel
  have h2 : rets (optimize {} [] [] (optimize {} [] [] objWitness)) = [.any] := by decide +kernel
  rw [h {} [] [] objWitness, h1] at h2
  exact absurd h2 (by decide)

/-- `def f() -> object` with an unresolved NamedType, as a parsed stub has it -/
def lookupWitness : TUnit :=
  { name := "m", functions := [{ name := "f", sigs := [{ params := [], ret := .named "builtins.object" }] }] }

/-- a third root cause: AdjustGenericType only recognises `ClassType("builtins.object")`; the
NamedType becomes a ClassType in the final LookupClasses, so only the second run turns it into `Any`. -/
theorem optimize_idempotent_not_full_lookup :
    ¬ ∀ (o : Opts) (deps abcs : Hier) (u : TUnit),
        optimize o deps abcs (optimize o deps abcs u) = optimize o deps abcs u := by
  intro h
  have h1 : rets (optimize Opts.pytype [] [] lookupWitness) = [.cls "builtins.object"] := by decide +kernel
  have h2 : rets (optimize Opts.pytype [] [] (optimize Opts.pytype [] [] lookupWitness)) = [.any] := by decide +kernel
  rw [h Opts.pytype [] [] lookupWitness, h1] at h2
  exact absurd h2 (by decide)

/-- single visitors that are idempotent -/
theorem removeDuplicates_idempotent (f : Func) : removeDuplicates (removeDuplicates f) = removeDuplicates f :=
  removeDuplicates_idem f

theorem joinTypes_idempotent (ts : List Ty) : joinTypes [joinTypes ts] = joinTypes ts := joinTypes_idem ts

/-- every visitor of the pipeline leaves the unit as it is -/
def Stable (o : Opts) (H : Hier) (u : TUnit) : Prop :=
  ∀ P, P ∈ passesOf o H → P.runUnit u = u

theorem optimize_eq_fold (o : Opts) (deps abcs : Hier) (u : TUnit) :
    optimize o deps abcs u = (passesOf o (pipelineHier o deps abcs u)).foldl (fun w P => P.runUnit w) u := by
  unfold optimize stageD stageD2 stageD1 stageC stageB stageA passesOf
  cases o.hasDeps <;> cases o.lossy <;> cases o.removeMutable <;> cases o.canDoLookup <;>
    cases (o.maxUnion != 0) <;> simp

theorem foldl_stable (ps : List Pass) (u : TUnit) (h : ∀ P, P ∈ ps → P.runUnit u = u) :
    ps.foldl (fun w P => P.runUnit w) u = u := by
  induction ps with
  | nil => rfl
  | cons P ps ih =>
    simp only [List.foldl_cons]
    rw [h P List.mem_cons_self]
    exact ih (fun Q hQ => h Q (List.mem_cons_of_mem _ hQ))

/-- **optimize_idempotent_partial**: if the first run's output is left alone by every single visitor
(with the hierarchy the second run computes), the second run changes nothing.  The two witnesses above
are exactly outputs on which RemoveDuplicates, resp. SimplifyUnions, is not the identity. -/
theorem optimize_idempotent_partial (o : Opts) (deps abcs : Hier) (u : TUnit)
    (h : Stable o (pipelineHier o deps abcs (optimize o deps abcs u)) (optimize o deps abcs u)) :
    optimize o deps abcs (optimize o deps abcs u) = optimize o deps abcs u := by
  rw [optimize_eq_fold o deps abcs (optimize o deps abcs u)]
  exact foldl_stable _ _ h

/-! ## non-vacuity -/

def boolSem : Sem := ⟨fun a b => a = b ∨ (a = "builtins.bool" ∧ b = "builtins.int"), fun _ _ _ => False⟩

def exH : Hier := [("builtins.bool", ["builtins.int"])]

theorem boolSem_sound : HierSound boolSem exH := by
  refine ⟨?_, fun _ => Or.inl rfl, ?_⟩
  · intro a b hb
    by_cases h : "builtins.bool" = a
    · subst h
      simp [Hier.lookup, exH] at hb
      exact Or.inr ⟨rfl, hb⟩
    · simp [Hier.lookup, exH, h] at hb
  · intro a b c h1 h2
    rcases h1 with rfl | ⟨rfl, rfl⟩
    · exact h2
    · rcases h2 with rfl | ⟨h, _⟩
      · exact Or.inr ⟨rfl, rfl⟩
      · exact absurd h (by decide)

theorem boolSem_antisymm : Antisymm boolSem := by
  intro a b h1 h2
  rcases h1 with h | ⟨rfl, rfl⟩
  · exact h
  · rcases h2 with h | ⟨h, _⟩
    · exact h.symm
    · exact absurd h (by decide)

/-- the hypotheses of `optimize_widens_ty` hold on a type with nested generics, a tuple of mixed arity
next to a homogeneous one, a subclass to absorb — and the result is strictly wider. -/
def exTy : Ty :=
  .union [.generic (.named "builtins.list") [.named "builtins.int"],
          .generic (.named "builtins.list") [.named "builtins.str"],
          .tuple (.named "builtins.tuple") [.named "builtins.int", .named "builtins.str"],
          .generic (.named "builtins.tuple") [.named "builtins.bool"],
          .named "builtins.int", .named "builtins.bool"]

example : kok exTy = true := by decide +kernel
example : suwsOK exH (simplifyContainers (combineContainers (simplifyUnions exTy))) = true := by decide +kernel
example : optimizeTy { hasDeps := true } exH .param exTy =
    .union [.generic (.named "builtins.list") [.union [.named "builtins.int", .named "builtins.str"]],
            .generic (.named "builtins.tuple") [.union [.named "builtins.int", .named "builtins.str"]],
            .named "builtins.int"] := by decide +kernel

/-- a value admitted after but not before: a list holding an int and a str -/
example : den boolSem (optimizeTy { hasDeps := true } exH .param exTy)
    (.inst "builtins.list" [[.inst "builtins.int" [], .inst "builtins.str" []]]) := by
  have e : optimizeTy { hasDeps := true } exH .param exTy =
    .union [.generic (.named "builtins.list") [.union [.named "builtins.int", .named "builtins.str"]],
            .generic (.named "builtins.tuple") [.union [.named "builtins.int", .named "builtins.str"]],
            .named "builtins.int"] := by decide +kernel
  rw [e]
  simp [denAny, den_generic, denSlots, boolSem, Val.clsOf, Val.slots]

/-- `def f(x: list[int] | list[bool], y: bool | int) -> tuple[int, str] | tuple[bool, ...]`, a constant, a class -/
def exUnit : TUnit :=
  { name := "m",
    constants := [{ name := "k", ty := .union [.named "builtins.bool", .named "builtins.int", .named "builtins.str"] }],
    classes := [.mk "K" [] [.named "builtins.int"] [] [{ name := "c", ty := exTy }] [] [] none []],
    functions := [{ name := "f", sigs := [
      { params := [{ name := "x", ty := .union [listOf (.named "builtins.int"), listOf (.named "builtins.bool")] },
                   { name := "y", ty := .union [.named "builtins.bool", .named "builtins.int"] }],
        ret := .union [.tuple (.named "builtins.tuple") [.named "builtins.int", .named "builtins.str"],
                       .generic (.named "builtins.tuple") [.named "builtins.bool"]] }] }] }

theorem exUnit_hier : pipelineHier Opts.pytype exH [] exUnit = exH ++ [("K", ["builtins.int"])] := by decide +kernel

def exSem : Sem :=
  ⟨fun a b => a = b ∨ (a = "builtins.bool" ∧ b = "builtins.int") ∨ (a = "K" ∧ b = "builtins.int"), fun _ _ _ => False⟩

theorem exSem_sound : HierSound exSem (exH ++ [("K", ["builtins.int"])]) := by
  refine ⟨?_, fun _ => Or.inl rfl, ?_⟩
  · intro a b hb
    by_cases h : "builtins.bool" = a
    · subst h
      simp [Hier.lookup, exH] at hb
      exact Or.inr (Or.inl ⟨rfl, hb⟩)
    · by_cases h2 : "K" = a
      · subst h2
        simp [Hier.lookup, exH] at hb
        exact Or.inr (Or.inr ⟨rfl, hb⟩)
      · simp [Hier.lookup, exH, h, h2] at hb
  · intro a b c h1 h2
    rcases h1 with rfl | ⟨rfl, rfl⟩ | ⟨rfl, rfl⟩
    · exact h2
    · rcases h2 with rfl | ⟨h, _⟩ | ⟨h, _⟩
      · exact Or.inr (Or.inl ⟨rfl, rfl⟩)
      · exact absurd h (by decide)
      · exact absurd h (by decide)
    · rcases h2 with rfl | ⟨h, _⟩ | ⟨h, _⟩
      · exact Or.inr (Or.inr ⟨rfl, rfl⟩)
      · exact absurd h (by decide)
      · exact absurd h (by decide)

theorem exSem_antisymm : Antisymm exSem := by
  intro a b h1 h2
  rcases h1 with h | ⟨rfl, rfl⟩ | ⟨rfl, rfl⟩
  · exact h
  · rcases h2 with h | ⟨h, _⟩ | ⟨h, _⟩
    · exact h.symm
    · exact absurd h (by decide)
    · exact absurd h (by decide)
  · rcases h2 with h | ⟨h, _⟩ | ⟨h, _⟩
    · exact h.symm
    · exact absurd h (by decide)
    · exact absurd h (by decide)

theorem unitKok_of_all (u : TUnit) (h : u.all kok = true) : UnitKok u :=
  fun t ht => List.all_eq_true.1 h t ht

/-- all hypotheses of `optimize_widens` hold on `exUnit` with pytype's settings and a dependency hierarchy … -/
example : UnitLe exSem exUnit (optimize Opts.pytype exH [] exUnit) :=
  optimize_widens exSem Opts.pytype exH [] exUnit (by rw [exUnit_hier]; exact exSem_sound) exSem_antisymm
    (unitKok_of_all _ (by decide +kernel))
    (fun _ => by rw [exUnit_hier]; exact List.all_eq_true.1 (by decide +kernel)) rfl

/-- … and the optimiser does change it (bool is absorbed, lists merged, the tuple degenerated) -/
example : (optimize Opts.pytype exH [] exUnit).functions.map (fun f => f.sigs.map (fun s => (s.params.map (·.ty), s.ret))) =
    [[([.generic (.cls "list") [.cls "builtins.int"], .cls "builtins.int"],
       .generic (.cls "builtins.tuple") [.union [.cls "builtins.int", .cls "builtins.str"]])]] := by decide +kernel

/-- the unit-level hypotheses hold for the idempotence witnesses -/
example : UnitKok dupWitness := unitKok_of_all _ (by decide +kernel)
example : UnitKok objWitness := unitKok_of_all _ (by decide +kernel)

end PytypeModel.Props.C11
