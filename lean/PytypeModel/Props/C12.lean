import PytypeModel.Proofs.CodecMP
import PytypeModel.Proofs.CodecNode
import PytypeModel.Proofs.EqHash
import PytypeModel.Proofs.SortStep
import PytypeModel.Generated.PytdSchema
import PytypeModel.Proofs.UndoAliases

/-! # C12 — serialised stubs decode to the same declarations, byte-stably; `==` and `hash` agree

Only property theorems and non-vacuity examples live here.

Layers: `encodeMP/decodeMP` (MessagePack bytes) · `toMP/fromMP` (msgspec struct encoding, generic over a
schema `σ`) · `encodeNode/decodeNode` (their composition = `Encoder.encode` / `Decoder(type).decode`).
`generatedSchema` is regenerated from the real classes on every run. -/
namespace PytypeModel.Props.C12
open PytypeModel.Pytd PytypeModel.Pytd.Generated

/-! ## MessagePack layer -/

/-- decoding an encoded value gives the value back and leaves the following bytes untouched -/
theorem mp_roundtrip (v : MP) (hwf : v.wf = true) (rest : Bytes) :
    decodeMP (encodeMP v ++ rest) = some (v, rest) :=
  decodeMP_encodeMP v hwf rest

/-- the guard is needed: msgspec cannot encode ints outside `[-2^63, 2^64)` (it raises OverflowError; the
total model function produces bytes that decode to something else) -/
theorem mp_roundtrip_not_full : ¬ ∀ v : MP, decodeMP (encodeMP v) = some (v, []) := by
  intro h
  have h1 := h (.int (2 ^ 64))
  have h2 : decodeMP (encodeMP (.int (2 ^ 64))) = some (.int 0, []) := by rfl
  rw [h2] at h1
  injection h1 with h1
  injection h1 with h1 _
  injection h1 with h1
  exact absurd h1 (by decide)

theorem encodeMP_injective (a b : MP) (ha : a.wf = true) (hb : b.wf = true)
    (h : encodeMP a = encodeMP b) : a = b :=
  encodeMP_inj a b ha hb h

/-- no encoding is a proper prefix of another one (so concatenated values parse uniquely) -/
theorem encodeMP_prefix_free (a b : MP) (ha : a.wf = true) (hb : b.wf = true) (r s : Bytes)
    (h : encodeMP a ++ r = encodeMP b ++ s) : a = b ∧ r = s :=
  PytypeModel.Pytd.encodeMP_prefix_free a b ha hb r s h

/-- everything the encoder emits is a byte -/
theorem encodeMP_bytes (v : MP) (hwf : v.wf = true) (hb : v.bytesOk = true) :
    ∀ b ∈ encodeMP v, b < 256 :=
  PytypeModel.Pytd.encodeMP_bytes v hwf hb

/-! ## struct layer, for EVERY well-formed schema -/

/-- msgspec's type-directed decoder inverts its encoder on every value that is well typed at the
declared type — for every schema with unique field names per class, unambiguous unions (one
alternative per msgpack kind, distinct tags per struct union) and well-typed defaults. -/
theorem node_roundtrip (σ : Schema) (hσ : SchemaWF σ = true) (ty : FTy) (hty : tyWF σ ty = true)
    (v : Val) (hv : WT σ ty v = true) : fromMP σ ty (toMP σ v) = some v :=
  fromMP_toMP σ hσ v ty hty hv

/-- the same down to bytes: `Decoder(type=ty).decode(Encoder.encode(v)) == v` -/
theorem node_bytes_roundtrip (σ : Schema) (hσ : SchemaWF σ = true) (ty : FTy) (hty : tyWF σ ty = true)
    (v : Val) (hv : WT σ ty v = true) : decodeNode σ ty (encodeNode σ v) = some v :=
  decodeNode_encodeNode σ hσ ty hty v hv

/-- byte stability: encoding what was decoded reproduces the bytes -/
theorem byte_stable (σ : Schema) (hσ : SchemaWF σ = true) (ty : FTy) (hty : tyWF σ ty = true)
    (v : Val) (hv : WT σ ty v = true) :
    (decodeNode σ ty (encodeNode σ v)).map (encodeNode σ) = some (encodeNode σ v) := by
  rw [decodeNode_encodeNode σ hσ ty hty v hv]; rfl

/-- different well-typed values never share an encoding -/
theorem encodeNode_injective (σ : Schema) (hσ : SchemaWF σ = true) (ty : FTy) (hty : tyWF σ ty = true)
    (v w : Val) (hv : WT σ ty v = true) (hw : WT σ ty w = true)
    (h : encodeNode σ v = encodeNode σ w) : v = w := by
  have h1 := decodeNode_encodeNode σ hσ ty hty v hv
  have h2 := decodeNode_encodeNode σ hσ ty hty w hw
  rw [h, h2] at h1
  exact (Option.some.inj h1).symm

/-! ## the regenerated table -/

/-- the classes found in /repo today form a well-formed schema (re-checked on every run) -/
theorem schema_wf : SchemaWF generatedSchema = true := by decide +kernel

/-- every concrete subclass of `pytd.Type` is a member of `TypeU` (else msgspec refuses to decode it) -/
theorem typeu_complete : typeSubclassesMissingFromTypeU = [] := by decide +kernel

theorem typeu_wf : tyWF generatedSchema [.structs typeUNames] = true := by decide +kernel

theorem serializable_ast_ty_wf :
    tyWF generatedSchema [.structs [S.s_SerializableAst]] = true := by decide +kernel

/-- `DecodeAst(Encode(x)) == x` and re-encoding is byte-identical, for every `SerializableAst` value
that is well typed w.r.t. the declared field types of today's classes -/
theorem serializable_ast_roundtrip (v : Val)
    (hv : WT generatedSchema [.structs [S.s_SerializableAst]] v = true) :
    decodeNode generatedSchema [.structs [S.s_SerializableAst]] (encodeNode generatedSchema v) = some v :=
  decodeNode_encodeNode _ schema_wf _ serializable_ast_ty_wf v hv

theorem type_node_roundtrip (v : Val) (hv : WT generatedSchema [.structs typeUNames] v = true) :
    decodeNode generatedSchema [.structs typeUNames] (encodeNode generatedSchema v) = some v :=
  decodeNode_encodeNode _ schema_wf _ typeu_wf v hv

/-! ## equality and hashing -/

theorem schema_eqspec : eqSpecOK generatedSchema = true := by decide +kernel

/-- **`a == b → hash a == hash b`** for all nodes (any nesting), for every schema whose classes hash a
subset of the fields they compare and for *every* choice of Python's hash functions (`None`, int, str,
tuple, struct: arbitrary) such that a frozenset's hash is a symmetric function of its elements' hashes. -/
theorem eq_hash {α : Type} (H : HashFns α) (σ : Schema) (hspec : eqSpecOK σ = true)
    (hperm : ∀ l₁ l₂ : List α, l₁.Perm l₂ → H.hSet l₁ = H.hSet l₂)
    (a b : Val) (h : veq σ a b = true) : vhash H σ a = vhash H σ b :=
  veq_vhash H σ hspec hperm a b h

/-- instance for the classes of today -/
theorem eq_hash_pytd {α : Type} (H : HashFns α)
    (hperm : ∀ l₁ l₂ : List α, l₁.Perm l₂ → H.hSet l₁ = H.hSet l₂)
    (a b : Val) (h : veq generatedSchema a b = true) :
    vhash H generatedSchema a = vhash H generatedSchema b :=
  veq_vhash H generatedSchema schema_eqspec hperm a b h

/-- `==` is symmetric and transitive on all values, reflexive on those without identity-compared
classes: de-duplication through sets/dicts is well defined -/
theorem eq_symm (σ : Schema) (a b : Val) (h : veq σ a b = true) : veq σ b a = true := veq_symm σ a b h
theorem eq_trans (σ : Schema) (a b c : Val) (h1 : veq σ a b = true) (h2 : veq σ b c = true) :
    veq σ a c = true := veq_trans σ a b c h1 h2
theorem eq_refl (σ : Schema) (a : Val) (h : eqOK σ a = true) : veq σ a a = true := veq_refl σ a h

/-- an order-sensitive set hash (the code before commit 8014bd1 hashed the ordered tuple) -/
def orderedHash : HashFns (List Nat) where
  hNone := [0]
  hInt := fun i => [1, i.natAbs]
  hStr := fun s => 2 :: s
  hTup := fun l => 3 :: l.flatten
  hDict := [4]
  hNode := fun n l => 5 :: (n ++ l.flatten)
  hSet := fun l => 6 :: l.flatten

def namedT (s : Bytes) : Val := .node S.s_NamedType [.str s]
def unionT (l : List Val) : Val := .node S.s_UnionType [.tup l]
/-- `int`, `str` -/
def tInt : Val := namedT [105, 110, 116]
def tStr : Val := namedT [115, 116, 114]

/-- the permutation hypothesis of `eq_hash` is needed: with the tuple-style hash of the old code,
`Union[int, str] == Union[str, int]` but their hashes differ (the witness of fix 8014bd1) -/
theorem eq_hash_needs_perm :
    veq generatedSchema (unionT [tInt, tStr]) (unionT [tStr, tInt]) = true ∧
    vhash orderedHash generatedSchema (unionT [tInt, tStr]) ≠
      vhash orderedHash generatedSchema (unionT [tStr, tInt]) := by
  decide +kernel

/-! ## canonical ordering (the sort step of `CanonicalOrderingVisitor`) -/

/-- sorting twice = sorting once, for a stable sort and any strict weak order (`Node.__lt__`) -/
theorem canon_sort_idem {α : Type} (lt : α → α → Bool) (hlt : StrictWeak lt) (l : List α) :
    sortStable lt (sortStable lt l) = sortStable lt l :=
  sortStable_of_sorted lt _ (sorted_sortStable lt hlt l)

/-- the sort only reorders -/
theorem canon_sort_perm {α : Type} (lt : α → α → Bool) (l : List α) : (sortStable lt l).Perm l :=
  sortStable_perm lt l

/-! ## non-vacuity -/

/-- `Union[int, Literal[-5], list[str]]` is well typed at `TypeU` and has the msgspec bytes one expects -/
def exTy : Val :=
  unionT [tInt, .node S.s_Literal [.int (-5)],
    .node S.s_GenericType [namedT [108, 105, 115, 116], .tup [tStr]]]

example : WT generatedSchema [.structs typeUNames] exTy = true := by decide +kernel
example : decodeNode generatedSchema [.structs typeUNames] (encodeNode generatedSchema exTy) = some exTy :=
  type_node_roundtrip exTy (by decide +kernel)
/-- `LateType("x")` (recursive=False omitted) is `82 ac"_struct_type" a8"LateType" a4"name" a1"x"` -/
example : encodeNode generatedSchema (.node S.s_LateType [.str [120], .bool false]) =
    [0x82, 0xac] ++ S.s__struct_type ++ [0xa8] ++ S.s_LateType ++ [0xa4] ++ S.s_name ++ [0xa1, 120] := by
  decide +kernel
/-- a default is omitted, a non-default is not -/
example : (encodeNode generatedSchema (.node S.s_LateType [.str [120], .bool true])).length =
    (encodeNode generatedSchema (.node S.s_LateType [.str [120], .bool false])).length + 11 := by
  decide +kernel
/-- an ill-typed value (a `Function` where a type is expected) is not `WT` -/
example : WT generatedSchema [.structs typeUNames] (.node S.s_Module [.str [], .str []]) = false := by
  decide +kernel
/-- `Literal[1] == Literal[True]`, `ClassType` ignores `cls`, unions ignore order and nesting of equal members -/
example : veq generatedSchema (.node S.s_Literal [.int 1]) (.node S.s_Literal [.bool true]) = true := by
  decide +kernel
example : veq generatedSchema (namedT [97]) (.node S.s_ClassType [.str [97], .none]) = false := by
  decide +kernel
example : eqOK generatedSchema exTy = true := by decide +kernel
example : StrictWeak (fun a b : Nat => decide (a < b)) :=
  ⟨fun a b h => by simp at h ⊢; omega, fun a b c h1 h2 => by simp at h1 h2 ⊢; omega⟩
example : sortStable (fun a b : Nat × Nat => decide (a.1 < b.1)) [(2, 0), (1, 0), (2, 1), (1, 1)] =
    [(1, 0), (1, 1), (2, 0), (2, 1)] := by decide

/-! ## `UndoModuleAliasesVisitor` (what happens to LateType names before the bytes are written) -/

/-- a unit without module aliases leaves every name alone — in particular no alias of another unit is ever used
(the visitor is created per `SerializeAst` call; seeded change c12-m3 shares one instance) -/
theorem undo_aliases_local (name : Dotted) : undoAlias [] name = name := undoAlias_nil name

/-- the longest proper dotted prefix that is an alias of the unit is replaced by the aliased module's name, and
everything after it is kept (seeded change c12-m5 keeps only the last component) -/
theorem undo_aliases_longest_prefix (al : List (Dotted × Dotted)) (name : Dotted) (h : 1 < name.length) :
    (undoAlias al name = name ∧ ∀ j, 1 ≤ j → j ≤ name.length - 1 → lookupLast al (name.take j) = none) ∨
    ∃ j m, 1 ≤ j ∧ j ≤ name.length - 1 ∧ lookupLast al (name.take j) = some m ∧
      (∀ j', j < j' → j' ≤ name.length - 1 → lookupLast al (name.take j') = none) ∧
      undoAlias al name = m ++ name.drop j := by
  have hu : undoAlias al name = undoAt al name (name.length - 1) := by
    unfold undoAlias; rw [if_neg (by omega)]
  rw [hu]
  exact undoAt_spec al name (name.length - 1)

/-- "encoding the decoded AST again gives the same bytes" needs the rewriting to be idempotent (the decoded unit
still carries its aliases).  `_partial`: when no alias name is a prefix of an aliased module's name and no module
name is a prefix of an alias name. -/
theorem undo_aliases_idempotent_partial (al : List (Dotted × Dotted)) (hc : noChain al = true) (name : Dotted) :
    undoAlias al (undoAlias al name) = undoAlias al name := undoAlias_idem_of_noChain hc name

/-- the unguarded statement is false: `import foo.bar as foo` and the late type `foo.Thing`
(known finding c12-alias-prefix-of-own-module, replayed on the real code by W) -/
theorem undo_aliases_idempotent_not_full :
    ¬ ∀ (al : List (Dotted × Dotted)) (name : Dotted), undoAlias al (undoAlias al name) = undoAlias al name := by
  intro h
  have := h [(["foo"], ["foo", "bar"])] ["foo", "Thing"]
  revert this
  decide

example : undoAlias [(["shapes"], ["gfx", "primitives"]), (["gfx", "colors"], ["gfx", "colors"])]
    ["shapes", "Outer", "Inner"] = ["gfx", "primitives", "Outer", "Inner"] := by decide
example : noChain [(["shapes"], ["gfx", "primitives"]), (["np"], ["numpy"])] = true := by decide
example : noChain [(["foo"], ["foo", "bar"])] = false := by decide
example : undoAlias [(["foo"], ["foo", "bar"])] ["foo", "Thing"] = ["foo", "bar", "Thing"] ∧
    undoAlias [(["foo"], ["foo", "bar"])] ["foo", "bar", "Thing"] = ["foo", "bar", "bar", "Thing"] := by decide

end PytypeModel.Props.C12
