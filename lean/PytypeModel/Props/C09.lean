import PytypeModel.Proofs.ReachInv

/-! # C09 — CFG reachability answers equal true graph reachability at all times

Only property theorems and non-vacuity examples live here. -/
namespace PytypeModel.Props.C09
open PytypeModel.Reach Relation

/-- After **any** history of node creations and `ConnectTo` calls (self-edges, duplicates, any
order, any number of nodes — hence any number of 64-bit buckets), `Program::is_reachable a b`
is true exactly when a directed path `a →* b` exists in the edges inserted so far. -/
theorem reach_correct (ops : List Op) (hwf : wfOps 0 ops = true) (a b : Nat)
    (ha : a < (Prog.run ops).n) (hb : b < (Prog.run ops).n) :
    (Prog.run ops).isReachable a b = true ↔ ReflTransGen (Edge ops) a b := by
  have inv := inv_run ops hwf
  unfold Prog.isReachable Reach.isReach
  rw [inv.bit b a hb ha]
  exact reflTransGen_swap

/-- The statement holds after *every step*, since every prefix of a well-formed history is a
well-formed history: stated explicitly for prefixes. -/
theorem reach_correct_prefix (ops rest : List Op) (hwf : wfOps 0 (ops ++ rest) = true) (a b : Nat)
    (ha : a < (Prog.run ops).n) (hb : b < (Prog.run ops).n) :
    (Prog.run ops).isReachable a b = true ↔ ReflTransGen (Edge ops) a b := by
  have hpre : ∀ (l r : List Op) (n : Nat), wfOps n (l ++ r) = true → wfOps n l = true := by
    intro l
    induction l with
    | nil => intros; rfl
    | cons op l ih =>
      intro r n h
      cases op with
      | newNode => exact ih r (n + 1) h
      | connect x y =>
        simp only [List.cons_append, wfOps, Bool.and_eq_true] at h ⊢
        exact ⟨h.1, ih r n h.2⟩
  exact reach_correct ops (hpre ops rest 0 hwf) a b ha hb

/-- every node reaches itself -/
theorem reach_refl (ops : List Op) (hwf : wfOps 0 ops = true) (a : Nat)
    (ha : a < (Prog.run ops).n) : (Prog.run ops).isReachable a a = true :=
  (reach_correct ops hwf a a ha ha).2 .refl

/-- The in-place C++ loop (whose `row_dst` pointer aliases the row being written when
`i = dst`) is the simultaneous closure update. -/
theorem loop_is_simultaneous (r : Reach) (src dst : Nat) (h : r.rows.length = r.n) :
    r.addConn src dst = r.addConnSimul src dst := addConn_eq_simul r src dst h

/-- the matrix representation invariant holds after every well-formed history -/
theorem repr_invariant (ops : List Op) (hwf : wfOps 0 ops = true) :
    Inv (Edge ops) (Prog.run ops) := inv_run ops hwf

/-! non-vacuity: a concrete well-formed history with a cycle, a self-edge, a duplicate, and the
hypotheses and both outcomes of the theorem are exercised. -/
def demoOps : List Op :=
  [.newNode, .newNode, .newNode, .connect 0 1, .connect 1 0, .connect 1 1, .connect 0 1, .connect 1 2]

example : wfOps 0 demoOps = true := by decide
example : (Prog.run demoOps).n = 3 := by decide
example : (Prog.run demoOps).isReachable 0 2 = true := by decide
example : (Prog.run demoOps).isReachable 2 0 = false := by decide
example : ReflTransGen (Edge demoOps) 0 2 :=
  (reach_correct demoOps (by decide) 0 2 (by decide) (by decide)).1 (by decide)
example : ¬ ReflTransGen (Edge demoOps) 2 0 := fun h =>
  absurd ((reach_correct demoOps (by decide) 2 0 (by decide) (by decide)).2 h) (by decide)

end PytypeModel.Props.C09
