import PytypeModel.Proofs.FlowState

/-! # C18 — flow conditions and block-state merging preserve meaning (rewrite engine)

Model: `PytypeModel/Bool/Conditions.lean` (conditions.py) and `PytypeModel/Bool/BlockState.lean`
(variables.py, state.py).  Only property theorems and non-vacuity examples live here.

`Cond.eval ρ` is the truth-table semantics under a valuation `ρ` of the atomic conditions;
`BState.vals ρ s x` are the values local `x` can have in state `s` under `ρ`: the bindings whose own
condition holds and, for locals in `locals_with_block_condition`, the block's condition too. -/
namespace PytypeModel.Props.C18
open PytypeModel.Flow

/-! ## the condition constructors are the connectives, under every valuation -/

/-- `Not` (including the `Not(Not(c)) = c` shortcut) -/
theorem eval_mkNot (ρ : Nat → Bool) (c : Cond) : (mkNot c).eval ρ = !(c.eval ρ) :=
  eval_mkNot' ρ c

/-- `And(*args)` for any number of arguments, in any order: covers dropping `TRUE`, the early
`return FALSE` (which ignores the remaining arguments), the `a, Not(a)` shortcut, set
de-duplication and the 0/1-element collapse. -/
theorem eval_mkAnd (ρ : Nat → Bool) (args : List Cond) :
    (mkAnd args).eval ρ = args.all (fun c => c.eval ρ) :=
  eval_mkAnd' ρ args

/-- `Or(*args)`, dually. -/
theorem eval_mkOr (ρ : Nat → Bool) (args : List Cond) :
    (mkOr args).eval ρ = args.any (fun c => c.eval ρ) :=
  eval_mkOr' ρ args

/-- Python `==` on conditions (frozensets compared as sets) only identifies conditions with the
same truth table: keeping conditions in `set`s cannot change meaning. -/
theorem beq_sound (ρ : Nat → Bool) (a b : Cond) (h : a.beq b = true) : a.eval ρ = b.eval ρ :=
  Cond.beq_sound ρ a b h

/-! ## `Variable.with_condition` -/

/-- every binding's condition becomes `old ∧ c`; values, their order, their number and the
variable's name are unchanged. -/
theorem var_withCondition (ρ : Nat → Bool) (v : Var) (c : Cond) :
    (v.withCondition c).bindings.map (fun b => (b.value, b.cond.eval ρ)) =
        v.bindings.map (fun b => (b.value, b.cond.eval ρ && c.eval ρ)) ∧
      (v.withCondition c).name = v.name := by
  refine ⟨?_, Var.name_withCondition v c⟩
  have := Var.sem_withCondition ρ v c
  simpa [Var.sem, List.map_map, Function.comp_def] using this

/-- the `condition is TRUE` shortcut returns the variable itself -/
theorem var_withCondition_true (v : Var) : v.withCondition .tt = v := rfl

/-! ## the invariant and its preservation by every operation -/

/-- `BlockState(dict(ls), condition=c)` with the default `locals_with_block_condition` -/
theorem inv_init (ls : List (String × Var)) (c : Cond) (h : ∀ p ∈ ls, p.2.values.Nodup) :
    Inv (BState.init ls c) := inv_init' ls c h

theorem inv_storeLocal (s : BState) (x : String) (var : Var) (h : Inv s) (hv : var.values.Nodup) :
    Inv (s.storeLocal x var) := inv_storeLocal' s x var h hv

theorem inv_withCondition (s : BState) (c : Cond) (h : Inv s) : Inv (s.withCondition c) :=
  inv_withCondition' s c h

theorem inv_mergeInto (a b : BState) (ha : Inv a) (hb : Inv b) : Inv (a.mergeInto (some b)) :=
  inv_mergeInto' a b ha hb

/-- Over **arbitrary operation histories** (any length; constructions, stores of fresh, loaded or
caller-built variables, with_condition, merges of any two earlier states, copies), every state in
every register satisfies the invariant.  `Op.ok` only asks caller-built variables to have
pairwise distinct values. -/
theorem inv_run (ops : List Op) (hok : ∀ op ∈ ops, op.ok = true) : ∀ s ∈ run ops, Inv s :=
  inv_run' ops hok

/-! ## adding a condition to a state restricts each local by exactly that condition -/

/-- This is where `Inv` is needed: the code conjoins `s.cond ∧ c`, not `c`, onto the locals that
do not carry the block condition implicitly. -/
theorem state_withCondition (s : BState) (c : Cond) (h : Inv s) (ρ : Nat → Bool) (x : String) :
    (s.withCondition c).vals ρ x = if c.eval ρ = true then s.vals ρ x else [] :=
  state_withCondition' s c ρ x h

/-- a stored variable is read under the block's condition; other locals are untouched -/
theorem store_vals (s : BState) (x : String) (var : Var) (ρ : Nat → Bool) (y : String) :
    (s.storeLocal x var).vals ρ y =
      if y = x then (var.bindings.filter fun b => b.cond.eval ρ && s.cond.eval ρ).map (·.value)
      else s.vals ρ y :=
  store_vals' s x var ρ y

/-! ## merge = union -/

theorem merge_none (a : BState) : a.mergeInto none = a := rfl

/-- Under every valuation and for every local name, the merged state allows exactly the values
allowed by one of the inputs; and the merged state satisfies the invariant again. -/
theorem merge_union (a b : BState) (ha : Inv a) (hb : Inv b) :
    (∀ (ρ : Nat → Bool) (x : String) (val : Val),
        val ∈ (a.mergeInto (some b)).vals ρ x ↔ val ∈ a.vals ρ x ∨ val ∈ b.vals ρ x) ∧
      Inv (a.mergeInto (some b)) :=
  ⟨fun ρ x val => merge_union' a b ha hb ρ x val, inv_mergeInto' a b ha hb⟩

/-- the same, for any two states reachable by any history of the public operations -/
theorem merge_union_run (ops : List Op) (hok : ∀ op ∈ ops, op.ok = true) (i j : Nat)
    (a b : BState) (hi : (run ops)[i]? = some a) (hj : (run ops)[j]? = some b)
    (ρ : Nat → Bool) (x : String) (val : Val) :
    val ∈ (a.mergeInto (some b)).vals ρ x ↔ val ∈ a.vals ρ x ∨ val ∈ b.vals ρ x :=
  merge_union' a b (inv_run' ops hok a (List.mem_of_getElem? hi))
    (inv_run' ops hok b (List.mem_of_getElem? hj)) ρ x val

/-! ## the distinct-values guard is needed

`{b.value: b.condition for b in bindings}` keeps only the last of two bindings of `self` with the
same value.  A caller that stores a hand-built variable `[1 if a0, 1 if a1]` loses `1 if a0` in
the merge: without `Op.ok`, `merge_union_run` is false.  (The harness replays exactly this history
on the real code.) -/
def guardOps : List Op :=
  [.new [] .tt, .storeVar 0 "x" ⟨[⟨1, .atom 0⟩, ⟨1, .atom 1⟩], none⟩, .new [] .tt, .storeVal 1 "x" 2]

def guardRho : Nat → Bool := fun i => i == 0

theorem merge_union_guard_needed :
    ¬ ∀ (ops : List Op) (i j : Nat) (a b : BState), (run ops)[i]? = some a → (run ops)[j]? = some b →
      ∀ (ρ : Nat → Bool) (x : String) (val : Val),
        val ∈ (a.mergeInto (some b)).vals ρ x ↔ val ∈ a.vals ρ x ∨ val ∈ b.vals ρ x := by
  intro h
  have h1 := h guardOps 0 1 _ _ rfl rfl guardRho "x" 1
  exact absurd (h1.2 (Or.inl (by decide))) (by decide)

example : guardOps.all Op.ok = false := by decide

/-! ## non-vacuity -/

/-- a history that branches on `a0`, stores different values on the two branches, and joins -/
def demoOps : List Op :=
  [.new [("x", 1), ("y", 7)] .tt,      -- R0
   .withCond 0 (.atom 0),              -- R1 = R0 if a0
   .withCond 0 (mkNot (.atom 0)),      -- R2 = R0 if not a0
   .storeVal 1 "x" 2,                  -- then-branch: x = 2
   .storeLoad 2 "z" 2 "y",             -- else-branch: z = y
   .merge 1 2,                         -- R3 = join
   .withCond 3 (.atom 1),              -- R4
   .merge 4 0]                         -- R5

def demoRho : Nat → Bool := fun i => i == 0 || i == 1

example : demoOps.all Op.ok = true := by decide
example : (run demoOps).length = 6 := by decide
example : ∀ s ∈ run demoOps, Inv s := inv_run demoOps (by decide)
-- the join has x = 2 exactly when a0 holds, x = 1 otherwise, and y (untouched) in both cases
example : ((run demoOps)[3]?.map fun s => (s.vals demoRho "x", s.vals demoRho "y", s.lwbc)) =
    some ([2], [7], ["y"]) := by decide
example : ((run demoOps)[3]?.map fun s => s.vals (fun _ => false) "x") = some [1] := by decide
example : ((run demoOps)[3]?.map fun s => s.cond.beq .tt) = some true := by decide
-- with_condition really restricts: under a valuation falsifying a1, R4 has no value for x
example : ((run demoOps)[4]?.map fun s => s.vals (fun i => i == 0) "x") = some [] := by decide
example : ((run demoOps)[4]?.map fun s => s.vals demoRho "x") = some [2] := by decide

-- the connective theorems are not about trivial terms only
example : (mkAnd [.atom 0, mkOr [.atom 1, .atom 2], mkNot (.atom 0)]).beq .ff = true := by decide
example : (mkAnd [.ff, .atom 0]).beq .ff = true ∧ (mkOr [.atom 0, .tt, .atom 1]).beq .tt = true := by
  decide
example : (mkOr [mkAnd [.atom 0, .atom 1], mkAnd [.atom 1, .atom 0]]).beq (.and [.atom 1, .atom 0]) = true := by
  decide
example : (mkAnd [.atom 0, .tt, mkOr [.atom 1, .atom 2]]).eval (fun i => i != 1) = true := by decide

end PytypeModel.Props.C18
