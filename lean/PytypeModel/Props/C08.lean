import PytypeModel.Proofs.SolverWF
import PytypeModel.Typegraph.InvalidateSpec

/-! # C08 — solver answers do not depend on what was asked or built before

Only property theorems and non-vacuity examples live here.  Model: `PytypeModel.Typegraph.Program`
(`PState` = graph × live solver memo, one `Op` per Python-visible operation of cfg.cc). -/
namespace PytypeModel.Props.C08
open PytypeModel.Typegraph

/-- **Every mutating operation drops the solver**: whatever operation changes the graph (nodes, edges,
conditions, bindings, origins, source sets — directly or through the paste/assign helpers) leaves no
memo behind.  Full: all states, all operations (the repaired `set_condition` and
`AddOrigin(CFGNode*, const SourceSet&)` included). -/
theorem mutation_resets_memo (s : PState) (op : Op) (h : (s.step op).g ≠ s.g) :
    (s.step op).memo = none := by
  cases hq : op.isQuery with
  | true =>
    cases op with
    | query q => exact absurd (ask_g s q) h
    | _ => simp [Op.isQuery] at hq
  | false =>
    rcases (step_of_nonquery s op hq).1 with h1 | ⟨hg, _⟩
    · exact h1
    · exact absurd hg h

/-- a mutating operation never *creates* a solver (only queries do) -/
theorem nonquery_keeps_no_solver (s : PState) (op : Op) (hq : op.isQuery = false) (hm : s.memo = none) :
    (s.step op).memo = none := by
  rcases (step_of_nonquery s op hq).1 with h1 | ⟨_, h1⟩
  · exact h1
  · exact h1.trans hm

/-- queries never change the graph -/
theorem query_preserves_graph (s : PState) (q : Query) : (s.step (.query q)).g = s.g := ask_g s q

/-- the fresh replica of a history (same mutations, no query) reaches the same graph as the
long-lived program, and has no solver: its answer is the cold answer on the current graph. -/
theorem replica_same_graph (addrs : List Nat) (h : List Op) :
    ((PState.init addrs).run (replicaOps h)).g = ((PState.init addrs).run h).g ∧
    ((PState.init addrs).run (replicaOps h)).memo = none :=
  let r := replica_core h (PState.init addrs) (PState.init addrs) (CoreEq.rfl' _) rfl
  ⟨r.1.1, r.2⟩

theorem fresh_is_cold (addrs : List Nat) (h : List Op) (q : Query) :
    freshAnswer addrs h q = coldAnswer ((PState.init addrs).run h).g q := by
  obtain ⟨hg, hm⟩ := replica_same_graph addrs h
  unfold freshAnswer coldAnswer
  rw [ask_fst, hg, hm]
  rfl

/-- **query_fresh, memo-free histories**: whenever the program holds no solver at the time of the query
(the last effective operation was a mutation — in particular in every history in which each query is
directly preceded by a mutation), the answer equals the fresh replica's.  Cyclic graphs and
conditions included. -/
theorem query_fresh_partial (addrs : List Nat) (h : List Op) (q : Query)
    (hm : ((PState.init addrs).run h).memo = none) :
    liveAnswer addrs h q = freshAnswer addrs h q := by
  rw [fresh_is_cold]
  unfold liveAnswer coldAnswer
  rw [ask_fst, hm]
  rfl

/-- instance: the query directly follows an operation that changed the graph -/
theorem query_fresh_after_mutation (addrs : List Nat) (h : List Op) (op : Op) (q : Query)
    (hch : (((PState.init addrs).run h).step op).g ≠ ((PState.init addrs).run h).g) :
    liveAnswer addrs (h ++ [op]) q = freshAnswer addrs (h ++ [op]) q := by
  apply query_fresh_partial
  simp only [PState.run, List.foldl_append, List.foldl_cons, List.foldl_nil]
  exact mutation_resets_memo _ op hch

/-- queries that do not consult the solver (`CanHaveCombination`, `Bindings`) are history independent
in every history. -/
theorem query_fresh_solverfree (addrs : List Nat) (h : List Op) (q : Query)
    (hq : (∃ n bs, q = .canHave n bs) ∨ (∃ v n, q = .prune v n)) :
    liveAnswer addrs h q = freshAnswer addrs h q := by
  rw [fresh_is_cold]
  unfold liveAnswer coldAnswer
  rw [ask_fst]
  rcases hq with ⟨n, bs, rfl⟩ | ⟨v, n, rfl⟩ <;> rfl

/-- **query_fresh on acyclic graphs, solver alive or not**: whatever was asked and built before, if the
graph *at the time of the query* is well-formed and acyclic (node conditions, multiple origins and source
sets, every mutating entry point allowed; the graph may have been cyclic earlier), the long-lived
program answers what the fresh replica answers.  Uses memo soundness (`recall_spec`). -/
theorem query_fresh_acyclic (addrs : List Nat) (h : List Op) (q : Query) (rank : NodeId → Nat)
    (hwf : ((PState.init addrs).run h).g.WF) (hac : ((PState.init addrs).run h).g.AcyclicBy rank) :
    liveAnswer addrs h q = freshAnswer addrs h q := by
  rw [fresh_is_cold]
  exact ask_eq_cold _ (memoGood_run h _ (memoGood_init addrs)) hwf hac q

/-- the same for histories: a well-formed history (all ids in range) always yields a well-formed graph, so
acyclicity of the current graph is the only hypothesis. -/
theorem query_fresh_acyclic_history (addrs : List Nat) (h : List Op) (q : Query) (rank : NodeId → Nat)
    (hh : wfHistory (PState.init addrs) h = true) (hac : ((PState.init addrs).run h).g.AcyclicBy rank) :
    liveAnswer addrs h q = freshAnswer addrs h q :=
  query_fresh_acyclic addrs h q rank (wf_run addrs h hh) hac

/-- **repeated queries never flip** (acyclic): asking anything in between does not change an answer -/
theorem repeated_query_stable (addrs : List Nat) (h : List Op) (qs : List Query) (q : Query)
    (rank : NodeId → Nat)
    (hwf : ((PState.init addrs).run h).g.WF) (hac : ((PState.init addrs).run h).g.AcyclicBy rank) :
    liveAnswer addrs (h ++ qs.map Op.query) q = liveAnswer addrs h q := by
  have hg : ∀ (qs : List Query) (s : PState), (s.run (qs.map Op.query)).g = s.g := by
    intro qs
    induction qs with
    | nil => intro s; rfl
    | cons q' qs ih => intro s; simp only [List.map_cons, PState.run, List.foldl_cons] at ih ⊢; rw [ih]; exact ask_g s q'
  have hrun : (PState.init addrs).run (h ++ qs.map Op.query) = ((PState.init addrs).run h).run (qs.map Op.query) := by
    simp [PState.run, List.foldl_append]
  have hg' := hg qs ((PState.init addrs).run h)
  rw [query_fresh_acyclic addrs (h ++ qs.map Op.query) q rank (by rw [hrun, hg']; exact hwf) (by rw [hrun, hg']; exact hac),
      query_fresh_acyclic addrs h q rank hwf hac, fresh_is_cold, fresh_is_cold, hrun, hg']

/-! ### the full statement is false on cyclic graphs (known finding c08-cyclic-skip-false)

-- OPEN (false as stated; see `query_fresh_not_full`):
--   theorem query_fresh : ∀ addrs h q, wfHistory (PState.init addrs) (h ++ [.query q]) = true →
--     liveAnswer addrs h q = freshAnswer addrs h q
-/

/-- 4 nodes `q=0 ⇄ p=1`, `A1=2 → p`, `A2=3 → q`; `g` (binding 1) originates at `A1` (no sources) and at
`A2` (needs `h`, which has no origin); `p` and `q` carry a condition `c` (binding 2) that is produced
on the spot.  Asking `g` at `p` first explores `(q,{g})` while `(p,{g})` is on the stack, skips the way
back to `p` (`new_positions.size() > 1`) and memoises `(q,{g}) ↦ false`; the later query of `g` at `q`
recalls it, a fresh solver finds `q → p → A1`. -/
def cyclicHistory : List Op := [
  .newNode none, .connectNew 0 none, .newNode none, .newNode none,
  .connectTo 2 1, .connectTo 1 0, .connectTo 3 0,
  .newVar, .addBinding 0 0 none,
  .newVar, .addBinding 1 1 (some ([], 2)), .addOrigin 1 3 [0],
  .newVar, .addBinding 2 2 (some ([], 1)), .addOrigin 2 0 [],
  .setCond 1 (some 2), .setCond 0 (some 2),
  .query (.visible 1 1)]

set_option maxRecDepth 100000 in
theorem cyclic_witness :
    wfHistory (PState.init []) (cyclicHistory ++ [.query (.visible 1 0)]) = true ∧
    liveAnswer [] cyclicHistory (.visible 1 0) = .bool false ∧
    freshAnswer [] cyclicHistory (.visible 1 0) = .bool true := by decide +kernel

/-- **query_fresh is false in general**: on a cyclic graph the long-lived program and the fresh replica
disagree. -/
theorem query_fresh_not_full :
    ¬ (∀ (addrs : List Nat) (h : List Op) (q : Query),
        wfHistory (PState.init addrs) (h ++ [.query q]) = true →
        liveAnswer addrs h q = freshAnswer addrs h q) := by
  intro hall
  have h := hall [] cyclicHistory (.visible 1 0) cyclic_witness.1
  rw [cyclic_witness.2.1, cyclic_witness.2.2] at h
  exact absurd h (by decide)

/-! ### non-vacuity -/

/-- the two repaired witnesses (known_findings.json "fixed"): with the resets in place warm = fresh. -/
def condHistory : List Op := [
  .newNode none, .connectNew 0 none, .connectNew 1 none, .newVar, .addBinding 0 0 (some ([], 0)),
  .newVar, .addBinding 1 1 (some ([], 2)), .query (.has 2 [0]), .setCond 1 (some 1)]

set_option maxRecDepth 100000 in
example : wfHistory (PState.init []) condHistory = true ∧
    ((PState.init []).run (condHistory.take 8)).memo.isSome = true ∧   -- a solver exists before `setcond`
    ((PState.init []).run condHistory).memo = none ∧                     -- and is gone after it
    liveAnswer [] (condHistory.take 8) (.has 2 [0]) = .bool true ∧
    liveAnswer [] condHistory (.has 2 [0]) = .bool false ∧
    freshAnswer [] condHistory (.has 2 [0]) = .bool false := by decide +kernel

def pasteHistory : List Op := [
  .newNode none, .connectNew 0 none, .connectNew 1 none, .newVar, .addBinding 0 0 (some ([], 0)),
  .newVar, .addBinding 1 1 (some ([], 2)), .query (.visible 1 1), .pasteNewData 1 0 1]

set_option maxRecDepth 100000 in
example : wfHistory (PState.init []) pasteHistory = true ∧
    liveAnswer [] (pasteHistory.take 8) (.visible 1 1) = .bool false ∧
    ((PState.init []).run pasteHistory).memo = none ∧
    liveAnswer [] pasteHistory (.visible 1 1) = .bool true ∧
    freshAnswer [] pasteHistory (.visible 1 1) = .bool true := by decide +kernel

-- `query_fresh_acyclic` applies with a live, non-empty memo: an acyclic conditioned graph, three queries
def acyclicHistory : List Op := condHistory ++ [.query (.has 2 [0]), .query (.visible 1 2), .query (.filter 0 2 true)]

set_option maxRecDepth 100000 in
example : wfHistory (PState.init []) acyclicHistory = true ∧
    ((PState.init []).run acyclicHistory).g.wfB = true ∧ ((PState.init []).run acyclicHistory).g.forwardB = true ∧
    (((PState.init []).run acyclicHistory).memo.map (fun m => decide (m.length > 2))) = some true := by
  decide +kernel

set_option maxRecDepth 100000 in
example : liveAnswer [] acyclicHistory (.has 2 [0, 1]) = freshAnswer [] acyclicHistory (.has 2 [0, 1]) :=
  query_fresh_acyclic [] acyclicHistory _ _
    (Graph.wf_of_wfB _ (by decide +kernel)) (Graph.acyclicBy_of_forwardB _ (by decide +kernel))

-- the hypothesis of `mutation_resets_memo` is satisfiable with a live solver
set_option maxRecDepth 100000 in
example : let s := (PState.init []).run (condHistory.take 8)
    s.memo.isSome = true ∧ (s.step (.setCond 1 (some 1))).g ≠ s.g := by decide +kernel

-- an operation that changes nothing keeps the solver (so the theorem is not "everything resets")
set_option maxRecDepth 100000 in
example : let s := (PState.init []).run (condHistory.take 8)
    (s.step (.connectTo 0 1)).memo.isSome = true ∧ (s.step (.connectTo 0 1)).g = s.g := by decide +kernel

/-! ### the invalidation table is the one in the C++ text of the tree under test -/

/-- the table regenerated from typegraph.cc / typegraph.h / cfg.cc on this run (which functions call
`InvalidateSolver()`, under which guard, which write solver-visible state, who calls the helpers) is the table
the model was written against; every textual call was attributed to a function body. -/
theorem invalidate_sites_as_modelled :
    PytypeModel.Generated.InvalidateSites.sites = InvalidateSpec.expected ∧
    PytypeModel.Generated.InvalidateSites.attributedCalls = PytypeModel.Generated.InvalidateSites.totalCalls ∧
    InvalidateSpec.covered PytypeModel.Generated.InvalidateSites.sites = true := by
  decide +kernel

/-- the model's primitives invalidate exactly as the rows say: `NewCFGNode`, `AddOrigin`, `set_condition` always;
`ConnectTo` unless the edge is a self edge or a duplicate (then nothing changes at all);
`FindOrAddBindingHelper` only when the binding is new (otherwise nothing changes at all). -/
theorem model_invalidation_as_specified (s : PState) :
    (∀ c, (s.newNode c).memo = none) ∧
    (∀ b n ss, (s.addOrigin b n ss).memo = none) ∧
    (∀ n c, (s.setCond n c).memo = none) ∧
    (∀ a b, s.g.edgeIsNew a b = true → (s.connectTo a b).memo = none) ∧
    (∀ a b, s.g.edgeIsNew a b = false → s.connectTo a b = s) ∧
    (∀ v d, s.g.findBinding v d = none → (s.findOrAddBinding v d).1.memo = none) ∧
    (∀ v d b, s.g.findBinding v d = some b → s.findOrAddBinding v d = (s, b)) := by
  refine ⟨fun _ => rfl, fun _ _ _ => rfl, fun _ _ => rfl, ?_, ?_, ?_, ?_⟩
  · intro a b h; simp [PState.connectTo, h, PState.invalidate]
  · intro a b h; simp [PState.connectTo, h]
  · intro v d h; simp [PState.findOrAddBinding, h, PState.invalidate]
  · intro v d b h; simp [PState.findOrAddBinding, h]

end PytypeModel.Props.C08
