import PytypeModel.Shell.Outcome
import PytypeModel.Shell.Dispatch
import PytypeModel.Proofs.Shell

/-! # C15 — any compilable source is analysed to a result, never an internal failure

**What is proved here and what is not.**  The property's core — no exception escapes the VM for any
program — is a robustness claim about the whole of pytype and is *not* a theorem of any model smaller than
pytype.  It is explored by testing (harness/c15.py, stage K) and labelled as such.  The theorems below
cover the periphery exactly:

* the outcome classifier of `io.check_or_generate_pyi` (`outcome_total`, `reraises_only`,
  `compile_error_single`, `compile_src_line`, `internal_failure_never_analysed`);
* the opcode dispatch table, regenerated from /repo on every run (`dispatch_total`, `intrinsic_total`):
  the `KeyError`/"Unknown opcode"-free part of "never an internal failure".

Only property theorems and non-vacuity examples live here. -/
namespace PytypeModel.Props.C15
open PytypeModel.Shell
open PytypeModel.Generated.OpcodeDispatch

/-- Every stage result pytype raises *on purpose* is mapped to exactly one of: the analysis' own stub and
error report; the default stub with exactly one `python-compiler-error` at the line the stage reported;
the default stub with the skip-file note and an empty log; re-raise — the last only for `UsageError`.
`nofail` and `check` play no role on the declared sets. -/
theorem outcome_total (sr : StageResult) (nofail check : Bool) (h : sr.declared = true) :
    (sr = .ok ∧ outcome sr nofail check = .analysed)
    ∨ (∃ st e, sr = .raised st e ∧ e.isCompileFailure = true ∧
        outcome sr nofail check = .defaultStub .none [⟨compilerErrorName, errLine e.reportedLine⟩])
    ∨ (∃ st, sr = .raised st .skipFile ∧ outcome sr nofail check = .defaultStub .skipFile [])
    ∨ (∃ st, sr = .raised st .usage ∧ outcome sr nofail check = .reraise) := by
  cases sr with
  | ok => exact .inl ⟨rfl, rfl⟩
  | raised st e =>
    rcases declared_exc st e h with rfl | rfl | hc
    · exact .inr (.inr (.inr ⟨st, rfl, rfl⟩))
    · exact .inr (.inr (.inl ⟨st, rfl, rfl⟩))
    · refine .inr (.inl ⟨st, e, rfl, hc, ?_⟩)
      cases e <;> first | rfl | (simp [Exc.isCompileFailure] at hc)

/-- Outside the declared sets (an internal failure: any other `Exception`, or a `BaseException`) the shell
does exactly this: with `nofail` the failure is swallowed into the default stub (annotated with the
traceback unless `--check`), with an **empty** error log; without `nofail` it is re-raised.  A
`BaseException` is never caught. -/
theorem outcome_internal (st : Stage) (nofail check : Bool) :
    outcome (.raised st .other) nofail check
      = (if nofail then .defaultStub (if check then .none else .caught) [] else .reraise)
    ∧ outcome (.raised st .baseExc) nofail check = .reraise := ⟨rfl, rfl⟩

/-- Re-raise happens exactly for `UsageError`, for exceptions outside `Exception`, and for internal
failures when `nofail = false` — this is what the code does, stated as an iff. -/
theorem reraises_only (sr : StageResult) (nofail check : Bool) :
    outcome sr nofail check = .reraise ↔
      ∃ st, sr = .raised st .usage ∨ sr = .raised st .baseExc ∨ (sr = .raised st .other ∧ nofail = false) := by
  constructor
  · intro h
    cases sr with
    | ok => cases h
    | raised st e =>
      refine ⟨st, ?_⟩
      rw [outcome_raised] at h
      cases e <;> simp_all [compilerError]
  · rintro ⟨st, rfl | rfl | ⟨rfl, rfl⟩⟩ <;> rfl

/-- In every compile-failure branch (`CompileError`, `ConstantError`, `IndentationError`, libcst's
`ParserSyntaxError`, `SyntaxError`) the error log of the returned context contains exactly one error, of
class `python-compiler-error`, at the line the stage reported (`None` becomes 0), whatever the flags. -/
theorem compile_error_single (st : Stage) (e : Exc) (nofail check : Bool) (h : e.isCompileFailure = true) :
    ∃ errs, outcome (.raised st e) nofail check = .defaultStub .none errs ∧ errs.length = 1 ∧
      errs.map (·.name) = ["python-compiler-error"] ∧ errs.map (·.line) = [errLine e.reportedLine] := by
  cases e <;> first
    | exact ⟨_, rfl, rfl, rfl, rfl⟩
    | (simp [Exc.isCompileFailure] at h)

/-- `compile_src`: a CPython compile failure located at line `n` is reported at line `n`; an unlocated one
(no `(file, line N)` suffix in `str(err)`) at line 1 — never at line 0. -/
theorem compile_src_line (f : CompileFailure) (nofail check : Bool) :
    outcome (compileStage f) nofail check
      = .defaultStub .none [⟨"python-compiler-error", compileErrorLine f⟩]
    ∧ (∀ n, f = .located n → compileErrorLine f = n)
    ∧ (f = .unlocated → compileErrorLine f = 1) := by
  refine ⟨rfl, ?_, ?_⟩
  · rintro n rfl; rfl
  · rintro rfl; rfl

/-- An internal failure is never turned into an `analysed` result, and without `nofail` it is always
visible to the caller (so the testing stage K cannot miss one by looking at `generate_pyi`'s raise). -/
theorem internal_failure_never_analysed (st : Stage) (nofail check : Bool) :
    outcome (.raised st .other) nofail check ≠ .analysed
    ∧ outcome (.raised st .other) false check = .reraise := by
  refine ⟨?_, rfl⟩
  cases nofail <;> simp [outcome_raised]

/-- The three outcome shapes are pairwise distinct, so "exactly one" in `outcome_total` is meaningful. -/
theorem outcome_shapes_disjoint (i : Info) (es : List ErrorEntry) :
    Result.analysed ≠ .defaultStub i es ∧ Result.analysed ≠ .reraise ∧ Result.defaultStub i es ≠ .reraise :=
  ⟨(by intro h; cases h), (by intro h; cases h), (by intro h; cases h)⟩

/-- The table check, over the tables regenerated from /repo: for every Python version pytype accepts,
every opcode name the bytecode reader can produce (and the two opcodes opcodes.py synthesises) has an
`Opcode` class and a `byte_*` handler on the VM. -/
theorem dispatch_table_ok : allDispatch = true := by decide +kernel

theorem intrinsic_table_ok : allIntrinsics = true := by decide +kernel

/-- `run_instruction` never raises "Unknown opcode" and `_make_opcodes` never raises KeyError:
every producible opcode of every supported version dispatches to a handler. -/
theorem dispatch_total (v : Nat) (table : List (Nat × Nat)) (hv : (v, table) ∈ tables)
    (name : Nat) (hn : name ∈ producibleOf table) : ∃ h, dispatch name = .handler h := by
  have h := dispatch_table_ok
  unfold allDispatch at h
  rw [List.all_eq_true] at h
  have h2 := h (v, table) hv
  rw [List.all_eq_true] at h2
  have h3 := h2 name hn
  cases hd : dispatch name with
  | handler n => exact ⟨n, rfl⟩
  | keyError => simp [hd, Dispatch.isHandler] at h3
  | vmError => simp [hd, Dispatch.isHandler] at h3

/-- `byte_CALL_INTRINSIC_1/2` never raise "Unknown intrinsic function". -/
theorem intrinsic_total (name : Nat) (hn : name ∈ intrinsics) :
    ∃ h, dispatchIntrinsic name = .handler h := by
  have h := intrinsic_table_ok
  unfold allIntrinsics at h
  rw [List.all_eq_true] at h
  have h3 := h name hn
  cases hd : dispatchIntrinsic name with
  | handler n => exact ⟨n, rfl⟩
  | keyError => simp [hd, Dispatch.isHandler] at h3
  | vmError => simp [hd, Dispatch.isHandler] at h3

/-! ## non-vacuity -/

-- the declared sets are inhabited by every kind, and each lands where `outcome_total` says
example : (StageResult.raised .compile (.compileErr 3)).declared = true
    ∧ outcome (.raised .compile (.compileErr 3)) false false
        = .defaultStub .none [⟨"python-compiler-error", 3⟩] := ⟨rfl, rfl⟩
example : outcome (.raised .directive (.syntax none)) true true
    = .defaultStub .none [⟨"python-compiler-error", 0⟩] := rfl
example : outcome (.raised .fold (.constant (some 7))) false false
    = .defaultStub .none [⟨"python-compiler-error", 7⟩] := rfl
example : outcome (.raised .directive .skipFile) false false = .defaultStub .skipFile [] := rfl
example : outcome (.raised .read .usage) true false = .reraise := rfl
-- an internal failure in the VM: swallowed only under nofail
example : outcome (.raised .run .other) true false = .defaultStub .caught [] := rfl
example : outcome (.raised .run .other) true true = .defaultStub .none [] := rfl
example : outcome (.raised .run .other) false false = .reraise := rfl
example : (StageResult.raised .run .other).declared = false := rfl
-- an IndentationError is picked up by its own clause although the SyntaxError clause also matches
example : firstClause (.indentation (some 2)) = some .indentErr
    ∧ Clause.isInstance .syntaxErr (.indentation (some 2)) = true := ⟨rfl, rfl⟩
-- the tables are not empty and the 3.12 table really contains dispatchable names
example : tables.length = 5 := by decide +kernel
example : (12, table3_12) ∈ tables := by simp [tables]
example : Id.RETURN_CONST ∈ producibleOf table3_12 := by decide +kernel
example : dispatch Id.RETURN_CONST = .handler Id.RETURN_CONST := by decide +kernel
example : Id.SETUP_EXCEPT_311 ∈ producibleOf table3_12 := by decide +kernel
example : Id.INTRINSIC_TYPEALIAS ∈ intrinsics := by decide +kernel
-- the check is not trivially true: a name without handler is rejected, EXTENDED_ARG is such a name
-- (it has a class but no handler, and is excluded from `producibleOf` only because the reader folds it)
example : dispatch Id.EXTENDED_ARG = .vmError := by decide +kernel
example : dispatch names.length = .keyError := by decide +kernel
example : Id.EXTENDED_ARG ∉ producibleOf table3_12 := by decide +kernel

end PytypeModel.Props.C15
