import PytypeModel.Proofs.BooleqSimp

/-! # C17 — boolean-equation terms are built and simplified to logically equivalent terms

Model: `PytypeModel/Bool/Booleq.lean` (`booleq.py`: `TRUE/FALSE/_Eq/_And/_Or`, `simplify_exprs`,
`Eq/And/Or`, the three `simplify` methods).  The children list of `and`/`or` stands for the Python set in
its iteration order; every statement below is for **all** lists, hence all iteration orders, all
arities, all nesting depths, all names.  `eval v t` is the truth value of `t` when name `s` denotes `v s`;
`val vars ρ` is the valuation that reads variables from `ρ` and lets every other name denote itself.

Only property theorems and non-vacuity examples live here. -/
namespace PytypeModel.Props.C17
open PytypeModel.Booleq

/-! ## constructors ≡ plain connectives -/

/-- `And(exprs)` is the conjunction of `exprs` under every valuation. -/
theorem eval_mkAnd (v : String → String) (es : List Term) :
    eval v (mkAnd es) = es.all (eval v) := by
  simp [mkAnd, eval_simplifyExprs, kall]

/-- `Or(exprs)` is the disjunction of `exprs` under every valuation. -/
theorem eval_mkOr (v : String → String) (es : List Term) :
    eval v (mkOr es) = es.any (eval v) := by
  simp [mkOr, eval_simplifyExprs, kall]

/-- `Eq(l, r)` holds exactly when both sides denote the same value (whatever the operand order,
including `Eq(x, x) = TRUE`). -/
theorem eval_mkEq (v : String → String) (l r : String) :
    eval v (mkEq l r) = (v l == v r) := by
  unfold mkEq
  split
  · rename_i h; subst h; simp [eval]
  · split
    · simp [eval]
    · simp only [eval]; exact BEq.comm

/-- the same for variables/values: `val vars ρ` -/
theorem eval_mkEq_val (vars : List String) (ρ : String → String) (l r : String) :
    eval (val vars ρ) (mkEq l r) = (val vars ρ l == val vars ρ r) := eval_mkEq _ l r

/-- A whole term rebuilt bottom-up through `Eq`/`And`/`Or` means what the raw connectives mean. -/
theorem eval_build (v : String → String) (t : Term) : eval v (build t) = eval v t := by
  induction t using Term.ind with
  | tt => rfl
  | ff => rfl
  | eq l r => simp only [build, eval_mkEq, eval]
  | and es ih =>
    simp only [build, buildList_eq, eval_mkAnd, eval, evalAll_eq, List.all_map]
    rw [Bool.eq_iff_iff]
    simp only [List.all_eq_true, Function.comp]
    exact ⟨fun h e he => ih e he ▸ h e he, fun h e he => (ih e he).symm ▸ h e he⟩
  | or es ih =>
    simp only [build, buildList_eq, eval_mkOr, eval, evalAny_eq, List.any_map]
    rw [Bool.eq_iff_iff]
    simp only [List.any_eq_true, Function.comp]
    exact ⟨fun ⟨e, he, h⟩ => ⟨e, he, ih e he ▸ h⟩, fun ⟨e, he, h⟩ => ⟨e, he, (ih e he).symm ▸ h⟩⟩

/-! ## `__eq__`/set de-duplication cannot change meaning -/

/-- Terms that Python's `__eq__` identifies (set equality on children, recursively) have the same truth
value under every valuation. -/
theorem beq_sound (v : String → String) (a b : Term) (h : a.beq b = true) : eval v a = eval v b :=
  PytypeModel.Booleq.beq_sound v a b h

/-! ## normal form: TRUE/FALSE absorbed, nesting flattened, duplicates removed -/

/-- what `normal` says about an `_And`: ≥ 2 children, pairwise different under `__eq__`, none of them
`TRUE`, `FALSE` or an `_And`, each hereditarily normal. -/
theorem normal_and_shape (cs : List Term) (h : (Term.and cs).normal = true) :
    2 ≤ cs.length ∧ cs.Pairwise (fun a b => a.beq b = false) ∧
      ∀ c ∈ cs, c ≠ .tt ∧ c ≠ .ff ∧ (∀ ds, c ≠ .and ds) ∧ c.normal = true := by
  simp only [Term.normal, Bool.and_eq_true, decide_eq_true_eq] at h
  refine ⟨h.1.1, (distinctB_iff cs).1 h.1.2, ?_⟩
  intro c hc
  obtain ⟨hn, h1, h2, h3⟩ := (childrenOK_iff _ _).1 h.2 c hc
  refine ⟨?_, ?_, ?_, hn⟩
  · rintro rfl; simp [Term.isTT] at h1
  · rintro rfl; simp [Term.isFF] at h2
  · rintro ds rfl; simp [Kind.children?] at h3

/-- dually for `_Or` -/
theorem normal_or_shape (cs : List Term) (h : (Term.or cs).normal = true) :
    2 ≤ cs.length ∧ cs.Pairwise (fun a b => a.beq b = false) ∧
      ∀ c ∈ cs, c ≠ .tt ∧ c ≠ .ff ∧ (∀ ds, c ≠ .or ds) ∧ c.normal = true := by
  simp only [Term.normal, Bool.and_eq_true, decide_eq_true_eq] at h
  refine ⟨h.1.1, (distinctB_iff cs).1 h.1.2, ?_⟩
  intro c hc
  obtain ⟨hn, h1, h2, h3⟩ := (childrenOK_iff _ _).1 h.2 c hc
  refine ⟨?_, ?_, ?_, hn⟩
  · rintro rfl; simp [Term.isTT] at h1
  · rintro rfl; simp [Term.isFF] at h2
  · rintro ds rfl; simp [Kind.children?] at h3

/-- `Eq` returns `TRUE` or an `_Eq` with the strictly larger string on the left. -/
theorem mkEq_normal (l r : String) : (mkEq l r).normal = true := mkEq_normal' l r

/-- `And` of normal terms is `TRUE`, `FALSE`, one of the (flattened) operands, or a normal `_And`. -/
theorem mkAnd_normal (es : List Term) (h : ∀ e ∈ es, e.normal = true) : (mkAnd es).normal = true :=
  simplifyExprs_normal .conj es h

theorem mkOr_normal (es : List Term) (h : ∀ e ∈ es, e.normal = true) : (mkOr es).normal = true :=
  simplifyExprs_normal .disj es h

/-- every term built through the public constructors only is in normal form -/
theorem build_normal (t : Term) : (build t).normal = true := build_normal' t

/-- `simplify` keeps the normal form -/
theorem simplify_normal (T : Table) (t t' : Term) (hn : t.normal = true)
    (h : simplify T t = .ok t') : t'.normal = true := simplify_normal' T t hn t' h

/-! ## `simplify` preserves the truth value on table-consistent assignments -/

/-- every variable has an entry in the table and its value is among the still-possible ones -/
def Consistent (T : Table) (vars : List String) (ρ : String → String) : Prop :=
  ∀ x ∈ vars, ∃ vs, T.lookup x = some vs ∧ ρ x ∈ vs

/-- If every variable is a key of the table and `ρ` picks, for every variable, one of the values the table
still allows, a successfully simplified term has the same truth value as the original.  (No
assumption on the order of names, on the shape of `t`, or on which side of an `_Eq` the variable is.) -/
theorem simplify_sound (T : Table) (vars : List String) (ρ : String → String)
    (hc : Consistent T vars ρ) (t t' : Term) (h : simplify T t = .ok t') :
    eval (val vars ρ) t' = eval (val vars ρ) t := by
  refine simplify_sound_of_eq T _ ?_ t t' h
  intro l r u hu
  refine simplifyEq_sound T vars ρ ?_ ?_ l r u hu
  · intro x hx
    obtain ⟨vs, hvs, _⟩ := hc x hx
    simp [hvs]
  · intro x hx vs hvs
    obtain ⟨ws, hws, hm⟩ := hc x hx
    rw [hvs] at hws
    cases hws
    exact hm

/-- The hypothesis "every variable is a key" is needed: with `~x` missing from the table,
`~y == ~x` is simplified to `FALSE` although `ρ` makes it true. -/
theorem simplify_sound_unkeyed_var_not_full :
    ¬ ∀ (T : Table) (vars : List String) (ρ : String → String),
      (∀ x ∈ vars, ∀ vs, T.lookup x = some vs → ρ x ∈ vs) → ∀ t t', simplify T t = .ok t' →
        eval (val vars ρ) t' = eval (val vars ρ) t := by
  intro h
  have := h [("~y", ["1"])] ["~x", "~y"] (fun _ => "1")
    (by intro x _ vs hl
        by_cases hx : x = "~y"
        · subst hx; simp [List.lookup] at hl; simp [← hl]
        · have hb : (x == "~y") = false := by simpa using hx
          simp only [List.lookup, hb] at hl
          cases hl)
    (.eq "~y" "~x") .ff rfl
  revert this
  decide

/-- When no child raises, `_And.simplify` is `And` of the simplified children … -/
theorem simplify_and_eq_mkAnd (T : Table) (es es' : List Term) (h : simplifyAll T es = .ok es') :
    simplify T (.and es) = .ok (mkAnd es') := by
  simp only [simplify, mkAnd, simplifyExprs]
  exact simplifyList_eq_collect T .conj es [] es' h

/-- … and `_Or.simplify` is `Or` of the simplified children. -/
theorem simplify_or_eq_mkOr (T : Table) (es es' : List Term) (h : simplifyAll T es = .ok es') :
    simplify T (.or es) = .ok (mkOr es') := by
  simp only [simplify, mkOr, simplifyExprs]
  exact simplifyList_eq_collect T .disj es [] es' h

/-- Under the docstring's convention (the value sorts below the variable, e.g. variables start with
`~`), `Eq(x, c).simplify` really prunes: it is `FALSE` exactly when `c` is no longer possible for `x`. -/
theorem simplify_mkEq_prunes (T : Table) (x c : String) (vs : List String) (hlt : c < x)
    (hx : T.lookup x = some vs) (hc : T.lookup c = none) :
    simplify T (mkEq x c) = .ok (if vs.contains c then .eq x c else .ff) := by
  have hne : x ≠ c := by rintro rfl; exact String.lt_irrefl _ hlt
  simp [mkEq, hne, hlt, simplify, simplifyEq, hx, hc]

/-! ## exactly when `simplify` raises `KeyError` -/

/-- `_Eq.simplify` raises iff neither side is a key of the table. -/
theorem simplify_eq_error_iff (T : Table) (l r : String) :
    simplify T (.eq l r) = .error .keyError ↔ T.lookup r = none ∧ T.lookup l = none := by
  simp only [simplify]
  rw [simplifyEq_error_iff]
  simp

/-- `_And.simplify` raises iff some child raises and no child before it (in the set's iteration order)
simplified to `FALSE` — the lazy generator stops at the first `FALSE`. -/
theorem simplify_and_error_iff (T : Table) (es : List Term) :
    simplify T (.and es) = .error .keyError ↔
      ∃ pre e post, es = pre ++ e :: post ∧ simplify T e = .error .keyError ∧
        ∀ p ∈ pre, ∃ p', simplify T p = .ok p' ∧ p'.isFF = false := by
  simp only [simplify]
  exact simplifyList_error_iff T .conj .keyError es []

/-- `_Or.simplify` raises iff some child raises and no child before it simplified to `TRUE`. -/
theorem simplify_or_error_iff (T : Table) (es : List Term) :
    simplify T (.or es) = .error .keyError ↔
      ∃ pre e post, es = pre ++ e :: post ∧ simplify T e = .error .keyError ∧
        ∀ p ∈ pre, ∃ p', simplify T p = .ok p' ∧ p'.isTT = false := by
  simp only [simplify]
  exact simplifyList_error_iff T .disj .keyError es []

/-- `TRUE`/`FALSE` never raise. -/
theorem simplify_const (T : Table) : simplify T .tt = .ok .tt ∧ simplify T .ff = .ok .ff := ⟨rfl, rfl⟩

/-- An error always comes from an `_Eq` with neither side in the table … -/
theorem simplify_error_imp_unkeyed (T : Table) (t : Term) (x : Err) (h : simplify T t = .error x) :
    hasUnkeyed T t = true := simplify_error_unkeyed T t x h

/-- … so a term in which every `_Eq` has a keyed side is always simplified. -/
theorem simplify_ok_of_keyed (T : Table) (t : Term) (h : hasUnkeyed T t = false) :
    ∃ t', simplify T t = .ok t' := by
  cases hs : simplify T t with
  | ok t' => exact ⟨t', rfl⟩
  | error x => rw [simplify_error_unkeyed T t x hs] at h; cases h

/-- The naive converse ("raises whenever some `_Eq` is unkeyed") is **false** of the code: a `FALSE`
child met earlier ends the loop.  Witness `And({~x == 1, 2 == 1})` with `~x ∈ {2}`. -/
theorem simplify_error_iff_unkeyed_not_full :
    ¬ ∀ (T : Table) (t : Term), simplify T t = .error .keyError ↔ hasUnkeyed T t = true := by
  intro h
  have := (h [("~x", ["2"])] (.and [.eq "~x" "1", .eq "2" "1"])).2 (by decide)
  exact absurd this (by rw [show simplify [("~x", ["2"])] (.and [.eq "~x" "1", .eq "2" "1"]) = .ok .ff from rfl]; simp)

/-- It holds when no child simplifies to its connective's stop term (decidable guard `neverStops`). -/
theorem simplify_error_iff_unkeyed_partial (T : Table) (t : Term) (hg : neverStops T t = true) :
    simplify T t = .error .keyError ↔ hasUnkeyed T t = true :=
  ⟨simplify_error_unkeyed T t _, simplify_error_of_unkeyed T t hg⟩

/-! ## non-vacuity -/

def demoT : Table := [("~x", ["1", "2"]), ("~y", ["2"])]
def demoVars : List String := ["~x", "~y"]
def demoρ : String → String := fun s => if s = "~x" then "2" else "2"
/-- `And([Or([Eq(1,~x), Eq(~x,~y), FALSE]), Eq(~y,2), TRUE, And([Eq(~y,1), Eq(2,~y)])])` -/
def demoRaw : Term :=
  .and [.or [.eq "1" "~x", .eq "~x" "~y", .ff], .eq "~y" "2", .tt, .and [.eq "~y" "1", .eq "2" "~y"]]

example : Consistent demoT demoVars demoρ := by
  intro x hx
  simp only [demoVars, List.mem_cons, List.not_mem_nil, or_false] at hx
  rcases hx with rfl | rfl
  · exact ⟨["1", "2"], by decide, by decide⟩
  · exact ⟨["2"], by decide, by decide⟩

-- the constructors flatten, absorb TRUE/FALSE, drop the duplicate `~y == 2` and order the operands of `Eq`
example : build demoRaw = .and [.or [.eq "~x" "1", .eq "~y" "~x"], .eq "~y" "2", .eq "~y" "1"] := rfl
example : (build demoRaw).normal = true := by decide
example : demoRaw.normal = false := by decide
-- simplify prunes `~y == 1` (1 is not possible for ~y), so the conjunction becomes FALSE
example : simplify demoT (build demoRaw) = .ok .ff := rfl
example : eval (val demoVars demoρ) (build demoRaw) = false := by decide
-- a satisfiable one: `~x == 3` is pruned, the rest is kept; both sides evaluate to true
def demoRaw2 : Term := .or [.and [.eq "~x" "3", .eq "~y" "2"], .eq "~x" "~y", .eq "~x" "1"]
example : simplify demoT (build demoRaw2) = .ok (.or [.eq "~y" "~x", .eq "~x" "1"]) := rfl
example : eval (val demoVars demoρ) (build demoRaw2) = true := by decide
example : eval (val demoVars demoρ) (.or [.eq "~y" "~x", .eq "~x" "1"]) = true := by decide
-- `__eq__` identifies differently ordered / duplicated child lists
example : (Term.and [.eq "~x" "1", .eq "~y" "2"]).beq (.and [.eq "~y" "2", .eq "~x" "1", .eq "~y" "2"]) = true := by
  decide
-- the error cases are inhabited, in both iteration orders of the witness set
example : simplify demoT (.eq "2" "1") = .error .keyError := rfl
example : simplify [("~x", ["2"])] (.and [.eq "~x" "1", .eq "2" "1"]) = .ok .ff := rfl
example : simplify [("~x", ["2"])] (.and [.eq "2" "1", .eq "~x" "1"]) = .error .keyError := rfl
example : neverStops demoT (.or [.eq "~y" "~x", .eq "~x" "1"]) = true ∧
    hasUnkeyed demoT (.or [.eq "~y" "~x", .eq "~x" "1"]) = false := by decide
example : neverStops demoT (.or [.eq "~y" "~x", .eq "2" "1"]) = true ∧
    hasUnkeyed demoT (.or [.eq "~y" "~x", .eq "2" "1"]) = true := by decide
example : neverStops [("~x", ["2"])] (.and [.eq "~x" "1", .eq "2" "1"]) = false := by decide
example : simplify demoT (mkEq "1" "~x") = .ok (.eq "~x" "1") ∧ simplify demoT (mkEq "3" "~x") = .ok .ff :=
  ⟨rfl, rfl⟩

end PytypeModel.Props.C17
