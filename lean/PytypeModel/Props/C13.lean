import PytypeModel.Proofs.ArgBindMain
import PytypeModel.Proofs.ArgBindSelf
import PytypeModel.Proofs.KwReg
import PytypeModel.Proofs.ArgBindPytd

/-! # C13 — calls bind arguments exactly as CPython does

`mapArgs` is the model of pytype's `SignedFunction._map_args` (after the repair 3ee955c),
`cpyBind` the model of CPython's `initialize_locals`.  `Sig.WF` = distinct parameter names (enforced
by the Python compiler), `Call.WF` = no repeated keyword (enforced by the Python grammar); calls
with `*`/`**` arguments are outside the property's quantifier and not expressible in `Call`.
All theorems are for signatures and calls of **any** size.

Only property theorems and non-vacuity examples live here. -/
namespace PytypeModel.Props.C13
open PytypeModel.ArgBind

/-- pytype's outcome — no error / keyword error / arity error — is CPython's outcome. -/
theorem outcome_same (s : Sig) (c : Call) (hs : s.WF) (hc : c.WF) :
    outcomeM (mapArgs s c) = outcomeC (cpyBind s c) := by
  have hd := hs.disj
  by_cases hk : KwCond s c.kws (positional s c)
  · rw [mapArgs_normal s c hd hk, cpyBind_of_cond s c hc hk]
    have hm := hasMissing_iff s c hd
    by_cases h1 : hasMissing s c = true
    · have hne : s.params.any (cpyUnfilled s (cpyBound s c)) = true ∨
          s.kwonly.any (cpyUnfilled s (cpyBound s c)) = true := hm.1 h1
      by_cases h2 : (decide (c.npos > s.params.length) && s.varargs.isNone) = true
      · simp [h1, h2, outcomeM, outcomeC, BindErr.cls, CpyErr.cls]
      · rcases hne with h3 | h3
        · simp [h1, h2, h3, outcomeM, outcomeC, BindErr.cls, CpyErr.cls]
        · by_cases h4 : s.params.any (cpyUnfilled s (cpyBound s c)) = true
          · simp [h1, h2, h4, outcomeM, outcomeC, BindErr.cls, CpyErr.cls]
          · simp [h1, h2, h3, h4, outcomeM, outcomeC, BindErr.cls, CpyErr.cls]
    · have h3 : ¬ s.params.any (cpyUnfilled s (cpyBound s c)) = true := fun h => h1 (hm.2 (Or.inl h))
      have h4 : ¬ s.kwonly.any (cpyUnfilled s (cpyBound s c)) = true := fun h => h1 (hm.2 (Or.inr h))
      by_cases h2 : (decide (c.npos > s.params.length) && s.varargs.isNone) = true
      · simp [h1, h2, outcomeM, outcomeC, BindErr.cls, CpyErr.cls]
      · simp [h1, h2, h3, h4, outcomeM, outcomeC]
  · obtain ⟨e, he, hcls⟩ := mapArgs_of_not_cond s c hd hk
    obtain ⟨e', he', hcls'⟩ := cpyBind_of_not_cond s c hc hk
    rw [he, he']
    simp [outcomeM, outcomeC, hcls, hcls']

/-- **bind_ok_iff** (full strength): pytype reports an arity or keyword error at the call
iff CPython raises TypeError while binding the arguments. -/
theorem bind_ok_iff (s : Sig) (c : Call) (hs : s.WF) (hc : c.WF) :
    (∃ d, mapArgs s c = .ok d) ↔ (∃ d', cpyBind s c = .ok d') := by
  have h := outcome_same s c hs hc
  constructor
  · rintro ⟨d, hd⟩
    rw [hd] at h
    cases hc' : cpyBind s c with
    | ok d' => exact ⟨d', rfl⟩
    | error e => rw [hc'] at h; cases e <;> simp [outcomeM, outcomeC, CpyErr.cls] at h
  · rintro ⟨d', hd'⟩
    rw [hd'] at h
    cases hm : mapArgs s c with
    | ok d => exact ⟨d, rfl⟩
    | error e => rw [hm] at h; cases e <;> simp [outcomeM, outcomeC, BindErr.cls] at h

/-- the same fact in terms of errors: pytype raises one of its four argument errors iff CPython
raises one of its six TypeErrors, and the class (keyword / arity) is the same. -/
theorem bind_err_iff (s : Sig) (c : Call) (hs : s.WF) (hc : c.WF) :
    (∃ e, mapArgs s c = .error e) ↔ (∃ e', cpyBind s c = .error e') := by
  have h := bind_ok_iff s c hs hc
  constructor
  · rintro ⟨e, he⟩
    cases hc' : cpyBind s c with
    | error e' => exact ⟨e', rfl⟩
    | ok d' => obtain ⟨d, hd⟩ := h.2 ⟨d', hc'⟩; rw [hd] at he; cases he
  · rintro ⟨e', he'⟩
    cases hm : mapArgs s c with
    | error e => exact ⟨e, rfl⟩
    | ok d => obtain ⟨d', hd'⟩ := h.1 ⟨d, hm⟩; rw [hd'] at he'; cases he'

/-- **bind_same** (full strength): when binding succeeds, every name of the callee's frame
(parameters, `*args`, `**kwargs`) receives the argument CPython gives it. -/
theorem bind_same (s : Sig) (c : Call) (hs : s.WF) (hc : c.WF) (d d' : Dict)
    (hm : mapArgs s c = .ok d) (hp : cpyBind s c = .ok d') :
    ∀ p ∈ s.allNames, d.lookup p = d'.lookup p := by
  have hd := hs.disj
  by_cases hk : KwCond s c.kws (positional s c)
  · rw [mapArgs_normal s c hd hk] at hm
    rw [cpyBind_of_cond s c hc hk] at hp
    by_cases h1 : hasMissing s c = true
    · simp [h1] at hm
    · by_cases h2 : (decide (c.npos > s.params.length) && s.varargs.isNone) = true
      · simp [h1, h2] at hm
      · simp only [h1, h2, Bool.false_eq_true, ↓reduceIte, Except.ok.injEq] at hm
        have hm1 : hasMissing s c = false := by simpa using h1
        have h34 := hasMissing_iff s c hd
        have h3 : ¬ s.params.any (cpyUnfilled s (cpyBound s c)) = true := fun h => h1 (h34.2 (Or.inl h))
        have h4 : ¬ s.kwonly.any (cpyUnfilled s (cpyBound s c)) = true := fun h => h1 (h34.2 (Or.inr h))
        simp only [h2, h3, h4, Bool.false_eq_true, ↓reduceIte, Except.ok.injEq] at hp
        subst hm
        subst hp
        exact fun p hpn => results_lookup_same s c hd hm1 p hpn
  · obtain ⟨e, he, _⟩ := mapArgs_of_not_cond s c hd hk
    rw [he] at hm
    cases hm

/-- CPython's frame lists every name of the signature exactly once, in order — so the lookups of
`bind_same` on the CPython side are the frame slots themselves (and are never `none`). -/
theorem cpy_binds_every_name (s : Sig) (c : Call) (hc : c.WF) (d' : Dict)
    (hp : cpyBind s c = .ok d') : d'.map Prod.fst = s.allNames := by
  by_cases hk : KwCond s c.kws (positional s c)
  · rw [cpyBind_of_cond s c hc hk] at hp
    split at hp
    · cases hp
    · split at hp
      · cases hp
      · split at hp
        · cases hp
        · cases hp
          exact specResult_keys s c
  · obtain ⟨e, he, _⟩ := cpyBind_of_not_cond s c hc hk
    rw [he] at hp
    cases hp

/-! ### error kinds
The *class* of the error always agrees (`outcome_same`).  The exact kind agrees in the two
directions below; it cannot agree in general because CPython checks "too many positional" before
"missing" while `_map_args` checks `MissingParameter` before `WrongArgCount` (both are arity errors,
the property does not distinguish them): `err_kind_not_always_same`. -/

/-- pytype says wrong-arg-count only when CPython says "takes N positional arguments but M given" -/
theorem wrongArgCount_exact (s : Sig) (c : Call) (hs : s.WF) (hc : c.WF)
    (h : mapArgs s c = .error .wrongArgCount) : cpyBind s c = .error .tooManyPositional := by
  have hd := hs.disj
  by_cases hk : KwCond s c.kws (positional s c)
  · rw [mapArgs_normal s c hd hk] at h
    rw [cpyBind_of_cond s c hc hk]
    by_cases h1 : hasMissing s c = true
    · simp [h1] at h
    · by_cases h2 : (decide (c.npos > s.params.length) && s.varargs.isNone) = true
      · simp [h2]
      · simp [h1, h2] at h
  · obtain ⟨e, he, hcls⟩ := mapArgs_of_not_cond s c hd hk
    rw [he] at h
    cases h
    cases hcls

/-- CPython says "missing required argument" only when pytype says missing-parameter -/
theorem missing_exact (s : Sig) (c : Call) (hs : s.WF) (hc : c.WF)
    (h : cpyBind s c = .error .missingPositional ∨ cpyBind s c = .error .missingKwonly) :
    mapArgs s c = .error .missingParameter := by
  have hd := hs.disj
  by_cases hk : KwCond s c.kws (positional s c)
  · rw [mapArgs_normal s c hd hk]
    rw [cpyBind_of_cond s c hc hk] at h
    have hm := hasMissing_iff s c hd
    by_cases h2 : (decide (c.npos > s.params.length) && s.varargs.isNone) = true
    · simp [h2] at h
    · by_cases h3 : s.params.any (cpyUnfilled s (cpyBound s c)) = true
      · simp [hm.2 (Or.inl h3)]
      · by_cases h4 : s.kwonly.any (cpyUnfilled s (cpyBound s c)) = true
        · simp [hm.2 (Or.inr h4)]
        · simp [h2, h3, h4] at h
  · obtain ⟨e, he, hcls⟩ := cpyBind_of_not_cond s c hc hk
    rw [he] at h
    rcases h with h | h <;> cases h <;> cases hcls

/-- a keyword error of pytype is a keyword error of CPython and vice versa (special case of
`outcome_same`, stated for the four keyword kinds) -/
theorem keyword_error_iff (s : Sig) (c : Call) (hs : s.WF) (hc : c.WF) :
    (mapArgs s c = .error .duplicateKeyword ∨ mapArgs s c = .error .wrongKeywordArgs) ↔
    (cpyBind s c = .error .multipleValues ∨ cpyBind s c = .error .unexpectedKeyword ∨
      cpyBind s c = .error .posonlyAsKeyword) := by
  have h := outcome_same s c hs hc
  constructor
  · intro hm
    have : outcomeC (cpyBind s c) = .keywordError := by
      rw [← h]; rcases hm with hm | hm <;> rw [hm] <;> rfl
    cases hc' : cpyBind s c with
    | ok d => rw [hc'] at this; cases this
    | error e => rw [hc'] at this; cases e <;> simp [outcomeC, CpyErr.cls] at this ⊢
  · intro hm
    have : outcomeM (mapArgs s c) = .keywordError := by
      rw [h]; rcases hm with hm | hm | hm <;> rw [hm] <;> rfl
    cases hc' : mapArgs s c with
    | ok d => rw [hc'] at this; cases this
    | error e => rw [hc'] at this; cases e <;> simp [outcomeM, BindErr.cls] at this ⊢

/-- `def h(a, *, k)`; `h(1, 2)`: pytype reports missing-parameter `k`, CPython "takes 1
positional argument but 2 were given" — same class, different kind. -/
theorem err_kind_not_always_same :
    ∃ (s : Sig) (c : Call), s.WF ∧ c.WF ∧ mapArgs s c = .error .missingParameter ∧
      cpyBind s c = .error .tooManyPositional :=
  ⟨⟨[], [0], none, [1], none, []⟩, ⟨2, []⟩, by decide, by decide, by decide, by decide⟩

/-! ### methods, classmethods, constructors: receiver insertion -/

/-- `o.m(args)` against `def m(self, <s>)` (`self` positional-or-keyword, i.e. `s` has no
positional-only parameter): same error as binding `(args)` against `<s>`, or `self ↦ receiver`
(positional argument 0) and every other name gets the same argument (indices shifted by one). -/
theorem method_bind (me : Name) (s : Sig) (c : Call) (hpo : s.posonly = [])
    (hfresh : me ∉ s.allNames) (hdf : me ∉ s.defaults) (hk : me ∉ c.kws) :
    SelfRel me (mapArgs s c) (mapArgs (s.selfPoskw me) c.withReceiver) :=
  (selfPoskw_ext me s hpo hfresh hdf).mapArgs hk

/-- the same with a positional-only receiver: `def m(self, x, /, y)`, `def m(self, /, y)`. -/
theorem method_bind_posonly (me : Name) (s : Sig) (c : Call)
    (hfresh : me ∉ s.allNames) (hdf : me ∉ s.defaults) (hk : me ∉ c.kws) :
    SelfRel me (mapArgs s c) (mapArgs (s.selfPosonly me) c.withReceiver) :=
  (selfPosonly_ext me s hfresh hdf).mapArgs hk

/-! ### the bound call as pytype performs it (`BoundFunction.call`)
pytype prepends the receiver only when the function has at least one positional parameter.
Full-strength statements `bound_outcome_same` / `bound_same` (no guard) are **false**:
`class C: def z(): ...; C().z()` is accepted (CPython: takes 0 positional arguments but 1 was
given), and with `def n(*va)` the receiver is missing from `va`.  Known finding
c13-receiver-dropped-no-positional. -/

/-- `def z(): …` as a method, called `o.z()` -/
theorem bound_outcome_same_not_full :
    ¬ ∀ (s : Sig) (c : Call), s.WF → c.WF →
      outcomeM (mapArgsBound s c) = outcomeC (cpyBindBound s c) := by
  intro h
  exact absurd (h ⟨[], [], none, [], none, []⟩ ⟨0, []⟩ (by decide) (by decide)) (by decide)

/-- `def n(*va): …` (va = 0) as a method, called `o.n(p)`: both succeed, `va` differs -/
theorem bound_same_not_full :
    ¬ ∀ (s : Sig) (c : Call) (d d' : Dict), s.WF → c.WF → mapArgsBound s c = .ok d →
      cpyBindBound s c = .ok d' → ∀ p ∈ s.allNames, d.lookup p = d'.lookup p := by
  intro h
  have := h ⟨[], [], some 0, [], none, []⟩ ⟨1, []⟩ [(0, .varargsTuple [0])] [(0, .varargsTuple [0, 1])]
    (by decide) (by decide) (by decide) (by decide) 0 (by decide)
  exact absurd this (by decide)

/-- under the guard "the method has a positional parameter" the bound call has CPython's outcome -/
theorem bound_outcome_same_partial (s : Sig) (c : Call) (hs : s.WF) (hc : c.WF)
    (hg : s.params ≠ []) :
    outcomeM (mapArgsBound s c) = outcomeC (cpyBindBound s c) := by
  have hl : s.params.length ≥ 1 := by
    cases h : s.params with
    | nil => exact absurd h hg
    | cons _ _ => simp
  unfold mapArgsBound cpyBindBound boundCall
  rw [if_pos hl]
  exact outcome_same s c.withReceiver hs hc

/-- … and binds every name as CPython does -/
theorem bound_same_partial (s : Sig) (c : Call) (hs : s.WF) (hc : c.WF) (hg : s.params ≠ [])
    (d d' : Dict) (hm : mapArgsBound s c = .ok d) (hp : cpyBindBound s c = .ok d') :
    ∀ p ∈ s.allNames, d.lookup p = d'.lookup p := by
  have hl : s.params.length ≥ 1 := by
    cases h : s.params with
    | nil => exact absurd h hg
    | cons _ _ => simp
  unfold mapArgsBound boundCall at hm
  rw [if_pos hl] at hm
  exact bind_same s c.withReceiver hs hc d d' hm hp

/-! ### non-vacuity: `def f(a, b=…, /, c=…, *args, d, e=…, **kw)`
names: a=0 b=1 c=2 args=3 d=4 e=5 kw=6, foreign zz=7 -/
def demoSig : Sig := ⟨[0, 1], [2], some 3, [4, 5], some 6, [1, 2, 5]⟩

example : demoSig.WF := by decide
example : (⟨5, [4, 7, 0]⟩ : Call).WF := by decide
/-- `f(p0, p1, p2, p3, p4, d=…, zz=…, a=…)`: a keyword named like the positional-only `a`
goes to `**kw` only. -/
example : (mapArgs demoSig ⟨5, [4, 7, 0]⟩).map (view demoSig) =
    .ok [(0, some (.pos 0)), (1, some (.pos 1)), (2, some (.pos 2)), (3, some (.varargsTuple [3, 4])),
         (4, some (.kw 4)), (5, some .default), (6, some (.kwargsDict [7, 0]))] := by decide
example : cpyBind demoSig ⟨5, [4, 7, 0]⟩ =
    .ok [(0, .pos 0), (1, .pos 1), (2, .pos 2), (3, .varargsTuple [3, 4]),
         (4, .kw 4), (5, .default), (6, .kwargsDict [7, 0])] := by decide
example : mapArgs demoSig ⟨1, []⟩ = .error .missingParameter := by decide
example : cpyBind demoSig ⟨1, []⟩ = .error .missingKwonly := by decide
example : mapArgs demoSig ⟨3, [2, 4]⟩ = .error .duplicateKeyword := by decide
example : cpyBind demoSig ⟨3, [2, 4]⟩ = .error .multipleValues := by decide
/-- without `*args`/`**kw`: all four pytype errors and all six CPython errors occur -/
def plainSig : Sig := ⟨[0], [1], none, [2], none, []⟩
example : plainSig.WF := by decide
example : mapArgs plainSig ⟨3, [2]⟩ = .error .wrongArgCount := by decide
example : cpyBind plainSig ⟨3, [2]⟩ = .error .tooManyPositional := by decide
example : mapArgs plainSig ⟨2, [2, 7]⟩ = .error .wrongKeywordArgs := by decide
example : cpyBind plainSig ⟨2, [2, 7]⟩ = .error .unexpectedKeyword := by decide
example : mapArgs plainSig ⟨1, [0, 1, 2]⟩ = .error .wrongKeywordArgs := by decide
example : cpyBind plainSig ⟨1, [0, 1, 2]⟩ = .error .posonlyAsKeyword := by decide
example : cpyBind plainSig ⟨1, [2]⟩ = .error .missingPositional := by decide
example : mapArgs plainSig ⟨1, [2]⟩ = .error .missingParameter := by decide
/-- the witness of the repaired defect (known_findings.json c13-posonly-kwargs):
`def f(x, /, **kw)` (x=0, kw=1): `f(0, x='s')` binds x to the positional argument and puts the
keyword into `**kw`; `f(x='s')` is a missing-parameter error. -/
def fixedSig : Sig := ⟨[0], [], none, [], some 1, []⟩
example : (mapArgs fixedSig ⟨1, [0]⟩).map (view fixedSig) =
    .ok [(0, some (.pos 0)), (1, some (.kwargsDict [0]))] := by decide
example : mapArgs fixedSig ⟨0, [0]⟩ = .error .missingParameter := by decide
example : cpyBind fixedSig ⟨0, [0]⟩ = .error .missingPositional := by decide
example : mapArgsBound ⟨[], [], none, [], none, []⟩ ⟨0, []⟩ = .ok [] := by decide
example : cpyBindBound ⟨[], [], none, [], none, []⟩ ⟨0, []⟩ = .error .tooManyPositional := by decide
/-- a method: `def m(self, x, *, k)` (self=9) called `o.m(p, k=…)` -/
example : (mapArgs ((⟨[], [0], none, [1], none, []⟩ : Sig).selfPoskw 9) (⟨1, [1]⟩ : Call).withReceiver).map
      (view ((⟨[], [0], none, [1], none, []⟩ : Sig).selfPoskw 9)) =
    .ok [(9, some (.pos 0)), (0, some (.pos 1)), (1, some (.kw 1))] := by decide

/-! ## the call protocol in front of the binder: pending keyword names (`KW_NAMES` / `CALL`, model `Sem/KwReg.lean`)

`_map_args` above receives positional and named arguments; which stack operands are which is decided by
`call_function_from_stack_311` from the VM's pending-names register. -/
section kwreg
open PytypeModel.KwReg

/-- For every dynamic trace of `KW_NAMES` / `CALL` events in which each `KW_NAMES` is immediately followed by its
`CALL` (compiler output; the callee's own events come *after* the call's, because pytype interprets the body inline):
every call splits its operands with exactly the names of the `KW_NAMES` that immediately precedes it, and a call
without one — in particular every call executed while another is in progress — is purely positional. -/
theorem kw_register_spec (t : List Ev) (h : wellPaired t = true) : run [] t = spec t := run_nil_eq_spec t h

/-- whatever was pending is overwritten by the next `KW_NAMES` and consumed by its call: a stale register never
reaches a later call -/
theorem kw_register_overwritten (stale ns : List String) (n : Nat) (r : List Ev) :
    run stale (.kw ns :: .call n :: r) = split ns n :: run [] r := rfl

/-- a keyword call `f(1, q=2)` whose callee's body calls `str(p)` and `len(x)`: the inner calls are positional -/
example : run [] [.kw ["q"], .call 2, .call 1, .call 1] = [⟨1, ["q"]⟩, ⟨1, []⟩, ⟨1, []⟩] := by decide
example : wellPaired [.kw ["q"], .call 2, .call 1, .kw ["a", "b"], .call 3] = true := by decide
example : spec [.kw ["q"], .call 2, .call 1, .kw ["a", "b"], .call 3] = [⟨1, ["q"]⟩, ⟨1, []⟩, ⟨1, ["a", "b"]⟩] := by
  decide

end kwreg

/-! ### callees declared in a stub: `PyTDSignature._map_args` (`Sem/ArgBindPytd.lean`) -/

/-- the stub binder accepts exactly the calls the interpreter binder accepts (no hypothesis needed) -/
theorem pytd_ok_iff_interp (s : Sig) (c : Call) :
    (∃ d, mapArgsPytd s c = .ok d) ↔ (∃ d, mapArgs s c = .ok d) := pytd_ok_iff_interp' s c

/-- **for a function declared in a stub, pytype reports an arity or keyword error iff CPython raises TypeError binding
the same call to the declared signature** (every signature, every call shape) -/
theorem pytd_bind_ok_iff (s : Sig) (c : Call) (hs : s.WF) (hc : c.WF) :
    (∃ d, mapArgsPytd s c = .ok d) ↔ (∃ d', cpyBind s c = .ok d') :=
  (pytd_ok_iff_interp s c).trans (bind_ok_iff s c hs hc)

/-- when both succeed, every declared parameter the stub binder has an argument for is matched against the argument
CPython binds to it, and a declared parameter it has no argument for takes its default in CPython -/
theorem pytd_bind_same (s : Sig) (c : Call) (hs : s.WF) (hc : c.WF) (d d' : Dict)
    (hm : mapArgsPytd s c = .ok d) (hp : cpyBind s c = .ok d') :
    ∀ p ∈ s.params ++ s.kwonly,
      (∀ r, d.lookup p = some r → d'.lookup p = some r) ∧ (d.lookup p = none → d'.lookup p = some .default) :=
  pytd_bind_same_of s c hs hc d d' hm (fun dm hdm => bind_same s c hs hc dm d' hdm hp)

/-- the accept/reject decision never differs from CPython's, the *class* of the error may: `def f(x): ...;
f(1, 2, zz=3)` is wrong-arg-count to the stub binder (it counts positionals first) and "unexpected keyword
argument" to CPython (it runs the keyword loop first) -/
theorem pytd_error_class_differs :
    ∃ (s : Sig) (c : Call), s.WF ∧ c.WF ∧ outcomeM (mapArgsPytd s c) ≠ outcomeC (cpyBind s c) :=
  PytypeModel.ArgBind.pytd_error_class_differs

example : (∃ d, mapArgsPytd ⟨[1], [2], none, [3], some 9, [3]⟩ ⟨1, [1, 2]⟩ = .ok d) := ⟨_, rfl⟩

end PytypeModel.Props.C13
