import PytypeModel.Proofs.CanonIdem
import PytypeModel.Proofs.ErrorLog

/-! # C04 — analysis output is a pure function of the source and options (output stage)

What is proved: the two places where pytype turns "whatever order things were discovered in" into the
emitted result — `CanonicalOrderingVisitor` on the pytd tree (before printing / pickling) and
`ErrorLog.unique_sorted_errors` on the error list — produce results that do not depend on that order.
Every point where Python's unordered iteration could leak is an *arbitrary permutation* (`~`, `List.Perm`)
and the theorems quantify over all of them.

What is **not** covered by any theorem here: that the VM hands the same *multiset* of declarations and
errors to these stages under every hash seed / process history.  That clause of the property is reached
only by the harness' replay matrix (testing).

Only property theorems and non-vacuity examples live here. -/
namespace PytypeModel.Props.C04
open PytypeModel.Pytd PytypeModel.Pytd.Canon PytypeModel.Errors

section canon
variable {K : Type} (o : KOrd K) (ks : Keys K)

/-- **Canonical ordering forgets discovery order.**  If `u'` is `u` with every collection that the visitor
sorts permuted arbitrarily, at every depth (`UnitSim`), and in every `sorted(...)` call elements with equal
keys are identical (`KeyInj`, the condition under which a stable sort cannot leak its input order), then
both have the same canonical form.  Generic in the sort key (`Node._ToTuple` + printer in pytype). -/
theorem canon_perm {u u' : TUnit} (h : UnitSim u u') (hk : KeyInj o ks u) :
    canonUnit o ks u = canonUnit o ks u' := canonUnit_sim o ks h hk

/-- the same under the executable, keys-only guard "no two sorted elements have the same key" -/
theorem canon_perm_of_tiesFree {u u' : TUnit} (h : UnitSim u u') (hk : tiesFreeUnit o ks u = true) :
    canonUnit o ks u = canonUnit o ks u' := canonUnit_sim o ks h (tiesFreeUnit_keyInj o ks u hk)

/-- What happens on ties (full statement, no hypothesis): `sorted` is stable, so two elements whose keys
compare `<=` in input order — in particular two *tied* elements — are emitted in input order.  A tie
between non-identical nodes is therefore exactly where a discovery order would survive. -/
theorem canon_ties_keep_input_order {α : Type} (key : α → K) {l : List α} {a b : α}
    (hab : o.le (key a) (key b) = true) (h : [a, b].Sublist l) : [a, b].Sublist (sortOn o key l) :=
  sortOn_stable o key hab h

/-- `canon_perm` without `KeyInj` is false for a key that is not injective: under the coarse key `pkeys`
two constants that differ only in `NamedType` vs `ClassType` inside a generic tie and come out in input
order.  (pytype's own key embeds the full `repr` of the node, so it has no such ties on the emitted
dialect; the harness measures that on every case.) -/
theorem canon_perm_not_full :
    ¬ ∀ (u u' : TUnit), UnitSim u u' → canonUnit lexOrd pkeys u = canonUnit lexOrd pkeys u' := by
  intro h
  let c1 : Const := { name := "x", ty := .generic (.named "list") [.named "int"] }
  let c2 : Const := { name := "x", ty := .generic (.cls "list") [.cls "int"] }
  have hs : UnitSim { name := "m", constants := [c1, c2] } { name := "m", constants := [c2, c1] } :=
    ⟨rfl, ⟨[c1, c2], .cons ⟨rfl, .refl _, rfl⟩ (.cons ⟨rfl, .refl _, rfl⟩ .nil), .swap _ _ _⟩,
      ⟨[], .nil, .refl _⟩, ⟨[], .nil, .refl _⟩, ⟨[], .nil, .refl _⟩, ⟨[], .nil, .refl _⟩⟩
  have := congrArg TUnit.constants (h _ _ hs)
  revert this
  decide

/-- **Idempotence**: canonicalising a canonical tree changes nothing (unions flat, as the `UnionType`
constructor guarantees). -/
theorem canon_idem (u : TUnit) (h : flatUnit u = true) :
    canonUnit o ks (canonUnit o ks u) = canonUnit o ks u := canonUnit_idem o ks u h

/-- **Everything downstream is pure**: any function of the canonical tree — the pyi printer, the msgpack
encoder, gzip with a fixed mtime — is a function of the `~`-class of the tree. -/
theorem pipeline_pure {β : Type} (f : TUnit → β) {u u' : TUnit} (h : UnitSim u u') (hk : KeyInj o ks u) :
    f (canonUnit o ks u) = f (canonUnit o ks u') := congrArg f (canon_perm o ks h hk)

end canon

/-! ## the error report -/

/-- **Sorted by position**: the report is ordered by `(filename or "", line)`.  Guard `repKeyOK`: errors
with equal unique representation have equal `(file, line)` (always so within one analysed file; see
`errors_sorted_not_full`). -/
theorem errors_sorted (log : List Err) (h : repKeyOK log = true) :
    (uniqueSortedErrors log).Pairwise (fun a b => keyLe a b = true) := uniqueSorted_sorted log h

/-- Without the guard the statement is false of the code: the representation embeds `file:line:col` in a
formatted string, and a method/file name that itself contains `:<n>:<n>: <error>: in ` makes two different
positions format identically; the later error is then pulled forward into the earlier one's group. -/
theorem errors_sorted_not_full :
    ¬ ∀ log : List Err, (uniqueSortedErrors log).Pairwise (fun a b => keyLe a b = true) := by
  intro h
  let red := ERROR_RED
  let a : Err := ⟨"x", 1, 0, "y:2:2: " ++ red ++ ": in z", "name-error", "m", none, some (TRACEBACK_MARKER ++ "a")⟩
  let b : Err := ⟨"x:1:1: " ++ red ++ ": in y", 2, 1, "z", "name-error", "m", none, some (TRACEBACK_MARKER ++ "b")⟩
  let c : Err := ⟨"x", 5, 0, "", "name-error", "other", none, none⟩
  have := h [a, b, c]
  revert this
  decide

/-- **Unique**: no two reported errors have the same unique representation
`(position, message, details, name)` *and* comparable tracebacks (equal, or one a suffix of the other).
This is exactly what the code guarantees: same-representation errors with incomparable tracebacks are
deliberately all reported (up to `MAX_TRACEBACKS`). -/
theorem errors_unique (log : List Err) :
    (uniqueSortedErrors log).Pairwise
      (fun a b => rep a = rep b → compareTb a.tb b.tb = none ∧ compareTb b.tb a.tb = none) :=
  flatten_unique (inv_groupsOf (sortedErrors log))

/-- in particular no error is reported twice -/
theorem errors_nodup (log : List Err) : (uniqueSortedErrors log).Nodup := by
  refine (errors_unique log).imp ?_
  intro a b h e
  subst e
  have := (h rfl).1
  rw [compareTb_self] at this
  cases this

/-- at most `MAX_TRACEBACKS` (= 3) reports per unique representation -/
theorem errors_max_tracebacks (log : List Err) :
    ∀ x, x ∈ groupsOf (sortedErrors log) → x.2.length ≤ MAX_TRACEBACKS :=
  (inv_groupsOf (sortedErrors log)).size

/-- nothing is invented … -/
theorem errors_subset (log : List Err) : ∀ a, a ∈ uniqueSortedErrors log → a ∈ log := uniqueSorted_subset log

/-- … and no logged representation is lost by the deduplication -/
theorem errors_complete (log : List Err) :
    ∀ e, e ∈ log → ∃ a, a ∈ uniqueSortedErrors log ∧ rep a = rep e := uniqueSorted_complete log

/-- **Insertion order does not matter** when errors at the same `(file, line)` are identical records
(in particular when all positions are distinct). -/
theorem errors_perm_invariant {log log' : List Err} (hp : log.Perm log')
    (hd : ∀ a, a ∈ log → ∀ b, b ∈ log → SameKey a b → a = b) :
    uniqueSortedErrors log = uniqueSortedErrors log' := by
  unfold uniqueSortedErrors; rw [sortedErrors_perm_inj hp hd]

/-- **What happens at equal positions** (explicit): the report depends on the insertion order *only*
through the relative order of the errors that share a `(file, line)`: two logs that are permutations of
each other and list the errors of every single position in the same order give the same report.
Determinism of the order *within* one position therefore rests on the VM's own determinism (replay
matrix). -/
theorem errors_perm_partial {log log' : List Err} (hp : log.Perm log')
    (hf : ∀ k, log.filter (atKey k) = log'.filter (atKey k)) :
    uniqueSortedErrors log = uniqueSortedErrors log' := by
  unfold uniqueSortedErrors; rw [sortedErrors_eq_of_filters hp hf]

/-- full permutation invariance is false of the code: two different errors on the same line are reported
in insertion order. -/
theorem errors_perm_not_full :
    ¬ ∀ log log' : List Err, log.Perm log' → uniqueSortedErrors log = uniqueSortedErrors log' := by
  intro h
  let a : Err := ⟨"f.py", 3, 0, "g", "attribute-error", "No attribute 'x'", none, none⟩
  let b : Err := ⟨"f.py", 3, 4, "g", "name-error", "Name 'y' is not defined", none, none⟩
  have := h [a, b] [b, a] (.swap _ _ _)
  revert this
  decide

/-! ## non-vacuity -/

namespace Demo

def tInt : Ty := .named "int"
def tStr : Ty := .named "str"
def tNone : Ty := .named "NoneType"
def tList (t : Ty) : Ty := .generic (.named "list") [t]

def sigF (exc : List Ty) : Sig :=
  { params := [{ name := "b", ty := tInt }, { name := "a", ty := .union [tStr, tInt] }]
    ret := .union [tNone, tList (.union [tStr, tInt])], exceptions := exc }
def sigF' (exc : List Ty) : Sig :=
  { params := [{ name := "b", ty := tInt }, { name := "a", ty := .union [tInt, tStr] }]
    ret := .union [tList (.union [tInt, tStr]), tNone], exceptions := exc }

def clsA (ms : List Func) (cs : List Const) : Class :=
  .mk "A" [] [.named "object"] ms cs [] [] (some ["y", "x"]) []
def mInit : Func := { name := "__init__", sigs := [{ params := [{ name := "self", ty := .named "A" }], ret := tNone }] }
def mRun : Func := { name := "run", sigs := [{ params := [{ name := "self", ty := .named "A" }], ret := tInt }] }
def cX : Const := { name := "x", ty := tInt }
def cY : Const := { name := "y", ty := .union [tStr, tNone] }
def cY' : Const := { name := "y", ty := .union [tNone, tStr] }

/-- discovery order 1 -/
def u : TUnit :=
  { name := "m", constants := [{ name := "z", ty := tStr }, { name := "k", ty := .union [tStr, tInt] }]
    classes := [clsA [mRun, mInit] [cY, cX], .mk "B" [] [] [] [] [] [] none []]
    functions := [{ name := "f", sigs := [sigF [.named "ValueError", .named "KeyError"]] }] }

/-- discovery order 2: constants, classes, methods, class constants, union members (three levels deep),
exceptions and slots-irrelevant parts permuted -/
def u' : TUnit :=
  { name := "m", constants := [{ name := "k", ty := .union [tInt, tStr] }, { name := "z", ty := tStr }]
    classes := [.mk "B" [] [] [] [] [] [] none [], clsA [mInit, mRun] [cX, cY']]
    functions := [{ name := "f", sigs := [sigF' [.named "KeyError", .named "ValueError"]] }] }

theorem uIntStr : TySim (.union [tStr, tInt]) (.union [tInt, tStr]) :=
  .union (m := [tStr, tInt]) (.cons (.refl _) (.cons (.refl _) .nil)) (.swap _ _ _)

theorem sim : UnitSim u u' := by
  refine ⟨rfl, ?_, ⟨[], .nil, .refl _⟩, ?_, ?_, ⟨[], .nil, .refl _⟩⟩
  · exact ⟨[{ name := "z", ty := tStr }, { name := "k", ty := .union [tInt, tStr] }],
      .cons ⟨rfl, .refl _, rfl⟩ (.cons ⟨rfl, uIntStr, rfl⟩ .nil), .swap _ _ _⟩
  · refine ⟨[clsA [mInit, mRun] [cX, cY'], .mk "B" [] [] [] [] [] [] none []], ?_, .swap _ _ _⟩
    refine .cons ?_ (.cons ?_ .nil)
    · refine .mk .nil (.cons (.refl _) .nil)
        ⟨[mRun, mInit], .cons ⟨rfl, .cons ⟨.cons ⟨rfl, .refl _, rfl, rfl, trivial⟩ .nil, trivial, trivial, .refl _,
            ⟨[], .nil, .refl _⟩, ⟨[], .nil, .refl _⟩⟩ .nil, rfl, rfl, rfl, rfl, rfl⟩
          (.cons ⟨rfl, .cons ⟨.cons ⟨rfl, .refl _, rfl, rfl, trivial⟩ .nil, trivial, trivial, .refl _,
            ⟨[], .nil, .refl _⟩, ⟨[], .nil, .refl _⟩⟩ .nil, rfl, rfl, rfl, rfl, rfl⟩ .nil), .swap _ _ _⟩
        ?_ .nil (.refl _) (.refl _) (.refl _) .nil
      show PermSim ConstSim [cY, cX] [cX, cY']
      exact ⟨[cY', cX], .cons ⟨rfl, .union (m := [tStr, tNone]) (.cons (.refl _) (.cons (.refl _) .nil))
        (.swap _ _ _), rfl⟩ (.cons ⟨rfl, .refl _, rfl⟩ .nil), .swap _ _ _⟩
    · exact .mk .nil .nil ⟨[], .nil, .refl _⟩ ⟨[], .nil, .refl _⟩ .nil (.refl _) (.refl _) trivial .nil
  · refine ⟨[{ name := "f", sigs := [sigF' [.named "KeyError", .named "ValueError"]] }], ?_, .refl _⟩
    refine .cons ⟨rfl, .cons ?_ .nil, rfl, rfl, rfl, rfl, rfl⟩ .nil
    refine ⟨.cons ⟨rfl, .refl _, rfl, rfl, trivial⟩ (.cons ⟨rfl, uIntStr, rfl, rfl, trivial⟩ .nil), trivial, trivial,
      ?_, ⟨[.named "ValueError", .named "KeyError"], .cons (.refl _) (.cons (.refl _) .nil), .swap _ _ _⟩,
      ⟨[], .nil, .refl _⟩⟩
    exact .union (m := [tNone, tList (.union [tInt, tStr])])
      (.cons (.refl _) (.cons (.generic (.refl _) (.cons uIntStr .nil)) .nil)) (.swap _ _ _)

/-- the hypotheses of `canon_perm` hold on this input (keys-only check) … -/
example : tiesFreeUnit lexOrd pkeys u = true := by decide
example : flatUnit u = true := by decide
/-- … so the theorem applies … -/
example : canonUnit lexOrd pkeys u = canonUnit lexOrd pkeys u' :=
  canon_perm_of_tiesFree lexOrd pkeys sim (by decide)
/-- … and it is not vacuous: the inputs differ, and canonicalisation really reorders. -/
example : u.constants ≠ u'.constants := by decide
example : (canonUnit lexOrd pkeys u).constants =
    [{ name := "k", ty := .union [tInt, tStr] }, { name := "z", ty := tStr }] := by decide
example : (canonUnit lexOrd pkeys u).functions =
    [{ name := "f", sigs := [sigF' [.named "KeyError", .named "ValueError"]] }] := by decide
example : canonUnit lexOrd pkeys (canonUnit lexOrd pkeys u) = canonUnit lexOrd pkeys u :=
  canon_idem lexOrd pkeys u (by decide)

/-! errors: same (file,line,message) twice with comparable tracebacks (shorter one wins), one incomparable
traceback (kept), different positions in scrambled insertion order. -/
def M : String := TRACEBACK_MARKER
def e1 : Err := ⟨"f.py", 7, 2, "g", "wrong-arg-types", "bad call", none, some (M ++ "\n  line 9, in <module>\n  line 7, in g")⟩
def e2 : Err := ⟨"f.py", 7, 2, "g", "wrong-arg-types", "bad call", none, some (M ++ "\n  line 7, in g")⟩
def e3 : Err := ⟨"f.py", 7, 2, "g", "wrong-arg-types", "bad call", none, some (M ++ "\n  line 12, in h")⟩
def e4 : Err := ⟨"f.py", 3, 0, "", "name-error", "Name 'q' is not defined", none, none⟩
def e5 : Err := ⟨"f.py", 11, 0, "", "attribute-error", "No attribute 'a' on int", some "d", none⟩

example : uniqueSortedErrors [e5, e1, e4, e2, e3, e2] = [e4, e2, e3, e5] := by decide
example : repKeyOK [e5, e1, e4, e2, e3, e2] = true := by decide
example : uniqueSortedErrors [e2, e3, e4, e1, e5, e2] = [e4, e2, e3, e5] := by decide
/-- (The two insertion orders above also differ in the order *at* line 7 — e1,e2,e3 vs e2,e3,e1 — and
still give the same report, because the shorter traceback replaces the longer one either way: the guard of
`errors_perm_partial` is sufficient, not necessary.)  For errors at pairwise distinct positions
`errors_perm_invariant` applies and its hypotheses are satisfiable: -/
example : uniqueSortedErrors [e5, e4, e2] = uniqueSortedErrors [e2, e5, e4] :=
  errors_perm_invariant (by decide) (by decide)

end Demo

end PytypeModel.Props.C04
