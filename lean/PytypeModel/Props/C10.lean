import PytypeModel.Proofs.MroHier

/-! # C10 — class linearisation agrees with CPython's MRO

pytype side: `mro.MergeSequences`/`Dedup`/`MROMerge`, `class_mixin.compute_mro`,
`_ComputeMRO`/`GetBasesInMRO`, the `for base in cls.mro` walk of `attribute.py`.
Specification: `pmerge`/`mro_implementation`/`find_name_in_mro` of CPython's
`Objects/typeobject.c` (itself tied to the running interpreter by stage K).

Only property theorems and non-vacuity examples live here. -/
namespace PytypeModel.Props.C10
open PytypeModel.Mro

/-- **C3 merge.** On duplicate-free sequences without `SINGLETON` elements `MergeSequences`
returns exactly what CPython's `pmerge` returns: the same list, or both fail.  (The two differ
only in whether the candidate's own tail is inspected.) -/
theorem merge_eq_pmerge {α : Type} [DecidableEq α] (sing : α → Bool) (seqs : List (List α))
    (hnd : ∀ s ∈ seqs, s.Nodup) (hns : ∀ s ∈ seqs, ∀ x ∈ s, sing x = false) :
    mergeSequences sing seqs = pmerge seqs :=
  mergeFuel_eq_cMergeFuel sing _ seqs hnd hns

/-- same through `MROMerge` (which applies `Dedup` first) -/
theorem mromerge_eq_pmerge {α : Type} [DecidableEq α] (sing : α → Bool) (seqs : List (List α))
    (hnd : ∀ s ∈ seqs, s.Nodup) (hns : ∀ s ∈ seqs, ∀ x ∈ s, sing x = false) :
    mroMerge sing seqs = pmerge seqs :=
  mroMerge_eq_pmerge sing seqs hnd hns

/-- the `while True` loop of `MergeSequences` ends within `totalLen + 1` rounds: more fuel never
changes the model's answer (for every input, also with duplicates and singletons) -/
theorem merge_fuel_sufficient {α : Type} [DecidableEq α] (sing : α → Bool) (f : Nat)
    (seqs : List (List α)) (h : totalLen seqs < f) :
    mergeFuel sing f seqs = mergeSequences sing seqs :=
  mergeFuel_sufficient sing f seqs h

/-- **MRO, guarded.** For every program whose classes are defined in order (bases are earlier
classes) and in which *every class has a duplicate-free base list*, pytype computes for each
class the MRO CPython computes, and reports an MRO error exactly when CPython refuses to create
the class (the error value is equal too).  The unguarded statement is false: `mro_dup_not_full`. -/
theorem mro_eq_partial (H : Hier) (hwf : wfHier H = true) (hnd : nodupBases H = true) (c : Nat) :
    computeMro H c = cpythonMro H c := by
  unfold computeMro cpythonMro
  rw [tables_eq H hwf hnd]

/-- name used in DESIGN.md for the guarded theorem -/
theorem mro_eq (H : Hier) (hwf : wfHier H = true) (hnd : nodupBases H = true) (c : Nat) :
    computeMro H c = cpythonMro H c := mro_eq_partial H hwf hnd c

/-- `[mro-error]` on the class statement ⇔ TypeError at class creation -/
theorem mro_error_iff (H : Hier) (hwf : wfHier H = true) (hnd : nodupBases H = true) (c : Nat) :
    (∃ e, computeMro H c = .error e) ↔ (∃ e, cpythonMro H c = .error e) := by
  rw [mro_eq_partial H hwf hnd c]

/-- **Attribute lookup.** `C.a` resolves to the definition CPython finds first (or both find
none / both have no class). -/
theorem lookup_eq (H : Hier) (hwf : wfHier H = true) (hnd : nodupBases H = true)
    (defs : Nat → Nat → Bool) (c a : Nat) :
    pyLookup H defs c a = cLookup H defs c a := by
  unfold pyLookup cLookup
  rw [mro_eq_partial H hwf hnd c]
  cases cpythonMro H c with
  | error e => rfl
  | ok m => simp only [pyLookupIn_eq]

/-- the `for base in cls.mro: … break` walk is "first definer in the MRO", for any MRO -/
theorem walk_is_first_definer (defs : Nat → Nat → Bool) (a : Nat) (mro : List Nat) :
    pyLookupIn defs a mro = mro.find? (fun c => defs c a) :=
  pyLookupIn_eq defs a mro

/-- **Lookups through `super()`.** A method found along `mro(type(self))` in class `j` that reads
`super().a` gets the definition CPython's `super(j, self).a` finds: pytype's "skip the set of
classes up to `j`" equals CPython's "continue after `j`" because stored MROs are duplicate-free. -/
theorem super_lookup_eq (H : Hier) (hwf : wfHier H = true) (hnd : nodupBases H = true)
    (defs sdefs : Nat → Nat → Bool) (i a : Nat) :
    pySuperRead H defs sdefs i a = cSuperRead H defs sdefs i a := by
  unfold pySuperRead cSuperRead
  rw [mro_eq_partial H hwf hnd i]
  cases hm : cpythonMro H i with
  | error e => rfl
  | ok m =>
    have hnodup : m.Nodup := (cMroTable_inv H hwf hnd i m hm).1
    simp only [pyLookupIn_eq]
    cases cLookupIn sdefs a m with
    | none => rfl
    | some j => simp only [super_walk_eq defs a j m hnodup]

/-- **Known finding.** `class A: pass` / `class C(A, A): pass`: the model of pytype (through
`Dedup`) returns `[C, A, object]`, CPython raises "duplicate base class". -/
theorem mro_dup_witness :
    computeMro [[], [0], [1, 1]] 2 = .ok [2, 1, 0] ∧
    cpythonMro [[], [0], [1, 1]] 2 = .error .duplicateBase := by
  decide

/-- hence the unguarded statement is false -/
theorem mro_dup_not_full :
    ¬ (∀ (H : Hier), wfHier H = true → ∀ c, computeMro H c = cpythonMro H c) := by
  intro h
  have := h [[], [0], [1, 1]] (by decide) 2
  rw [mro_dup_witness.1, mro_dup_witness.2] at this
  cases this

/-- every MRO CPython stores is duplicate-free, starts with the class and mentions only it and
earlier classes (so the guarded theorem's side conditions propagate through the program) -/
theorem mro_shape (H : Hier) (hwf : wfHier H = true) (hnd : nodupBases H = true) (c : Nat)
    (m : List Nat) (h : computeMro H c = .ok m) :
    m.Nodup ∧ m.head? = some c ∧ ∀ x ∈ m, x ≤ c := by
  rw [mro_eq_partial H hwf hnd c] at h
  exact cMroTable_inv H hwf hnd c m h

/-- **Stub classes.** `_ComputeMRO` on `pytd.ClassType` nodes yields the MRO `compute_mro`
stores for the same class (any well-formed hierarchy, duplicates allowed). -/
theorem stub_mro_eq (H : Hier) (hwf : wfHier H = true) (t : Nat) (ht : t < H.length) :
    (stubMro H (H.length + 1) [] t).toOption = (computeMro H t).toOption :=
  stubMro_eq H hwf t _ [] (by omega) ht (fun _ hx => by cases hx)

/-- `GetBasesInMRO(cls)` = CPython's `cls.__mro__[1:]`, failing exactly when CPython refuses
the class (guarded like `mro_eq_partial`). -/
theorem stub_bases_eq_cpython (H : Hier) (hwf : wfHier H = true) (hnd : nodupBases H = true)
    (c : Nat) (hc : c < H.length) :
    (getBasesInMro H (H.getD c [])).toOption.map (fun r => c :: r) = (cpythonMro H c).toOption :=
  getBasesInMro_eq H hwf hnd c hc

/-! ### non-vacuity: the hypotheses hold on non-trivial inputs, and both outcomes occur -/

/-- a diamond with a cross-over: object, A, B, C(A,B), D(B,A), E(C,D) -/
def exH : Hier := [[], [0], [0], [1, 2], [2, 1], [3, 4]]

example : wfHier exH = true ∧ nodupBases exH = true := by decide
example : computeMro exH 3 = .ok [3, 1, 2, 0] := by decide
example : cpythonMro exH 4 = .ok [4, 2, 1, 0] := by decide
-- E(C, D) is refused by both
example : computeMro exH 5 = .error .inconsistent ∧ cpythonMro exH 5 = .error .inconsistent := by
  decide
-- lookup: A defines attr 0, B defines attrs 0 and 1; C(A,B).0 comes from A, C.1 from B, D.0 from B
example : pyLookup exH (fun c a => (c == 1 && a == 0) || (c == 2 && a ≤ 1)) 3 0 = .ok (some 1) ∧
    pyLookup exH (fun c a => (c == 1 && a == 0) || (c == 2 && a ≤ 1)) 3 1 = .ok (some 2) ∧
    cLookup exH (fun c a => (c == 1 && a == 0) || (c == 2 && a ≤ 1)) 4 0 = .ok (some 2) ∧
    cLookup exH (fun c a => (c == 1 && a == 0) || (c == 2 && a ≤ 1)) 4 2 = .ok none := by decide
-- super(): A defines a, B(A) has the reader, C(A) defines a, D(B, C): D().s() reads C's a, B().s() reads A's
example : pySuperRead [[], [0], [1], [1], [2, 3]] (fun c _ => c == 1 || c == 3) (fun c _ => c == 2) 4 0
      = .definer 3 ∧
    cSuperRead [[], [0], [1], [1], [2, 3]] (fun c _ => c == 1 || c == 3) (fun c _ => c == 2) 2 0
      = .definer 1 ∧
    cSuperRead [[], [0], [1], [1], [2, 3]] (fun c _ => c == 1 || c == 3) (fun c _ => c == 2) 1 0
      = .noMethod := by decide
-- merge: hypotheses of merge_eq_pmerge on a 4-sequence input, and an input where they fail and
-- the two sides really differ (own tail inspected or not)
example : (∀ s ∈ [[3], [1, 0], [2, 0], [1, 2]], s.Nodup) ∧
    mergeSequences (fun _ => false) [[3], [1, 0], [2, 0], [1, 2]] = .ok [3, 1, 2, 0] := by decide
example : mergeSequences (fun _ => false) [[0, 1, 0]] = .ok [0, 1, 0] ∧
    pmerge [[0, 1, 0]] = .error .inconsistent := by decide
-- SINGLETON escape: a cycle through a singleton is accepted by MergeSequences only
example : mergeSequences (fun x => x == 1) [[0, 1], [1, 0]] = .ok [1, 0] ∧
    pmerge [[0, 1], [1, 0]] = .error .inconsistent := by decide
-- stubs
example : getBasesInMro exH [1, 2] = .ok [1, 2, 0] ∧ stubMro exH 7 [] 4 = .ok [4, 2, 1, 0] := by
  decide

end PytypeModel.Props.C10
