import PytypeModel.Proofs.PlanSched
import PytypeModel.Proofs.PlanTotal
import PytypeModel.Proofs.PlanNinja
import PytypeModel.Proofs.PlanGraph
import PytypeModel.Proofs.PlanGraphStub

/-! # C19 — the whole-project build plan orders every analysis after the stubs it reads

Only property theorems and non-vacuity examples live here.

Vocabulary (models: `Plan/Runner.lean`, `Plan/Ninja.lean`):
* `plan req gs` — the `build` statements `PytypeRunner.setup_build` writes for requested files
  `req` and source groups `gs` (`.error` = the KeyError of `get_imports_map`);
* `Step.reads` — the values of the step's `.imports` file: the stubs its analysis may open;
* `Step.deps` — the implicit deps declared after `|`; `Step.out` — the statement's output;
* `Reach p s v` — `v` is in the transitive closure of the declared deps of `s` inside plan `p`;
* `Sched p σ` — `σ` is an order in which ninja may run `p`: a permutation of `p` in which every
  statement comes after every statement producing one of its declared deps.
-/
namespace PytypeModel.Props.C19
open PytypeModel.Plan PytypeModel.Ninja

abbrev Groups := List (List Mod × List Mod)

deriving instance DecidableEq for Except

/-- Every entry of every imports map is the default stub or the output of a build statement of the
plan, and that statement is reachable from the reader through declared deps (the closure is
needed because imports maps are inherited from the deps' own maps).  No hypothesis on the input. -/
theorem imports_closed (req : List Nat) (gs : Groups) (p : List Step) (h : plan req gs = .ok p) :
    ∀ s ∈ p, ∀ v ∈ s.reads, v = .default ∨ ((∃ t ∈ p, t.out = v) ∧ Reach p s v) := by
  unfold plan at h
  cases hb : setupBuild req gs with
  | error e => simp [hb] at h
  | ok st =>
    simp only [hb, Except.ok.injEq] at h
    subst h
    have inv := setupBuild_inv hb
    intro s hs v hv
    rcases inv.closed s hs v hv with h1 | h1
    · exact .inl h1
    · refine .inr ⟨?_, h1⟩
      have hout := inv.ordered.deps_are_outputs
      clear hv
      induction h1 with
      | direct hd => exact hout _ hs _ hd
      | trans ht _ _ ih => exact ih ht

/-- **Under any schedule ninja may choose**, when a statement starts every stub its analysis can
read is the default stub (written at plan time) or the output of a statement that already ran.
No hypothesis on the input. -/
theorem schedule_safe (req : List Nat) (gs : Groups) (p : List Step) (h : plan req gs = .ok p)
    (σ : List Step) (hσ : Sched p σ) (i : Nat) (hi : i < σ.length) :
    ∀ v ∈ σ[i].reads, v = .default ∨ ∃ j, ∃ (hj : j < i), (σ[j]'(Nat.lt_trans hj hi)).out = v := by
  intro v hv
  have hmem : σ[i] ∈ p := hσ.1.mem_iff.1 (List.getElem_mem _)
  rcases imports_closed req gs p h _ hmem v hv with h1 | ⟨_, hr⟩
  · exact .inl h1
  · right
    unfold plan at h
    cases hb : setupBuild req gs with
    | error e => simp [hb] at h
    | ok st =>
      simp only [hb, Except.ok.injEq] at h
      subst h
      exact sched_reach hσ (setupBuild_inv hb).ordered.deps_are_outputs hr i hi rfl

/-- Every declared dep is the output of a strictly earlier statement of the file. -/
theorem plan_ordered (req : List Nat) (gs : Groups) (p : List Step) (h : plan req gs = .ok p)
    (i : Nat) (hi : i < p.length) :
    ∀ d ∈ p[i].deps, ∃ j, ∃ (hj : j < i), (p[j]'(Nat.lt_trans hj hi)).out = d := by
  unfold plan at h
  cases hb : setupBuild req gs with
  | error e => simp [hb] at h
  | ok st =>
    simp only [hb, Except.ok.injEq] at h
    subst h
    exact (setupBuild_inv hb).ordered i hi

/-- The plan is a DAG with one producer per output: outputs are pairwise distinct, the file order is
itself a schedule (so schedules exist), and no statement transitively depends on its own output. -/
theorem plan_acyclic (req : List Nat) (gs : Groups) (hwf : WF gs) (p : List Step)
    (h : plan req gs = .ok p) :
    (p.map Step.out).Nodup ∧ Sched p p ∧ ∀ s ∈ p, ¬ Reach p s s.out := by
  unfold plan at h
  cases hb : setupBuild req gs with
  | error e => simp [hb] at h
  | ok st =>
    simp only [hb, Except.ok.injEq] at h
    subst h
    have hn := steps_outs_nodup hwf hb
    have ho := (setupBuild_inv hb).ordered
    have hs := sched_self ho hn
    refine ⟨hn, hs, ?_⟩
    intro s hsm hr
    obtain ⟨i, hi, rfl⟩ := List.mem_iff_getElem.1 hsm
    obtain ⟨j, hj, hjo⟩ := sched_reach hs ho.deps_are_outputs hr i hi rfl
    have hj' : j < st.steps.length := Nat.lt_trans hj hi
    have h1 : (st.steps.map Step.out)[j]'(by simpa using hj') =
        (st.steps.map Step.out)[i]'(by simpa using hi) := by simp [hjo]
    have := (List.getElem_inj hn).1 h1
    omega

/-- Import cycles: in a group that is not a singleton, every final (second-pass) statement of a
member declares, for **each** non-default member `m` of the group, a dep on `m`'s first-pass
output or on `m`'s final output — and that output belongs to a strictly earlier statement, never
to a not-yet-written one. -/
theorem cycle_two_pass (req : List Nat) (gs : Groups) (hwf : WF gs) (p : List Step)
    (h : plan req gs = .ok p) (g : List Mod × List Mod) (hg : g ∈ gs) (hlen : g.1.length ≠ 1)
    (i : Nat) (hi : i < p.length) (hmem : p[i].mod ∈ g.1) (hfinal : p[i].first = false) :
    ∀ m ∈ g.1, m.isGen = false →
      ∃ b, Out.pyi m b ∈ p[i].deps ∧ ∃ j, ∃ (hj : j < i), (p[j]'(Nat.lt_trans hj hi)).out = .pyi m b := by
  unfold plan at h
  cases hb : setupBuild req gs with
  | error e => simp [hb] at h
  | ok st =>
    simp only [hb, Except.ok.injEq] at h
    subst h
    have inv := setupBuild_inv hb
    intro m hm hgen
    obtain ⟨it, hit, hmod, hfirst, _, hdeps⟩ := inv.prov _ (List.getElem_mem hi)
    obtain ⟨g', hg', hf⟩ := yieldSorted_from req gs it hit
    have hgg : g' = g := group_unique gs hwf g' hg' g hg it.mod hf.mem _ hmem (by rw [hmod])
    subst hgg
    have hd := hf.second (hfirst ▸ hfinal) hlen
    obtain ⟨b, hb'⟩ := hdeps m (by rw [hd]; exact List.mem_append_right _ hm) hgen
    exact ⟨b, hb', inv.ordered i hi _ hb'⟩

/-- Each requested file that is present in the input and is not a builtin/system module gets
**exactly one** `check` statement; no file gets two; `check` statements exist only for requested
files and are never first-pass statements. -/
theorem checked_once (req : List Nat) (gs : Groups) (hwf : WF gs) (p : List Step)
    (h : plan req gs = .ok p) :
    (∀ g ∈ gs, ∀ m ∈ g.1, m.id ∈ req → m.isGen = false →
      (p.filter fun s => decide (s.act = .check ∧ s.mod.id = m.id)).length = 1) ∧
    (∀ f, (p.filter fun s => decide (s.act = .check ∧ s.mod.id = f)).length ≤ 1) ∧
    (∀ s ∈ p, s.act = .check → s.first = false ∧ s.mod.id ∈ req) := by
  unfold plan at h
  cases hb : setupBuild req gs with
  | error e => simp [hb] at h
  | ok st =>
    simp only [hb, Except.ok.injEq] at h
    subst h
    refine ⟨?_, check_at_most_once hwf hb, check_step_shape hb⟩
    intro g hg m hm hreq hgen
    have hle := check_at_most_once hwf hb m.id
    obtain ⟨s, hs, hsm, _, hsa⟩ := check_step_exists hwf hb g hg m hm hreq hgen
    have : s ∈ st.steps.filter fun s => decide (s.act = .check ∧ s.mod.id = m.id) :=
      List.mem_filter.2 ⟨hs, by simp [hsa, hsm]⟩
    have hpos := List.length_pos_of_mem this
    omega

/-- When the groups are in dependency order (the contract of `deps_from_import_graph`: every dep of
a group is a member of an earlier group) planning never fails, so the theorems above are not
vacuous for any such input. -/
theorem plan_total (req : List Nat) (gs : Groups) (h : depsClosed gs = true) :
    ∃ p, plan req gs = .ok p := by
  obtain ⟨st, hst⟩ := setupBuild_total req gs h
  exact ⟨st.steps, by simp [plan, hst]⟩

/-! ### the stage in front of the planner: `deps_from_import_graph` (model: `Plan/Graph.lean`)

`WF` and `depsClosed` above are hypotheses about the planner's input.  They are what `deps_from_import_graph`
establishes, for every import graph importlab can hand over (nodes in dependency order). -/

/-- No source file of the import graph is lost or duplicated, whatever the graph looks like: the members of the source
groups, in order, are exactly the sources of the graph's nodes, in order (type stubs are dropped; a node that mixes
sources and a stub — an import cycle through a stub — keeps its sources). -/
theorem graph_sources_total (nodes : List GNode) :
    (depsFromGraph nodes).flatMap (·.1) = graphSources nodes := by
  unfold depsFromGraph
  rw [gfold_out_members]
  simp [graphSources]

/-- … hence the planner's well-formedness premise holds as soon as no file occurs twice in the graph. -/
theorem graph_wf (nodes : List GNode) (h : ((graphSources nodes).map (·.id)).Nodup) : WF (depsFromGraph nodes) := by
  unfold WF
  rw [graph_sources_total]
  exact h

/-- When the node list is in dependency order the result is in dependency order: every dep of a group — direct, or
inherited through type stubs — is a member of an earlier group. -/
theorem graph_deps_closed (nodes : List GNode) (h : topo nodes = true) : depsClosed (depsFromGraph nodes) = true :=
  (depsFromGraph_inv nodes h).closed

/-- End to end: for every import graph in dependency order with distinct files, planning succeeds, and every requested
source of the graph that is not a builtin/system module gets exactly one `check` statement — in particular none
silently disappears from the plan. -/
theorem graph_checked_once (req : List Nat) (nodes : List GNode) (ht : topo nodes = true)
    (hn : ((graphSources nodes).map (·.id)).Nodup) :
    ∃ p, plan req (depsFromGraph nodes) = .ok p ∧
      ∀ m ∈ graphSources nodes, m.id ∈ req → m.isGen = false →
        (p.filter fun s => decide (s.act = .check ∧ s.mod.id = m.id)).length = 1 := by
  obtain ⟨p, hp⟩ := plan_total req _ (graph_deps_closed nodes ht)
  refine ⟨p, hp, ?_⟩
  intro m hm hreq hgen
  rw [← graph_sources_total] at hm
  obtain ⟨g, hg, hmg⟩ := List.mem_flatMap.1 hm
  exact (checked_once req _ (graph_wf nodes hn) p hp).1 g hg m hmg hreq hgen

/-- Functional specification of the stage, sound and complete: for every node of the graph that has sources there is a
group with exactly those sources whose deps are **exactly** (`DepSpec`) the sources among the files of the node's dep
nodes together with everything the type stubs among them stand for (`StubSrc`: transitively, through chains of stubs)
— nothing a stub hides is dropped, nothing else is added.  Premises: the node list is in dependency order and every
stub is a file of one node (both decidable, evaluated by the driver on every graph of the correspondence run). -/
theorem graph_deps_exact (nodes : List GNode) (ht : topo nodes = true) (hs : stubsDistinct nodes = true)
    (i : Nat) (n : GNode) (hn : nodes[i]? = some n) (hne : sourcesOf n.files ≠ []) :
    ∃ g ∈ depsFromGraph nodes, g.1 = sourcesOf n.files ∧ ∀ m, m ∈ g.2 ↔ DepSpec nodes n m := by
  have hi : i < nodes.length := by
    rcases Nat.lt_or_ge i nodes.length with h | h
    · exact h
    · simp [List.getElem?_eq_none h] at hn
  exact (depsFromGraph_spec ht hs).outs i n hi hn hne

/-! ### escaping -/

/-- `escape_ninja_path` leaves no unescaped space, colon, `$` or newline — for every string. -/
theorem escape_clean (p : List Char) : wellEscaped (escape p) = true := wellEscaped_escape p

/-- Path round trip through ninja's path reader, for every path without newline, `|`, CR, NUL
(ninja cannot carry these in a path however they are written), followed by anything that may
follow a path on a `build` line.  Spaces, colons, dollar signs and all other characters
(unicode included) survive unchanged, and the reader stops exactly at the end of the token. -/
theorem escape_roundtrip_partial (p rest : List Char) (hp : pathOK p = true)
    (hrest : endsToken rest = true) : readPath (escape p ++ rest) = .ok (p, rest) := by
  have hc : Carry true p := by
    intro c hc
    have := List.all_eq_true.1 hp c hc
    simp only [Bool.not_eq_true', Bool.or_eq_false_iff, decide_eq_false_iff_not] at this
    exact ⟨this.1.1.1, this.1.2, this.2, fun _ => this.1.1.2⟩
  have he : Ends true rest := by
    cases rest with
    | nil => exact .inl rfl
    | cons c cs => exact .inr ⟨c, cs, rfl, .inr ⟨rfl, hrest⟩⟩
  simpa [readPath] using evalAux_escape true p rest [] hc he

/-- The unguarded statement (`readPath (escape p) = p` for every string) is false: `$`+newline is
ninja's line continuation, so an escaped newline disappears. -/
theorem escape_roundtrip_not_full : ¬ ∀ p : List Char, readPath (escape p) = .ok (p, []) := by
  intro h
  have := h ['a', '\n', 'b']
  have e : readPath (escape ['a', '\n', 'b']) = .ok (['a', 'b'], []) := by decide
  rw [e] at this
  revert this
  decide

/-- The `imports = <escaped path>` variable evaluates to the path (here `|` is harmless too). -/
theorem value_roundtrip_partial (p rest : List Char) (hp : valueOK p = true) :
    readBinding (escape p ++ '\n' :: rest) = .ok (p, '\n' :: rest) := by
  have hd : (escape p ++ '\n' :: rest).dropWhile (· = ' ') = escape p ++ '\n' :: rest := by
    cases he : escape p with
    | nil => simp
    | cons c cs =>
      have := escape_head p c (by rw [he]; rfl)
      simp [this]
  unfold readBinding
  rw [hd]
  have hc : Carry false p := by
    intro c hc
    have := List.all_eq_true.1 hp c hc
    simp only [Bool.not_eq_true', Bool.or_eq_false_iff, decide_eq_false_iff_not] at this
    exact ⟨this.1.1, this.1.2, this.2, fun h => by cases h⟩
  simpa [readValue] using
    evalAux_escape false p ('\n' :: rest) [] hc (.inr ⟨'\n', rest, rfl, .inl rfl⟩)

/-- `module = <name>` is written **without** escaping: a name survives when it has no `$` and does
not begin with a blank. -/
theorem module_name_partial (name rest : List Char)
    (h : ∀ c ∈ name, c ≠ '$' ∧ c ≠ '\n' ∧ c ≠ '\r' ∧ c ≠ Char.ofNat 0)
    (h0 : name.head? ≠ some ' ') :
    readBinding (name ++ '\n' :: rest) = .ok (name, '\n' :: rest) := by
  have hd : (name ++ '\n' :: rest).dropWhile (· = ' ') = name ++ '\n' :: rest := by
    cases name with
    | nil => simp
    | cons c cs =>
      have : c ≠ ' ' := by simpa using h0
      simp [this]
  unfold readBinding
  rw [hd]
  have key : ∀ (n acc : List Char), (∀ c ∈ n, c ≠ '$' ∧ c ≠ '\n' ∧ c ≠ '\r' ∧ c ≠ Char.ofNat 0) →
      evalAux false .norm (n ++ '\n' :: rest) acc = .ok (acc.reverse ++ n, '\n' :: rest) := by
    intro n
    induction n with
    | nil => intro acc _; simp [evalAux, PytypeModel.Ninja.trans, transNorm]
    | cons c cs ih =>
      intro acc hc
      obtain ⟨h1, h2, h3, h4⟩ := hc c List.mem_cons_self
      have := ih (c :: acc) fun x hx => hc x (List.mem_cons_of_mem _ hx)
      simp only [List.cons_append]
      rw [evalAux]
      simp only [PytypeModel.Ninja.trans, transNorm, h1, h2, h3, h4, if_false, Bool.false_and, Bool.false_eq_true]
      simpa using this
  simpa [readValue] using key name [] h

/-- ... and does not survive otherwise: `$b` is read as a reference to an undefined variable. -/
theorem module_name_not_full :
    readBinding ("a$b\n".toList) = .ok ("a".toList, "\n".toList) ∧
    readBinding (" a\n".toList) = .ok ("a".toList, "\n".toList) := by decide

/-- One `.imports` line read back by `_read_from_file`: the pair survives when the key has no
whitespace and the value neither starts nor ends with whitespace (spaces inside the value are
fine: `split(" ", 1)`). -/
theorem imports_line_roundtrip_partial (a : Char) (k v : List Char) (b : Char)
    (hk : ∀ c ∈ a :: k, isPyWs c = false) (hb : isPyWs b = false) :
    parseImportsLine (importsLine (a :: k) (v ++ [b])) = some (some (a :: k, v ++ [b])) := by
  have hsp : ∀ c ∈ a :: k, c ≠ ' ' := by
    intro c hc he
    have := hk c hc
    rw [he] at this
    revert this; decide
  have e : importsLine (a :: k) (v ++ [b]) = a :: (k ++ ' ' :: v) ++ [b] := by
    simp [importsLine]
  unfold parseImportsLine
  rw [e, strip_id a b _ (hk a List.mem_cons_self) hb]
  have e2 : a :: (k ++ ' ' :: v) ++ [b] = (a :: k) ++ ' ' :: (v ++ [b]) := by simp
  simp only [List.cons_append] at e2 ⊢
  rw [e2, ← List.cons_append, splitFirstSpace_append (a :: k) (v ++ [b]) hsp]

/-- A key containing a space is split in the wrong place. -/
theorem imports_line_not_full :
    parseImportsLine (importsLine "a b".toList "/o/a b.pyi".toList) =
      some (some ("a".toList, "b /o/a b.pyi".toList)) := by decide

/-! ### non-vacuity: a project with a system module, a two-module import cycle and a dependent;
two files requested.  All hypotheses used above hold and the plan is non-trivial. -/

def mS : Mod := ⟨3, .system, false⟩
def mD : Mod := ⟨4, .loc, false⟩
def mA : Mod := ⟨0, .loc, false⟩
def mB : Mod := ⟨1, .direct, false⟩
def mC : Mod := ⟨2, .loc, false⟩
def demoGroups : Groups := [([mS], []), ([mD], [mS]), ([mA, mB], [mD, mS]), ([mC], [mA])]
def demoReq : List Nat := [0, 2, 9]

def sD : Step := ⟨mD, false, .infer, [], [(mS, .default)]⟩
def sA1 : Step := ⟨mA, true, .infer, [.pyi mD false], [(mS, .default), (mD, .pyi mD false)]⟩
def sB1 : Step := ⟨mB, true, .infer, [.pyi mD false], [(mS, .default), (mD, .pyi mD false)]⟩
def sA : Step := ⟨mA, false, .check, [.pyi mD false, .pyi mA true, .pyi mB true],
  [(mS, .default), (mD, .pyi mD false), (mA, .pyi mA true), (mB, .pyi mB true)]⟩
def sB : Step := ⟨mB, false, .infer, [.pyi mD false, .pyi mA false, .pyi mB true],
  [(mS, .default), (mD, .pyi mD false), (mA, .pyi mA false), (mB, .pyi mB true)]⟩
def sC : Step := ⟨mC, false, .check, [.pyi mA false],
  [(mS, .default), (mD, .pyi mD false), (mA, .pyi mA false), (mB, .pyi mB true)]⟩
def demoPlan : List Step := [sD, sA1, sB1, sA, sB, sC]

example : WF demoGroups := by decide
example : depsClosed demoGroups = true := by decide
example : plan demoReq demoGroups = .ok demoPlan := by decide
/-- a schedule different from the file order exists (first passes swapped, `sC` before `sB`) -/
example : Sched demoPlan [sD, sB1, sA1, sA, sC, sB] := by
  refine ⟨by decide, ?_⟩
  decide
/-- … and `sC` reads `mB`'s *first-pass* stub, inherited from `sA`'s map, which is produced by a
statement that is not among its direct deps: the closure in `imports_closed` is really needed. -/
example : Out.pyi mB true ∈ sC.reads ∧ Out.pyi mB true ∉ sC.deps := by decide
/-- a dependency on a later group violates the contract and raises the KeyError -/
example : plan [0] [([mA], [mC]), ([mC], [])] = .error .keyError := by decide
/-- once every requested file has its statement the rest is skipped -/
example : plan [4] demoGroups = .ok [{ sD with act := .check }] := by decide
/-- the import graph behind a project whose module `mA` imports a third-party stub that imports `mA` back (one node
with a source and a stub), with `mD` underneath and `mC` on top importing only the stub's node -/
def demoNodes : List GNode :=
  [⟨[.src mS], []⟩, ⟨[.src mD], [0]⟩, ⟨[.stub 7], [1]⟩, ⟨[.src mA, .stub 8, .src mB], [2, 0]⟩, ⟨[.src mC], [3]⟩]
example : topo demoNodes = true := by decide
example : stubsDistinct demoNodes = true := by decide
/-- `mC` only imports the mixed node, yet it inherits `mD` through the stub chain 8 → 7 → `mD` -/
example : StubSrc demoNodes 8 mD :=
  .via (i := 3) (j := 2) (k' := 7) rfl (by decide) (by decide) rfl (by decide)
    (.direct (i := 2) (j := 1) (k := 7) (m := mD) rfl (by decide) (by decide) rfl (by decide))
example : ((graphSources demoNodes).map (·.id)).Nodup := by decide
example : depsFromGraph demoNodes =
    [([mS], []), ([mD], [mS]), ([mA, mB], [mS, mD]), ([mC], [mA, mB, mS, mD])] := by decide
example : pathOK "a b:c$d/é".toList = true ∧ endsToken ": check".toList = true := by decide
example : escape "a b:c$d".toList = "a$ b$:c$$d".toList := by decide

end PytypeModel.Props.C19
