import PytypeModel.Proofs.BlocksOrderNodes
import PytypeModel.Proofs.BlocksSurgery
import PytypeModel.Proofs.BlocksPopBlock
import PytypeModel.Proofs.BlocksSetupExcept
import PytypeModel.Proofs.BlocksSetupExceptGen

/-! # C16 — every compiled code object becomes a well-formed ordered block graph

Only property theorems and non-vacuity examples live here.  Models: `Blocks/Opcodes.lean`
(opcodes.py: `_make_opcode_list`, `_add_jump_targets`, `_add_async_for_jump_back_targets`),
`Blocks/PopBlock.lean` (`add_pop_block_targets`), `Blocks/Split.lean` (`_split_bytecode` incl. SEND branch),
`Blocks/Surgery312.lean`, `Blocks/Order.lean` (`compute_predecessors`, `order_nodes`, `compute_order`).
The decidable premises (`rawWF`, `opsWFFrom`, `mergeGuard`, …) are in `Blocks/WF.lean` and are evaluated by
the driver on every real stream. -/
namespace PytypeModel.Props.C16
open PytypeModel.Blocks PytypeModel.Generated.OpcodeTable Relation

/-! ## opcode list (opcodes.py) -/

/-- `_make_opcode_list` + `_add_jump_targets` (+ 3.12 async-for targets), any version, any input it
accepts: indices are `0..n-1` in order and `next`/`prev` are the list neighbours (`opsWFFrom 0 none`), every
target is an index of the stream, every known-jump op has a resolved target. -/
theorem opcode_list_wf (ver : Nat) (raw : List RawOp) (entries : List (Nat × Nat)) (ops : List Op)
    (h : buildOps ver raw entries = .ok ops) :
    opsWFFrom 0 none ops = true ∧
    (∀ op ∈ ops, ∀ t, op.target = some t → t < ops.length) ∧
    (∀ op ∈ ops, (info op.cls).hasKnownJump = true → op.target.isSome) :=
  buildOps_wf h

/-- …and (no elision, i.e. every version but 3.11) op `i` is item `i`, a pre-set target is the position of
the item with that offset, and a known jump whose argument is the offset of item `j` gets `target = j`
(`ops[offset_to_index[argval]]`); other ops get none. -/
theorem opcode_list_targets (ver : Nat) (hv : ver ≠ 11) (raw : List RawOp) (entries : List (Nat × Nat))
    (ops : List Op) (h : buildOps ver raw entries = .ok ops) :
    ops.length = raw.length ∧
    ∀ (i : Nat) (r : RawOp), raw[i]? = some r → ∃ o : Op, ops[i]? = some o ∧ o.idx = i ∧ o.off = r.off ∧
      o.cls = r.cls ∧
      (∀ p, r.pre = some p → ∃ (j : Nat) (r' : RawOp), raw[j]? = some r' ∧ r'.off = p ∧ o.target = some j) ∧
      (r.pre = none → (info r.cls).hasKnownJump = true →
        ∃ (j : Nat) (r' : RawOp), raw[j]? = some r' ∧ r'.off = r.argval ∧ o.target = some j) ∧
      (r.pre = none → (info r.cls).hasKnownJump = false → o.target = none) :=
  buildOps_targets hv h

/-! ## block_target (blocks.add_pop_block_targets) -/

/-- only `block_target` is written, and only with values that are the `target` of some op of the stream —
so they are members of `targets` in `_split_bytecode` -/
theorem pop_block_targets_are_targets (ops ops' : List Op) (h : addPopBlockTargets ops = .ok ops') :
    ops'.length = ops.length ∧
    ∀ (i : Nat) (a : Op), ops[i]? = some a → ∃ b : Op, ops'[i]? = some b ∧ b.idx = a.idx ∧ b.next = a.next ∧ b.prev = a.prev ∧
      b.cls = a.cls ∧ b.target = a.target ∧ b.eaft = a.eaft ∧
      ∀ t, b.blockTarget = some t → t ∈ targetsOf ops := by
  have p := addPopBlockTargets_ok h
  refine ⟨p.length_eq.symm, ?_⟩
  intro i a ha
  obtain ⟨b, hb, h1, h2, h3, h4, h5, h6, h7⟩ := p.getElem? i a ha
  exact ⟨b, hb, h1, h3, h2, h4, h5, h6, h7⟩

/-- the walk terminates within the model's fuel `2·n + 2` -/
theorem pop_block_fuel_sufficient (ops : List Op) (hw : opsWF ops = true) :
    addPopBlockTargets ops ≠ .error .outOfFuel :=
  addPopBlockTargets_no_fuel hw

/-! ## _split_bytecode -/

/-- For every stream with positional links (what `opcode_list_wf` provides) that `_split_bytecode` accepts,
with or without `SEND`: the blocks are non-empty, a block's id is the index of its first op, their
concatenation is exactly the input stream, no op occurs twice. -/
theorem split_partition (ver : Nat) (ops : List Op) (blocks : List Block) (edges : List (Nat × Nat))
    (hwf : opsWFFrom 0 none ops = true) (h : splitBytecode ver ops = .ok (blocks, edges)) :
    (∀ b ∈ blocks, b.code ≠ [] ∧ b.id = b.code.headD 0) ∧
    flat blocks = ops.map (·.idx) ∧ flat blocks = List.range' 0 ops.length ∧ (flat blocks).Nodup := by
  obtain ⟨h1, h2⟩ := splitBytecode_partition (last_next_none_of_wf ops 0 none hwf) h
  have h3 := map_idx_of_wf ops 0 none hwf
  refine ⟨h1, h2, h2.trans h3, ?_⟩
  rw [h2, h3]
  exact List.nodup_range'

/-- Every op that is some op's `target` is the first op of a block — with the two exclusions made explicit:
(a) in 3.12 a `GET_ANEXT` target does not force a split (the `isinstance(op.next, GET_ANEXT)` clause);
(b) the SEND exclusion: ops strictly inside a `yield_value_block` (`sendInterior`), which the code never cuts. -/
theorem split_targets_start_blocks (ver : Nat) (ops : List Op) (blocks : List Block) (edges : List (Nat × Nat))
    (hwf : opsWFFrom 0 none ops = true) (h : splitBytecode ver ops = .ok (blocks, edges))
    (x : Op) (hx : x ∈ ops) (ht : x.idx ∈ targetsOf ops)
    (hga : ¬ (ver ≥ 12 ∧ (info x.cls).isGetAnext = true))
    (hsend : x.idx ∉ sendInterior ver ops) :
    ∃ b ∈ blocks, b.code.head? = some x.idx :=
  splitBytecode_starts hwf h x hx (needed_of_target hwf hx ht hga) hsend

/-- Streams without `SEND` (or any stream before 3.12): the splitter raises nothing and the SEND exclusion
is empty, so every non-`GET_ANEXT` target starts a block. -/
theorem split_no_send_total (ver : Nat) (ops : List Op)
    (hns : ∀ op ∈ ops, (decide (ver ≥ 12) && (info op.cls).isSend) = false) :
    (∃ r, splitBytecode ver ops = .ok r) ∧ sendInterior ver ops = [] :=
  ⟨splitBytecode_ok_of_no_send hns, sendInteriorFrom_outside_nil _ ops hns⟩

/-! ## 3.12 surgery -/

/-- Under `mergeGuard` (every `END_ASYNC_FOR` block is merged into at most one `JUMP_BACKWARD` block, no chains):
the final blocks are non-empty, no op occurs twice, and the ops they contain are exactly the input ops
minus the ops of the removed jump-back blocks (`jumpBackRemoved`) minus the popped `JUMP_BACKWARD`s
(`poppedOps`). -/
theorem surgery_partition_partial (ops : Array Op) (B0 B1 : List Block) (ml : List (Nat × Nat)) (out : SurgeryOut)
    (hB : ∀ b ∈ B0, b.code ≠ []) (hnd : (flat B0).Nodup)
    (hrm : removeJumpBack ops B0 = .ok B1) (hml : mergeList ops B1 = .ok ml)
    (hg : mergeGuard B1.length ml = true) (h : surgery ops B0 = .ok out) :
    (∀ b ∈ out.blocks, b.code ≠ []) ∧ (flat out.blocks).Nodup ∧
    ∀ x, x ∈ flat out.blocks ↔ (x ∈ flat B0 ∧ x ∉ poppedOps B1 ml ∧ x ∉ jumpBackRemoved ops B0) :=
  surgery_partition hB hnd hrm hml hg h

/-- a raw item; class numbers come from the regenerated `Cls.*` constants (rows move when opcodes.py
gains classes) -/
def r (off : Nat) (cls : Nat) (argval : Nat) (pre : Option Nat) (push : Bool := false) : RawOp :=
  { off := off, cls := cls, argval := argval, pre := pre, pushExc := push }

/-- the stream CPython 3.12 emits for
`async def f(x):\n  async for a in x:\n    if a: continue\n    g(a)\n  return 1` (offsets doubled) -/
def asyncForRaw : List RawOp :=
  [r 0 Cls.RETURN_GENERATOR 0 none, r 4 Cls.POP_TOP 0 none, r 8 Cls.RESUME 0 none, r 12 Cls.LOAD_FAST 0 none,
   r 16 Cls.GET_AITER 0 none, r 20 Cls.GET_ANEXT 0 none, r 24 Cls.LOAD_CONST 0 none, r 28 Cls.SEND 48 none,
   r 36 Cls.YIELD_VALUE 0 none, r 40 Cls.RESUME 0 none, r 44 Cls.JUMP_BACKWARD_NO_INTERRUPT 28 none,
   r 48 Cls.END_SEND 0 none, r 52 Cls.STORE_FAST 0 none, r 56 Cls.LOAD_FAST 0 none, r 60 Cls.POP_JUMP_IF_FALSE 68 none,
   r 64 Cls.JUMP_BACKWARD 20 none, r 68 Cls.LOAD_GLOBAL 0 none, r 88 Cls.LOAD_FAST 0 none, r 92 Cls.CALL 0 none,
   r 108 Cls.POP_TOP 0 none, r 112 Cls.JUMP_BACKWARD 20 none, r 116 Cls.CLEANUP_THROW 0 none,
   r 120 Cls.JUMP_BACKWARD 48 none, r 124 Cls.END_ASYNC_FOR 0 none, r 128 Cls.RETURN_CONST 0 none,
   r 132 Cls.CALL_INTRINSIC_1 0 none, r 136 Cls.RERAISE 0 none]

def asyncForEntries : List (Nat × Nat) :=
  [(8, 132), (20, 124), (36, 116), (40, 124), (52, 132), (116, 124), (124, 132)]

/-- final block codes of a stream (`none` when some stage raises) -/
def finalCodes (ver : Nat) (raw : List RawOp) (entries : List (Nat × Nat)) : Option (List (List Nat)) :=
  match orderCode ver raw entries with
  | .ok res => some (res.blocks.map (·.code))
  | .error _ => none

/-- the smallest stream with the same shape: an `async for` head (`GET_ANEXT`), two `JUMP_BACKWARD`s to it,
the `END_ASYNC_FOR` both are associated with by the exception table -/
def miniAsyncRaw : List RawOp :=
  [r 0 Cls.GET_ANEXT 0 none, r 4 Cls.POP_JUMP_IF_FALSE 12 none, r 8 Cls.JUMP_BACKWARD 0 none,
   r 12 Cls.JUMP_BACKWARD 0 none, r 16 Cls.END_ASYNC_FOR 0 none, r 20 Cls.RETURN_CONST 0 none]

/-- Without the guard the statement is false of the code: the `END_ASYNC_FOR` op (index 4) ends up in two
blocks, because it is merged into both `JUMP_BACKWARD` blocks.  The same happens on the stream CPython emits
for `asyncForRaw` (op 23, see the example at the end) — known finding `c16-end-async-for-duplicated`,
replayed on the real code by the check. -/
theorem surgery_partition_not_full :
    ∃ codes, finalCodes 12 miniAsyncRaw [(0, 16)] = some codes ∧ ¬ codes.flatten.Nodup := by
  refine ⟨[[0, 1], [4], [4], [5]], by decide +kernel, by decide⟩

/-! ## order_nodes / compute_predecessors (cfg_utils.py) -/

/-- For **every** graph (closed under `out`) and **every** priority structure and priority map, `order_nodes`
returns (the fuel `1 + |E|` suffices) a duplicate-free list that contains exactly the nodes reachable from
`nodes[0]`, starts with it, and in which every other element has a predecessor earlier in the list. -/
theorem order_sound {P : Type} (po : PrioOps P) (pm : Nat → P) (root : Nat) (rest : List Nat)
    (out : Nat → List Nat) (hclosed : ∀ n ∈ root :: rest, ∀ m ∈ out n, m ∈ root :: rest) :
    ∃ order, orderNodesWith po pm (root :: rest) out = .ok order ∧
      order.Nodup ∧ (∀ x, x ∈ order ↔ ReflTransGen (Edge out) root x) ∧ order.head? = some root ∧
      ∀ pre x post, order = pre ++ x :: post → pre ≠ [] → ∃ p ∈ pre, x ∈ out p :=
  orderNodesWith_sound po pm root rest out hclosed

/-- fuel sufficiency of the `while queue:` loop on its own: each node is ordered once and queued at most
once per incoming edge. -/
theorem order_fuel_sufficient {P : Type} (po : PrioOps P) (pm : Nat → P) (out : Nat → List Nat) (nodes : List Nat)
    (hclosed : ∀ n ∈ nodes, ∀ m ∈ out n, m ∈ nodes) (q : List (Nat × P)) (order seen : List Nat) (f : Nat)
    (hq : ∀ k ∈ keys q, k ∈ nodes) (hf : q.length + pot nodes out seen ≤ f) :
    ∃ res, orderLoop po pm out f q order seen = .ok res :=
  orderLoop_fuel po pm out nodes hclosed f q order seen hq hf

/-- `compute_predecessors` terminates (fuel) and returns, for every node, exactly its reflexive-transitive
ancestors, as a duplicate-free list (so `len` is the cardinality). -/
theorem predecessors_correct (nodes : List Nat) (out : Nat → List Nat)
    (hclosed : ∀ n ∈ nodes, ∀ m ∈ out n, m ∈ nodes) :
    ∃ pm, computePredecessors nodes out = .ok pm ∧
      (∀ k, (pm.lookup k).isSome ↔ k ∈ nodes) ∧ (∀ n, (G pm n).Nodup) ∧
      ∀ n ∈ nodes, ∀ p, p ∈ G pm n ↔ (p ∈ nodes ∧ ReflTransGen (Edge out) p n) := by
  obtain ⟨pm, h⟩ := computePredecessors_ok (nodes := nodes) (out := out) hclosed
  exact ⟨pm, h, computePredecessors_spec hclosed h⟩

/-- the real `order_nodes` (priorities from `compute_predecessors`): it returns `ok`, i.e. neither a KeyError
nor the final `assert len(set(order) | dead) == len(set(nodes))` can fire, and the result is sound. -/
theorem order_assert_never_fires (root : Nat) (rest : List Nat) (out : Nat → List Nat)
    (hclosed : ∀ n ∈ root :: rest, ∀ m ∈ out n, m ∈ root :: rest) :
    ∃ order, orderNodes (root :: rest) out = .ok order ∧
      order.Nodup ∧ (∀ x, x ∈ order ↔ ReflTransGen (Edge out) root x) ∧ order.head? = some root ∧
      ∀ pre x post, order = pre ++ x :: post → pre ≠ [] → ∃ p ∈ pre, x ∈ out p :=
  orderNodes_sound root rest out hclosed

/-! ## obligations over the regenerated opcode table (`decide +kernel`) -/

def lookupName (n : String) : Option ClsInfo := table.find? fun ci => ci.name == n

/-- Every opcode name of the 3.12 opcode map has a class (`globals()[op.name]` cannot fail); the class has a
known jump exactly when the disassembler decodes the argument as a jump offset; and, for instructions
`compile()` can emit, `no_next()` is exactly CPython's "never falls through". -/
theorem table_covers_python312 :
    names312.all (fun n =>
      match lookupName n.name with
      | some ci => ci.hasKnownJump == n.jump && (!n.emitted || ci.noNext == n.noFallthrough)
      | none => false) = true := by
  decide +kernel

def hasFlag (ci : ClsInfo) (f : Nat) : Bool := ci.flags &&& f != 0

/-- the classmethods agree with the `_FLAGS` bit formulas of `Opcode` -/
theorem table_flag_methods_consistent :
    table.all (fun ci =>
      ci.hasKnownJump == (hasFlag ci HAS_JREL || hasFlag ci HAS_JABS) &&
      ci.hasJunknown == hasFlag ci HAS_JUNKNOWN &&
      ci.storeJump == hasFlag ci STORE_JUMP &&
      ci.doesJump == ((hasFlag ci HAS_JREL || hasFlag ci HAS_JABS || hasFlag ci HAS_JUNKNOWN) && !hasFlag ci STORE_JUMP) &&
      ci.noNext == hasFlag ci NO_NEXT &&
      ci.popsBlock == hasFlag ci POPS_BLOCK &&
      ci.pushesBlock == hasFlag ci PUSHES_BLOCK &&
      ci.hasArgument == hasFlag ci HAS_ARGUMENT) = true := by
  decide +kernel

/-- facts the block code silently relies on: a class that pushes a block has a known jump (so the
`assert op.target` of `add_pop_block_targets` cannot fire after `_add_jump_targets`); `JUMP_BACKWARD`,
`JUMP_BACKWARD_NO_INTERRUPT` jump and never fall through; `SEND` has a known jump; `POP_BLOCK` pops a block;
the `setup_except_op` classes push a block and only store their jump; class names are pairwise distinct. -/
theorem table_block_facts :
    table.all (fun ci =>
      (!ci.pushesBlock || ci.hasKnownJump) &&
      (!ci.isJumpBackward || (ci.doesJump && ci.noNext && ci.hasKnownJump)) &&
      (!ci.isJbni || (ci.doesJump && ci.noNext && ci.hasKnownJump)) &&
      (!ci.isSend || ci.hasKnownJump) &&
      (!ci.isPopBlock || ci.popsBlock) &&
      (!ci.isSetupExcept || (ci.pushesBlock && ci.storeJump && ci.hasKnownJump)) &&
      (!ci.isEndAsyncFor || ci.doesJump)) = true ∧
    (table.map (·.name)).Nodup := by
  constructor
  · decide +kernel
  · decide +kernel

/-! ## exception-table markers (opcodes._add_setup_except) -/

/-- **every try range that is opened is closed, and no instruction is lost** — `_partial`: for streams whose
instruction offsets are even (wordcode), whose kept ranges start after offset 0 and end *on* an instruction
(`stopsOnOps`; the driver reports the share of real streams outside this guard: pycnite's inclusive `end`
sometimes falls between two instructions and `_add_exception_block` then takes the `max()` branch).
For every exception-table entry the selection loop keeps, the items handed to `_make_opcode_list` contain a
`SETUP_EXCEPT_311` filed at `start − ½` whose pre-set target is the handler's first op, and a `POP_BLOCK`
filed at `end + ½`; and every input instruction is still present with its class and argument.
(The marker keys are `≡ 3` and `≡ 1 (mod 4)` in doubled offsets, instructions `≡ 0`: no dict key can collide.
With integer keys `start − 1` / `end + 1` two adjacent ranges would collide — seeded change c16-m3.) -/
theorem try_ranges_closed_partial (ops : List PreOp) (entries : List ExcEntry) (out : List XOp)
    (hev : evenOffs ops = true) (hst : stopsOnOps ops entries = true) (hsp : startsPos ops entries = true)
    (h : addSetupExcept ops entries = .ok out) :
    ∃ ks, kept ops entries = .ok ks ∧
      (∀ e ∈ ks,
        (∃ x ∈ out, x.off = 2 * e.start - 1 ∧ x.cls = Cls.SETUP_EXCEPT_311 ∧ x.pre = some (2 * e.target)) ∧
        (∃ y ∈ out, y.off = 2 * e.stop + 1 ∧ y.cls = Cls.POP_BLOCK)) ∧
      (∀ o ∈ ops, ∃ x ∈ out, x.off = 2 * o.off ∧ x.cls = o.cls ∧ x.argval = o.argval ∧ x.pre = none) :=
  addSetupExcept_closed ops entries out hev hst hsp h

/-- the selection loop keeps at most one entry per start offset (two entries with one start have one start
line, and a line is kept once) — this is what makes the SETUP markers' keys pairwise distinct -/
theorem kept_starts_distinct (ops : List PreOp) (entries : List ExcEntry) (ks : List ExcEntry)
    (h : kept ops entries = .ok ks) : ks.Pairwise (fun a b => a.start ≠ b.start) :=
  (keptFrom_spec ops entries [] ks h).2

/-- **every try range that is opened is closed** — the guard `stopsOnOps` replaced by the weaker `endsFresh`: an entry
whose `end` falls *between* two instructions must not share its last instruction with an earlier kept entry (then the
largest dict key below `e.end` — where `_add_exception_block` files the POP_BLOCK — is that instruction itself and not
a marker).  `endR ops e` is the entry's last instruction (`e.end` itself when it is one).  Both guards are evaluated by
the driver on every real stream; `endsFresh` held on all of them so far (the evidence reports the count). -/
theorem try_ranges_closed (ops : List PreOp) (entries : List ExcEntry) (out : List XOp)
    (hev : evenOffs ops = true) (hfr : endsFresh ops entries = true) (hsp : startsPos ops entries = true)
    (h : addSetupExcept ops entries = .ok out) :
    ∃ ks, kept ops entries = .ok ks ∧
      (∀ e ∈ ks,
        (∃ x ∈ out, x.off = 2 * e.start - 1 ∧ x.cls = Cls.SETUP_EXCEPT_311 ∧ x.pre = some (2 * e.target)) ∧
        (∃ r, endR ops e = some r ∧ ∃ y ∈ out, y.off = 2 * r + 1 ∧ y.cls = Cls.POP_BLOCK)) ∧
      (∀ o ∈ ops, ∃ x ∈ out, x.off = 2 * o.off ∧ x.cls = o.cls ∧ x.argval = o.argval ∧ x.pre = none) :=
  addSetupExcept_closedR ops entries out hev hfr hsp h

-- OPEN  the statement without `endsFresh`: two kept ranges that end between the same two instructions put the second
--       POP_BLOCK after the first one's marker (key `end + 1.0`); no compiler output seen so far does that.

/-! ## non-vacuity -/

/-- the same function before `_add_setup_except`: byte offsets, and its exception table -/
def tryPre : List PreOp :=
  [⟨0, Cls.RESUME, 0, 1⟩, ⟨2, Cls.NOP, 0, 2⟩, ⟨4, Cls.LOAD_GLOBAL, 0, 3⟩, ⟨14, Cls.CALL, 0, 3⟩,
   ⟨22, Cls.STORE_FAST, 0, 3⟩, ⟨24, Cls.LOAD_FAST, 0, 6⟩, ⟨26, Cls.RETURN_VALUE, 0, 6⟩,
   ⟨28, Cls.PUSH_EXC_INFO, 0, 0⟩, ⟨30, Cls.LOAD_GLOBAL, 0, 4⟩, ⟨40, Cls.CHECK_EXC_MATCH, 0, 4⟩,
   ⟨42, Cls.POP_JUMP_IF_FALSE, 56, 4⟩, ⟨44, Cls.POP_TOP, 0, 4⟩, ⟨46, Cls.LOAD_CONST, 0, 5⟩,
   ⟨48, Cls.STORE_FAST, 0, 5⟩, ⟨50, Cls.POP_EXCEPT, 0, 5⟩, ⟨52, Cls.LOAD_FAST, 0, 6⟩,
   ⟨54, Cls.RETURN_VALUE, 0, 6⟩, ⟨56, Cls.RERAISE, 0, 4⟩, ⟨58, Cls.COPY, 0, 0⟩, ⟨60, Cls.POP_EXCEPT, 0, 0⟩,
   ⟨62, Cls.RERAISE, 0, 0⟩]

def tryTable : List ExcEntry := [⟨4, 22, 28, false⟩, ⟨28, 48, 58, true⟩, ⟨56, 56, 58, true⟩]

-- the guards of `try_ranges_closed_partial` hold on it, one entry is kept, and the model's output is the
-- stream `tryRaw` above (what the real `_add_setup_except` produced)
example : evenOffs tryPre = true ∧ stopsOnOps tryPre tryTable = true ∧ startsPos tryPre tryTable = true := by
  decide +kernel
example : (kept tryPre tryTable).toOption = some [⟨4, 22, 28, false⟩] := by decide +kernel
-- a range ending between two instructions (`stop = 5`, instructions at 4 and 8): outside `stopsOnOps`, inside `endsFresh`;
-- the POP_BLOCK is filed after the instruction at 4
example : (stopsOnOps [⟨0, Cls.RESUME, 0, 1⟩, ⟨2, Cls.NOP, 0, 2⟩, ⟨4, Cls.NOP, 0, 2⟩, ⟨8, Cls.PUSH_EXC_INFO, 0, 3⟩]
      [⟨2, 5, 8, false⟩], endsFresh [⟨0, Cls.RESUME, 0, 1⟩, ⟨2, Cls.NOP, 0, 2⟩, ⟨4, Cls.NOP, 0, 2⟩,
      ⟨8, Cls.PUSH_EXC_INFO, 0, 3⟩] [⟨2, 5, 8, false⟩]) = (false, true) := by decide +kernel
example : ((addSetupExcept [⟨0, Cls.RESUME, 0, 1⟩, ⟨2, Cls.NOP, 0, 2⟩, ⟨4, Cls.NOP, 0, 2⟩, ⟨8, Cls.PUSH_EXC_INFO, 0, 3⟩]
      [⟨2, 5, 8, false⟩]).toOption.map (·.map fun x => (x.off, x.cls))) =
    some [(0, Cls.RESUME), (3, Cls.SETUP_EXCEPT_311), (4, Cls.NOP), (8, Cls.NOP), (9, Cls.POP_BLOCK),
          (16, Cls.PUSH_EXC_INFO)] := by decide +kernel
-- two adjacent ranges (the first ends where the second starts, 2 bytes apart): four distinct markers
example : ((addSetupExcept [⟨0, Cls.RESUME, 0, 1⟩, ⟨2, Cls.NOP, 0, 2⟩, ⟨4, Cls.NOP, 0, 3⟩, ⟨6, Cls.NOP, 0, 4⟩,
      ⟨8, Cls.PUSH_EXC_INFO, 0, 5⟩] [⟨2, 2, 8, false⟩, ⟨4, 6, 8, false⟩]).toOption.map
    (·.map fun x => (x.off, x.cls))) =
    some [(0, Cls.RESUME), (3, Cls.SETUP_EXCEPT_311), (4, Cls.NOP), (5, Cls.POP_BLOCK), (7, Cls.SETUP_EXCEPT_311),
          (8, Cls.NOP), (12, Cls.NOP), (13, Cls.POP_BLOCK), (16, Cls.PUSH_EXC_INFO)] := by decide +kernel


/-- `def f(x):\n try:\n  x = g()\n except E:\n  x = 2\n return x` after the real `_add_setup_except`
(a synthetic SETUP_EXCEPT_311 at offset 3.5 with its pre-set target, a synthetic POP_BLOCK at 22.5) -/
def tryRaw : List RawOp :=
  [r 0 Cls.RESUME 0 none, r 4 Cls.NOP 0 none, r 7 Cls.SETUP_EXCEPT_311 0 (some 56), r 8 Cls.LOAD_GLOBAL 0 none,
   r 28 Cls.CALL 0 none, r 44 Cls.STORE_FAST 0 none, r 45 Cls.POP_BLOCK 0 none, r 48 Cls.LOAD_FAST 0 none,
   r 52 Cls.RETURN_VALUE 0 none, r 56 Cls.PUSH_EXC_INFO 0 none, r 60 Cls.LOAD_GLOBAL 0 none,
   r 80 Cls.CHECK_EXC_MATCH 0 none, r 84 Cls.POP_JUMP_IF_FALSE 112 none, r 88 Cls.POP_TOP 0 none,
   r 92 Cls.LOAD_CONST 0 none, r 96 Cls.STORE_FAST 0 none, r 100 Cls.POP_EXCEPT 0 none, r 104 Cls.LOAD_FAST 0 none,
   r 108 Cls.RETURN_VALUE 0 none, r 112 Cls.RERAISE 0 none, r 116 Cls.COPY 0 none, r 120 Cls.POP_EXCEPT 0 none,
   r 124 Cls.RERAISE 0 none]

def tryEntries : List (Nat × Nat) := [(8, 56), (56, 116), (112, 116)]

def orderOf (ver : Nat) (raw : List RawOp) (entries : List (Nat × Nat)) : Option (List Nat) :=
  match orderCode ver raw entries with
  | .ok res => some res.order
  | .error _ => none

/-- `x = await y`-shaped stream: `SEND … JUMP_BACKWARD_NO_INTERRUPT` followed by `CLEANUP_THROW` -/
def miniSendRaw : List RawOp :=
  [r 0 Cls.LOAD_CONST 0 none, r 4 Cls.SEND 24 none, r 8 Cls.YIELD_VALUE 0 none, r 12 Cls.RESUME 0 none,
   r 16 Cls.JUMP_BACKWARD_NO_INTERRUPT 4 none, r 20 Cls.CLEANUP_THROW 0 none, r 24 Cls.END_SEND 0 none,
   r 28 Cls.RETURN_VALUE 0 none]

-- the premises hold on real streams and the model computes what the real code computes
example : rawWF tryRaw = true := by decide +kernel
example : rawWF asyncForRaw = true := by decide +kernel
example : orderOf 12 tryRaw tryEntries = some [0, 7, 9, 13, 19] := by decide +kernel
example : (buildOps 12 tryRaw tryEntries).toOption.map opsWF = some true := by decide +kernel
-- the real `async for` stream: op 23 (END_ASYNC_FOR) is in two final blocks
example : finalCodes 12 asyncForRaw asyncForEntries =
    some [[0, 1, 2, 3, 4, 5, 6], [7], [8, 9, 10], [11, 12, 13, 14], [23], [16, 17, 18, 19, 23], [24], [25, 26]] := by
  decide +kernel
-- the merge guard fails exactly there and holds with a single back jump
example : ((buildOps 12 miniAsyncRaw [(0, 16)]).toOption.bind fun ops =>
    (mergeListOf 12 ops).map fun p => (p.2, mergeGuard p.1 p.2)) = some ([(1, 3), (2, 3)], false) := by
  decide +kernel
example : ((buildOps 12 [r 0 Cls.GET_ANEXT 0 none, r 4 Cls.LOAD_CONST 0 none, r 8 Cls.JUMP_BACKWARD 0 none,
      r 12 Cls.END_ASYNC_FOR 0 none, r 16 Cls.RETURN_CONST 0 none] [(0, 12)]).toOption.bind fun ops =>
    (mergeListOf 12 ops).map fun p => (p.2, mergeGuard p.1 p.2)) = some ([(0, 1)], true) := by
  decide +kernel
-- the SEND exclusion is non-empty (ops 3, 4, 5 lie inside the yield_value_block) and no target is in it
example : ((buildOps 12 miniSendRaw []).toOption.map fun ops =>
    (sendInterior 12 ops, noInteriorTarget 12 ops, targetsOf ops)) = some ([3, 4, 5], true, [6, 1]) := by
  decide +kernel
example : finalCodes 12 miniSendRaw [] = some [[0], [1], [2, 3, 4, 5], [6, 7]] := by decide +kernel
-- order_nodes on a graph with a cycle, a dead node and a join
example : (orderNodes [0, 1, 2, 3, 4] (outOf [(0, 1), (0, 2), (1, 3), (2, 3), (3, 1), (4, 3)])).toOption =
    some [0, 2, 1, 3] := by decide +kernel
example : (computePredecessors [0, 1, 2] (outOf [(0, 1), (1, 2), (2, 1)])).toOption.map
    (fun pm => (G pm 0, G pm 1, G pm 2)) = some ([0], [1, 0, 2], [2, 1, 0]) := by decide +kernel

-- the model of `_add_setup_except` turns the pre-stream `tryPre` into the stream `tryRaw` (what the real code produced)
example : (addSetupExcept tryPre tryTable).toOption.map (·.map fun x => (x.off, x.cls, x.pre)) =
    some (tryRaw.map fun q => (q.off, q.cls, q.pre)) := by decide +kernel

end PytypeModel.Props.C16
