import PytypeModel.Merge.MergePyi
import PytypeModel.Proofs.MergeMain
import PytypeModel.Proofs.MergeEntry

/-! # C20 — merging a stub into source changes annotations only

`merge py pyi` models `merge_pyi.merge_sources` = pytype's two stub pre-filters followed by libcst's
`ApplyTypeAnnotationsVisitor` (third party: modelled, tied to the real code by correspondence, not
verified).  A successful merge `m` keeps apart what libcst adds at the top of the module
(`m.imports`, `m.decls`, `m.typevars`, `m.classes`) and the annotated original statements `m.body`.

Full-strength statements that are *false* of the code have a `_not_full` theorem (witness replayed
on the real `merge_sources` by the harness) and a `_partial` theorem under decidable guards. -/
namespace PytypeModel.Props.C20
open PytypeModel.Merge

/-! ## erase (merge py pyi) = erase py -/

/-- The annotated statements are the program's statements: identical after dropping annotations,
as long as libcst did not copy a `Generic[...]` base from the stub into a class (ghost flag). -/
theorem body_erases {py pyi : List Stmt} {m : Merged} (h : merge py pyi = .ok m)
    (hg : m.genericAdded = false) : eraseStmts m.body = eraseStmts py := by
  rcases merge_ok h with ⟨hb, _⟩ | ⟨hb, _, _, _, hga⟩
  · rw [hb]
  · rw [hb]
    exact (erase_applyStmts (envOf py pyi) py {} (hga ▸ hg)).2

/-- **merge_erases** (partial).  After removing annotations, the added `typing` imports, the added
TypeVar definitions and the added bare declarations, the result is the original program — provided
(guards, all decidable on the result) no class was copied from the stub, no `Generic[...]` base was
added and every added import is a `typing` import.
Full statement (no guards): false, see `merge_erases_not_full`. -/
theorem merge_erases_partial {py pyi : List Stmt} {m : Merged} (h : merge py pyi = .ok m)
    (hc : m.classes = []) (hg : m.genericAdded = false) (hi : ∀ p ∈ m.imports, p.1 = "typing") :
    eraseMerged m = eraseStmts py := by
  have hf : m.imports.filter (fun p => p.1 != "typing") = [] := by
    rw [List.filter_eq_nil_iff]
    intro p hp
    simp [hi p hp]
  simp [eraseMerged, hf, hc, body_erases h hg]

/-- witness: the stub defines a class the program does not have -/
def injPy : List Stmt := [.assign [.name "P"] "v" false]
def injPyi : List Stmt := [.classDef "P" [] [.name "NamedTuple"] [.annAssign (.name "x") (.name "list") none]]
def injM : Merged := match merge injPy injPyi with | .ok m => m | .error _ => default

theorem merge_erases_not_full :
    ¬ (∀ (py pyi : List Stmt) (m : Merged), merge py pyi = .ok m → eraseMerged m = eraseStmts py) := by
  intro h
  have := congrArg List.length (h injPy injPyi injM (by rfl))
  exact absurd this (by decide)

/-! ## existing annotations are kept -/

/-- **existing_kept** (full).  Every annotation of the program — (qualified name, slot, annotation),
function bodies included — occurs unchanged, in the same order, in the merged statements. -/
theorem existing_kept {py pyi : List Stmt} {m : Merged} (h : merge py pyi = .ok m) :
    (annotsL [] py).Sublist (annotsL [] m.body) := by
  rcases merge_ok h with ⟨hb, _⟩ | ⟨hb, _⟩
  · rw [hb]; exact List.Sublist.refl _
  · rw [hb]; exact annots_applyStmts (envOf py pyi) py {} []

/-! ## inserted annotations come from the stub -/

/-- **inserted_from_stub** (partial).  Every annotation present after the merge at a place where the
program had none (including the bare declarations added at the top) is, up to `typing.`
qualification and quoting of a forward reference, the annotation the *raw* stub gives for the same
slot of the definition with the same qualified name.  Guards: libcst's qualifier stack did not leak
(`leaked`), no declaration for the module top was recorded inside a class (`scopeTop`), and the stub
uses no dotted name of a module other than `typing` (`stubOK`).
Full statement: false, see `inserted_from_stub_not_full`. -/
theorem inserted_from_stub_partial {py pyi : List Stmt} {m : Merged} (h : merge py pyi = .ok m)
    (hl : m.leaked = false) (hs : m.scopeTop = false) (hok : stubOK (mkCtx py pyi) pyi = true) :
    ∀ e ∈ insertedAll py m, ∃ raw, StubGives pyi e.1 e.2.1 raw ∧ normAnn e.2.2 = normAnn raw := by
  intro e he
  obtain ⟨qn', hsrc, hq⟩ := insertedAll_src h e he
  have hqn := hq hl hs
  subst hqn
  obtain ⟨raw, v, hg, ha, _, it, hit, hraw, _⟩ := namedSrc_raw hsrc
  refine ⟨raw, hg, ?_⟩
  have hok' : annOK (mkCtx py pyi) raw = true := by
    simp only [stubOK, List.all_eq_true] at hok
    exact hok it hit raw hraw
  rcases ha with ha | ha
  · rw [ha, normAnn_quote, normAnn_dequal _ _ hok']
  · rw [ha, normAnn_quote]

/-- witness (libcst's qualifier leak): after the second assignment to the annotated `C.y` the name
`y` stays on the qualifier stack, `leave_ClassDef` pops it instead of `C`, and the module-level `g`
receives the annotations of the stub's `C.g`. -/
def leakPy : List Stmt :=
  [.classDef "C" [] [] [.assign [.name "y"] "v1" false, .assign [.name "y"] "v2" false],
   .funcDef "g" [] [⟨"a", none, none, .pos⟩] none [.other "ret"]]
def leakPyi : List Stmt :=
  [.classDef "C" [] [] [.annAssign (.name "y") (.sub (.name "list") (.name "int")) none,
    .funcDef "g" [] [⟨"a", some (.name "int"), none, .pos⟩] (some (.name "int")) []]]
def leakM : Merged := match merge leakPy leakPyi with | .ok m => m | .error _ => default

theorem inserted_from_stub_not_full :
    ¬ (∀ (py pyi : List Stmt) (m : Merged), merge py pyi = .ok m →
        ∀ e ∈ insertedAll py m, ∃ raw, StubGives pyi e.1 e.2.1 raw ∧ normAnn e.2.2 = normAnn raw) := by
  intro h
  obtain ⟨raw, hg, _⟩ := h leakPy leakPyi leakM (by rfl) ("g", .ret, .name "int") (by decide)
  have hits : itemsL [] leakPyi =
      [.cls "C" [] [] [.annAssign (.name "y") (.sub (.name "list") (.name "int")) none,
          .funcDef "g" [] [⟨"a", some (.name "int"), none, .pos⟩] (some (.name "int")) []],
       .var "C.y" (.sub (.name "list") (.name "int")),
       .func "C.g" [⟨"a", some (.name "int"), none, .pos⟩] (some (.name "int"))] := by rfl
  rcases hg with ⟨hs, _⟩ | ⟨ps, r, ⟨it, hit, rfl⟩, _⟩
  · cases hs
  · rw [hits] at hit
    simp only [List.mem_cons, List.not_mem_nil, or_false] at hit
    rcases hit with hit | hit | hit
    · cases hit
    · cases hit
    · injection hit with h1
      exact absurd h1 (by decide)

/-! ## no bare Any / Never -/

/-- **no_bare_any** (partial).  No inserted return or variable annotation is the bare name `Any` or
`Never` — for every stub whose return / variable annotations are not a *dotted* `m.Any` / `m.Never`
(decidable guard on the stub).  After the repair 9f850ba this covers variables as well as returns.
Full statement: false (`typing.Any` passes the name-only pre-filter and libcst shortens it to `Any`),
see `no_bare_any_not_full`. -/
theorem no_bare_any_partial {py pyi : List Stmt} {m : Merged} (h : merge py pyi = .ok m)
    (hd : noDottedAny pyi = true) :
    ∀ e ∈ insertedAll py m, (e.2.1 = .ret ∨ e.2.1 = .var) → isAnyNever e.2.2 = false := by
  intro e he hslot
  obtain ⟨qn', hsrc, _⟩ := insertedAll_src h e he
  obtain ⟨raw, v, _, _, hrv, it, hit, _, hmem⟩ := namedSrc_raw hsrc
  obtain ⟨hany, ha⟩ := hrv hslot
  have hdot : isDottedAny raw = false := by
    simp only [noDottedAny, List.all_eq_true] at hd
    simpa using hd it hit raw (hmem hslot)
  rw [ha]
  exact present_not_any _ _ _ raw hany hdot

def dotPy : List Stmt := [.funcDef "f" [] [] none [.other "ret"]]
def dotPyi : List Stmt := [.importMod "typing", .funcDef "f" [] [] (some (.dotted "typing" "Any")) []]
def dotM : Merged := match merge dotPy dotPyi with | .ok m => m | .error _ => default

theorem no_bare_any_not_full :
    ¬ (∀ (py pyi : List Stmt) (m : Merged), merge py pyi = .ok m →
        ∀ e ∈ insertedAll py m, (e.2.1 = .ret ∨ e.2.1 = .var) → isAnyNever e.2.2 = false) := by
  intro h
  have := h dotPy dotPyi dotM (by rfl) ("f", .ret, .name "Any") (by decide) (Or.inl rfl)
  exact absurd this (by decide)

/-! ## the merge can fail on legal input -/

/-- `merge` fails exactly when a dotted name was recorded for a declaration at the module top
(`cst.Name("C.x")` raises; `merge_sources` wraps it into `MergeError`). -/
theorem merge_fails_iff (py pyi : List Stmt) :
    (∃ m, merge py pyi = .ok m) ↔ (runOf py pyi).2.top.any (fun d => hasDot d.1) = false := by
  unfold merge runOf envOf
  simp only
  constructor
  · intro ⟨m, h⟩
    split at h
    · cases h
    · rename_i hn; simpa using hn
  · intro hn
    rw [if_neg (by simp [hn])]
    split <;> exact ⟨_, rfl⟩

/-- witness: `C.x, y = [], 2` at module level with a stub giving `C.x` -/
def crashPy : List Stmt :=
  [.classDef "C" [] [] [.assign [.name "x"] "v0" false],
   .assign [.tuple [some "C.x", some "y"]] "v" false]
def crashPyi : List Stmt :=
  [.classDef "C" [] [] [.annAssign (.name "x") (.sub (.name "list") (.name "int")) none]]

theorem merge_error_witness : merge crashPy crashPyi = .error .invalidIdentifier := by rfl

/-! ## the repaired defect (9f850ba) and non-vacuity -/

/-- the witness of the repaired defect: `x: Any`, `y: Never` are not inserted any more -/
def fixedPy : List Stmt :=
  [.funcDef "foo" [] [] none [.other "ret"], .assign [.name "x"] "call" false,
   .assign [.name "y"] "call" false]
def fixedPyi : List Stmt :=
  [.importFrom "typing" ["Any", "Never"], .annAssign (.name "x") (.name "Any") none,
   .annAssign (.name "y") (.name "Never") none, .funcDef "foo" [] [] (some (.name "int")) []]
def fixedM : Merged := match merge fixedPy fixedPyi with | .ok m => m | .error _ => default

theorem fixed_witness_model :
    merge fixedPy fixedPyi = .ok fixedM ∧ insertedAll fixedPy fixedM = [("foo", .ret, .name "int")] :=
  ⟨by rfl, by decide⟩

/-- a pair inside every guard on which all theorems say something: return, positional (by index),
keyword-only (by name) and variable annotations are inserted, an existing annotation and a
mismatching function are left alone, `Any` is filtered, a trivial type is filtered, an import added -/
def okPy : List Stmt :=
  [.funcDef "f" [] [⟨"a", none, none, .pos⟩, ⟨"b", some (.name "str"), none, .pos⟩, ⟨"", none, none, .star⟩,
      ⟨"k", none, some "d", .kwonly⟩] none [.other "ret"],
   .funcDef "g" [] [⟨"a", none, none, .pos⟩] none [.other "ret"],
   .classDef "C" [] [] [.assign [.name "x"] "v" false, .assign [.name "n"] "v" false,
      .funcDef "m" [] [⟨"self", none, none, .pos⟩] none [.other "ret"]],
   .assign [.name "u"] "v" false, .assign [.name "w"] "v" false]
def okPyi : List Stmt :=
  [.importFrom "typing" ["Any", "List"],
   .funcDef "f" [] [⟨"a", some (.name "int"), none, .pos⟩, ⟨"b", some (.name "str"), none, .pos⟩,
      ⟨"", none, none, .star⟩, ⟨"k", some (.sub (.name "List") (.name "Any")), some "d", .kwonly⟩]
      (some (.name "C")) [],
   .funcDef "g" [] [⟨"a", none, none, .pos⟩, ⟨"b", none, none, .pos⟩] (some (.name "int")) [],
   .classDef "C" [] [] [.annAssign (.name "x") (.sub (.name "List") (.name "int")) none,
      .annAssign (.name "n") (.name "int") none,
      .funcDef "m" [] [⟨"self", none, none, .pos⟩] (some (.name "Any")) []],
   .annAssign (.name "u") (.name "Any") none,
   .annAssign (.name "w") (.sub (.name "dict") (.tup (.name "str") (.name "Any"))) none]
def okM : Merged := match merge okPy okPyi with | .ok m => m | .error _ => default

example : merge okPy okPyi = .ok okM := by rfl
example : okM.classes = [] ∧ okM.genericAdded = false ∧ okM.leaked = false ∧ okM.scopeTop = false ∧
    okM.imports = [("typing", "List"), ("typing", "Any")] := by decide
example : stubOK (mkCtx okPy okPyi) okPyi = true ∧ noDottedAny okPyi = true := by decide
/-- `C` is a forward reference where `f` is defined, hence quoted by libcst -/
example : insertedAll okPy okM =
    [("f", .ret, .str "C"), ("f", .pos 0, .name "int"), ("f", .kw "k", .sub (.name "List") (.name "Any")),
     ("C.x", .var, .sub (.name "List") (.name "int")),
     ("w", .var, .sub (.name "dict") (.tup (.name "str") (.name "Any")))] := by decide
example : annotsL [] okPy = [("f", .pos 1, .name "str")] := by decide
example : eraseMerged okM = eraseStmts okPy := merge_erases_partial (py := okPy) (pyi := okPyi) (by rfl) (by decide) (by decide) (by decide)

/-- the model reproduces the other characterised regions -/
example : leakM.leaked = true := by decide
example : (match merge [.classDef "C" [] [] [.assign [.name "a", .name "b"] "v" false]]
      [.classDef "C" [] [] [.annAssign (.name "a") (.name "list") none]] with
    | .ok m => (m.scopeTop, m.decls) | .error _ => (false, [])) = (true, [("a", .name "list")]) := by decide
example : (match merge [.classDef "A" [] [] [.other "pass"]]
      [.classDef "A" [] [.sub (.name "Generic") (.name "T")] [.other "..."]] with
    | .ok m => m.genericAdded | .error _ => false) = true := by decide
example : (match merge [.funcDef "f" [] [] none [.other "ret"]]
      [.funcDef "f" [] [] (some (.dotted "A" "B")) []] with
    | .ok m => m.imports | .error _ => []) = [("A", "B")] := by decide

/-! ## the file-based entry points (`merge_files_src`, `merge_files`, `main.py`; model: `Merge/Entry.lean`)

`mg` is `merge_sources` (any function: these theorems are about the layer around it). -/
section entry
open PytypeModel.Merge.Entry

/-- What is printed or written is the result of `merge_sources` on the program's text and the stub, **whatever the
mode and the backup extension are**: print mode prints it and leaves the files alone, diff mode leaves the files
alone, overwrite mode leaves exactly that text in the program's file; `changed` says whether it differs. -/
theorem entry_text_is_merge (mg : String → String → Option String) (fs : FS) (pyPath pyi : String) (mode : Mode)
    (backup : Option String) (o : Out) (py a : String) (hpy : fsGet fs pyPath = some py) (hm : mg py pyi = some a)
    (h : mergeFilesSrc mg fs pyPath pyi mode backup = .ok o) :
    o.changed = (a != py) ∧
    (mode = .print → o.stdout = [.text a] ∧ o.fs = fs) ∧
    (mode = .diff → o.fs = fs) ∧
    (mode = .overwrite → fsGet o.fs pyPath = some a ∧ o.stdout = []) := by
  unfold mergeFilesSrc at h
  simp only [hpy, hm] at h
  cases mode with
  | print => simp only [Except.ok.injEq] at h; subst h; simp
  | diff => simp only [Except.ok.injEq] at h; subst h; simp
  | overwrite =>
    by_cases hc : (a != py) = true
    · simp only [hc, if_true, Except.ok.injEq] at h
      subst h
      simp [fsGet_fsSet_same, hc]
    · have hc' : (a != py) = false := by simpa using hc
      simp only [hc', Bool.false_eq_true, if_false, Except.ok.injEq] at h
      subst h
      have : a = py := by simpa using hc'
      simp [hc', this, hpy]

/-- Frame: no file other than the program and — in overwrite mode with a (non-empty) backup extension — its backup is
created or changed, in any mode. -/
theorem entry_frame (mg : String → String → Option String) (fs : FS) (pyPath pyi : String) (mode : Mode)
    (backup : Option String) (o : Out) (h : mergeFilesSrc mg fs pyPath pyi mode backup = .ok o) (x : String)
    (hx : x ≠ pyPath) (hb : ∀ b, truthy backup = some b → x ≠ backupPath pyPath b) :
    fsGet o.fs x = fsGet fs x := by
  unfold mergeFilesSrc at h
  cases hpy : fsGet fs pyPath with
  | none => simp [hpy] at h
  | some py =>
    cases hm : mg py pyi with
    | none => simp [hpy, hm] at h
    | some a =>
      simp only [hpy, hm] at h
      cases mode with
      | print => simp only [Except.ok.injEq] at h; subst h; rfl
      | diff => simp only [Except.ok.injEq] at h; subst h; rfl
      | overwrite =>
        by_cases hc : (a != py) = true
        · simp only [hc, if_true, Except.ok.injEq] at h
          subst h
          simp only
          rw [fsGet_fsSet_other _ _ _ _ hx]
          cases htb : truthy backup with
          | none => rfl
          | some b => exact fsGet_fsSet_other _ _ _ _ (hb b htb)
        · have hc' : (a != py) = false := by simpa using hc
          simp only [hc', Bool.false_eq_true, if_false, Except.ok.injEq] at h
          subst h; rfl

/-- The backup holds the original text: in overwrite mode, when the merge changed something and a non-empty backup
extension was given, `<file>.<ext>` contains what the program's file contained before. -/
theorem entry_backup_original (mg : String → String → Option String) (fs : FS) (pyPath pyi : String)
    (backup : Option String) (b : String) (o : Out) (py : String) (hpy : fsGet fs pyPath = some py)
    (hb : truthy backup = some b) (h : mergeFilesSrc mg fs pyPath pyi .overwrite backup = .ok o)
    (hc : o.changed = true) : fsGet o.fs (backupPath pyPath b) = some py := by
  unfold mergeFilesSrc at h
  cases hm : mg py pyi with
  | none => simp [hpy, hm] at h
  | some a =>
    simp only [hpy, hm] at h
    by_cases hca : (a != py) = true
    · simp only [hca, if_true, Except.ok.injEq, hb] at h
      subst h
      simp only
      rw [fsGet_fsSet_other _ _ _ _ (backupPath_ne pyPath b), fsGet_fsSet_same]
    · have hc' : (a != py) = false := by simpa using hca
      simp only [hc', Bool.false_eq_true, if_false, Except.ok.injEq] at h
      subst h
      simp [hc'] at hc

/-- The command line: `--diff` ↦ diff, `-i` ↦ overwrite, neither ↦ print; a backup extension without `-i` is a usage
error, so nothing is ever written outside overwrite mode. -/
theorem main_nondestructive (mg : String → String → Option String) (fs : FS) (diffFlag inPlace : Bool)
    (backup : Option String) (pyPath pyiPath : String) (o : Out)
    (h : Entry.main mg fs diffFlag inPlace backup pyPath pyiPath = .ok o) (hi : inPlace = false) : o.fs = fs := by
  subst hi
  unfold Entry.main modeOfArgs at h
  cases hd : diffFlag <;> cases htb : (truthy backup).isSome <;> simp [hd, htb] at h
  all_goals
    unfold mergeFiles mergeFilesSrc at h
    cases hp : fsGet fs pyiPath <;> simp only [hp] at h <;> try (simp at h; done)
    cases hpy : fsGet fs pyPath <;> simp only [hpy] at h <;> try (simp at h; done)
    rename_i pyi py
    cases hm : mg py pyi <;> simp only [hm] at h <;> try (simp at h; done)
    simp only [Except.ok.injEq] at h
    subst h; rfl

/-- non-vacuity: overwrite with backup on a two-file disk -/
example : (mergeFilesSrc (fun py pyi => some (py ++ pyi)) [("m.py", "P"), ("m.pyi", "S")] "m.py" "S" .overwrite
    (some "orig")).toOption.map (fun o => (o.fs, o.changed)) =
    some ([("m.py", "PS"), ("m.pyi", "S"), ("m.py.orig", "P")], true) := by decide
example : (modeOfArgs false false (some "orig")).toOption = none ∧
    (modeOfArgs false true (some "")).toOption = some (.overwrite, none) := by decide

end entry

end PytypeModel.Props.C20
