import PytypeModel.Proofs.DirectorComments

/-! # C03 — a disable comment on the reported line silences exactly that error

Property theorems about the model of `pytype/directors/directors.py` (`Director/LineSet.lean`,
`Director/Director.lean`; vocabulary in `Director/Spec.lean`) and non-vacuity examples, nothing else.

Reading guide.  `build disable P` is `Director.__init__` run on the parser output `P`; `filterError D e` is
`D.filter_error(e)` = (is the error logged?, `e.line` afterwards).  "`P'` is `P` plus one trailing directive"
is `AddComment c gs gs'` on the comment groups (or, more generally, `insOk …` on the action lists — the form the
correspondence stage evaluates on the real parser's output).

Full-strength reading of the property: *appending the directive to line `L` silences `(E, L)` and changes
nothing else*.  That is **false of the code** in three ways, each witnessed below by `decide` and replayed on
the real pytype by the check (known findings):
* `trailing_disable_not_full`  — the same class is also silenced on the start line of every range the comment
  is filed under (`_process_disable` sets both lines on purpose);
* `trailing_reline_not_full`   — a comment on the multi-line last statement of a function moves the function's
  recorded end, so an implicit-return `bad-return-type` is re-lined differently;
* `trailing_enable_not_full`   — a trailing `enable=E` on a later line of the same statement overrides it.
What is proved instead are the `_partial` theorems with those exceptions spelled out as decidable guards. -/
namespace PytypeModel.Props.C03
open PytypeModel.Director PytypeModel.Generated

/-! ## `_LineSet` -/

/-- `line in s`: an explicit per-line entry wins; otherwise the line is in the set iff an odd number of
transitions lie at or before it. -/
theorem lineset_spec (s : LineSet) (l : Nat) :
    s.contains l = true ↔
      match s.lines.lookup l with
      | some b => b = true
      | none => (s.transitions.countP (· ≤ l)) % 2 = 1 := by
  unfold LineSet.contains LineSet.inRanges LineSet.bisectRight LineSet.transitions
  cases s.lines.lookup l with
  | some b => simp
  | none => simp [List.countP_reverse]

/-- `set_line` overrides exactly one line -/
theorem lineset_set_line (s : LineSet) (l l' : Nat) (b : Bool) :
    (s.setLine l b).contains l' = if l' = l then b else s.contains l' := LineSet.contains_setLine s l l' b

/-- `start_range` raises (always `ValueError`) exactly when the line is below the last recorded transition -/
theorem start_range_error_iff (s : LineSet) (l : Nat) (m : Bool) (e : Crash) :
    s.startRange l m = .error e ↔ e = .valueError ∧ ∃ last, s.transitions.getLast? = some last ∧ l < last := by
  have h := LineSet.startTrev_error_iff s.trev l m e
  unfold LineSet.transitions
  rw [List.getLast?_reverse, ← h]
  unfold LineSet.startRange
  cases LineSet.startTrev s.trev l m <;> simp

/-- whatever calls are made, `_transitions` stays strictly increasing (so `bisect` is used on a sorted list) -/
theorem transitions_sorted (cs : List (Nat × Bool)) (t : List Nat) (h : LineSet.runTrev [] cs = .ok t) :
    t.reverse.Pairwise (· < ·) := by
  have := LineSet.runTrev_sorted cs [] t (by simp [LineSet.SortedRev]) h
  rw [List.pairwise_reverse]; exact this

/-- **range semantics.**  For any sequence of `start_range(line, membership)` calls with non-decreasing lines
(what stand-alone `disable`/`enable` comments of one error class produce, top to bottom) no call raises, and
afterwards `l` is inside a range iff the last call at or before `l` was a disable: from that line to the
matching enable (or the end of the file) and nowhere else; same-line pairs cancel. -/
theorem lineset_ranges_spec (cs : List (Nat × Bool)) (hmono : cs.Pairwise (fun a b => a.1 ≤ b.1)) :
    ∃ t, LineSet.runTrev [] cs = .ok t ∧ ∀ l, LineSet.inRangesTrev t l = lastCallLE cs l :=
  LineSet.runTrev_mono cs hmono

/-! ## tables (re-checked against the regenerated `Generated/DirectorSets.lean` on every run) -/

/-- every function-call error is adjustable: inside a `Call` range a kept name is always re-lined -/
theorem function_call_subset_adjustable :
    ∀ n ∈ DirectorSets.functionCallErrors, n ∈ DirectorSets.allAdjustableErrors := by decide

/-- the wildcard is not an error name, and the name tested by the implicit-return adjustment is adjustable -/
theorem table_facts :
    DirectorSets.allErrors ∉ DirectorSets.errorNames ∧ "bad-return-type" ∈ DirectorSets.allAdjustableErrors ∧
    "bad-return-type" ∈ DirectorSets.errorNames := by decide

/-! ## the directive text -/

/-- `# pytype: disable=E` / `enable=E` (any `E` without whitespace or comma) is read as that single directive -/
theorem directive_text_parses (E : String) (hE : plainName E = true) (L : Nat) :
    IsTrailingPytype ⟨L, .pytype, "disable=" ++ E, false⟩ true E ∧
    IsTrailingPytype ⟨L, .pytype, "enable=" ++ E, false⟩ false E :=
  ⟨isTrailingPytype_disable E hE L, isTrailingPytype_enable E hE L⟩

/-! ## trailing directives: non-interference -/

/-- **Core theorem (action level).**  If the Director actions of `P'` are those of `P` plus inserted actions
that only write `True` entries of line set `k` on the lines `T` (and possibly re-adjust function ends), then
`P'` crashes iff `P` does, and `filter_error` answers identically for every error that is not an
implicit-return candidate, except possibly errors decided by `k` on a line of `T`. -/
theorem trailing_directive_partial (k : Key) (T : List Nat) (gd : List String) (P P' : ParserOut)
    (hfr : P'.functionRanges = P.functionRanges) (hrl : P'.returnLines = P.returnLines)
    (hins : insOk (allowedTrailing k T) (allActions gd P) (allActions gd P') = true) :
    (∀ cr, build gd P = .error cr → build gd P' = .error cr) ∧
    ∀ D, build gd P = .ok D → ∃ D', build gd P' = .ok D' ∧
      ∀ e : Err, relineCandidate P.returnLines e = false →
        (∀ l, e.line = some l → keyAffects k e.name = true → effLine l ∉ T) →
        filterError D' e = filterError D e := by
  have hi := insOk_sound _ _ _ hins
  have sim := applyAll_ins_trailing hi { fr := FuncRanges.init P.functionRanges }
    { fr := FuncRanges.init P.functionRanges } (AgreeOff.rfl' k T _)
  constructor
  · intro cr h
    rw [build_error_iff] at h ⊢
    rw [hfr]; exact sim.2 cr h
  · intro D h
    obtain ⟨hst, hret⟩ := (build_ok_iff gd P D).1 h
    obtain ⟨b', hb', hab⟩ := sim.1 D.st hst
    refine ⟨⟨b', P'.returnLines⟩, (build_ok_iff gd P' _).2 ⟨by rw [hfr]; exact hb', rfl⟩, ?_⟩
    intro e hcand hoff
    rw [filterError_noncandidate ⟨b', P'.returnLines⟩ e
          (by show relineCandidate P'.returnLines e = false; rw [hrl]; exact hcand),
        filterError_noncandidate D e (by rw [hret]; exact hcand)]
    cases hl : e.line with
    | none => rfl
    | some l =>
      simp only
      rw [suppressed_agree hab e.name (effLine l) (hoff l hl)]

/-- the action lists of a parse and of the same parse with comment `c` added -/
theorem addComment_allActions {c : Comment} {k : Key}
    (hc : ∀ r, ∀ a ∈ commentActions r c, allowedTrailing k [c.line, r.startLine] a = true)
    (gd : List String) {gs gs' : List Group} (fr : List (Nat × Nat)) (rl : List Nat) (h : AddComment c gs gs') :
    Ins (allowedTrailing k (touched c gs')) (allActions gd ⟨gs, fr, rl⟩) (allActions gd ⟨gs', fr, rl⟩) :=
  Ins.keepList _ (addComment_ins hc h _ (fun _ hl => hl))

private theorem trailing_comment_partial {c : Comment} {k : Key}
    (hc : ∀ r, ∀ a ∈ commentActions r c, allowedTrailing k [c.line, r.startLine] a = true)
    (gd : List String) (gs gs' : List Group) (fr : List (Nat × Nat)) (rl : List Nat) (hadd : AddComment c gs gs') :
    (∀ cr, build gd ⟨gs, fr, rl⟩ = .error cr → build gd ⟨gs', fr, rl⟩ = .error cr) ∧
    ∀ D, build gd ⟨gs, fr, rl⟩ = .ok D → ∃ D', build gd ⟨gs', fr, rl⟩ = .ok D' ∧
      ∀ e : Err, relineCandidate rl e = false →
        (∀ l, e.line = some l → keyAffects k e.name = true → effLine l ∉ touched c gs') →
        filterError D' e = filterError D e := by
  have hi := addComment_allActions hc gd fr rl hadd
  have sim := applyAll_ins_trailing hi { fr := FuncRanges.init fr } { fr := FuncRanges.init fr }
    (AgreeOff.rfl' k _ _)
  constructor
  · intro cr h
    rw [build_error_iff] at h ⊢
    exact sim.2 cr h
  · intro D h
    obtain ⟨hst, hret⟩ := (build_ok_iff gd _ D).1 h
    obtain ⟨b', hb', hab⟩ := sim.1 D.st hst
    refine ⟨⟨b', rl⟩, (build_ok_iff gd _ _).2 ⟨hb', rfl⟩, ?_⟩
    intro e hcand hoff
    rw [filterError_noncandidate ⟨b', rl⟩ e hcand, filterError_noncandidate D e (by rw [hret]; exact hcand)]
    cases hl : e.line with
    | none => rfl
    | some l =>
      simp only
      rw [suppressed_agree hab e.name (effLine l) (hoff l hl)]

/-- **`# pytype: disable=E` appended to a line changes nothing else** — `_partial`: with the explicit
exceptions (a) errors of class `E` (all classes for `E = "*"`) on a *touched* line, i.e. the comment's own line
or the start line of a range the comment is filed under, and (b) implicit-return candidates
(`relineCandidate`), whose re-lining depends on the function ranges the comment may re-adjust.
The Director of the edited program exists whenever the original one does, and crashes are preserved. -/
theorem trailing_disable_partial (E : String) (c : Comment) (hc : IsTrailingPytype c true E)
    (gd : List String) (gs gs' : List Group) (fr : List (Nat × Nat)) (rl : List Nat)
    (hadd : AddComment c gs gs') :
    (∀ cr, build gd ⟨gs, fr, rl⟩ = .error cr → build gd ⟨gs', fr, rl⟩ = .error cr) ∧
    ∀ D, build gd ⟨gs, fr, rl⟩ = .ok D → ∃ D', build gd ⟨gs', fr, rl⟩ = .ok D' ∧
      ∀ e : Err, relineCandidate rl e = false →
        (∀ l, e.line = some l → (E = e.name ∨ E = DirectorSets.allErrors) → effLine l ∉ touched c gs') →
        filterError D' e = filterError D e := by
  obtain ⟨h1, h2⟩ := trailing_comment_partial (commentActions_pytype_allowed hc) gd gs gs' fr rl hadd
  refine ⟨h1, fun D hD => ?_⟩
  obtain ⟨D', hD', h3⟩ := h2 D hD
  refine ⟨D', hD', fun e hcand hoff => h3 e hcand (fun l hl hk => hoff l hl ?_)⟩
  unfold keyAffects at hk
  simp only [Bool.or_eq_true, beq_iff_eq, Option.some.injEq] at hk
  rcases hk with (hk | hk) | hk
  · cases hk
  · exact .inr hk
  · exact .inl hk

/-- the `# type: ignore` variant: every class, same touched lines -/
theorem trailing_ignore_partial (c : Comment) (hc : IsTrailingIgnore c)
    (gd : List String) (gs gs' : List Group) (fr : List (Nat × Nat)) (rl : List Nat)
    (hadd : AddComment c gs gs') :
    (∀ cr, build gd ⟨gs, fr, rl⟩ = .error cr → build gd ⟨gs', fr, rl⟩ = .error cr) ∧
    ∀ D, build gd ⟨gs, fr, rl⟩ = .ok D → ∃ D', build gd ⟨gs', fr, rl⟩ = .ok D' ∧
      ∀ e : Err, relineCandidate rl e = false →
        (∀ l, e.line = some l → effLine l ∉ touched c gs') →
        filterError D' e = filterError D e := by
  obtain ⟨h1, h2⟩ := trailing_comment_partial (commentActions_ignore_allowed hc) gd gs gs' fr rl hadd
  refine ⟨h1, fun D hD => ?_⟩
  obtain ⟨D', hD', h3⟩ := h2 D hD
  exact ⟨D', hD', fun e hcand hoff => h3 e hcand (fun l hl _ => hoff l hl)⟩

/-! ## trailing directives: the error on the comment's own line is silenced -/

/-- **`# pytype: disable=E` on line `L` silences `(E, L)`** — `_partial`: provided `E` is a valid name (or `*`),
the comment is filed under the statement's `LineRange` group, and no trailing `enable=E` writes the same line
(guard `setLine (some E) L false ∉ actions`; see `trailing_enable_not_full`). -/
theorem trailing_disable_silences (E : String) (c : Comment) (hc : IsTrailingPytype c true E)
    (gd : List String) (P : ParserOut) (D : Director) (hD : build gd P = .ok D)
    (g : Group) (hg : g ∈ P.groups) (hkind : g.range.kind = .line) (hcg : c ∈ g.comments)
    (hvalid : validName E = true) (hline : c.line ≠ 0)
    (hguard : Action.setLine (some E) c.line false ∉ allActions gd P)
    (e : Err) (hfile : e.sameFile = true) (hl : e.line = some c.line)
    (hname : E = e.name ∨ E = DirectorSets.allErrors) (hcand : relineCandidate P.returnLines e = false) :
    filterError D e = .ok (false, some c.line) := by
  obtain ⟨hst, hret⟩ := (build_ok_iff gd P D).1 hD
  have hmem : Action.setLine (some E) c.line true ∈ allActions gd P := by
    cases P with
    | mk gs fr rl =>
      refine mem_allActions gd gs fr rl g c _ hg hcg ?_
      unfold commentActions
      rw [hc.tool]
      refine List.mem_append_left _ ?_
      rw [hc.parses]
      exact disableOne_own_line g.range c true E hc.closed hvalid hkind
  have hlook := applyAll_lookup_true (some E) c.line _ _ _ hst hguard (.inl hmem)
  have hsup : suppressed D.st e.name (effLine c.line) = true := by
    have : effLine c.line = c.line := by simp [effLine, hline]
    rw [this]
    refine suppressed_of_key (k := some E) ?_ (contains_of_lookup_true _ _ hlook)
    unfold keyAffects
    rcases hname with h | h <;> simp [h]
  rw [filterError_noncandidate D e (by rw [hret]; exact hcand)]
  simp [hfile, hl, hsup]

/-- `# type: ignore` on line `L` silences every error on `L` (no guard needed: nothing un-ignores a line) -/
theorem trailing_ignore_silences (c : Comment) (hc : IsTrailingIgnore c)
    (gd : List String) (P : ParserOut) (D : Director) (hD : build gd P = .ok D)
    (g : Group) (hg : g ∈ P.groups) (hcg : c ∈ g.comments) (hline : c.line ≠ 0)
    (hguard : Action.setLine none c.line false ∉ allActions gd P)
    (e : Err) (hfile : e.sameFile = true) (hl : e.line = some c.line)
    (hcand : relineCandidate P.returnLines e = false) :
    filterError D e = .ok (false, some c.line) := by
  obtain ⟨hst, hret⟩ := (build_ok_iff gd P D).1 hD
  have hmem : Action.setLine none c.line true ∈ allActions gd P := by
    cases P with
    | mk gs fr rl =>
      refine mem_allActions gd gs fr rl g c _ hg hcg ?_
      unfold commentActions
      rw [hc.tool]
      refine List.mem_append_left _ ?_
      simp [typeActions, hc.ignore, hc.closed]
  have hlook := applyAll_lookup_true none c.line _ _ _ hst hguard (.inl hmem)
  have hsup : suppressed D.st e.name (effLine c.line) = true := by
    have : effLine c.line = c.line := by simp [effLine, hline]
    rw [this]
    exact suppressed_of_key (k := none) (by simp [keyAffects]) (contains_of_lookup_true _ _ hlook)
  rw [filterError_noncandidate D e (by rw [hret]; exact hcand)]
  simp [hfile, hl, hsup]

/-- no model action ever writes a `False` entry into `_ignore`: the guard of `trailing_ignore_silences`
always holds -/
theorem ignore_never_unset (gd : List String) (P : ParserOut) (l : Nat) :
    Action.setLine none l false ∉ allActions gd P := ignore_never_unset_aux gd P l

/-! ## the full-strength statement is false of the code: witnesses (replayed on the real pytype by stage W) -/

/-- `x = f("s",` / `      g("t"))  # pytype: disable=wrong-arg-types` — groups as produced by the real parser -/
def w1Comment : Comment := ⟨2, .pytype, "disable=wrong-arg-types", false⟩
def w1Before : ParserOut := ⟨[], [], []⟩
def w1After : ParserOut :=
  ⟨[⟨⟨.line, 1, 2⟩, [w1Comment]⟩, ⟨⟨.call, 1, 2⟩, [w1Comment]⟩, ⟨⟨.call, 2, 2⟩, [w1Comment]⟩], [], []⟩

/-- **not full (1)**: the trailing disable on the continuation line 2 also silences the same class on the
statement's first line 1 — an error *other* than the one on the comment's line changes. -/
theorem trailing_disable_not_full :
    IsTrailingPytype w1Comment true "wrong-arg-types" ∧ AddComment w1Comment w1Before.groups w1After.groups ∧
    filterVia [] w1Before ⟨true, "wrong-arg-types", some 1, "CALL"⟩ = some (true, some 1) ∧
    filterVia [] w1After ⟨true, "wrong-arg-types", some 1, "CALL"⟩ = some (false, some 1) ∧
    filterVia [] w1After ⟨true, "wrong-arg-types", some 2, "CALL"⟩ = some (false, some 2) := by
  refine ⟨isTrailingPytype_disable "wrong-arg-types" (by decide) 2, ?_, by decide, by decide, by decide⟩
  exact .new _ (.new _ (.new _ .nil))

/-- `def f(x) -> int:` / `  print(g("s",  # pytype: disable=wrong-arg-types` / `          x))` -/
def w2Comment : Comment := ⟨2, .pytype, "disable=wrong-arg-types", false⟩
def w2Before : ParserOut := ⟨[], [(1, 3)], []⟩
def w2After : ParserOut :=
  ⟨[⟨⟨.line, 2, 3⟩, [w2Comment]⟩, ⟨⟨.call, 2, 3⟩, [w2Comment]⟩], [(1, 3)], []⟩

/-- **not full (2)**: the comment sits on the multi-line last statement of a function; the function's recorded
end moves from line 3 to line 2, and the implicit-return `bad-return-type` (an error of another class) is now
reported on line 2 instead of line 3. -/
theorem trailing_reline_not_full :
    AddComment w2Comment w2Before.groups w2After.groups ∧
    filterVia [] w2Before ⟨true, "bad-return-type", some 2, "RETURN_CONST"⟩ = some (true, some 3) ∧
    filterVia [] w2After ⟨true, "bad-return-type", some 2, "RETURN_CONST"⟩ = some (true, some 2) := by
  refine ⟨.new _ (.new _ .nil), by decide, by decide⟩

/-- `x = f("s",  # pytype: disable=wrong-arg-types` / `      1)  # pytype: enable=wrong-arg-types` -/
def w3Comment : Comment := ⟨1, .pytype, "disable=wrong-arg-types", false⟩
def w3Enable : Comment := ⟨2, .pytype, "enable=wrong-arg-types", false⟩
def w3Before : ParserOut := ⟨[⟨⟨.line, 1, 2⟩, [w3Enable]⟩, ⟨⟨.call, 1, 2⟩, [w3Enable]⟩], [], []⟩
def w3After : ParserOut := ⟨[⟨⟨.line, 1, 2⟩, [w3Comment, w3Enable]⟩, ⟨⟨.call, 1, 2⟩, [w3Enable]⟩], [], []⟩

/-- **not full (3)**: a trailing `enable` of the same class on a later line of the statement re-enables the
statement's first line after the new disable was applied: the error on the comment's own line stays. -/
theorem trailing_enable_not_full :
    IsTrailingPytype w3Comment true "wrong-arg-types" ∧ AddComment w3Comment w3Before.groups w3After.groups ∧
    filterVia [] w3After ⟨true, "wrong-arg-types", some 1, "CALL"⟩ = some (true, some 1) := by
  refine ⟨isTrailingPytype_disable "wrong-arg-types" (by decide) 1, ?_, by decide⟩
  exact .into ⟨.line, 1, 2⟩ [] [w3Enable] (.same _ .nil)

/-! ## stand-alone directives -/

/-- **range semantics on the Director.**  If the stand-alone directives of line set `k` come in non-decreasing
line order (what the parser's ascending `LineRange` groups give; measured by K), then membership of `l` through
`k`'s ranges is: the last stand-alone directive of `k` at or before `l` (the command-line `disable` counts as
line 0) is a disable. -/
theorem standalone_spec (gd : List String) (P : ParserOut) (D : Director) (k : Key)
    (h : build gd P = .ok D)
    (hmono : (rangeCalls k (allActions gd P)).Pairwise (fun a b => a.1 ≤ b.1)) (l : Nat) :
    (D.st.get k).inRanges l = lastCallLE (rangeCalls k (allActions gd P)) l := by
  obtain ⟨hst, _⟩ := (build_ok_iff gd P D).1 h
  have h1 := applyAll_trev k _ _ _ hst
  have h0 : (({ fr := FuncRanges.init P.functionRanges } : State).get k).trev = [] := rfl
  rw [h0] at h1
  obtain ⟨t, h2, hspec⟩ := LineSet.runTrev_mono _ hmono
  rw [h2] at h1
  injection h1 with h1
  have := hspec l
  rw [h1] at this
  exact this

/-- **a stand-alone disable at `L₁` and enable at `L₂`** (the only stand-alone directives of that class, no
per-line entry on `l`): `l` is in the set exactly when `L₁ ≤ l < L₂`. -/
theorem standalone_range (gd : List String) (P : ParserOut) (D : Director) (k : Key) (L₁ L₂ : Nat)
    (h : build gd P = .ok D) (hcalls : rangeCalls k (allActions gd P) = [(L₁, true), (L₂, false)])
    (hle : L₁ ≤ L₂) (l : Nat) (hnw : lineWrites k l (allActions gd P) = []) :
    (D.st.get k).contains l = decide (L₁ ≤ l ∧ l < L₂) := by
  obtain ⟨hst, _⟩ := (build_ok_iff gd P D).1 h
  have hlk := applyAll_lookup_none k l _ _ _ hst hnw
  have h0 : (({ fr := FuncRanges.init P.functionRanges } : State).get k).lines.lookup l = none := rfl
  rw [h0] at hlk
  have hr := standalone_spec gd P D k h (by rw [hcalls]; simp [hle]) l
  unfold LineSet.contains
  rw [hlk, hr, hcalls]
  unfold lastCallLE
  by_cases h1 : L₁ ≤ l <;> by_cases h2 : L₂ ≤ l <;> simp [List.filter, h1, h2] <;> omega

/-- a stand-alone disable at `L₁` that is never re-enabled holds to the end of the file -/
theorem standalone_to_eof (gd : List String) (P : ParserOut) (D : Director) (k : Key) (L₁ : Nat)
    (h : build gd P = .ok D) (hcalls : rangeCalls k (allActions gd P) = [(L₁, true)])
    (l : Nat) (hnw : lineWrites k l (allActions gd P) = []) :
    (D.st.get k).contains l = decide (L₁ ≤ l) := by
  obtain ⟨hst, _⟩ := (build_ok_iff gd P D).1 h
  have hlk := applyAll_lookup_none k l _ _ _ hst hnw
  have h0 : (({ fr := FuncRanges.init P.functionRanges } : State).get k).lines.lookup l = none := rfl
  rw [h0] at hlk
  have hr := standalone_spec gd P D k h (by rw [hcalls]; simp) l
  unfold LineSet.contains
  rw [hlk, hr, hcalls]
  unfold lastCallLE
  by_cases h1 : L₁ ≤ l <;> simp [List.filter, h1]

/-- … **and nowhere else**: inserting stand-alone directives of line set `k` changes no answer about error
classes that `k` does not decide (implicit-return candidates excepted, as above). -/
theorem standalone_noninterference (k : Key) (gd : List String) (P P' : ParserOut)
    (hfr : P'.functionRanges = P.functionRanges) (hrl : P'.returnLines = P.returnLines)
    (hins : insOk (allowedStandalone k) (allActions gd P) (allActions gd P') = true)
    (D D' : Director) (h : build gd P = .ok D) (h' : build gd P' = .ok D') :
    ∀ e : Err, relineCandidate P.returnLines e = false → keyAffects k e.name = false →
      filterError D' e = filterError D e := by
  have hi := insOk_sound _ _ _ hins
  obtain ⟨hst, hret⟩ := (build_ok_iff gd P D).1 h
  obtain ⟨hst', hret'⟩ := (build_ok_iff gd P' D').1 h'
  rw [hfr] at hst'
  have hab := applyAll_ins_standalone hi _ _ _ _ ⟨fun _ _ => rfl, rfl⟩ hst hst'
  intro e hcand hk
  rw [filterError_noncandidate D' e (by rw [hret', hrl]; exact hcand),
      filterError_noncandidate D e (by rw [hret]; exact hcand)]
  cases hl : e.line with
  | none => rfl
  | some l =>
    simp only
    rw [suppressed_agree_ranges hab e.name (effLine l) hk]

/-! ## non-vacuity: the hypotheses are satisfiable on non-trivial inputs and both outcomes occur -/

/-- a five-line program shape: stand-alone disable on 1, enable on 4, a two-line call on 2–3 with a trailing
disable of another class on line 3, a function 2–5 -/
def demo : ParserOut :=
  ⟨[⟨⟨.line, 1, 1⟩, [⟨1, .pytype, "disable=name-error", true⟩]⟩,
    ⟨⟨.line, 2, 3⟩, [⟨3, .pytype, "disable=attribute-error", false⟩]⟩,
    ⟨⟨.call, 2, 3⟩, [⟨3, .pytype, "disable=attribute-error", false⟩]⟩,
    ⟨⟨.line, 4, 4⟩, [⟨4, .pytype, "enable=name-error", true⟩]⟩],
   [(2, 5)], [5]⟩

example : allActions [] demo =
    [.startRange (some "name-error") 1 true, .adjustEnd 1 1,
     .setLine (some "attribute-error") 3 true, .setLine (some "attribute-error") 2 true, .adjustEnd 3 2,
     .setLine (some "attribute-error") 3 true, .setLine (some "attribute-error") 2 true,
     .startRange (some "name-error") 4 false, .adjustEnd 4 4] := by decide
example : rangeCalls (some "name-error") (allActions [] demo) = [(1, true), (4, false)] := by decide
example : filterVia [] demo ⟨true, "name-error", some 3, ""⟩ = some (false, some 3) := by decide
example : filterVia [] demo ⟨true, "name-error", some 4, ""⟩ = some (true, some 4) := by decide
example : filterVia [] demo ⟨true, "attribute-error", some 2, ""⟩ = some (false, some 2) := by decide
example : filterVia [] demo ⟨true, "attribute-error", some 4, ""⟩ = some (true, some 4) := by decide
-- implicit return inside the function 2–5 is re-lined to its end
example : filterVia [] demo ⟨true, "bad-return-type", some 4, "RETURN_CONST"⟩ = some (true, some 5) := by decide
-- a non-monotone stand-alone sequence crashes the Director (ValueError)
example : buildCrash [] ⟨[⟨⟨.line, 3, 3⟩, [⟨3, .pytype, "disable=name-error", true⟩]⟩,
                          ⟨⟨.line, 1, 1⟩, [⟨1, .pytype, "enable=name-error", true⟩]⟩], [], []⟩
          = some .valueError := by decide

/-- the premise of `trailing_disable_partial` and all guards of `trailing_disable_silences` hold on `demo`
extended by a trailing `disable=wrong-arg-types` on line 2 -/
def demoC : Comment := ⟨2, .pytype, "disable=wrong-arg-types", false⟩
def demoGroups' : List Group :=
  [⟨⟨.line, 1, 1⟩, [⟨1, .pytype, "disable=name-error", true⟩]⟩,
   ⟨⟨.line, 2, 3⟩, [demoC, ⟨3, .pytype, "disable=attribute-error", false⟩]⟩,
   ⟨⟨.call, 2, 3⟩, [⟨3, .pytype, "disable=attribute-error", false⟩]⟩,
   ⟨⟨.line, 4, 4⟩, [⟨4, .pytype, "enable=name-error", true⟩]⟩]

example : AddComment demoC demo.groups demoGroups' :=
  .same _ (.into ⟨.line, 2, 3⟩ [] [⟨3, .pytype, "disable=attribute-error", false⟩] (.same _ (.same _ .nil)))
example : touched demoC demoGroups' = [2, 2] := by decide
example : insOk (allowedTrailing (some "wrong-arg-types") [2]) (allActions [] demo)
    (allActions [] ⟨demoGroups', [(2, 5)], [5]⟩) = true := by decide
example : filterVia [] ⟨demoGroups', [(2, 5)], [5]⟩ ⟨true, "wrong-arg-types", some 2, "CALL"⟩
    = some (false, some 2) := by decide
example : filterVia [] demo ⟨true, "wrong-arg-types", some 2, "CALL"⟩ = some (true, some 2) := by decide
example : Action.setLine (some "wrong-arg-types") 2 false ∉ allActions [] ⟨demoGroups', [(2, 5)], [5]⟩ := by
  decide
example : relineCandidate [5] ⟨true, "wrong-arg-types", some 2, "CALL"⟩ = false := by decide
example : relineCandidate [5] ⟨true, "bad-return-type", some 4, "RETURN_CONST"⟩ = true := by decide

end PytypeModel.Props.C03
