import PytypeModel.Proofs.MatcherExact
import PytypeModel.Sem.CallableArity

/-! # C02 — annotations are enforced exactly: error iff the value is outside the annotated type

Model: `PytypeModel.Sem.Matcher` (`matches`/`matchesArg`/`siteError` = what pytype decides for a fully known value,
`member` = PEP-484 membership, the specification).  Only property theorems and non-vacuity examples live here. -/
namespace PytypeModel.Props.C02
open PytypeModel.Sem

/-! ## the matcher against PEP-484 membership -/

/-- FULL-STRENGTH STATEMENT (false of the code, see `match_exact_not_full`):
`∀ H v a, InF2 H a → (matches H (abs v) a = true ↔ member H v a = true)`. -/
def MatchExact : Prop :=
  ∀ (H : Hierarchy) (v : Val) (a : Ann), InF2 H a = true → («matches» H (abs v) a = true ↔ member H v a = true)

def H2 : Hierarchy := ⟨[[0], [1, 0]]⟩

/-- The deliberate deviation: `"abc"` is a `Sequence[str]` under PEP 484, pytype rejects it
(`_satisfies_noniterable_str`).  Replayed on the real code at the three sites (known finding c02-noniterable-str). -/
theorem match_exact_not_full : ¬ MatchExact := by
  intro h
  have := h H2 (.str 1) (.gen1 .seq (.base .str)) (by decide)
  revert this
  decide

/-- the other regions where the decision differs from membership, each with its witness (all replayed on the real
code as known findings): `None` is accepted for `bool` (default `none_is_not_bool=False`) -/
theorem deviation_none_bool :
    «matches» H2 (abs .none) (.base .bool) = true ∧ member H2 .none (.base .bool) = false := by decide

/-- `[1, "a"]` is accepted for `Union[list[int], list[str]]` (the option is chosen per view) -/
theorem deviation_union_per_view :
    «matches» H2 (abs (.list [.int 1, .str 1])) (.union [.gen1 .list (.base .int), .gen1 .list (.base .str)]) = true ∧
    member H2 (.list [.int 1, .str 1]) (.union [.gen1 .list (.base .int), .gen1 .list (.base .str)]) = false := by
  decide

/-- `["a"]` is accepted for `Collection[int]` (structural match that never looks at the parameter) -/
theorem deviation_collection :
    «matches» H2 (abs (.list [.str 1])) (.gen1 .coll (.base .int)) = true ∧
    member H2 (.list [.str 1]) (.gen1 .coll (.base .int)) = false := by decide

/-- Inside the guard the matcher is exact, for annotations and values of ANY depth and any hierarchy:
every view of the abstraction of `v` matches `a` iff the run-time value of `v` inhabits `a`.
(`hD`: the expression denotes exactly its listed elements — the domain on which `member`, defined on expressions,
is run-time membership; `hF`, `hV`: annotation and value are in fragment F2 — the domain on which the model is tied
to the code.) -/
theorem match_exact_partial (H : Hierarchy) (v : Val) (a : Ann) (_hF : InF2 H a = true) (_hV : v.inF2 = true)
    (_hD : v.pyDistinct = true) (hG : Guard v a = true) :
    «matches» H (abs v) a = true ↔ member H v a = true := by
  unfold «matches»
  rw [List.all_eq_true]
  exact exact_all H a v hG

/-- The guard is no artefact of the proof: outside each conjunct there is a counterexample (above), and a value
with single-element displays satisfies the union conjunct whatever the annotation. -/
theorem guard_of_small (v : Val) (a : Ann) (h1 : v.allSub Val.notStr = true) (h2 : v.allSub Val.notNone = true)
    (h3 : a.allSub Ann.notColl = true) (h4 : v.allSub Val.smallDisplay = true) : Guard v a = true := by
  simp [Guard, h1, h2, h3, h4]

/-! ## the three enforcement sites -/

/-- condition under which a site reduces to the all-views decision -/
def SiteGuard : Site → ATy → Bool
  | .arg, t => t.singleView      -- arguments only need ONE matching view
  | .ret, _ => true
  | .asg, t => !t.isNone         -- `x: T = None` is never reported (allow_none=True)

/-- FULL-STRENGTH funnel statement (false, see `site_uniform_not_full`): every site reports exactly when `matches` fails -/
def SiteUniform : Prop :=
  ∀ (H : Hierarchy) (s : Site) (t : ATy) (a : Ann), siteError H s t a = !«matches» H t a

theorem site_uniform_not_full : ¬ SiteUniform := by
  intro h
  have := h H2 .arg (abs (.list [.int 1, .str 1])) (.gen1 .list (.base .int))
  revert this
  decide

/-- second witness: the assignment site never reports a bare `None` -/
theorem site_uniform_not_full_asg :
    siteError H2 .asg (abs .none) (.base .int) = false ∧ «matches» H2 (abs .none) (.base .int) = false := by decide

theorem any_eq_all_of_single {α : Type} (l : List α) (f : α → Bool) (h : l.length = 1) : l.any f = l.all f := by
  match l, h with
  | [x], _ => simp

/-- the funnel: at each site, under its guard, an error is reported iff the all-views match fails -/
theorem site_uniform (H : Hierarchy) (s : Site) (t : ATy) (a : Ann) (hs : SiteGuard s t = true) :
    siteError H s t a = !«matches» H t a := by
  cases s with
  | ret => rfl
  | asg =>
    simp only [SiteGuard, Bool.not_eq_true'] at hs
    simp [siteError, hs]
  | arg =>
    simp only [SiteGuard, ATy.singleView, beq_iff_eq] at hs
    simp only [siteError, matchesArg, «matches»]
    rw [any_eq_all_of_single _ _ hs]

/-- without any guard the sites are ordered: whatever the argument or assignment site reports, the return site
reports too -/
theorem site_le_ret (H : Hierarchy) (s : Site) (t : ATy) (a : Ann) (h : siteError H s t a = true) :
    siteError H .ret t a = true := by
  cases s with
  | ret => exact h
  | asg =>
    simp only [siteError, Bool.not_eq_true', Bool.or_eq_false_iff] at h ⊢
    exact h.2
  | arg =>
    simp only [siteError, matchesArg, «matches», Bool.not_eq_true', List.any_eq_false, List.all_eq_false] at h ⊢
    obtain ⟨w, hw⟩ := exists_view t
    exact ⟨w, hw, by simpa using h w hw⟩

theorem singleView_of_small (v : Val) (h : v.allSub Val.smallDisplay = true) : (abs v).singleView = true := by
  obtain ⟨w, hw⟩ := single_of_small v h
  simp [ATy.singleView, hw]

/-- END-TO-END: at each of the three sites an error is reported iff the value is outside the annotated type —
inside the matcher guard and the site guard (arguments: single-element displays; assignment: not a bare `None`). -/
theorem site_exact_partial (H : Hierarchy) (s : Site) (v : Val) (a : Ann) (hF : InF2 H a = true)
    (hV : v.inF2 = true) (hD : v.pyDistinct = true) (hG : Guard v a = true) (hs : SiteGuard s (abs v) = true) :
    siteError H s (abs v) a = true ↔ member H v a = false := by
  rw [site_uniform H s (abs v) a hs]
  have := match_exact_partial H v a hF hV hD hG
  cases hm : «matches» H (abs v) a <;> cases hb : member H v a <;> simp_all

/-! ## non-vacuity -/

/-- K3(K1, K2) with K1(K0), K2(K0): a diamond -/
def HD : Hierarchy := ⟨[[0], [1, 0], [2, 0], [3, 1, 2, 0]]⟩

/-- `{"k": [K3(), K1()], "l": []}` against `Mapping[str, Sequence[Optional[K1]]]`… -/
def vDemo : Val := .dict [.str 1, .str 2] [.list [.inst 3, .inst 1], .list []]
def aDemo : Ann := .gen2 .map (.base .str) (.gen1 .seq (.opt (.cls 1)))
example : InF2 HD aDemo = true := by decide
example : vDemo.pyDistinct = true := by decide
example : vDemo.inF2 = true := by decide
example : Guard vDemo aDemo = true := by decide
example : (abs vDemo).singleView = false := by decide
example : «matches» HD (abs vDemo) aDemo = true := by decide
example : member HD vDemo aDemo = true := (match_exact_partial HD vDemo aDemo (by decide) (by decide) (by decide) (by decide)).1 (by decide)
/-- …and a rejecting instance of the theorem: K2() is not a K1 -/
def vDemo' : Val := .dict [.str 1] [.list [.inst 3, .inst 2]]
example : Guard vDemo' aDemo = true := by decide
example : «matches» HD (abs vDemo') aDemo = false := by decide
example : member HD vDemo' aDemo = false := by decide
example : siteError HD .ret (abs vDemo') aDemo = true :=
  (site_exact_partial HD .ret vDemo' aDemo (by decide) (by decide) (by decide) (by decide) (by decide)).2 (by decide)
/-- class objects against `type[Union[…]]`: K3 (a K1 and a K2) is a `type[Union[K1, int]]`, K0 is not; `bool` and
`int` are `type[Union[float, str]]` (subclass / promotion), `float` is not a `type[Union[int, str]]` -/
example : InF2 HD (.typeU [1] [.int]) = true := by decide
example : «matches» HD (abs (.clsobj 3)) (.typeU [1] [.int]) = true ∧
    «matches» HD (abs (.clsobj 0)) (.typeU [1] [.int]) = false ∧
    «matches» HD (abs (.bclsobj 2)) (.typeU [] [.float, .str]) = true ∧
    «matches» HD (abs (.bclsobj 1)) (.typeU [] [.int, .str]) = false := by decide
example : siteError HD .ret (abs (.list [.bclsobj 1])) (.gen1 .list (.typeU [2] [.int, .none])) = true :=
  (site_exact_partial HD .ret (.list [.bclsobj 1]) (.gen1 .list (.typeU [2] [.int, .none])) (by decide) (by decide)
    (by decide) (by decide) (by decide)).2 (by decide)
/-- the guard admits unions with several parameterised options when the value has a single view -/
example : Guard (.list [.int 1]) (.union [.gen1 .list (.base .int), .gen1 .list (.base .str)]) = true := by decide
/-- and multi-binding values when the union has at most one non-flat option -/
example : Guard (.list [.int 1, .bool true, .float 0])
    (.union [.base .none, .gen1 .list (.union [.base .int, .base .float]), .cls 0]) = true := by decide
/-- int → float → complex, bool <: int at depth -/
example : «matches» HD (abs (.tuple [.bool true, .int 1, .float 0])) (.gen1 .tupHom (.base .complex)) = true := by decide
example : «matches» HD (abs (.tuple [.bool true, .int 1])) (.tup [.base .int, .base .bool]) = false := by decide
/-- the argument site is strictly weaker on a heterogeneous display -/
example : siteError HD .arg (abs (.list [.int 1, .str 1])) (.gen1 .list (.base .int)) = false ∧
    siteError HD .ret (abs (.list [.int 1, .str 1])) (.gen1 .list (.base .int)) = true := by decide

/-! ### a function value against `Callable[[A1..An], R]`: the arity clause (`Sem/CallableArity.lean`) -/

section callable_arity
open PytypeModel.Sem.CallableArity

/-- **no error on a conforming callable** (full, every signature shape, every n): whenever CPython can call the
function with n positional arguments, pytype's arity clause accepts it for `Callable[[A1..An], R]`. -/
theorem callable_arity_no_false_error (s : FSig) (n : Nat) (h : cpyAccepts s n = true) : arityMatch s n = true := by
  cases s with
  | mk rp op va rk ok kw =>
    simp only [cpyAccepts, arityMatch, FSig.mandatory, FSig.maximum, Bool.and_eq_true, Bool.or_eq_true,
      decide_eq_true_eq, beq_iff_eq] at *
    obtain ⟨⟨h1, h2⟩, h3⟩ := h
    subst h3
    cases va <;> cases kw <;> simp_all <;> omega

/-- **exact inside the guard** (no keyword-only parameters; `**kwargs` only together with `*args`): the arity clause
rejects exactly the functions CPython cannot call with n positional arguments. -/
theorem callable_arity_exact_partial (s : FSig) (n : Nat) (hg : CallableArity.Guard s = true) :
    arityMatch s n = cpyAccepts s n := by
  cases s with
  | mk rp op va rk ok kw =>
    simp only [CallableArity.Guard, Bool.and_eq_true, beq_iff_eq, Bool.or_eq_true, Bool.not_eq_true'] at hg
    obtain ⟨⟨h1, h2⟩, h3⟩ := hg
    subst h1; subst h2
    rw [Bool.eq_iff_iff]
    cases va <;> cases kw <;> simp_all [cpyAccepts, arityMatch, FSig.mandatory, FSig.maximum] <;> omega

/-- the unguarded statement is false of the code: `def f(x, *, y=0)` is accepted for `Callable[[A, B], R]` (CPython:
`f(a, b)` raises TypeError), and so is `def f(**k)` for `Callable[[A], R]` — known findings c02-callable-kwonly-counted
and c02-callable-kwargs-unbounded, replayed on the real matcher. -/
theorem callable_arity_exact_not_full : ¬ ∀ (s : FSig) (n : Nat), arityMatch s n = cpyAccepts s n := by
  intro h
  exact absurd (h ⟨1, 0, false, 0, 1, false⟩ 2) (by decide)

example : arityMatch ⟨0, 0, false, 0, 0, true⟩ 1 = true ∧ cpyAccepts ⟨0, 0, false, 0, 0, true⟩ 1 = false := by decide
example : CallableArity.Guard ⟨1, 1, true, 0, 0, true⟩ = true ∧ arityMatch ⟨1, 1, true, 0, 0, true⟩ 5 = true := by decide
example : CallableArity.Guard ⟨2, 0, false, 0, 0, false⟩ = true ∧ arityMatch ⟨2, 0, false, 0, 0, false⟩ 1 = false := by decide

/-- **declared `Callable` values are matched contravariantly, position by position** (every length): the value
`Callable[[D1..Dm], R]` is accepted for `Callable[[E1..En], R]` iff m = n and every expected argument type `Ei` is
accepted where the declared `Di` is expected. -/
theorem callable_args_contravariant (ds es : List CallableArity.Scal) :
    matchArgs ds es = true ↔ ds.length = es.length ∧ ∀ i (hd : i < ds.length) (he : i < es.length), subS es[i] ds[i] = true := by
  induction ds generalizing es with
  | nil =>
    cases es with
    | nil => simp [matchArgs]
    | cons e es => simp [matchArgs]
  | cons d ds ih =>
    cases es with
    | nil => simp [matchArgs]
    | cons e es =>
      simp only [matchArgs, Bool.and_eq_true, ih, List.length_cons, Nat.add_right_cancel_iff]
      constructor
      · rintro ⟨h0, hl, hr⟩
        refine ⟨hl, ?_⟩
        intro i hd he
        cases i with
        | zero => simpa using h0
        | succ i => simpa using hr i (by simpa using hd) (by simpa using he)
      · rintro ⟨hl, h⟩
        refine ⟨by simpa using h 0 (by simp) (by simp), hl, ?_⟩
        intro i hd he
        have := h (i + 1) (by simpa using hd) (by simpa using he)
        simpa [List.getElem_cons_succ] using this

/-- `subS` is a preorder (what makes "accepted where expected" compose) -/
theorem subS_refl (a : CallableArity.Scal) : subS a a = true := by cases a <;> rfl
theorem subS_trans (a b c : CallableArity.Scal) (h1 : subS a b = true) (h2 : subS b c = true) : subS a c = true := by
  cases a <;> cases b <;> cases c <;> simp_all [subS]

example : matchArgs [.float, .object] [.int, .str] = true ∧ matchArgs [.int, .str] [.str, .int] = false := by decide

end callable_arity

end PytypeModel.Props.C02
