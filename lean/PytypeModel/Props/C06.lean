/-
C06 — a module seen through its emitted stub has the types that were inferred for it.

Model: `PytypeModel/Pytd/AbsConvert.lean` (convert.py `pytd_cls_to_instance_var` / `_constant_to_value`,
output.py `value_to_pytd_type`, `pytd_utils.JoinTypes`, `tracer_vm.pytd_for_types`, name lookup of the
downstream module's reads in the loaded upstream unit).  The text and pickle transports of the upstream unit are
*hypotheses* (what C05 and C12 establish), not models.

Partial: the theorems are about types (not about the VM of the downstream module asking the loader the right
question: that is correspondence only), about the fragment `InFragment`, and — for the transport theorem —
about emitted-shape types (`Emitted`, decidable; measured by the harness on every real upstream type).
-/
import PytypeModel.Proofs.AbsConvertReads

namespace PytypeModel.Props.C06
open PytypeModel.Pytd PytypeModel.Pytd.AbsConvert

/-! ### the type round trip -/

/-- Module-level read: converting the declared type `t` to abstract values (convert.py) and exporting the
bound name (output.py, pytd_for_types) yields `normOut t`, the explicit normalisation list, at every depth.
(Holds for every `t`; the model is claimed to describe pytype for `InFragment t`.) -/
theorem reexport_same (t : Ty) (_h : InFragment t) : exportTop (toAbsVar t) = normOut t :=
  reexport_eq_normOut t

/-- the same inside a container / tuple slot: `JoinTypes` of the re-exported bindings is `normIn t` -/
theorem reexport_same_nested (t : Ty) (_h : InFragment t) :
    joinTypes (toPytdList (toAbsVar t)) = normIn t :=
  roundtrip_in t

/-- binding by binding: the types of the Variable's bindings are `topMembers t` -/
theorem reexport_bindings (t : Ty) (_h : InFragment t) : toPytdList (toAbsVar t) = topMembers t :=
  toPytdList_toAbsVar t

/-- a re-exported type re-exports to itself -/
theorem reexport_idem (t : Ty) (h : InFragment t) : normOut (normOut t) = normOut t :=
  normOut_idem t h

/-- outside the fragment idempotence fails (a parameterless `GenericType` of `builtins.property`) -/
theorem reexport_idem_not_full : ¬ ∀ t : Ty, normOut (normOut t) = normOut t := by
  intro h
  exact absurd (h (.generic (.named "builtins.property") [])) (by decide)

/-- The property itself, on types of the shape output.py emits: the downstream type *is* the upstream type
(class pointers aside). -/
theorem reexport_identity (t : Ty) (h : Emitted t) : exportTop (toAbsVar t) = strip t := by
  rw [show exportTop (toAbsVar t) = reexport t from rfl, reexport_eq_normOut]
  exact (normOut_emitted t h).1

/-- `rpartition(".")` in convert.py and `NamedTypeWithModule` in output.py are inverse: nested class names
(`a.C.N`: module `a.C`, name `N`) come back whole -/
theorem reexport_names_round_trip (s : String) : joinName (splitName s) = s :=
  joinName_splitName s

/-! ### text stub vs pickled stub -/

/-- For every read `r` of the downstream module whose declared type is of emitted shape: through the text
transport and through the pickle transport the read resolves, and the two downstream types are equal as pytd
nodes (union members as sets, `sameTy`); precisely, the text one is the pickle one with `None` moved last
in every union (`nl`).  `hT`/`hP` are what C05 (`print` then `parse` = `normText`) and C12 (`decode ∘ encode =
id` on the exported unit, whose nested-class references are `LateType`s) provide. -/
theorem text_eq_pickle (viaText viaPickle : TUnit → TUnit) (u : TUnit)
    (hT : viaText u = mapUnit (fun t => resolve (normText t)) u)
    (hP : viaPickle u = mapUnit (fun t => lateTy u.name (resolve t)) u)
    (r : Read) (t : Ty) (hr : resolveRead u r = some t) (he : Emitted t) :
    ∃ t1 t2, reexportRead (viaText u) r = some t1 ∧ reexportRead (viaPickle u) r = some t2 ∧
      sameTy t1 t2 = true ∧ t1 = nl t2 ∧ t2 = strip t := by
  have key := transport_ty u.name t he
  cases r with
  | clsRef p =>
    -- a class reference does not go through the types of the unit
    have h1 : resolveRead (viaText u) (.clsRef p) = some t := by rw [hT, resolveRead_mapUnit]; exact hr
    have h2 : resolveRead (viaPickle u) (.clsRef p) = some t := by rw [hP, resolveRead_mapUnit]; exact hr
    have hid := normOut_emitted t he
    have hnl : nl (strip t) = strip t := by
      simp only [resolveRead] at hr
      cases hc : classAt u.classes p with
      | none => simp [hc] at hr
      | some c => simp [hc] at hr; subst hr; rfl
    refine ⟨strip t, strip t, ?_, ?_, sameTy_refl _, hnl.symm, rfl⟩
    · simp [reexportRead, h1, reexport_eq_normOut, hid.1]
    · simp [reexportRead, h2, reexport_eq_normOut, hid.1]
  | const x =>
    refine ⟨_, _, ?_, ?_, key.2.2, key.1, key.2.1⟩
    · simp [reexportRead, hT, resolveRead_mapUnit, hr]
    · simp [reexportRead, hP, resolveRead_mapUnit, hr]
  | call f =>
    refine ⟨_, _, ?_, ?_, key.2.2, key.1, key.2.1⟩
    · simp [reexportRead, hT, resolveRead_mapUnit, hr]
    · simp [reexportRead, hP, resolveRead_mapUnit, hr]
  | clsAttr p x =>
    refine ⟨_, _, ?_, ?_, key.2.2, key.1, key.2.1⟩
    · simp [reexportRead, hT, resolveRead_mapUnit, hr]
    · simp [reexportRead, hP, resolveRead_mapUnit, hr]
  | instAttr p x =>
    refine ⟨_, _, ?_, ?_, key.2.2, key.1, key.2.1⟩
    · simp [reexportRead, hT, resolveRead_mapUnit, hr]
    · simp [reexportRead, hP, resolveRead_mapUnit, hr]
  | methCall p m =>
    refine ⟨_, _, ?_, ?_, key.2.2, key.1, key.2.1⟩
    · simp [reexportRead, hT, resolveRead_mapUnit, hr]
    · simp [reexportRead, hP, resolveRead_mapUnit, hr]

/-- "identical" cannot mean syntactic identity of the two downstream ASTs: for `Union[None, int]` the text
path yields `Union[int, None]` (the printer writes `Optional[int]`), the pickle path `Union[None, int]` -/
theorem text_eq_pickle_not_syntactic :
    ∃ t : Ty, Emitted t ∧
      reexport (resolve (normText t)) ≠ reexport (lateTy "a" (resolve t)) :=
  ⟨.union [.cls "builtins.NoneType", .cls "builtins.int"], by decide, by decide⟩

/-! ### no spurious import / attribute error -/

/-- every read of the downstream module derived from a (well-formed) upstream unit resolves in it, so the
downstream stub shows a type for it -/
theorem no_spurious_import_error (u : TUnit) (hwf : wfUnit u = true) :
    ∀ r ∈ derive u, (reexportRead u r).isSome = true := by
  intro r hr
  simp only [reexportRead, Option.isSome_map]
  exact derive_resolves u hwf r hr

/-- and it still resolves after either transport -/
theorem transports_preserve_resolution (viaText viaPickle : TUnit → TUnit) (u : TUnit)
    (hT : viaText u = mapUnit (fun t => resolve (normText t)) u)
    (hP : viaPickle u = mapUnit (fun t => lateTy u.name (resolve t)) u) (r : Read) :
    (resolveRead (viaText u) r).isSome = (resolveRead u r).isSome ∧
    (resolveRead (viaPickle u) r).isSome = (resolveRead u r).isSome := by
  rw [hT, hP, resolveRead_mapUnit, resolveRead_mapUnit]
  cases r <;> simp

/-! ### non-vacuity -/

private def I : Ty := .cls "builtins.int"
private def S : Ty := .cls "builtins.str"
private def NoneT : Ty := .cls "builtins.NoneType"
private def L (t : Ty) : Ty := .generic (.cls "builtins.list") [t]

/-- a nested, non-trivial fragment type that *is* changed by the re-export: duplicates up to union order
merge, `Any` absorbs at module level -/
example : InFragment (.union [L (.union [I, S]), L (.union [S, I]), NoneT]) ∧
    normOut (.union [L (.union [I, S]), L (.union [S, I]), NoneT]) =
      .union [.generic (.named "builtins.list") [.union [.named "builtins.int", .named "builtins.str"]],
              .named "builtins.NoneType"] := by decide

example : InFragment (.union [I, .any, NoneT]) ∧ normOut (.union [I, .any, NoneT]) = .any ∧
    normIn (.union [I, .any, NoneT]) = .union [.any, .named "builtins.NoneType"] := by decide

/-- heterogeneous tuple with a nested class and an `Optional` slot: emitted shape, kept slot by slot -/
example : Emitted (.tuple (.cls "builtins.tuple") [.cls "a.C.N", .union [NoneT, I], L .nothing]) ∧
    exportTop (toAbsVar (.tuple (.cls "builtins.tuple") [.cls "a.C.N", .union [NoneT, I], L .nothing])) =
      .tuple (.named "builtins.tuple")
        [.named "a.C.N", .union [.named "builtins.NoneType", .named "builtins.int"],
         .generic (.named "builtins.list") [.nothing]] := by decide

/-- the abstract value of a nested class instance carries module `a.C` and name `N` -/
example : splitName "a.C.N" = ⟨some "a.C", "N"⟩ ∧ toPytdList (toAbsVar (.cls "a.C.N")) = [.named "a.C.N"] := by
  decide

private def exUnit : TUnit :=
  { name := "a"
    constants := [{ name := "a.x", ty := .union [NoneT, I] }]
    functions := [{ name := "a.f", sigs := [{ params := [], ret := .tuple (.cls "builtins.tuple") [I, L (.cls "a.C")] }] }]
    classes := [.mk "a.C" [] [] [{ name := "m", sigs := [{ params := [], ret := .generic (.cls "builtins.set") [I] }] }]
                  [{ name := "ca", ty := .cls "a.C.N" }]
                  [.mk "a.C.N" [] [] [] [{ name := "z", ty := I }] [] [] none []] [] none []] }

/-- the hypotheses of `text_eq_pickle` / `no_spurious_import_error` are satisfiable on a unit with a constant,
a function, a class with a method and a nested class; the derived module has 9 reads, all resolving; the
class attribute `a.C.ca : a.C.N` is a `LateType` in the pickled unit and a `ClassType` in the text one -/
example : wfUnit exUnit = true ∧ (derive exUnit).length = 9 ∧
    resolveRead (mapUnit (fun t => lateTy "a" (resolve t)) exUnit) (.clsAttr ["a.C"] "ca") = some (.late "a.C.N") ∧
    resolveRead (mapUnit (fun t => resolve (normText t)) exUnit) (.clsAttr ["a.C"] "ca") = some (.cls "a.C.N") ∧
    reexportRead exUnit (.const "a.x") = some (.union [.named "builtins.NoneType", .named "builtins.int"]) ∧
    reexportRead (mapUnit (fun t => resolve (normText t)) exUnit) (.const "a.x") =
      some (.union [.named "builtins.int", .named "builtins.NoneType"]) ∧
    Emitted (.union [NoneT, I]) := by decide

end PytypeModel.Props.C06
