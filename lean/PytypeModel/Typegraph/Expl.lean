/-
Declarative side of C07: what it means for a set of bindings to be *explained* at a node by a backward
path (the reaching-definitions semantics the solver is supposed to decide), and the graph classes the
theorems speak about.  Core Lean only; nothing here is executable on purpose.
-/
import PytypeModel.Typegraph.Solver

namespace PytypeModel.Typegraph

/-- `m` is a CFG predecessor of `n` (there is an edge `m → n`). -/
def Graph.Pred (g : Graph) (n m : NodeId) : Prop := m ∈ g.incoming n

/-- backward reachability: `BackReach g n m` iff `m →* n` in the CFG (reflexive-transitive). -/
inductive BackReach (g : Graph) : NodeId → NodeId → Prop
  | refl (n : NodeId) : BackReach g n n
  | step {n m k : NodeId} : BackReach g n m → k ∈ g.incoming m → BackReach g n k

/-- a backward path `n ⇝ m` none of whose nodes *other than `m`* (`n` included) lies in `blocked`. -/
inductive ClearPath (g : Graph) (blocked : List NodeId) : NodeId → NodeId → Prop
  | here (m : NodeId) : ClearPath g blocked m m
  | step {n k m : NodeId} : n ∉ blocked → k ∈ g.incoming n → ClearPath g blocked k m → ClearPath g blocked n m

/-- the goal `b` has an origin that is backward reachable from `n`. -/
def GoalReachable (g : Graph) (n : NodeId) (b : BId) : Prop :=
  ∃ o ∈ (g.binding b).origins, BackReach g n o.node

def Graph.NoConditions (g : Graph) : Prop := ∀ n, g.condition n = none

/-- acyclic CFG, by a rank that strictly decreases along every edge backwards. -/
def Graph.Acyclic (g : Graph) : Prop := ∃ rank : NodeId → Nat, ∀ n m, m ∈ g.incoming n → rank m < rank n

/-- the consistency the C++ constructors maintain: `CFGNode::bindings_` lists every binding with an origin at
the node (`Binding::FindOrAddOrigin` registers it). -/
structure Graph.WF (g : Graph) : Prop where
  registered : ∀ b n, b < g.bindings.length → (g.findOrigin b n).isSome → b ∈ (g.node n).bindings

/-- an acyclicity certificate: `rank` strictly decreases along every edge backwards and stays below the
solver's recursion fuel (any acyclic graph has one with values `< nodes.length`). -/
structure Graph.AcyclicBy (g : Graph) (rank : NodeId → Nat) : Prop where
  dec : ∀ n m, m ∈ g.incoming n → rank m < rank n
  bound : ∀ n, rank n < g.solveFuel

/-! ### goal removal at a node, declaratively

`Removal g n todo seen R N R' N'`: starting with the goals `todo` still to be looked at (those in `seen`
were already decided), having removed `R` and kept `N`, the node can end with `(R', N')`:
every goal with an origin at `n` is replaced by one of that origin's source sets, transitively. -/
inductive Removal (g : Graph) (n : NodeId) : List BId → List BId → List BId → List BId → List BId → List BId → Prop
  | done (seen R N) : Removal g n [] seen R N R N
  | skip {b todo seen R N R' N'} : b ∈ seen → Removal g n todo seen R N R' N' →
      Removal g n (b :: todo) seen R N R' N'
  | keep {b todo seen R N R' N'} : b ∉ seen → g.findOrigin b n = none →
      Removal g n todo (b :: seen) R (sinsert b N) R' N' → Removal g n (b :: todo) seen R N R' N'
  | expand {b todo seen R N R' N' o ss} : b ∉ seen → g.findOrigin b n = some o → ss ∈ o.sourceSets →
      Removal g n (sunion todo ss) (b :: seen) (sinsert b R) N R' N' → Removal g n (b :: todo) seen R N R' N'

/-- no two removed goals bind the same variable. -/
def NoConflict (g : Graph) (R : List BId) : Prop := goalsConflict g R = false

/-- the goals of `G` with / without an origin registered at `n` -/
def hereGoals (g : Graph) (n : NodeId) (G : List BId) : List BId := G.filter fun b => (g.node n).bindings.contains b
def awayGoals (g : Graph) (n : NodeId) (G : List BId) : List BId := G.filter fun b => !(g.node n).bindings.contains b

/-- **Explanation** of the goal set `G` at node `n` (unconditioned graphs):
* `fin`: all goals are produced at `n` itself (recursively through source sets available at `n`);
* `move`: after resolving what `n` produces, the remaining goals `N` are explained at an origin node `m`
  of one of them that is reached by a backward path on which no variable of `N` is re-bound. -/
inductive Expl (g : Graph) : NodeId → List BId → Prop
  | fin {n G R} : Removal g n (hereGoals g n G) [] [] (awayGoals g n G) R [] → NoConflict g R → Expl g n G
  | move {n G R N m} : Removal g n (hereGoals g n G) [] [] (awayGoals g n G) R N → NoConflict g R → N ≠ [] →
      m ∈ finishNodes g N → ClearPath g (blockedOf g N) n m → Expl g m N → Expl g n G

end PytypeModel.Typegraph
