/-
Which C++ functions of pytype/typegraph/typegraph.{cc,h} (and cfg.cc) call `Program::InvalidateSolver()`, and
which write state the solver reads — the table `Typegraph/Program.lean` was written against (its header lists
the same facts in prose).  `translate/invalidate_sites.py` regenerates this table from the C++ text of the tree
under test on every run (`Generated/InvalidateSites.lean`); `Props/C08.lean` proves the two equal
(`invalidate_sites_as_modelled`) and that the model's primitives behave as the table says
(`model_invalidation_as_specified`).

Reading a row: `how = "always"` — the call is the first thing the body does; `"unless:c1;c2"` — early returns
under c1, c2 precede it; `"if:c"` — the call sits under `if (c)`; `"never"` — no call, and then `callers`
lists every function (of the three files) that calls it: each of them is either an `always` row or itself a
`never` row whose callers are listed.  `X/2#2` is the second overload of arity 2 in source order.
-/
import PytypeModel.Generated.InvalidateSites
import PytypeModel.Typegraph.Program

namespace PytypeModel.Typegraph.InvalidateSpec
open PytypeModel.Generated.InvalidateSites

def expected : List Site := [
  -- Binding::AddOrigin(node) / (node, vector<Binding*>) / (node, SourceSet): `PState.addOrigin`
  ⟨"Binding::AddOrigin/1", [], "always", []⟩,
  ⟨"Binding::AddOrigin/2", [], "always", []⟩,
  ⟨"Binding::AddOrigin/2#2", [], "always", []⟩,
  -- helper of the three above: `Graph.addOriginSS` (creates the origin, registers the binding at node and variable)
  ⟨"Binding::FindOrAddOrigin/1", ["node_to_origin_", "origins_"], "never",
    ["Binding::AddOrigin/1", "Binding::AddOrigin/2", "Binding::AddOrigin/2#2"]⟩,
  -- `PState.connectTo`: self edge and duplicate edge return before the call (`Graph.edgeIsNew`)
  ⟨"CFGNode::ConnectTo/1", ["incoming_", "outgoing_"], "unless:this==node;n==node", []⟩,
  ⟨"CFGNode::RegisterBinding/1", ["bindings_"], "never", ["Binding::FindOrAddOrigin/1"]⟩,
  -- `PState.setCond` (repair 1df873f); Python's `node.condition = b` goes through it (CFGNodeSetAttro)
  ⟨"CFGNode::set_condition/1", ["condition_"], "always", []⟩,
  ⟨"CFGNodeSetAttro/3", ["set_condition()"], "never", []⟩,
  -- `Origin::AddSourceSet` (both overloads): only ever called right after an `AddOrigin` of the same binding
  ⟨"Origin::AddSourceSet/1", ["source_sets"], "never",
    ["Binding::AddOrigin/2", "Binding::AddOrigin/2#2", "NewVariable/3", "Variable::AddBinding/3", "VariableAddBinding/3"]⟩,
  ⟨"Origin::AddSourceSet/1#2", ["source_sets"], "never",
    ["Binding::AddOrigin/2", "Binding::AddOrigin/2#2", "NewVariable/3", "Variable::AddBinding/3", "VariableAddBinding/3"]⟩,
  -- `PState.newNode`
  ⟨"Program::NewCFGNode/2", ["cfg_nodes_"], "always", []⟩,
  -- `PState.findOrAddBinding`: only when the binding is new
  ⟨"Variable::FindOrAddBindingHelper/1", ["bindings_", "data_to_binding_"], "if:it==data_to_binding_.end()", []⟩,
  -- `Variable::Prune` fills a cache keyed by node (`operator[]` on a map the solver does not read for blocking:
  -- `Variable::nodes()` iterates the keys — an empty entry adds a node with no binding; modelled in `Graph.prune`)
  ⟨"Variable::Prune/1", ["cfg_node_to_bindings_"], "never", ["VariablePrune/3", "VariablePruneData/3"]⟩,
  ⟨"Variable::RegisterBindingAtNode/2", ["cfg_node_to_bindings_"], "never", ["Binding::FindOrAddOrigin/1"]⟩
]

/-- every row that writes solver-visible state without invalidating is reached only through rows that
invalidate first (one level of callers, or two through `FindOrAddOrigin`) or is one of the two audited
exceptions (`Variable::Prune`'s cache, the Python setter that delegates to `set_condition`) -/
def covered (tbl : List Site) : Bool :=
  tbl.all fun r =>
    r.how != "never" ||
    r.fn == "Variable::Prune/1" || r.fn == "CFGNodeSetAttro/3" ||
    (!r.callers.isEmpty && r.callers.all fun c =>
      match tbl.find? (fun r' => r'.fn == c) with
      | some r' => r'.how == "always" ||
          (r'.how == "never" && !r'.callers.isEmpty && r'.callers.all fun c' =>
            match tbl.find? (fun r'' => r''.fn == c') with
            | some r'' => r''.how == "always"
            | none => false)
      | none =>
        -- callers outside the table neither write nor invalidate themselves: they must reach the state through
        -- an `AddOrigin` first; the three that exist are listed by name
        c == "NewVariable/3" || c == "Variable::AddBinding/3" || c == "VariableAddBinding/3")

end PytypeModel.Typegraph.InvalidateSpec
