/-
Model of the typegraph data model of pytype/typegraph/typegraph.{h,cc}: CFG nodes, variables,
bindings with ordered origins and `std::set<SourceSet>`, plus the solver-free queries
`CFGNode::CanHaveCombination` and `Variable::Prune` (Python: `Variable.Bindings`).
Core Lean only (the drivers link against it).

C++                                              model
-----------------------------------------------  ---------------------------------------------
CFGNode {incoming_, outgoing_, bindings_,        Node {incoming, outgoing, bindings, condition}
         condition_}, ids dense                    position in `Graph.nodes` = id
Binding {variable_, data_, origins_ (vector),    Binding {var, data, addr, origins}
         id_}, ids dense, program-wide             position in `Graph.bindings` = id
Origin {where, std::set<SourceSet> source_sets}  Origin {node, sourceSets}
SourceSet = std::set<Binding*, pointer_less>     strictly increasing `List BId`
std::set<SourceSet> (default `operator<` =       list kept sorted by `lexLt`, which compares the
  lexicographical_compare over *raw pointers*)     elements' `addr` (heap address rank), see below
Variable {bindings_ (vector, creation order)}    `Graph.varBindings v` = bindings with `var = v`
                                                   in id order (ids are handed out program-wide
                                                   in creation order, so this *is* creation order)
Variable::cfg_node_to_bindings_ / nodes()        derived: `Graph.varNodeBindings`, `Graph.varNodes`
ReachabilityAnalyzer                             `PytypeModel.Reach.Reach` (model of C09)

`addr`: `std::set<SourceSet>` orders source sets by comparing `Binding*` values, i.e. heap
addresses; those are not a function of the graph.  A binding therefore carries an abstract
address rank (any injective assignment); every theorem quantifies over it and the
correspondence harness measures the real order and feeds it to the model.
-/
import PytypeModel.Typegraph.Reach

namespace PytypeModel.Typegraph

abbrev NodeId := Nat
abbrev BId := Nat
abbrev VId := Nat

/-! ### `std::set` ordered by id: strictly increasing lists -/

def sinsert (x : Nat) : List Nat → List Nat
  | [] => [x]
  | y :: ys => if x < y then x :: y :: ys else if x = y then y :: ys else y :: sinsert x ys

/-- `a ∪ b` (insert the elements of `b` one by one, as `std::set::insert(first,last)` does). -/
def sunion (a b : List Nat) : List Nat := b.foldl (fun acc x => sinsert x acc) a

/-- `std::set(first, last)` from an arbitrary sequence. -/
def ofList (l : List Nat) : List Nat := sunion [] l

structure Origin where
  node : NodeId
  sourceSets : List (List BId)
deriving Repr, BEq, DecidableEq, Inhabited

structure Binding where
  var : VId
  data : Nat
  addr : Nat
  origins : List Origin
deriving Repr, BEq, DecidableEq, Inhabited

structure Node where
  incoming : List NodeId
  outgoing : List NodeId
  bindings : List BId
  condition : Option BId
deriving Repr, BEq, DecidableEq, Inhabited

deriving instance DecidableEq for PytypeModel.Reach.Reach

structure Graph where
  nodes : List Node
  bindings : List Binding
  reach : PytypeModel.Reach.Reach
deriving Repr, BEq, DecidableEq

def Graph.empty : Graph := { nodes := [], bindings := [], reach := PytypeModel.Reach.Reach.empty }

instance : Inhabited Graph := ⟨Graph.empty⟩

def Graph.node (g : Graph) (n : NodeId) : Node := g.nodes.getD n default
def Graph.binding (g : Graph) (b : BId) : Binding := g.bindings.getD b default
def Graph.incoming (g : Graph) (n : NodeId) : List NodeId := (g.node n).incoming
def Graph.condition (g : Graph) (n : NodeId) : Option BId := (g.node n).condition
def Graph.varOf (g : Graph) (b : BId) : VId := (g.binding b).var

/-- `Binding::FindOrigin(node)` -/
def Graph.findOrigin (g : Graph) (b : BId) (n : NodeId) : Option Origin :=
  (g.binding b).origins.find? (fun o => o.node == n)

/-- `Variable::bindings()` in creation order. -/
def Graph.varBindings (g : Graph) (v : VId) : List BId :=
  (List.range g.bindings.length).filter fun b => (g.binding b).var == v

/-- `Variable::nodes()`: the key set of `cfg_node_to_bindings_`, ordered by id. -/
def Graph.varNodes (g : Graph) (v : VId) : List NodeId :=
  ofList ((g.varBindings v).flatMap fun b => (g.binding b).origins.map (·.node))

/-- `cfg_node_to_bindings_[n]` (a `SourceSet`, ordered by id); `[]` iff `n` is not a key. -/
def Graph.varNodeBindings (g : Graph) (v : VId) (n : NodeId) : List BId :=
  (g.varBindings v).filter fun b => (g.findOrigin b n).isSome

/-! ### `std::set<SourceSet>` -/

/-- `std::lexicographical_compare` over two source sets, elements compared by address. -/
def lexLt (addr : BId → Nat) : List BId → List BId → Bool
  | [], [] => false
  | [], _ :: _ => true
  | _ :: _, [] => false
  | x :: xs, y :: ys =>
    if addr x < addr y then true else if addr y < addr x then false else lexLt addr xs ys

def ssInsert (addr : BId → Nat) (s : List BId) : List (List BId) → List (List BId)
  | [] => [s]
  | t :: ts =>
    if lexLt addr s t then s :: t :: ts
    else if s = t then t :: ts
    else t :: ssInsert addr s ts

def Graph.addrOf (g : Graph) (b : BId) : Nat := (g.binding b).addr

/-! ### graph edits (no solver involved; `Program.lean` adds the invalidation calls) -/

/-- `Program::NewCFGNode(name, condition)` without the invalidation. -/
def Graph.addNode (g : Graph) (cond : Option BId) : Graph :=
  { g with nodes := g.nodes ++ [{ incoming := [], outgoing := [], bindings := [], condition := cond }],
           reach := g.reach.addNode }

/-- does `CFGNode::ConnectTo` do anything (neither a self edge nor a duplicate)? -/
def Graph.edgeIsNew (g : Graph) (a b : NodeId) : Bool :=
  a != b && !((g.node a).outgoing.contains b)

/-- the effective part of `CFGNode::ConnectTo` (`a.ConnectTo(b)`). -/
def Graph.addEdge (g : Graph) (a b : NodeId) : Graph :=
  let na := g.node a
  let nodes1 := g.nodes.set a { na with outgoing := na.outgoing ++ [b] }
  let nb := nodes1.getD b default
  { g with nodes := nodes1.set b { nb with incoming := nb.incoming ++ [a] },
           reach := g.reach.addConn b a }

def Graph.setCondition (g : Graph) (n : NodeId) (c : Option BId) : Graph :=
  { g with nodes := g.nodes.set n { g.node n with condition := c } }

/-- the binding of variable `v` whose data is `data` (`data_to_binding_`). -/
def Graph.findBinding (g : Graph) (v : VId) (data : Nat) : Option BId :=
  (g.varBindings v).find? fun b => (g.binding b).data == data

/-- `new Binding(program, v, data, MakeBindingId())`; returns the graph and the new id. -/
def Graph.newBinding (g : Graph) (v : VId) (data addr : Nat) : Graph × BId :=
  ({ g with bindings := g.bindings ++ [{ var := v, data := data, addr := addr, origins := [] }] },
   g.bindings.length)

/-- `Binding::FindOrAddOrigin(node)` followed by `Origin::AddSourceSet(ss)`. -/
def Graph.addOriginSS (g : Graph) (b : BId) (n : NodeId) (ss : List BId) : Graph :=
  let bd := g.binding b
  let ss' := ofList ss
  match bd.origins.find? (fun o => o.node == n) with
  | some _ =>
    let origins := bd.origins.map fun o =>
      if o.node == n then { o with sourceSets := ssInsert g.addrOf ss' o.sourceSets } else o
    { g with bindings := g.bindings.set b { bd with origins := origins } }
  | none =>
    let nd := g.node n
    { g with bindings := g.bindings.set b { bd with origins := bd.origins ++ [{ node := n, sourceSets := [ss'] }] },
             nodes := g.nodes.set n { nd with bindings := nd.bindings ++ [b] } }

/-! ### `CFGNode::CanHaveCombination` -/

def Graph.canHaveCombination (g : Graph) (n : NodeId) (bs : List BId) : Bool :=
  bs.all fun b => (g.binding b).origins.any fun o => g.reach.isReach n o.node

/-! ### `Variable::Prune` (Python `Variable.Bindings(node)`) -/

def appendNew (res : List BId) (bs : List BId) : List BId :=
  bs.foldl (fun acc b => if acc.contains b then acc else acc ++ [b]) res

/-- the `do … while (!stack.empty())` loop; `stack` head = top.  Each iteration pops one entry;
at most `1 + Σ in-degree` entries are ever pushed (a duplicate stack entry is popped only after
all its predecessors were marked), so `pruneFuel` iterations suffice. -/
def pruneLoop (g : Graph) (v : VId) : Nat → List NodeId → List NodeId → List BId → List BId
  | 0, _, _, res => res
  | _, [], _, res => res
  | fuel + 1, node :: stack, seen, res =>
    let seen' := sinsert node seen
    let here := g.varNodeBindings v node
    if !here.isEmpty then pruneLoop g v fuel stack seen' (appendNew res here)
    else
      let push := (g.incoming node).filter fun m => !seen'.contains m
      pruneLoop g v fuel (push.reverse ++ stack) seen' res

/-- number of CFG edges (sum of the in-degrees) -/
def Graph.numEdges (g : Graph) : Nat := ((List.range g.nodes.length).map fun n => (g.incoming n).length).sum

def Graph.pruneFuel (g : Graph) : Nat := g.numEdges + 2

def Graph.prune (g : Graph) (v : VId) (viewpoint : Option NodeId) : List BId :=
  let bs := g.varBindings v
  match viewpoint with
  | none => bs
  | some vp =>
    if bs.length == 1 then
      if (g.varNodes v).any fun n => g.reach.isReach vp n then bs else []
    else pruneLoop g v g.pruneFuel [vp] [] []

end PytypeModel.Typegraph
