/-
Model of pytype/typegraph/reachable.cc (ReachabilityAnalyzer) and of the part of
typegraph.cc that feeds it (Program::NewCFGNode, CFGNode::ConnectTo,
Program::is_reachable).  Core Lean only (no Mathlib) so the driver links.

C++                                    model
-------------------------------------  -----------------------------------------
std::vector<std::vector<int64_t>> adj_ rows : List (List Nat)   (words as Nat)
_node_bit(id) = 1l << (id & 63)        nodeBit id = 1 <<< (id % 64)
add_node                               Reach.addNode
add_connection (in-place loop,         Reach.addConn  (fold over i, reads the
  row_dst is a live pointer)             *current* row dst each time)
is_reachable                           Reach.isReach
-/
namespace PytypeModel.Reach

def nodeBit (id : Nat) : Nat := 1 <<< (id % 64)

/-- bit `j` of a row of 64-bit words (word `j / 64`, bit `j % 64`). -/
def getBit (row : List Nat) (j : Nat) : Bool := (row.getD (j / 64) 0).testBit (j % 64)

/-- `vector::resize(size, 0)` for a row that only ever grows. -/
def growRow (size : Nat) (row : List Nat) : List Nat :=
  row ++ List.replicate (size - row.length) 0

def orRow (a b : List Nat) : List Nat := List.zipWith (· ||| ·) a b

structure Reach where
  n : Nat
  rows : List (List Nat)
deriving Repr, BEq

def Reach.empty : Reach := { n := 0, rows := [] }

def Reach.size (r : Reach) : Nat := (r.n + 63) / 64

def Reach.addNode (r : Reach) : Reach :=
  let n' := r.n + 1
  let size := (n' + 63) / 64
  let rows := (r.rows ++ [[]]).map (growRow size)
  { n := n', rows := rows.set r.n ((rows.getD r.n []).set (r.n / 64) (nodeBit r.n)) }

/-- one iteration of the `for i` loop of `add_connection`; `row_dst` is a pointer into
the matrix, so it is re-read from the current state. -/
def connStep (src dst : Nat) (rows : List (List Nat)) (i : Nat) : List (List Nat) :=
  if getBit (rows.getD i []) src then
    rows.set i (orRow (rows.getD i []) (rows.getD dst []))
  else rows

def Reach.addConn (r : Reach) (src dst : Nat) : Reach :=
  { r with rows := (List.range r.n).foldl (connStep src dst) r.rows }

/-- the simultaneous update the loop is meant to compute. -/
def Reach.addConnSimul (r : Reach) (src dst : Nat) : Reach :=
  let d := r.rows.getD dst []
  { r with rows := r.rows.map fun row => if getBit row src then orRow row d else row }

def Reach.isReach (r : Reach) (src dst : Nat) : Bool := getBit (r.rows.getD src []) dst

/-! Program level: nodes with outgoing lists, `ConnectTo` wrapper. -/

structure Prog where
  reach : Reach
  out : List (List Nat)
deriving Repr, BEq

def Prog.empty : Prog := { reach := Reach.empty, out := [] }

inductive Op
  | newNode
  | connect (a b : Nat)
deriving Repr, BEq, DecidableEq

def Prog.n (p : Prog) : Nat := p.reach.n

/-- `Program::NewCFGNode` / `CFGNode::ConnectTo`.  `connect a b` is `a.ConnectTo(b)`;
the analyzer is fed the edge *backwards*: `add_connection(b, a)`. -/
def Prog.step (p : Prog) : Op → Prog
  | .newNode => { reach := p.reach.addNode, out := p.out ++ [[]] }
  | .connect a b =>
    if a = b then p
    else if (p.out.getD a []).contains b then p
    else { reach := p.reach.addConn b a, out := p.out.set a (p.out.getD a [] ++ [b]) }

def Prog.run (ops : List Op) : Prog := ops.foldl Prog.step Prog.empty

/-- `Program::is_reachable(src, dst) = backward_reachability_->is_reachable(dst, src)`. -/
def Prog.isReachable (p : Prog) (src dst : Nat) : Bool := p.reach.isReach dst src

/-- ops are well-formed when every `connect` names existing nodes (the C++ API takes
node pointers, so nothing else is expressible). -/
def wfOps : Nat → List Op → Bool
  | _, [] => true
  | n, .newNode :: ops => wfOps (n + 1) ops
  | n, .connect a b :: ops => decide (a < n) && decide (b < n) && wfOps n ops

end PytypeModel.Reach
