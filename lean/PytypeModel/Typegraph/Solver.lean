/-
Model of pytype/typegraph/solver.cc (all of it except metrics/logging) and of the solver-using
entry points of typegraph.cc (`CFGNode::HasCombination`, `Binding::IsVisible`, `Variable::Filter`).
Core Lean only.

C++                                             model
----------------------------------------------  ----------------------------------------------
GoalSet = std::set<const Binding*, by id>        strictly increasing `List BId`
State {pos_, goals_}                             `SState`
Solver::solved_states_ (unordered_map)           `Memo` = association list, newest entry first
StateSet seen_states (passed by reference,       `stack : List SState` (a state is inserted when
  insert before / erase after FindSolution)        entered and erased when left ⇒ = call stack)
remove_finished_goals (explicit action stack)    `trav` (the recursion the action stack encodes;
                                                   results in the same order)
PathFinder::FindShortestPathToNode               `bfs` + `rebuild`  (first-writer-wins `previous`)
PathFinder::FindHighestReachableWeight           `fhrw`  (the `seen` set is threaded through)
PathFinder::FindNodeBackwards                    `findNodeBackwards` / `walk`
PathCacheTrie                                    dropped: memo of `findNodeBackwards`, which has
                                                   no state argument (pure while a solver lives)
Solver::FindSolution / RecallOrFindSolution      `tryResults`/`tryPositions` / `recall`
Solver::CanHaveSolution / Solve_ / Solve         `canHaveSolution` / `solve`

Iteration over `std::unordered_set<const CFGNode*> unique_finish_nodes` is in unspecified
order in C++; it only feeds the ordered set `new_positions` through a pure function, so the model
iterates in id order.  Hash collisions of `State::Hash` (which orders `seen_states`) are not modelled.

Fuel.  Every loop is structural recursion on a fuel argument; the bounds used by `solve` are
  * `trav`   : `(B+1)*(B+1)+1`  (B = number of bindings; each step pops one goal, `seen` grows ≤ B times,
                between two growths at most B goals are popped)                       `travFuel`
  * `bfs`    : `E + 2` pops      (a node is expanded at most once, each expansion pushes in-degree many) `bfsFuel`
  * `rebuild`: `N + 1`                                                                `g.nodes.length + 1`
  * `fhrw`   : `2*E + 2` pops                                                          `fhrwFuel`
  * `walk`   : `N + 1`  (the weight strictly increases)
  * `recall` : `N * 2^B + 1`  (a state is entered only if it is not in the memo, and entering inserts it:
                the call stack holds pairwise different states)                        `solveFuel`
-/
import PytypeModel.Typegraph.Graph

namespace PytypeModel.Typegraph

structure SState where
  pos : NodeId
  goals : List BId
deriving Repr, DecidableEq, Inhabited

abbrev Memo := List (SState × Bool)

def Memo.find (m : Memo) (s : SState) : Option Bool :=
  match m with
  | [] => none
  | (k, v) :: rest => if k = s then some v else Memo.find rest s

def Memo.set (m : Memo) (s : SState) (b : Bool) : Memo := (s, b) :: m

/-! ### remove_finished_goals -/

/-- One result of `remove_finished_goals`: (removed_goals, new_goals), both as id-ordered sets. -/
abbrev RemoveResult := List BId × List BId

/-- The DFS that `traverse` + the action stack implement.  Arguments: goals_to_remove (id-ordered
set), seen_goals, removed_goals, new_goals.  `*goals_to_remove.begin()` is the head. -/
def trav (g : Graph) (pos : NodeId) :
    Nat → List BId → List BId → List BId → List BId → List RemoveResult
  | _, [], _, removed, new => [(removed, new)]
  | 0, _ :: _, _, _, _ => []
  | fuel + 1, goal :: gtr, seen, removed, new =>
    if seen.contains goal then trav g pos fuel gtr seen removed new
    else
      match g.findOrigin goal pos with
      | none => trav g pos fuel gtr (goal :: seen) removed (sinsert goal new)
      | some o =>
        -- `if (!origin->source_sets.empty())` push TRAVERSE_ALL_SOURCE_SETS: no source set, no result
        o.sourceSets.flatMap fun ss =>
          trav g pos fuel (sunion gtr ss) (goal :: seen) (sinsert goal removed) new

def Graph.travFuel (g : Graph) : Nat := (g.bindings.length + 1) * (g.bindings.length + 1) + 1

def removeFinishedGoals (g : Graph) (pos : NodeId) (goals : List BId) : List RemoveResult :=
  let here := (g.node pos).bindings
  let gtr := goals.filter fun b => here.contains b
  let new := goals.filter fun b => !here.contains b
  trav g pos g.travFuel gtr [] [] new

/-- `Solver::GoalsConflict`: two goals on one variable. -/
def goalsConflict (g : Graph) : List BId → Bool
  | [] => false
  | b :: bs => bs.any (fun c => g.varOf c == g.varOf b) || goalsConflict g bs

/-! ### PathFinder -/

abbrev Prev := List (NodeId × Option NodeId)

def Prev.find (p : Prev) (n : NodeId) : Option (Option NodeId) :=
  match p with
  | [] => none
  | (k, v) :: rest => if k = n then some v else Prev.find rest n

/-- `previous.emplace(n, node)` for every `n` in `incoming` (first writer wins). -/
def Prev.emplaceAll (p : Prev) (inc : List NodeId) (node : NodeId) : Prev :=
  inc.foldl (fun p n => if (Prev.find p n).isSome then p else p ++ [(n, some node)]) p

/-- the `while (!queue.empty())` loop of `FindShortestPathToNode`; `some prev` iff found. -/
def bfs (g : Graph) (finish : NodeId) (blocked : List NodeId) :
    Nat → List NodeId → Prev → List NodeId → Option Prev
  | 0, _, _, _ => none
  | _, [], _, _ => none
  | fuel + 1, node :: queue, prev, seen =>
    if node = finish then some prev
    else if seen.contains node || blocked.contains node then bfs g finish blocked fuel queue prev seen
    else
      let inc := g.incoming node
      bfs g finish blocked fuel (queue ++ inc) (prev.emplaceAll inc node) (node :: seen)

/-- `while (node) { path.push_front(node); node = previous[node]; }` -/
def rebuild (prev : Prev) : Nat → NodeId → List NodeId → List NodeId
  | 0, _, acc => acc
  | fuel + 1, node, acc =>
    match prev.find node with
    | some (some p) => rebuild prev fuel p (node :: acc)
    | _ => node :: acc

def Graph.bfsFuel (g : Graph) : Nat := g.numEdges + 2

/-- `FindShortestPathToNode(start, finish, blocked)`: path from `start` to `finish`, `[]` if none. -/
def shortestPath (g : Graph) (start finish : NodeId) (blocked : List NodeId) : List NodeId :=
  match bfs g finish blocked g.bfsFuel [start] [(start, none)] [] with
  | none => []
  | some prev => rebuild prev (g.nodes.length + 1) finish []

/-- position of `n` on the shortest path (`weights[x] = w++`). -/
def weightOf (path : List NodeId) (n : NodeId) : Option Nat :=
  match path with
  | [] => none
  | x :: xs => if x = n then some 0 else (weightOf xs n).map (· + 1)

/-- the `while (!stack.empty())` loop of `FindHighestReachableWeight`; `stack` head = back of the
C++ vector.  Returns `best_node` and the grown `seen`. -/
def fhrw (g : Graph) (start : NodeId) (path : List NodeId) :
    Nat → List NodeId → List NodeId → Option (Nat × NodeId) → Option NodeId × List NodeId
  | 0, _, seen, best => (best.map (·.2), seen)
  | _, [], seen, best => (best.map (·.2), seen)
  | fuel + 1, node :: stack, seen, best =>
    if node = start then fhrw g start path fuel stack seen best
    else
      let best' := match weightOf path node, best with
        | some w, none => some (w, node)
        | some w, some (bw, bn) => if w > bw then some (w, node) else some (bw, bn)
        | none, b => b
      if seen.contains node then fhrw g start path fuel stack seen best'
      else fhrw g start path fuel ((g.incoming node).reverse ++ stack) (node :: seen) best'

def Graph.fhrwFuel (g : Graph) : Nat := 2 * g.numEdges + 2

def findHighestReachableWeight (g : Graph) (start : NodeId) (seen : List NodeId) (path : List NodeId) :
    Option NodeId × List NodeId :=
  fhrw g start path g.fhrwFuel (g.incoming start).reverse seen none

/-- the `while (true)` articulation walk of `FindNodeBackwards`: collects the nodes that carry a
condition.  (`best_node == nullptr` cannot happen in C++ — the next path node is always a
predecessor — the model stops the walk in that case.) -/
def walk (g : Graph) (finish : NodeId) (path : List NodeId) :
    Nat → NodeId → List NodeId → List NodeId → List NodeId
  | 0, _, _, acc => acc
  | fuel + 1, node, seen, acc =>
    let acc' := if (g.condition node).isSome then acc ++ [node] else acc
    if node = finish then acc'
    else
      match findHighestReachableWeight g node seen path with
      | (some nxt, seen') => walk g finish path fuel nxt seen' acc'
      | (none, _) => acc'

/-- `FindNodeBackwards(start, finish, blocked)` = (path_exists, condition nodes on the way). -/
def findNodeBackwards (g : Graph) (start finish : NodeId) (blocked : List NodeId) : Bool × List NodeId :=
  let sp := shortestPath g start finish blocked
  if sp.isEmpty then (false, [])
  else (true, walk g finish sp (g.nodes.length + 1) start (blocked ++ sp) [])

/-! ### FindSolution / RecallOrFindSolution -/

/-- `blocked`: every node at which a variable of a new goal is bound. -/
def blockedOf (g : Graph) (newGoals : List BId) : List NodeId :=
  newGoals.foldl (fun acc b => sunion acc (g.varNodes (g.varOf b))) []

/-- `unique_finish_nodes`: the origin nodes of the new goals. -/
def finishNodes (g : Graph) (newGoals : List BId) : List NodeId :=
  ofList (newGoals.flatMap fun b => (g.binding b).origins.map (·.node))

/-- `new_positions` (id-ordered set). -/
def newPositions (g : Graph) (pos : NodeId) (newGoals : List BId) : List NodeId :=
  let blocked := blockedOf g newGoals
  (finishNodes g newGoals).foldl (fun acc fin =>
    let (ex, cpath) := findNodeBackwards g pos fin blocked
    if ex then sinsert ((cpath.find? (fun n => n != pos)).getD fin) acc else acc) []

/-- `for (const auto* new_pos : new_positions)` with the cycle skip. -/
def tryPositions (rec : List SState → Memo → SState → Bool × Memo) (stack : List SState)
    (multi : Bool) (newGoals : List BId) : List NodeId → Memo → Bool × Memo
  | [], memo => (false, memo)
  | p :: ps, memo =>
    let st : SState := ⟨p, newGoals⟩
    if stack.contains st && multi then tryPositions rec stack multi newGoals ps memo
    else
      let (r, memo') := rec stack memo st
      if r then (true, memo') else tryPositions rec stack multi newGoals ps memo'

/-- `for (const auto& result : results)` -/
def tryResults (g : Graph) (rec : List SState → Memo → SState → Bool × Memo) (stack : List SState)
    (pos : NodeId) : List RemoveResult → Memo → Bool × Memo
  | [], memo => (false, memo)
  | (removed, new) :: rest, memo =>
    if goalsConflict g removed then tryResults g rec stack pos rest memo
    else if new.isEmpty then (true, memo)
    else
      let nps := newPositions g pos new
      let (r, memo') := tryPositions rec stack (decide (nps.length > 1)) new nps memo
      if r then (true, memo') else tryResults g rec stack pos rest memo'

/-- `Solver::FindSolution(state, seen_states)`; `rec` is `RecallOrFindSolution`. -/
def findSolution (g : Graph) (rec : List SState → Memo → SState → Bool × Memo) (stack : List SState)
    (memo : Memo) (st : SState) : Bool × Memo :=
  let goals := match g.condition st.pos with
    | some c => sinsert c st.goals
    | none => st.goals
  tryResults g rec stack st.pos (removeFinishedGoals g st.pos goals) memo

/-- `Solver::RecallOrFindSolution`.  `stack` = `seen_states`. -/
def recall (g : Graph) : Nat → List SState → Memo → SState → Bool × Memo
  | 0, _, memo, _ => (false, memo)
  | fuel + 1, stack, memo, st =>
    match memo.find st with
    | some b => (b, memo)
    | none =>
      let (r, memo') := findSolution g (recall g fuel) (st :: stack) (memo.set st true) st
      (r, memo'.set st r)

def Graph.solveFuel (g : Graph) : Nat := g.nodes.length * 2 ^ g.bindings.length + 1

/-- `RecallOrFindSolution(State(start_node, start_attrs), {}, 0)` -/
def solveCore (g : Graph) (memo : Memo) (n : NodeId) (attrs : List BId) : Bool × Memo :=
  recall g g.solveFuel [] memo ⟨n, ofList attrs⟩

/-- `Solver::CanHaveSolution`: every goal on its own, in the order given. -/
def canHaveSolution (g : Graph) (n : NodeId) : List BId → Memo → Bool × Memo
  | [], memo => (true, memo)
  | b :: bs, memo =>
    let (r, memo') := solveCore g memo n [b]
    if r then canHaveSolution g n bs memo' else (false, memo')

/-- `Solver::Solve(start_attrs, start_node)` on a solver whose memo is `memo`. -/
def solve (g : Graph) (memo : Memo) (n : NodeId) (attrs : List BId) : Bool × Memo :=
  if attrs.length > 1 then
    let (ok, memo') := canHaveSolution g n attrs memo
    if ok then solveCore g memo' n attrs else (false, memo')
  else solveCore g memo n attrs

/-- `Variable::Filter(viewpoint, strict)`: one `IsVisible` per binding, on the shared solver. -/
def filterLoop (g : Graph) (n : NodeId) (skip : Bool) : List BId → Memo → List BId × Memo
  | [], memo => ([], memo)
  | b :: bs, memo =>
    if skip then
      let (r, memo') := filterLoop g n skip bs memo
      (b :: r, memo')
    else
      let (vis, memo1) := solve g memo n [b]
      let (r, memo2) := filterLoop g n skip bs memo1
      (if vis then b :: r else r, memo2)

def varFilter (g : Graph) (memo : Memo) (v : VId) (n : NodeId) (strict : Bool) : List BId × Memo :=
  let bs := g.varBindings v
  filterLoop g n (!strict && bs.length == 1) bs memo

end PytypeModel.Typegraph
