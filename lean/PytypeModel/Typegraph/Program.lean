/-
Model of `Program` as seen from Python (pytype/typegraph/cfg.cc): a state machine over
`Graph × Option Memo`.  `memo = none` ⇔ `Program::solver_ == nullptr`; `InvalidateSolver()` sets it to
`none`, `GetSolver()` creates an empty one.  Which operations call `InvalidateSolver` is copied from
typegraph.cc / typegraph.h *after* the two repairs 1df873f (`CFGNode::set_condition`) and 0c3bfd1
(`Binding::AddOrigin(CFGNode*, const SourceSet&)`):

  Program::NewCFGNode                          always
  CFGNode::ConnectTo                           only when the edge is new (self edge / duplicate: returns first)
  Variable::FindOrAddBindingHelper             only when the binding is new
  Binding::AddOrigin (all three overloads)     always
  CFGNode::set_condition                       always
  Program::NewVariable                         never (an empty variable is invisible to the solver)

Core Lean only.  Not modelled: `MAX_VAR_SIZE` (a variable with ≥ 63 bindings collapses new data to
`default_data`; the generators stay far below), names, metrics, `entrypoint`.
-/
import PytypeModel.Typegraph.Solver

namespace PytypeModel.Typegraph

structure PState where
  g : Graph
  nVars : Nat
  memo : Option Memo
  /-- address ranks handed to the bindings in creation order (`addrs[i]` for binding `i`; default `i`) -/
  addrs : List Nat
  /-- observational only (`Program::CalculateMetrics`): number of solvers created so far
  (`solver_metrics_.size()` + 1 if one is alive) and `solved_states_.size()` of the latest one -/
  epochs : Nat := 0
  lastSize : Nat := 0
deriving Repr

def PState.init (addrs : List Nat := []) : PState :=
  { g := Graph.empty, nVars := 0, memo := none, addrs := addrs }

/-- `Program::InvalidateSolver` -/
def PState.invalidate (s : PState) : PState := { s with memo := none }

/-! ### primitives, one per C++ function -/

/-- `Program::NewCFGNode(name, condition)` -/
def PState.newNode (s : PState) (cond : Option BId) : PState :=
  { s.invalidate with g := s.g.addNode cond }

/-- `CFGNode::ConnectTo` -/
def PState.connectTo (s : PState) (a b : NodeId) : PState :=
  if s.g.edgeIsNew a b then { s.invalidate with g := s.g.addEdge a b } else s

/-- `CFGNode::ConnectNew(name, condition)` -/
def PState.connectNew (s : PState) (a : NodeId) (cond : Option BId) : PState :=
  let n := s.g.nodes.length
  (s.newNode cond).connectTo a n

/-- `Program::NewVariable()`; returns the new variable's id. -/
def PState.newVar (s : PState) : PState × VId := ({ s with nVars := s.nVars + 1 }, s.nVars)

/-- `Variable::FindOrAddBinding(data)` (= `FindOrAddBindingHelper`, `MAX_VAR_SIZE` aside). -/
def PState.findOrAddBinding (s : PState) (v : VId) (data : Nat) : PState × BId :=
  match s.g.findBinding v data with
  | some b => (s, b)
  | none =>
    let id := s.g.bindings.length
    let (g', b) := s.g.newBinding v data (s.addrs.getD id id)
    ({ s.invalidate with g := g' }, b)

/-- `Binding::AddOrigin(node, source_set)` (either overload; also `AddOrigin(node)` followed by
`Origin::AddSourceSet`, which is how `Variable::AddBinding(data, where, source_set)` does it). -/
def PState.addOrigin (s : PState) (b : BId) (n : NodeId) (ss : List BId) : PState :=
  { s.invalidate with g := s.g.addOriginSS b n ss }

/-- `Binding::CopyOrigins(other, where, additional_sources)` on binding `tgt`.  The `where == nullptr`
branch iterates a snapshot of `other`'s origins: when `tgt == other` the C++ loop inserts into the set it
iterates, but an element inserted behind the cursor is `additional ∪ (additional ∪ ss)` = itself, so
the live iteration and the snapshot add the same sets. -/
def PState.copyOrigins (s : PState) (tgt other : BId) (where_ : Option NodeId) (additional : List BId) : PState :=
  match where_ with
  | some w => s.addOrigin tgt w (sinsert other (ofList additional))
  | none =>
    (s.g.binding other).origins.foldl (fun s o =>
      o.sourceSets.foldl (fun s ss => s.addOrigin tgt o.node (sunion (ofList additional) ss)) s) s

/-- `Variable::PasteBinding(binding, where, additional_sources)` on variable `v`. -/
def PState.pasteBinding (s : PState) (v : VId) (b : BId) (where_ : Option NodeId) (additional : List BId) : PState :=
  let (s1, nb) := s.findOrAddBinding v (s.g.binding b).data
  match where_ with
  | none => s1.copyOrigins nb b none additional
  | some w =>
    if (s1.g.binding b).origins.any (fun o => o.node != w) then s1.copyOrigins nb b (some w) additional
    else s1.copyOrigins nb b none additional

/-- `Variable::PasteVariable(variable, where, additional_sources)` -/
def PState.pasteVariable (s : PState) (v v2 : VId) (where_ : Option NodeId) (additional : List BId) : PState :=
  (s.g.varBindings v2).foldl (fun s b => s.pasteBinding v b where_ additional) s

/-- `Variable::PasteBindingWithNewData(binding, data)` -/
def PState.pasteNewData (s : PState) (v : VId) (b : BId) (data : Nat) : PState :=
  let (s1, nb) := s.findOrAddBinding v data
  s1.copyOrigins nb b none []

/-- cfg.cc `AssignToNewVariable` (Binding method) -/
def PState.assignBinding (s : PState) (b : BId) (where_ : Option NodeId) : PState :=
  let (s1, v) := s.newVar
  let (s2, nb) := s1.findOrAddBinding v (s1.g.binding b).data
  s2.copyOrigins nb b where_ []

/-- cfg.cc `VarAssignToNewVariable` (Variable method) -/
def PState.assignVar (s : PState) (v : VId) (where_ : Option NodeId) : PState :=
  let (s1, v') := s.newVar
  (s.g.varBindings v).foldl (fun s b =>
    let (s2, nb) := s.findOrAddBinding v' (s.g.binding b).data
    s2.copyOrigins nb b where_ []) s1

/-- cfg.cc `NewVariable(bindings, source_set, where)` -/
def PState.newVarWith (s : PState) (datas : List Nat) (ss : List BId) (where_ : NodeId) : PState :=
  let (s1, v) := s.newVar
  datas.foldl (fun s d =>
    let (s2, b) := s.findOrAddBinding v d
    s2.addOrigin b where_ ss) s1

/-- `Variable::AddBinding(data)` / `Variable::AddBinding(data, where, source_set)` -/
def PState.addBinding (s : PState) (v : VId) (data : Nat) (origin : Option (List BId × NodeId)) : PState :=
  let (s1, b) := s.findOrAddBinding v data
  match origin with
  | none => s1
  | some (ss, w) => s1.addOrigin b w ss

/-- `CFGNode::set_condition` (Python `node.condition = b`) -/
def PState.setCond (s : PState) (n : NodeId) (c : Option BId) : PState :=
  { s.invalidate with g := s.g.setCondition n c }

/-! ### queries -/

inductive Query
  | has (n : NodeId) (bs : List BId)          -- CFGNode.HasCombination
  | canHave (n : NodeId) (bs : List BId)      -- CFGNode.CanHaveCombination
  | visible (b : BId) (n : NodeId)            -- Binding.IsVisible
  | filter (v : VId) (n : NodeId) (strict : Bool)  -- Variable.Filter
  | prune (v : VId) (n : Option NodeId)       -- Variable.Bindings
deriving Repr, DecidableEq

inductive Answer
  | bool (b : Bool)
  | ids (l : List BId)
deriving Repr, DecidableEq

/-- the answer of a query issued on a solver whose memo is `memo`, and the memo afterwards
(`none` = the query does not touch the solver). -/
def answerWith (g : Graph) (memo : Memo) : Query → Answer × Option Memo
  | .has n bs => let (r, m) := solve g memo n bs; (.bool r, some m)
  | .visible b n => let (r, m) := solve g memo n [b]; (.bool r, some m)
  | .filter v n strict =>
    -- no `IsVisible` call (hence no `GetSolver`) for an empty variable or the non-strict singleton shortcut
    let bs := g.varBindings v
    if bs.isEmpty || (!strict && bs.length == 1) then (.ids bs, none)
    else let (r, m) := varFilter g memo v n strict; (.ids r, some m)
  | .canHave n bs => (.bool (g.canHaveCombination n bs), none)
  | .prune v n => (.ids (g.prune v n), none)

/-- a query on the live program: `GetSolver()` creates an empty solver if there is none. -/
def PState.ask (s : PState) (q : Query) : Answer × PState :=
  match answerWith s.g (s.memo.getD []) q with
  | (a, some m) =>
    -- every recall miss stores its state twice (provisional, final): `m.length / 2` distinct states
    (a, { s with memo := some m, epochs := if s.memo.isSome then s.epochs else s.epochs + 1,
                 lastSize := m.length / 2 })
  | (a, none) => (a, s)

/-- what a freshly built copy of the graph answers (empty solver). -/
def coldAnswer (g : Graph) (q : Query) : Answer := (answerWith g [] q).1

/-! ### operations and histories -/

inductive Op
  | newNode (cond : Option BId)
  | connectNew (a : NodeId) (cond : Option BId)
  | connectTo (a b : NodeId)
  | newVar
  | newVarWith (datas : List Nat) (ss : List BId) (where_ : NodeId)
  | addBinding (v : VId) (data : Nat) (origin : Option (List BId × NodeId))
  | addOrigin (b : BId) (where_ : NodeId) (ss : List BId)
  | pasteBinding (v : VId) (b : BId) (where_ : Option NodeId) (additional : List BId)
  | pasteVariable (v v2 : VId) (where_ : Option NodeId) (additional : List BId)
  | pasteNewData (v : VId) (b : BId) (data : Nat)
  | assignBinding (b : BId) (where_ : Option NodeId)
  | assignVar (v : VId) (where_ : Option NodeId)
  | setCond (n : NodeId) (c : Option BId)
  | query (q : Query)
deriving Repr, DecidableEq

def Op.isQuery : Op → Bool
  | .query _ => true
  | _ => false

def PState.step (s : PState) : Op → PState
  | .newNode c => s.newNode c
  | .connectNew a c => s.connectNew a c
  | .connectTo a b => s.connectTo a b
  | .newVar => s.newVar.1
  | .newVarWith ds ss w => s.newVarWith ds ss w
  | .addBinding v d o => s.addBinding v d o
  | .addOrigin b w ss => s.addOrigin b w ss
  | .pasteBinding v b w a => s.pasteBinding v b w a
  | .pasteVariable v v2 w a => s.pasteVariable v v2 w a
  | .pasteNewData v b d => s.pasteNewData v b d
  | .assignBinding b w => s.assignBinding b w
  | .assignVar v w => s.assignVar v w
  | .setCond n c => s.setCond n c
  | .query q => (s.ask q).2

def PState.run (s : PState) (ops : List Op) : PState := ops.foldl PState.step s

/-- the fresh replica of a history: the same mutations, no query ever asked. -/
def replicaOps (ops : List Op) : List Op := ops.filter fun o => !o.isQuery

/-! ### well-formedness of an operation in a state (ids in range; the C++ API takes pointers) -/

def PState.okNode (s : PState) (n : NodeId) : Bool := n < s.g.nodes.length
def PState.okB (s : PState) (b : BId) : Bool := b < s.g.bindings.length
def PState.okV (s : PState) (v : VId) : Bool := v < s.nVars
def PState.okON (s : PState) : Option NodeId → Bool
  | none => true
  | some n => s.okNode n
def PState.okOB (s : PState) : Option BId → Bool
  | none => true
  | some b => s.okB b

def Query.ok (s : PState) : Query → Bool
  | .has n bs => s.okNode n && bs.all s.okB
  | .canHave n bs => s.okNode n && bs.all s.okB
  | .visible b n => s.okB b && s.okNode n
  | .filter v n _ => s.okV v && s.okNode n
  | .prune v n => s.okV v && s.okON n

def Op.ok (s : PState) : Op → Bool
  | .newNode c => s.okOB c
  | .connectNew a c => s.okNode a && s.okOB c
  | .connectTo a b => s.okNode a && s.okNode b
  | .newVar => true
  | .newVarWith _ ss w => ss.all s.okB && s.okNode w
  | .addBinding v _ o => s.okV v && (match o with | none => true | some (ss, w) => ss.all s.okB && s.okNode w)
  | .addOrigin b w ss => s.okB b && s.okNode w && ss.all s.okB
  | .pasteBinding v b w a => s.okV v && s.okB b && s.okON w && a.all s.okB
  | .pasteVariable v v2 w a => s.okV v && s.okV v2 && s.okON w && a.all s.okB
  | .pasteNewData v b _ => s.okV v && s.okB b
  | .assignBinding b w => s.okB b && s.okON w
  | .assignVar v w => s.okV v && s.okON w
  | .setCond n c => s.okNode n && s.okOB c
  | .query q => q.ok s

end PytypeModel.Typegraph

namespace PytypeModel.Typegraph

/-- what the long-lived program answers to `q` after the history `h` -/
def liveAnswer (addrs : List Nat) (h : List Op) (q : Query) : Answer :=
  (((PState.init addrs).run h).ask q).1

/-- what a fresh replica (same mutations, never queried before) answers to `q` -/
def freshAnswer (addrs : List Nat) (h : List Op) (q : Query) : Answer :=
  (((PState.init addrs).run (replicaOps h)).ask q).1

/-- every op of the history is well-formed in the state it is applied to -/
def wfHistory (s : PState) : List Op → Bool
  | [] => true
  | op :: ops => op.ok s && wfHistory (s.step op) ops

end PytypeModel.Typegraph
