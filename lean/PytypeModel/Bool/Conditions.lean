/-
Model of pytype/rewrite/flow/conditions.py.  Core Lean only (the driver links against it).

Python                                      model
------------------------------------------  ---------------------------------------------
TRUE / FALSE (singletons, tested with `is`)  Cond.tt / Cond.ff
any other Condition subclass instance        Cond.atom i      (opaque, `==` is equality of i)
_Not(condition)                              Cond.not c
_And(frozenset) / _Or(frozenset)             Cond.and cs / Cond.or cs   (list read as a set)
dataclass `__eq__` (frozensets compare       Cond.beq  (same constructor; children mutually
  as sets, `_And(s) != _Or(s)`)                included up to beq)
Not = _Not.make                              mkNot
_Composite.make with (_ACCEPT, _IGNORE)      mkComp accept ignore wrap
And / Or                                     mkAnd = mkComp ff tt and / mkOr = mkComp tt ff or
-/
namespace PytypeModel.Flow

inductive Cond where
  | tt
  | ff
  | atom (i : Nat)
  | not (c : Cond)
  | and (cs : List Cond)
  | or (cs : List Cond)
deriving Repr, Inhabited

/-! ### Python `==` on conditions -/
mutual
/-- dataclass equality: same class and equal fields; a `frozenset` field compares as a set. -/
def Cond.beq : Cond → Cond → Bool
  | .tt, .tt => true
  | .ff, .ff => true
  | .atom i, .atom j => i == j
  | .not a, .not b => a.beq b
  | .and cs, .and ds => Cond.subsetL cs ds && ds.all (fun d => Cond.anyBeqL cs d)
  | .or cs, .or ds => Cond.subsetL cs ds && ds.all (fun d => Cond.anyBeqL cs d)
  | _, _ => false
/-- every element of `cs` equals some element of `ds` -/
def Cond.subsetL : List Cond → List Cond → Bool
  | [], _ => true
  | c :: cs, ds => ds.any (fun d => c.beq d) && Cond.subsetL cs ds
/-- some element of `cs` equals `d` -/
def Cond.anyBeqL : List Cond → Cond → Bool
  | [], _ => false
  | c :: cs, d => c.beq d || Cond.anyBeqL cs d
end

/-- `x in conditions` for a Python set of conditions represented as a list. -/
def Cond.memL (x : Cond) (cs : List Cond) : Bool := cs.any (fun c => c.beq x)

/-- `conditions.add(x)` -/
def Cond.insertL (x : Cond) (cs : List Cond) : List Cond := if x.memL cs then cs else cs ++ [x]

/-! ### truth-table semantics (the specification side) -/
mutual
def Cond.eval (ρ : Nat → Bool) : Cond → Bool
  | .tt => true
  | .ff => false
  | .atom i => ρ i
  | .not c => !(c.eval ρ)
  | .and cs => Cond.evalAll ρ cs
  | .or cs => Cond.evalAny ρ cs
def Cond.evalAll (ρ : Nat → Bool) : List Cond → Bool
  | [] => true
  | c :: cs => c.eval ρ && Cond.evalAll ρ cs
def Cond.evalAny (ρ : Nat → Bool) : List Cond → Bool
  | [] => false
  | c :: cs => c.eval ρ || Cond.evalAny ρ cs
end

/-! ### the simplifying constructors -/

/-- `_Not.make` -/
def mkNot : Cond → Cond
  | .not c => c
  | c => .not c

def Cond.isTT : Cond → Bool
  | .tt => true
  | _ => false

def Cond.isFF : Cond → Bool
  | .ff => true
  | _ => false

/-- `arg is X` for `X ∈ {TRUE, FALSE}` (identity on the two singletons). -/
def Cond.isConst (x : Cond) (c : Cond) : Bool :=
  match x with
  | .tt => c.isTT
  | .ff => c.isFF
  | _ => false

/-- the `for arg in args` loop of `_Composite.make`; `.error r` = early `return r`. -/
def compLoop (accept ignore : Cond) : List Cond → List Cond → Except Cond (List Cond)
  | [], acc => .ok acc
  | arg :: rest, acc =>
    if ignore.isConst arg then compLoop accept ignore rest acc
    else if accept.isConst arg then .error arg
    else if (mkNot arg).memL acc then .error accept
    else compLoop accept ignore rest (Cond.insertL arg acc)

/-- `_Composite.make(*args)` for a subclass with the given `_ACCEPT`, `_IGNORE` and constructor. -/
def mkComp (accept ignore : Cond) (wrap : List Cond → Cond) (args : List Cond) : Cond :=
  match compLoop accept ignore args [] with
  | .error r => r
  | .ok [] => ignore
  | .ok [c] => c
  | .ok cs => wrap cs

/-- `conditions.And` (`_ACCEPT = FALSE`, `_IGNORE = TRUE`) -/
def mkAnd (args : List Cond) : Cond := mkComp .ff .tt .and args
/-- `conditions.Or` (`_ACCEPT = TRUE`, `_IGNORE = FALSE`) -/
def mkOr (args : List Cond) : Cond := mkComp .tt .ff .or args

/-! ### canonical printing (used by the driver only; children sorted, so set order is invisible) -/
def insertSorted (s : String) : List String → List String
  | [] => [s]
  | t :: ts => if s ≤ t then s :: t :: ts else t :: insertSorted s ts

def sortStrings (l : List String) : List String := l.foldr insertSorted []

def dedupSorted : List String → List String
  | a :: b :: rest => if a == b then dedupSorted (b :: rest) else a :: dedupSorted (b :: rest)
  | l => l

mutual
def Cond.canon : Cond → String
  | .tt => "T"
  | .ff => "F"
  | .atom i => "a" ++ toString i
  | .not c => "N(" ++ c.canon ++ ")"
  | .and cs => "A(" ++ ",".intercalate (dedupSorted (sortStrings (Cond.canonL cs))) ++ ")"
  | .or cs => "O(" ++ ",".intercalate (dedupSorted (sortStrings (Cond.canonL cs))) ++ ")"
def Cond.canonL : List Cond → List String
  | [] => []
  | c :: cs => c.canon :: Cond.canonL cs
end

end PytypeModel.Flow
