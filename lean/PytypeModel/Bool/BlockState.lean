import PytypeModel.Bool.Conditions

/-
Model of pytype/rewrite/flow/variables.py (Binding, Variable.from_value, with_condition,
with_name) and of pytype/rewrite/flow/state.py (all of BlockState).  Core Lean only.

Python                                         model
---------------------------------------------  -------------------------------------------
Binding(value, condition=TRUE)                 Binding  (values are Nat)
Variable(bindings: tuple, name: str|None)      Var      (dataclass `==`: Var.beq)
dict (insertion ordered, unique keys)          association list, `assocSet` / `assocGet`
set of names                                   List String with `setAdd` / `contains`
BlockState(locals_, condition, None)           BState.init        (lwbc := set(locals_))
store_local / load_local / get_locals          BState.storeLocal / loadLocal / getLocals
with_condition                                 BState.withCondition
merge_into(None) / merge_into(other)           BState.mergeInto none / (some other)

Python dicts have unique keys.  Loops of the form `for k, v in d.items(): new[k] = f(k, v)` into a
fresh dict are therefore modelled as `map` over the association list; the one loop that writes
into a dict that already has entries (second loop of merge_into, and the `bindings` dict) is a
`foldl` of `assocSet`.  States are immutable values here; the Python object is mutated in place
only by store_local, and every other operation builds fresh dict/set objects (checked by reading
with_condition/merge_into: `new_locals = {}`, `set(...)` copies, `dict(self._locals)`).
-/
namespace PytypeModel.Flow

abbrev Val := Nat

/-! ### insertion-ordered dict and set -/
def assocGet {κ β : Type} [DecidableEq κ] : List (κ × β) → κ → Option β
  | [], _ => none
  | (k, v) :: rest, x => if k = x then some v else assocGet rest x

/-- `d[x] = v` : replaces in place if the key exists, else appends. -/
def assocSet {κ β : Type} [DecidableEq κ] : List (κ × β) → κ → β → List (κ × β)
  | [], x, v => [(x, v)]
  | (k, w) :: rest, x, v => if k = x then (k, v) :: rest else (k, w) :: assocSet rest x v

/-- optional write: `none` leaves the dict alone (a `continue` in the loop) -/
def assocUpd {κ β : Type} [DecidableEq κ] (d : List (κ × β)) (k : κ) : Option β → List (κ × β)
  | none => d
  | some v => assocSet d k v

def setAdd (s : List String) (x : String) : List String := if s.contains x then s else s ++ [x]

/-! ### variables.py -/
structure Binding where
  value : Val
  cond : Cond := .tt
deriving Repr, Inhabited

structure Var where
  bindings : List Binding
  name : Option String := none
deriving Repr, Inhabited

/-- `Variable.from_value(value, name=name)` -/
def Var.fromValue (v : Val) (name : Option String := none) : Var := ⟨[⟨v, .tt⟩], name⟩

/-- `Variable.with_condition` : identity when `condition is TRUE`, else every binding's
condition becomes `And(b.condition, condition)`. -/
def Var.withCondition (v : Var) (c : Cond) : Var :=
  if c.isTT then v
  else { v with bindings := v.bindings.map fun b => { b with cond := mkAnd [b.cond, c] } }

def Var.withName (v : Var) (n : Option String) : Var := { v with name := n }

def Var.values (v : Var) : List Val := v.bindings.map (·.value)

def Binding.beq (a b : Binding) : Bool := a.value == b.value && a.cond.beq b.cond

/-- tuple equality of the bindings -/
def bindingsBeq : List Binding → List Binding → Bool
  | [], [] => true
  | a :: as, b :: bs => a.beq b && bindingsBeq as bs
  | _, _ => false

/-- dataclass `==` on `Variable` (bindings tuple and name) -/
def Var.beq (a b : Var) : Bool := bindingsBeq a.bindings b.bindings && a.name == b.name

/-! ### state.py -/
structure BState where
  locals : List (String × Var)
  cond : Cond
  lwbc : List String
deriving Repr, Inhabited

def BState.keys (s : BState) : List String := s.locals.map (·.1)

/-- `dict(pairs)` : later duplicates overwrite -/
def dictOf (ls : List (String × Var)) : List (String × Var) :=
  ls.foldl (fun d p => assocSet d p.1 p.2) []

/-- `BlockState(locals_=dict(ls), condition=c)` with `locals_with_block_condition=None`. -/
def BState.init (ls : List (String × Var)) (c : Cond := .tt) : BState :=
  let d := dictOf ls
  { locals := d, cond := c, lwbc := d.map (·.1) }

def BState.storeLocal (s : BState) (x : String) (v : Var) : BState :=
  { s with locals := assocSet s.locals x v, lwbc := setAdd s.lwbc x }

/-- `none` = `KeyError` -/
def BState.loadLocal (s : BState) (x : String) : Option Var :=
  (assocGet s.locals x).map (·.withName (some x))

def BState.getLocals (s : BState) : List (String × Var) := s.locals

def BState.withCondition (s : BState) (c : Cond) : BState :=
  let c' := mkAnd [s.cond, c]
  { locals := s.locals.map fun p => if s.lwbc.contains p.1 then p else (p.1, p.2.withCondition c'),
    cond := c',
    lwbc := s.lwbc }

/-- `name in other._locals and var == other._locals[name]` -/
def sameIn (b : BState) (x : String) (v : Var) : Bool :=
  match assocGet b.locals x with
  | some w => v.beq w
  | none => false

/-- first loop of merge_into: the variable written to `locals_[name]` -/
def merge1Var (a b : BState) (x : String) (v : Var) : Var :=
  if sameIn b x v then v
  else if a.lwbc.contains x then v.withCondition a.cond
  else v

/-- `{b.value: b.condition for b in bindings}` -/
def bindDict (bs : List Binding) : List (Val × Cond) :=
  bs.foldl (fun d b => assocSet d b.value b.cond) []

def bindMergeStep (d : List (Val × Cond)) (b : Binding) : List (Val × Cond) :=
  match assocGet d b.value with
  | some c => assocSet d b.value (mkOr [c, b.cond])
  | none => assocSet d b.value b.cond

/-- "Both blocks define this variable, so merge the two sets of bindings." (result has no name) -/
def mergeBindings (cur var : Var) : Var :=
  { bindings := (var.bindings.foldl bindMergeStep (bindDict cur.bindings)).map fun p => ⟨p.1, p.2⟩,
    name := none }

/-- what one iteration of the second loop does to key `x` given the current entry;
`none` = `continue` (nothing written). -/
def merge2Upd (b : BState) (lw : List String) (x : String) (w : Var) (cur : Option Var) :
    Option Var :=
  if lw.contains x then none
  else
    let w' := if b.lwbc.contains x then w.withCondition b.cond else w
    match cur with
    | none => some w'
    | some cv => some (mergeBindings cv w')

def merge2Step (b : BState) (lw : List String) (acc : List (String × Var)) (p : String × Var) :
    List (String × Var) :=
  assocUpd acc p.1 (merge2Upd b lw p.1 p.2 (assocGet acc p.1))

def BState.mergeInto (a : BState) : Option BState → BState
  | none => a
  | some b =>
    let l1 := a.locals.map fun p => (p.1, merge1Var a b p.1 p.2)
    let lw := (a.locals.filter fun p => sameIn b p.1 p.2).map (·.1)
    { locals := b.locals.foldl (merge2Step b lw) l1,
      cond := mkOr [a.cond, b.cond],
      lwbc := lw }

/-! ### meaning of a state under a valuation -/

/-- condition under which binding `bd` of local `x` applies in state `s` -/
def BState.effective (s : BState) (ρ : Nat → Bool) (x : String) (bd : Binding) : Bool :=
  bd.cond.eval ρ && (if s.lwbc.contains x then s.cond.eval ρ else true)

/-- values local `x` can have in `s` under `ρ` (in binding order; `[]` if undefined) -/
def BState.vals (ρ : Nat → Bool) (s : BState) (x : String) : List Val :=
  match assocGet s.locals x with
  | none => []
  | some v => (v.bindings.filter (s.effective ρ x)).map (·.value)

/-- Representation invariant of states built through the state's own operations:
unique keys (a dict), `lwbc ⊆ keys`, pairwise distinct values per variable, and — the semantic
part — for a local that does *not* carry the block condition implicitly, every binding's own
condition already implies the block's condition. -/
structure Inv (s : BState) : Prop where
  keysNodup : s.keys.Nodup
  lwbcKeys : ∀ x ∈ s.lwbc, x ∈ s.keys
  valsNodup : ∀ x v, (x, v) ∈ s.locals → v.values.Nodup
  implied : ∀ x v, (x, v) ∈ s.locals → x ∉ s.lwbc →
    ∀ b ∈ v.bindings, ∀ ρ : Nat → Bool, b.cond.eval ρ = true → s.cond.eval ρ = true

/-! ### operation histories (a register machine over states; also the driver's state) -/
inductive Op where
  /-- `BlockState({x: Variable.from_value(v), ...}, condition=c)` appended to the registers -/
  | new (ls : List (String × Val)) (c : Cond)
  /-- `R[i].store_local(x, Variable.from_value(v))` -/
  | storeVal (i : Nat) (x : String) (v : Val)
  /-- `R[i].store_local(x, R[j].load_local(y))` (nothing happens on KeyError) -/
  | storeLoad (i : Nat) (x : String) (j : Nat) (y : String)
  /-- `R[i].store_local(x, var)` for a caller-built variable -/
  | storeVar (i : Nat) (x : String) (var : Var)
  /-- `R.append(R[i].with_condition(c))` -/
  | withCond (i : Nat) (c : Cond)
  /-- `R.append(R[i].merge_into(R[j]))` -/
  | merge (i j : Nat)
  /-- `R.append(R[i].merge_into(None))` -/
  | mergeNone (i : Nat)
deriving Repr

def step (m : List BState) : Op → List BState
  | .new ls c => m ++ [BState.init (ls.map fun p => (p.1, Var.fromValue p.2)) c]
  | .storeVal i x v =>
    match m[i]? with
    | some s => m.set i (s.storeLocal x (Var.fromValue v))
    | none => m
  | .storeLoad i x j y =>
    match m[i]?, m[j]? with
    | some s, some t =>
      match t.loadLocal y with
      | some var => m.set i (s.storeLocal x var)
      | none => m
    | _, _ => m
  | .storeVar i x var =>
    match m[i]? with
    | some s => m.set i (s.storeLocal x var)
    | none => m
  | .withCond i c =>
    match m[i]? with
    | some s => m ++ [s.withCondition c]
    | none => m
  | .merge i j =>
    match m[i]?, m[j]? with
    | some s, some t => m ++ [s.mergeInto (some t)]
    | _, _ => m
  | .mergeNone i =>
    match m[i]? with
    | some s => m ++ [s.mergeInto none]
    | none => m

def run (ops : List Op) : List BState := ops.foldl step []

/-- the only side condition on histories: a caller-built variable has pairwise distinct values
(always true of `from_value` variables and of variables loaded from a state). -/
def Op.ok : Op → Bool
  | .storeVar _ _ var => decide (var.values.Nodup)
  | _ => true

/-! ### canonical printing (driver only) -/
def Binding.canon (b : Binding) : String := toString b.value ++ "?" ++ b.cond.canon

def Var.canon (v : Var) : String :=
  (match v.name with | some n => n | none => "-") ++ ":[" ++
    ",".intercalate (v.bindings.map Binding.canon) ++ "]"

def BState.canon (s : BState) : String :=
  "{" ++ ";".intercalate (sortStrings (s.locals.map fun p => p.1 ++ "=" ++ p.2.canon)) ++ "}|" ++
    s.cond.canon ++ "|[" ++ ",".intercalate (dedupSorted (sortStrings s.lwbc)) ++ "]"

end PytypeModel.Flow
