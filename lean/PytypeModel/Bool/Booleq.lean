/-!
# Model of `pytype/pytd/booleq.py` (C17)

Modelled: `TRUE`/`FALSE`, `_Eq`, `_And`, `_Or`, `simplify_exprs`, the public constructors `Eq`, `And`,
`Or`, and the three `simplify` methods.  Core Lean only.

Representation.  A Python `_And`/`_Or` holds a *set* of sub-terms.  The model holds a *list*: the list
order stands for the iteration order of that Python set (which the code observes only through the
lazy generator in `_And.simplify`/`_Or.simplify`: the first `stop_term` ends the loop before later
children are simplified, so a later `KeyError` is not raised).  Every theorem in `Props/C17.lean`
quantifies over all lists, hence over all iteration orders.  Membership/duplicate elimination of the
Python sets is through `__eq__`/`__hash__`, i.e. `Term.beq` below (set equality on children).
-/
namespace PytypeModel.Booleq

/-- `TRUE`, `FALSE`, `_Eq(left, right)`, `_And(exprs)`, `_Or(exprs)` -/
inductive Term where
  | tt
  | ff
  | eq (l r : String)
  | and (es : List Term)
  | or (es : List Term)
  deriving Inhabited

/-- which connective `simplify_exprs` is building: `(result_type, stop_term, skip_term)` is
`(_And, FALSE, TRUE)` for `conj` and `(_Or, TRUE, FALSE)` for `disj`. -/
inductive Kind where
  | conj
  | disj
  deriving DecidableEq

def Term.isTT : Term → Bool
  | .tt => true
  | _ => false

def Term.isFF : Term → Bool
  | .ff => true
  | _ => false

def Kind.stop : Kind → Term
  | .conj => .ff
  | .disj => .tt

def Kind.skip : Kind → Term
  | .conj => .tt
  | .disj => .ff

def Kind.mk : Kind → List Term → Term
  | .conj, es => .and es
  | .disj, es => .or es

/-- `e is stop_term` (TRUE/FALSE are singletons) -/
def Kind.isStop : Kind → Term → Bool
  | .conj, e => e.isFF
  | .disj, e => e.isTT

/-- `e is skip_term` -/
def Kind.isSkip : Kind → Term → Bool
  | .conj, e => e.isTT
  | .disj, e => e.isFF

/-- `isinstance(e, result_type)` and then `e.exprs` -/
def Kind.children? : Kind → Term → Option (List Term)
  | .conj, .and fs => some fs
  | .disj, .or fs => some fs
  | _, _ => none

/-! ### `__eq__` : structural, with *set* equality on the children of `_And`/`_Or` -/
mutual
def Term.beq : Term → Term → Bool
  | .tt, .tt => true
  | .ff, .ff => true
  | .eq l r, .eq l' r' => l == l' && r == r'
  | .and es, .and fs => subB es fs && fs.all (fun f => anyB es f)
  | .or es, .or fs => subB es fs && fs.all (fun f => anyB es f)
  | _, _ => false
termination_by structural t => t
/-- every element of `es` is `__eq__` to some element of `fs` -/
def subB : List Term → List Term → Bool
  | [], _ => true
  | e :: es, fs => fs.any (fun f => e.beq f) && subB es fs
termination_by structural es => es
/-- some element of `es` is `__eq__` to `f` -/
def anyB : List Term → Term → Bool
  | [], _ => false
  | e :: es, f => e.beq f || anyB es f
termination_by structural es => es
end

/-! ### `simplify_exprs` -/

/-- `expr_set.add(e)` : a Python set keeps one representative per `__eq__` class -/
def insertT (acc : List Term) (e : Term) : List Term :=
  if acc.any (fun a => a.beq e) then acc else acc ++ [e]

/-- `expr_set.union(e.exprs)` -/
def unionT (acc es : List Term) : List Term := es.foldl insertT acc

/-- one iteration of the `for e in exprs` loop; `none` = `return stop_term` -/
def step (k : Kind) (acc : List Term) (e : Term) : Option (List Term) :=
  if k.isStop e then none
  else if k.isSkip e then some acc
  else match k.children? e with
    | some fs => some (unionT acc fs)
    | none => some (insertT acc e)

/-- the tail of `simplify_exprs`: `len(expr_set) > 1` / `expr_set.pop()` / `skip_term` -/
def finish (k : Kind) : List Term → Term
  | [] => k.skip
  | [e] => e
  | acc => k.mk acc

def collect (k : Kind) : List Term → List Term → Term
  | acc, [] => finish k acc
  | acc, e :: es =>
    match step k acc e with
    | none => k.stop
    | some acc' => collect k acc' es

def simplifyExprs (k : Kind) (es : List Term) : Term := collect k [] es

/-- `booleq.And(exprs)` -/
def mkAnd (es : List Term) : Term := simplifyExprs .conj es
/-- `booleq.Or(exprs)` -/
def mkOr (es : List Term) : Term := simplifyExprs .disj es

/-- `booleq.Eq(left, right)`: `TRUE` when equal, otherwise the larger string (code-point order) on the
left.  Python's `left > right` is `right < left`. -/
def mkEq (l r : String) : Term :=
  if l = r then .tt else if r < l then .eq l r else .eq r l

/-! ### building a term through the public constructors only (what K and client code do) -/
mutual
def build : Term → Term
  | .tt => .tt
  | .ff => .ff
  | .eq l r => mkEq l r
  | .and es => mkAnd (buildList es)
  | .or es => mkOr (buildList es)
termination_by structural t => t
def buildList : List Term → List Term
  | [] => []
  | e :: es => build e :: buildList es
termination_by structural es => es
end

/-! ### `simplify(assignments)` -/

/-- `assignments`: dict from variable name to the set of still-possible values -/
abbrev Table := List (String × List String)

inductive Err where
  | keyError
  deriving DecidableEq, Repr

/-- `_Eq.simplify`:
```
if self.right in assignments: return self
else: return self if self.right in assignments[self.left] else FALSE     # may raise KeyError
``` -/
def simplifyEq (T : Table) (l r : String) : Except Err Term :=
  if (T.lookup r).isSome then .ok (.eq l r)
  else match T.lookup l with
    | none => .error .keyError
    | some vs => .ok (if vs.contains r then .eq l r else .ff)

mutual
def simplify (T : Table) : Term → Except Err Term
  | .tt => .ok .tt
  | .ff => .ok .ff
  | .eq l r => simplifyEq T l r
  | .and es => simplifyList T .conj [] es
  | .or es => simplifyList T .disj [] es
termination_by structural t => t
/-- `simplify_exprs((e.simplify(assignments) for e in self.exprs), …)`: the generator is consumed lazily,
so children after the first `stop_term` are never simplified (and cannot raise). -/
def simplifyList (T : Table) (k : Kind) (acc : List Term) : List Term → Except Err Term
  | [] => .ok (finish k acc)
  | e :: es =>
    match simplify T e with
    | .error x => .error x
    | .ok e' =>
      match step k acc e' with
      | none => .ok k.stop
      | some acc' => simplifyList T k acc' es
termination_by structural es => es
end

/-! ### specification side: truth value under a valuation of names -/

/-- a name is a variable (valued by `ρ`) or a value (denotes itself) -/
def val (vars : List String) (ρ : String → String) (s : String) : String :=
  if vars.contains s then ρ s else s

mutual
def eval (v : String → String) : Term → Bool
  | .tt => true
  | .ff => false
  | .eq l r => v l == v r
  | .and es => evalAll v es
  | .or es => evalAny v es
termination_by structural t => t
def evalAll (v : String → String) : List Term → Bool
  | [] => true
  | e :: es => eval v e && evalAll v es
termination_by structural es => es
def evalAny (v : String → String) : List Term → Bool
  | [] => false
  | e :: es => eval v e || evalAny v es
termination_by structural es => es
end

/-! ### normal form produced by the constructors -/

/-- no earlier element is `__eq__` to a later one -/
def distinctB : List Term → Bool
  | [] => true
  | e :: es => es.all (fun f => !e.beq f) && distinctB es

mutual
/-- hereditary normal form: `_Eq` has the larger string on the left; an `_And` has ≥ 2 pairwise
different children none of which is `TRUE`, `FALSE` or an `_And`; dually for `_Or`. -/
def Term.normal : Term → Bool
  | .tt => true
  | .ff => true
  | .eq l r => decide (r < l)
  | .and es => decide (2 ≤ es.length) && distinctB es && childrenOK .conj es
  | .or es => decide (2 ≤ es.length) && distinctB es && childrenOK .disj es
termination_by structural t => t
def childrenOK (k : Kind) : List Term → Bool
  | [] => true
  | e :: es => (e.normal && !e.isTT && !e.isFF && (k.children? e).isNone) && childrenOK k es
termination_by structural es => es
end

/-! ### which inputs make `simplify` raise -/
mutual
/-- some `_Eq` in the term has neither side among the keys of the table -/
def hasUnkeyed (T : Table) : Term → Bool
  | .tt => false
  | .ff => false
  | .eq l r => (T.lookup r).isNone && (T.lookup l).isNone
  | .and es => anyUnkeyed T es
  | .or es => anyUnkeyed T es
termination_by structural t => t
def anyUnkeyed (T : Table) : List Term → Bool
  | [] => false
  | e :: es => hasUnkeyed T e || anyUnkeyed T es
termination_by structural es => es
end

/-- `simplify` succeeded with the given stop term -/
def isOkStop (k : Kind) : Except Err Term → Bool
  | .ok t => k.isStop t
  | .error _ => false

mutual
/-- guard for the naive error characterisation: no child of a connective simplifies to the
connective's stop term (so the lazy loop never ends early) -/
def neverStops (T : Table) : Term → Bool
  | .tt => true
  | .ff => true
  | .eq _ _ => true
  | .and es => neverStopsList T .conj es
  | .or es => neverStopsList T .disj es
termination_by structural t => t
def neverStopsList (T : Table) (k : Kind) : List Term → Bool
  | [] => true
  | e :: es => (neverStops T e && !isOkStop k (simplify T e)) && neverStopsList T k es
termination_by structural es => es
end

/-! ### canonical text (used by the driver; children sorted, *not* de-duplicated) -/
mutual
def canon : Term → String
  | .tt => "T"
  | .ff => "F"
  | .eq l r => "(" ++ l ++ "=" ++ r ++ ")"
  | .and es => "A[" ++ ",".intercalate ((canonList es).mergeSort (fun a b => decide (a ≤ b))) ++ "]"
  | .or es => "O[" ++ ",".intercalate ((canonList es).mergeSort (fun a b => decide (a ≤ b))) ++ "]"
termination_by structural t => t
def canonList : List Term → List String
  | [] => []
  | e :: es => canon e :: canonList es
termination_by structural es => es
end

end PytypeModel.Booleq
