/-! # A stable sort by a boolean `<=` (Python's `sorted`), structurally recursive (C04)

Insertion sort: kernel-reducible (so concrete instances can be checked by `decide`) and stable — an element
is inserted *before* the first element it is `<=` to, and elements are inserted right to left, so elements
that compare equal keep their input order, exactly like `sorted`.  For a total preorder the output of a
stable sort is unique, so the algorithm (timsort vs insertion) is not observable.  Core Lean only; the
lemmas below are the interface used by the proofs. -/
namespace PytypeModel.Core

variable {α : Type}

def insertBy (le : α → α → Bool) (x : α) : List α → List α
  | [] => [x]
  | y :: ys => if le x y then x :: y :: ys else y :: insertBy le x ys

def isort (le : α → α → Bool) : List α → List α
  | [] => []
  | x :: xs => insertBy le x (isort le xs)

theorem insertBy_perm (le : α → α → Bool) (x : α) : ∀ l, (insertBy le x l).Perm (x :: l)
  | [] => .refl _
  | y :: ys => by
    unfold insertBy
    split
    · exact .refl _
    · exact ((insertBy_perm le x ys).cons y).trans (.swap x y ys)

theorem isort_perm (le : α → α → Bool) : ∀ l, (isort le l).Perm l
  | [] => .refl _
  | x :: xs => (insertBy_perm le x _).trans ((isort_perm le xs).cons x)

theorem insertBy_sublist (le : α → α → Bool) (x : α) : ∀ l : List α, l.Sublist (insertBy le x l)
  | [] => by simp [insertBy]
  | y :: ys => by
    unfold insertBy
    split
    · exact (List.Sublist.refl _).cons x
    · exact (insertBy_sublist le x ys).cons_cons y

section
variable {le : α → α → Bool}
  (trans : ∀ a b c, le a b = true → le b c = true → le a c = true)
  (total : ∀ a b, (le a b || le b a) = true)
include trans total

theorem insertBy_pairwise (x : α) : ∀ l, l.Pairwise (fun a b => le a b = true) →
    (insertBy le x l).Pairwise (fun a b => le a b = true)
  | [], _ => by simp [insertBy]
  | y :: ys, h => by
    have h' := List.pairwise_cons.1 h
    unfold insertBy
    split
    · rename_i hxy
      refine List.pairwise_cons.2 ⟨?_, h⟩
      intro b hb
      rcases List.mem_cons.1 hb with rfl | hb
      · exact hxy
      · exact trans _ _ _ hxy (h'.1 b hb)
    · rename_i hxy
      have hyx : le y x = true := by
        have := total x y
        simp only [Bool.or_eq_true] at this
        rcases this with h1 | h1
        · exact absurd h1 hxy
        · exact h1
      refine List.pairwise_cons.2 ⟨?_, insertBy_pairwise x ys h'.2⟩
      intro b hb
      rcases List.mem_cons.1 ((insertBy_perm le x ys).mem_iff.1 hb) with rfl | hb
      · exact hyx
      · exact h'.1 b hb

theorem isort_pairwise : ∀ l : List α, (isort le l).Pairwise (fun a b => le a b = true)
  | [] => .nil
  | x :: xs => insertBy_pairwise trans total x _ (isort_pairwise xs)

end

theorem isort_of_pairwise {le : α → α → Bool} : ∀ {l : List α}, l.Pairwise (fun a b => le a b = true) →
    isort le l = l
  | [], _ => rfl
  | x :: xs, h => by
    have h' := List.pairwise_cons.1 h
    simp only [isort]
    rw [isort_of_pairwise h'.2]
    cases xs with
    | nil => rfl
    | cons y ys => simp [insertBy, h'.1 y (by simp)]

theorem cons_sublist_insertBy {le : α → α → Bool} (x : α) : ∀ (l ys : List α), ys.Sublist l →
    (∀ y, y ∈ ys → le x y = true) → (x :: ys).Sublist (insertBy le x l)
  | [], ys, hs, _ => by
    have : ys = [] := by simpa using hs
    subst this; simp [insertBy]
  | z :: l, ys, hs, hle => by
    unfold insertBy
    split
    · exact hs.cons_cons x
    · rename_i hxz
      cases hs with
      | cons _ hs' => exact (cons_sublist_insertBy x l ys hs' hle).cons z
      | cons_cons _ hs' => exact absurd (hle z (by simp)) hxz

/-- stability: a sub-list that is already in order is still a sub-list (in that order) of the result -/
theorem sublist_isort {le : α → α → Bool} : ∀ {xs ys : List α}, ys.Pairwise (fun a b => le a b = true) →
    ys.Sublist xs → ys.Sublist (isort le xs)
  | [], ys, _, hs => by
    have : ys = [] := by simpa using hs
    subst this; simp
  | x :: xs, ys, hp, hs => by
    cases hs with
    | cons _ hs' => exact (sublist_isort hp hs').trans (insertBy_sublist le x _)
    | cons_cons _ hs' =>
      have hp' := List.pairwise_cons.1 hp
      exact cons_sublist_insertBy x _ _ (sublist_isort hp'.2 hs') hp'.1

theorem pair_sublist_isort {le : α → α → Bool} {a b : α} {l : List α} (hab : le a b = true)
    (h : [a, b].Sublist l) : [a, b].Sublist (isort le l) :=
  sublist_isort (by simp [hab]) h

/-- permuting the input does not change the output when elements that compare equal are identical -/
theorem isort_eq_of_perm {le : α → α → Bool}
    (trans : ∀ a b c, le a b = true → le b c = true → le a c = true)
    (total : ∀ a b, (le a b || le b a) = true)
    {l₁ l₂ : List α} (hp : l₁.Perm l₂)
    (hinj : ∀ a, a ∈ l₁ → ∀ b, b ∈ l₁ → le a b = true → le b a = true → a = b) :
    isort le l₁ = isort le l₂ := by
  have p1 := isort_perm le l₁
  have p2 := isort_perm le l₂
  refine List.Perm.eq_of_pairwise (le := fun a b => le a b = true) ?_
    (isort_pairwise trans total l₁) (isort_pairwise trans total l₂)
    (p1.trans (hp.trans p2.symm))
  intro a b ha hb hab hba
  exact hinj a (p1.mem_iff.1 ha) b (hp.mem_iff.2 (p2.mem_iff.1 hb)) hab hba

end PytypeModel.Core
