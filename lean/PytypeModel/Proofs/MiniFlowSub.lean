import PytypeModel.Proofs.MiniFlow

namespace PytypeModel.MiniFlow

theorem admits_base_sub (a b : Base) (c : V)
    (h : (a == b || (a == .bool && b == .int) || ((a == .bool || a == .int) && b == .float)) = true)
    (ha : admits (.base a) c = true) : admits (.base b) c = true := by
  cases a <;> cases b <;> first
    | (exfalso; revert h; decide)
    | (cases c <;> simp_all [admits])

theorem sub_sound_all :
    (∀ a b, sub a b = true → ∀ c, admits a c = true → admits b c = true) ∧
    (∀ as bs, subEach as bs = true → ∀ cs, admitsEach as cs = true → admitsEach bs cs = true) ∧
    (∀ t us, subAny t us = true → ∀ c, admits t c = true → admitsAny us c = true) ∧
    (∀ ts u, subAll ts u = true → ∀ c, admitsAny ts c = true → admits u c = true) := by
  apply sub.mutual_induct
  · intro x _ c _; simp [admits]
  · intro x _ _ c hc; simp [admits] at hc
  · intro ts u hu ih h c hc
    rw [sub] at h
    · rw [admits] at hc; exact ih h c hc
    · exact hu
  · intro t us h1 h2 ih h c hc
    rw [sub.eq_4 t us h1 h2] at h
    rw [admits]; exact ih h c hc
  · intro a b h c hc
    simp only [sub] at h
    exact admits_base_sub a b c h hc
  · intro a b ih h c hc
    simp only [sub] at h
    cases c with
    | list xs =>
      simp only [admits] at hc ⊢
      exact admitsAll_mono a b (ih h) xs hc
    | _ => simp [admits] at hc
  · intro a b ih h c hc
    simp only [sub] at h
    cases c with
    | set xs =>
      simp only [admits] at hc ⊢
      exact admitsAll_mono a b (ih h) xs hc
    | _ => simp [admits] at hc
  · intro a b c' d ih1 ih2 h c hc
    simp only [sub, Bool.and_eq_true] at h
    cases c with
    | dict ks vs =>
      simp only [admits, Bool.and_eq_true] at hc ⊢
      exact ⟨admitsAll_mono a c' (ih1 h.1) ks hc.1, admitsAll_mono b d (ih2 h.2) vs hc.2⟩
    | _ => simp [admits] at hc
  · intro as bs ih h c hc
    simp only [sub] at h
    cases c with
    | tuple xs =>
      simp only [admits] at hc ⊢
      exact ih h xs hc
    | _ => simp [admits] at hc
  · intro x y h1 h2 h3 h4 h5 h6 h7 h8 h9 h
    exfalso
    rw [sub.eq_10 x y h2 h3 h1 h4 h5 h6 h7 h8 h9] at h
    cases h
  · intro _ cs hc; exact hc
  · intro a as b bs ih1 ih2 h cs hc
    simp only [subEach, Bool.and_eq_true] at h
    cases cs with
    | nil => simp [admitsEach] at hc
    | cons c cs =>
      simp only [admitsEach, Bool.and_eq_true] at hc ⊢
      exact ⟨ih1 h.1 c hc.1, ih2 h.2 cs hc.2⟩
  · intro x y h1 h2 h
    exfalso
    rw [subEach.eq_3 x y h1 h2] at h
    cases h
  · intro x h; simp [subAny] at h
  · intro t u us ih1 ih2 h c hc
    simp only [subAny, Bool.or_eq_true] at h
    simp only [admitsAny, Bool.or_eq_true]
    rcases h with h | h
    · exact Or.inl (ih1 h c hc)
    · exact Or.inr (ih2 h c hc)
  · intro x _ c hc; simp [admitsAny] at hc
  · intro t ts u ih1 ih2 h c hc
    simp only [subAll, Bool.and_eq_true] at h
    simp only [admitsAny, Bool.or_eq_true] at hc
    rcases hc with hc | hc
    · exact ih1 h.1 c hc
    · exact ih2 h.2 c hc

theorem sub_sound (a b : Ty) (h : sub a b = true) (c : V) (hc : admits a c = true) :
    admits b c = true := sub_sound_all.1 a b h c hc

theorem admits_collapse (t : Ty) (c : V) (h : admits t c = true) : admits (collapse t) c = true := by
  unfold collapse
  split
  · split
    · simp [admits]
    · exact h
  · exact h

theorem flow_sound_aux (dec : Dec) (hd : DecSound dec) (ρ : Nat → Bool) (prog : List Stmt) (env : Env)
    (x : String) (c : V) (hrun : execCs ρ [] prog = some env) (hx : env.get x = some c) :
    admits (inferName dec prog x) c = true := by
  obtain ⟨aenv, hmem, href⟩ := execAs_sim dec hd ρ prog [] [] env (by simp [refinesEnv]) hrun
  obtain ⟨a, hget, hra⟩ := get_refines env aenv x c href hx
  unfold inferName
  apply admits_collapse
  rw [admits]
  apply admitsAny_of_mem _ (typeOf a) c _ (admits_typeOf c a hra)
  simp only [List.mem_filterMap]
  exact ⟨aenv, hmem, by simp [hget]⟩

end PytypeModel.MiniFlow
