/-
C11 proofs, part 8: the function-level hooks keep types well-kinded; the stages of `Optimize` widen.
-/
import PytypeModel.Proofs.OptimizeGuard

namespace PytypeModel.Pytd

/-! ### `kok` through the function-level hooks -/

theorem genericLike_base_kok {t : Ty} (hg : t.isGenericLike = true) (hk : kok t = true) : kok t.base = true := by
  cases t <;> simp [Ty.isGenericLike] at hg <;> simp [kok] at hk <;> simp only [Ty.base]
  · exact simple_kok hk.1
  · exact simple_kok hk.1.1
  · exact simple_kok hk.1.1

theorem sig_tys_mem (s : Sig) (t : Ty) : t ∈ s.tys ↔
    (∃ p, p ∈ s.params ∧ t ∈ p.tys) ∨ t ∈ optParamTys s.starargs ∨ t ∈ optParamTys s.starstarargs ∨ t = s.ret ∨
    t ∈ s.exceptions ∨ ∃ d, d ∈ s.template ∧ t ∈ d.tys := by
  simp only [Sig.tys, List.mem_append, List.mem_flatMap, List.mem_singleton]
  constructor
  · rintro (((((h | h) | h) | h) | h) | h)
    · exact Or.inl h
    · exact Or.inr (Or.inl h)
    · exact Or.inr (Or.inr (Or.inl h))
    · exact Or.inr (Or.inr (Or.inr (Or.inl h)))
    · exact Or.inr (Or.inr (Or.inr (Or.inr (Or.inl h))))
    · exact Or.inr (Or.inr (Or.inr (Or.inr (Or.inr h))))
  · rintro (h | h | h | h | h | h)
    · exact Or.inl (Or.inl (Or.inl (Or.inl (Or.inl h))))
    · exact Or.inl (Or.inl (Or.inl (Or.inl (Or.inr h))))
    · exact Or.inl (Or.inl (Or.inl (Or.inr h)))
    · exact Or.inl (Or.inl (Or.inr h))
    · exact Or.inl (Or.inr h)
    · exact Or.inr h

theorem normalizeSelfSig_kok (n : String) (s : Sig) (h : ∀ t, t ∈ s.tys → kok t = true) :
    ∀ t, t ∈ (normalizeSelfSig n s).tys → kok t = true := by
  unfold normalizeSelfSig
  split
  · rename_i p ps hps
    split
    · rename_i hc
      simp only [Bool.and_eq_true] at hc
      intro t ht
      rw [sig_tys_mem] at ht
      simp only at ht
      have hp : ∀ x, x ∈ p.tys → kok x = true := fun x hx =>
        h x ((sig_tys_mem s x).2 (Or.inl ⟨p, by rw [hps]; exact List.mem_cons_self, hx⟩))
      rcases ht with ⟨q, hq, htq⟩ | ht
      · cases hq with
        | head =>
          simp only [Param.tys, List.mem_cons] at htq
          rcases htq with rfl | htq
          · exact genericLike_base_kok hc.1.2 (hp _ (by simp [Param.tys]))
          · exact hp t (by simp [Param.tys, htq])
        | tail _ hq =>
          exact h t ((sig_tys_mem s t).2 (Or.inl ⟨q, by rw [hps]; exact List.mem_cons_of_mem _ hq, htq⟩))
      · exact h t ((sig_tys_mem s t).2 (Or.inr ht))
    · exact h
  · exact h

theorem normalizeSelf_kok (c : Ctx) (f : Func) (h : ∀ t, t ∈ f.tys → kok t = true) :
    ∀ t, t ∈ (normalizeSelf c f).tys → kok t = true := by
  unfold normalizeSelf
  split
  · exact h
  · rename_i n _ _
    intro t ht
    simp only [Func.tys, List.mem_flatMap, List.mem_map] at ht h
    obtain ⟨s', ⟨s, hs, rfl⟩, ht⟩ := ht
    exact normalizeSelfSig_kok n s (fun x hx => h x ⟨s, hs, hx⟩) t ht

theorem dedupSigsAux_sub : ∀ (ss seen : List Sig) (s : Sig), s ∈ dedupSigsAux seen ss → s ∈ ss
  | [], _, _, h => by simp [dedupSigsAux] at h
  | a :: ss, seen, s, h => by
    simp only [dedupSigsAux] at h
    split at h
    · exact List.mem_cons_of_mem _ (dedupSigsAux_sub ss seen s h)
    · cases h with
      | head => exact List.mem_cons_self
      | tail _ h => exact List.mem_cons_of_mem _ (dedupSigsAux_sub ss _ s h)

theorem removeDuplicates_kok (f : Func) (h : ∀ t, t ∈ f.tys → kok t = true) :
    ∀ t, t ∈ (removeDuplicates f).tys → kok t = true := by
  intro t ht
  simp only [Func.tys, removeDuplicates, List.mem_flatMap] at ht h
  obtain ⟨s, hs, ht⟩ := ht
  exact h t ⟨s, dedupSigsAux_sub _ _ s hs, ht⟩

theorem addNewTys_mem : ∀ (ts acc : List Ty) (t : Ty), t ∈ addNewTys acc ts → t ∈ acc ∨ t ∈ ts
  | [], _, _, h => Or.inl h
  | a :: ts, acc, t, h => by
    simp only [addNewTys] at h
    split at h
    · rcases addNewTys_mem ts acc t h with h | h
      · exact Or.inl h
      · exact Or.inr (List.mem_cons_of_mem _ h)
    · rcases addNewTys_mem ts _ t h with h | h
      · rcases List.mem_append.1 h with h | h
        · exact Or.inl h
        · simp at h; subst h; exact Or.inr List.mem_cons_self
      · exact Or.inr (List.mem_cons_of_mem _ h)

def GInv (g : RetExc) : Prop :=
  (∀ t, t ∈ g.key.tys → kok t = true) ∧ (∀ t, t ∈ g.rets → kok t = true) ∧ (∀ t, t ∈ g.excs → kok t = true)

theorem craInsert_inv (s : Sig) (hs : ∀ t, t ∈ s.tys → kok t = true) :
    ∀ gs : List RetExc, (∀ g, g ∈ gs → GInv g) → ∀ g, g ∈ craInsert s gs → GInv g
  | [], _, g, hg => by
    simp [craInsert] at hg
    subst hg
    refine ⟨hs, ?_, ?_⟩
    · intro t ht; simp at ht; subst ht; exact hs _ ((sig_tys_mem s _).2 (by simp))
    · intro t ht
      rcases addNewTys_mem _ _ t ht with h | h
      · cases h
      · exact hs t ((sig_tys_mem s t).2 (by simp [h]))
  | g0 :: gs, hinv, g, hg => by
    simp only [craInsert] at hg
    split at hg
    · cases hg with
      | head =>
        have h0 := hinv g0 List.mem_cons_self
        refine ⟨h0.1, ?_, ?_⟩
        · intro t ht
          rcases addNewTys_mem _ _ t ht with h | h
          · exact h0.2.1 t h
          · simp at h; subst h; exact hs _ ((sig_tys_mem s _).2 (by simp))
        · intro t ht
          rcases addNewTys_mem _ _ t ht with h | h
          · exact h0.2.2 t h
          · exact hs t ((sig_tys_mem s t).2 (by simp [h]))
      | tail _ hg => exact hinv g (List.mem_cons_of_mem _ hg)
    · cases hg with
      | head => exact hinv _ List.mem_cons_self
      | tail _ hg => exact craInsert_inv s hs gs (fun x hx => hinv x (List.mem_cons_of_mem _ hx)) g hg

theorem craGroups_inv : ∀ (ss : List Sig) (acc : List RetExc), (∀ s, s ∈ ss → ∀ t, t ∈ s.tys → kok t = true) →
    (∀ g, g ∈ acc → GInv g) → ∀ g, g ∈ craGroups acc ss → GInv g
  | [], _, _, hacc, g, hg => hacc g hg
  | s :: ss, acc, hss, hacc, g, hg => by
    simp only [craGroups] at hg
    exact craGroups_inv ss _ (fun x hx => hss x (List.mem_cons_of_mem _ hx))
      (craInsert_inv s (hss s List.mem_cons_self) acc hacc) g hg

theorem combineReturns_kok (f : Func) (h : ∀ t, t ∈ f.tys → kok t = true) :
    ∀ t, t ∈ (combineReturns f).tys → kok t = true := by
  intro t ht
  simp only [Func.tys, combineReturns, List.mem_flatMap, List.mem_map] at ht h
  obtain ⟨s', ⟨g, hg, rfl⟩, ht⟩ := ht
  have hinv := craGroups_inv f.sigs [] (fun s hs x hx => h x ⟨s, hs, hx⟩) (fun _ h => by cases h) g hg
  rw [sig_tys_mem] at ht
  simp only [RetExc.toSig] at ht
  rcases ht with ht | ht | ht | ht | ht | ht
  · exact hinv.1 t ((sig_tys_mem _ t).2 (Or.inl ht))
  · exact hinv.1 t ((sig_tys_mem _ t).2 (Or.inr (Or.inl ht)))
  · exact hinv.1 t ((sig_tys_mem _ t).2 (Or.inr (Or.inr (Or.inl ht))))
  · subst ht
    exact kok_joinTypes ((kokList_iff _).2 hinv.2.1)
  · exact hinv.2.2 t ht
  · exact hinv.1 t ((sig_tys_mem _ t).2 (Or.inr (Or.inr (Or.inr (Or.inr (Or.inr ht))))))

/-! ### passes -/

section
variable {S : Sem}

/-- a visitor with only a type hook -/
theorem tyPass_le (f : Ty → Ty) (g : Ty → Bool) (h : ∀ t, g t = true → TyLe S t (f t)) (u : TUnit)
    (hg : ∀ t, t ∈ u.tys → g t = true) : UnitLe S u (Pass.runUnit { ty := f } u) :=
  runUnit_le { ty := f } g h (fun t => TyLe.refl S t) (fun t => TyLe.refl S t) (fun _ p => ParamLe.refl p)
    (fun _ s => SigLe.refl s) (fun _ f => FuncLe.refl f) u hg

/-- a visitor with only a function hook -/
theorem funcPass_le (f : Ctx → Func → Func) (h : ∀ c x, FuncLe S x (f c x)) (u : TUnit) :
    UnitLe S u (Pass.runUnit { ty := id, func := f } u) :=
  runUnit_le { ty := id, func := f } (fun _ => true) (fun t _ => TyLe.refl S t) (fun t => TyLe.refl S t)
    (fun t => TyLe.refl S t) (fun _ p => ParamLe.refl p) (fun _ s => SigLe.refl s) h u (fun _ _ => rfl)

theorem tyPass_all (f : Ty → Ty) (g : Ty → Bool) (h : ∀ t, g t = true → g (f t) = true) (u : TUnit)
    (hg : ∀ t, t ∈ u.tys → g t = true) : ∀ t, t ∈ (Pass.runUnit { ty := f } u).tys → g t = true :=
  runUnit_all { ty := f } g h (fun _ h => h) (fun _ h => h) (fun _ _ h => h) (fun _ _ h => h) (fun _ _ h => h) u hg

theorem funcPass_all (f : Ctx → Func → Func) (g : Ty → Bool)
    (h : ∀ c x, (∀ t, t ∈ Func.tys x → g t = true) → ∀ t, t ∈ (f c x).tys → g t = true) (u : TUnit)
    (hg : ∀ t, t ∈ u.tys → g t = true) : ∀ t, t ∈ (Pass.runUnit { ty := id, func := f } u).tys → g t = true :=
  runUnit_all { ty := id, func := f } g (fun _ h => h) (fun _ h => h) (fun _ h => h) (fun _ _ h => h)
    (fun _ _ h => h) h u hg

/-- the unit is well-kinded at every type position -/
def UnitKok (u : TUnit) : Prop := ∀ t, t ∈ u.tys → kok t = true

theorem stageA_le (u : TUnit) (hk : UnitKok u) : UnitLe S u (stageA u) ∧ UnitKok (stageA u) := by
  -- 1 NormalizeGenericSelfTypes
  have l1 : UnitLe S u (passNormalizeSelf.runUnit u) := funcPass_le _ normalizeSelf_le u
  have k1 : UnitKok (passNormalizeSelf.runUnit u) := funcPass_all _ kok normalizeSelf_kok u hk
  -- 2 RemoveDuplicates
  have l2 := funcPass_le (S := S) (fun _ f => removeDuplicates f) (fun _ f => removeDuplicates_le f)
    (passNormalizeSelf.runUnit u)
  have k2 : UnitKok _ := funcPass_all (fun _ f => removeDuplicates f) kok (fun _ f => removeDuplicates_kok f) _ k1
  -- 3 SimplifyUnions
  have l3 := tyPass_le (S := S) simplifyUnions (fun _ => true) (fun t _ => simplifyUnions_le S t) _
    (fun _ _ => rfl : ∀ t, t ∈ (passRemoveDuplicates.runUnit (passNormalizeSelf.runUnit u)).tys → _)
  have k3 : UnitKok _ := tyPass_all simplifyUnions kok simplifyUnions_kok _ k2
  -- 4 CombineReturnsAndExceptions
  have l4 := funcPass_le (S := S) (fun _ f => combineReturns f) (fun _ f => combineReturns_le f)
    (passSimplifyUnions.runUnit (passRemoveDuplicates.runUnit (passNormalizeSelf.runUnit u)))
  have k4 : UnitKok _ := funcPass_all (fun _ f => combineReturns f) kok (fun _ f => combineReturns_kok f) _ k3
  -- 5 CombineContainers
  have l5 := tyPass_le (S := S) combineContainers kok (fun t h => combineContainers_le S t h) _ k4
  have k5 : UnitKok _ := tyPass_all combineContainers kok combineContainers_kok _ k4
  -- 6 SimplifyContainers
  have l6 := tyPass_le (S := S) simplifyContainers (fun _ => true) (fun t _ => simplifyContainers_le S t)
    (passCombineContainers.runUnit (passCombineReturns.runUnit (passSimplifyUnions.runUnit
      (passRemoveDuplicates.runUnit (passNormalizeSelf.runUnit u))))) (fun _ _ => rfl)
  have k6 : UnitKok _ := tyPass_all simplifyContainers kok simplifyContainers_kok _ k5
  exact ⟨UnitLe.trans l1 (UnitLe.trans l2 (UnitLe.trans l3 (UnitLe.trans l4 (UnitLe.trans l5 l6)))), k6⟩

theorem stageB_le (o : Opts) (H : Hier) (u : TUnit) (hs : HierSound S H) (hanti : Antisymm S)
    (hg : o.hasDeps = true → ∀ t, t ∈ u.tys → suwsOK H t = true) : UnitLe S u (stageB o H u) := by
  unfold stageB
  split
  · rename_i hd
    have l1 := tyPass_le (S := S) (suws H) (suwsOK H) (fun t h => suws_le hs hanti t h) u (hg hd)
    simp only
    split
    · exact UnitLe.trans l1 (tyPass_le (S := S) (fcs H) (fun _ => true) (fun t _ => fcs_le hs t) _ (fun _ _ => rfl))
    · exact l1
  · exact UnitLe.refl u

theorem stageC_le (o : Opts) (u : TUnit) : UnitLe S u (stageC o u) := by
  unfold stageC
  have ladj : ∀ w : TUnit, UnitLe S w (passAdjust.runUnit w) := fun w =>
    runUnit_le passAdjust (fun _ => true) (fun t _ => TyLe.refl S t) (fun t => adjustGeneric_le S t)
      (fun t => adjustGeneric_le S t) (fun _ p => ParamLe.refl p) (fun _ s => SigLe.refl s)
      (fun _ f => FuncLe.refl f) w (fun _ _ => rfl)
  simp only
  split
  · exact UnitLe.trans (tyPass_le (S := S) (collapse o.maxUnion) (fun _ => true) (fun t _ => collapse_le S _ t) u
      (fun _ _ => rfl)) (ladj _)
  · exact ladj u

theorem stageD_le (o : Opts) (u : TUnit) (hm : o.removeMutable = false) : UnitLe S u (stageD o u) := by
  unfold stageD stageD2 stageD1
  simp only [hm]
  have l1 := tyPass_le (S := S) simplifyContainers (fun _ => true) (fun t _ => simplifyContainers_le S t) u
    (fun _ _ => rfl)
  split
  · exact UnitLe.trans l1 (tyPass_le (S := S) (fun t => t.bu lookupHook) (fun _ => true) (fun t _ => lookup_le S t) _
      (fun _ _ => rfl))
  · exact l1

/-- **the pipeline widens** (without `remove_mutable`) -/
theorem optimize_le (o : Opts) (deps abcs : Hier) (u : TUnit)
    (hs : HierSound S (pipelineHier o deps abcs u)) (hanti : Antisymm S) (hk : UnitKok u)
    (hg : o.hasDeps = true → ∀ t, t ∈ (stageA u).tys → suwsOK (pipelineHier o deps abcs u) t = true)
    (hm : o.removeMutable = false) : UnitLe S u (optimize o deps abcs u) := by
  unfold optimize
  exact UnitLe.trans (stageA_le u hk).1 (UnitLe.trans (stageB_le o _ _ hs hanti hg)
    (UnitLe.trans (stageC_le o _) (stageD_le o _ hm)))
end

end PytypeModel.Pytd
