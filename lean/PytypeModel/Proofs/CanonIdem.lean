import PytypeModel.Proofs.CanonPerm

/-! `canon_idem`: canonical ordering is idempotent on trees whose unions are flat (the representation
invariant that `_SetOfTypes.__post_init__` maintains) (C04). -/
namespace PytypeModel.Pytd.Canon
open PytypeModel.Pytd

/-! ### `_FlattenTypes` on already flat / already deduplicated input -/

theorem dedupFrom_sublist : ∀ (l seen : List Ty), (dedupFrom seen l).Sublist l
  | [], _ => by simp [dedupFrom]
  | x :: xs, seen => by
    unfold dedupFrom
    split
    · exact (dedupFrom_sublist xs seen).cons x
    · exact (dedupFrom_sublist xs (x :: seen)).cons_cons x

theorem dedupFrom_idem : ∀ (l seen : List Ty), dedupFrom seen (dedupFrom seen l) = dedupFrom seen l
  | [], _ => by simp [dedupFrom]
  | x :: xs, seen => by
    by_cases h : seen.any (fun k => eqU k x) = true
    · rw [dedupFrom, if_pos h]; exact dedupFrom_idem xs seen
    · rw [dedupFrom, if_neg h, dedupFrom, if_neg h, dedupFrom_idem xs (x :: seen)]

theorem dedupU_sublist (l : List Ty) : (dedupU l).Sublist l := dedupFrom_sublist l []
theorem dedupU_idem (l : List Ty) : dedupU (dedupU l) = dedupU l := dedupFrom_idem l []

theorem flatten_of_no_union : ∀ l : List Ty, l.any isUnion = false → flattenUnionMembers l = l
  | [], _ => rfl
  | t :: rest, h => by
    simp only [List.any_cons, Bool.or_eq_false_iff] at h
    cases t <;> simp_all [flattenUnionMembers, isUnion, flatten_of_no_union rest]

theorem any_false_of_sublist {p : Ty → Bool} {l l' : List Ty} (hs : l.Sublist l') (h : l'.any p = false) :
    l.any p = false := by
  rw [Bool.eq_false_iff] at h ⊢
  intro hl
  obtain ⟨x, hx, hp⟩ := List.any_eq_true.1 hl
  exact h (List.any_eq_true.2 ⟨x, hs.subset hx, hp⟩)

theorem any_eq_of_perm {α : Type} {p : α → Bool} {l l' : List α} (hp : l.Perm l') : l.any p = l'.any p := by
  rw [Bool.eq_iff_iff]
  simp only [List.any_eq_true]
  exact ⟨fun ⟨x, hx, h⟩ => ⟨x, hp.mem_iff.1 hx, h⟩, fun ⟨x, hx, h⟩ => ⟨x, hp.mem_iff.2 hx, h⟩⟩

theorem map_fix_of_mem {α : Type} {f : α → α} {l : List α} (h : ∀ x, x ∈ l → f x = x) : l.map f = l := by
  induction l with
  | nil => rfl
  | cons a l ih =>
    simp only [List.map_cons]
    rw [h a (by simp), ih (fun x hx => h x (List.mem_cons.2 (.inr hx)))]

theorem mem_fix_of_map {α : Type} {f : α → α} : ∀ {l : List α}, l.map f = l → ∀ x, x ∈ l → f x = x
  | [], _, x, hx => by cases hx
  | a :: l, h, x, hx => by
    simp only [List.map_cons, List.cons.injEq] at h
    rcases List.mem_cons.1 hx with rfl | hx
    · exact h.1
    · exact mem_fix_of_map h.2 x hx

section
variable {K : Type} (o : KOrd K) (ks : Keys K)

/-- sorting the `f`-images, mapping `f` again and sorting again changes nothing when `f` is idempotent on
the elements -/
theorem sort_map_idem {α : Type} (key : α → K) {f : α → α} {l : List α}
    (hf : ∀ a, a ∈ l → f (f a) = f a) :
    sortOn o key ((sortOn o key (l.map f)).map f) = sortOn o key (l.map f) := by
  have : (sortOn o key (l.map f)).map f = sortOn o key (l.map f) := by
    apply map_fix_of_mem
    intro x hx
    obtain ⟨a, ha, rfl⟩ := List.mem_map.1 ((mem_sortOn o key).1 hx)
    exact hf a ha
  rw [this, sortOn_idem]

theorem isUnion_canonTy (t : Ty) : isUnion (canonTy o ks t) = isUnion t := by
  cases t <;> simp [canonTy, mkUnion, isUnion]

theorem any_isUnion_canonTys (l : List Ty) : (canonTys o ks l).any isUnion = l.any isUnion := by
  induction l with
  | nil => rfl
  | cons t l ih => simp [canonTys, isUnion_canonTy, ih]

mutual
theorem canonTy_idem : ∀ t : Ty, flatTy t = true → canonTy o ks (canonTy o ks t) = canonTy o ks t
  | .generic b ps, h => by
    simp only [flatTy, Bool.and_eq_true] at h
    simp only [canonTy]
    rw [canonTy_idem b h.1, canonTys_idem ps h.2]
  | .tuple b ps, h => by
    simp only [flatTy, Bool.and_eq_true] at h
    simp only [canonTy]
    rw [canonTy_idem b h.1, canonTys_idem ps h.2]
  | .callable b ps, h => by
    simp only [flatTy, Bool.and_eq_true] at h
    simp only [canonTy]
    rw [canonTy_idem b h.1, canonTys_idem ps h.2]
  | .annotated t _, h => by
    simp only [flatTy] at h
    simp only [canonTy]
    rw [canonTy_idem t h]
  | .union ts, h => by
    simp only [flatTy, Bool.and_eq_true, Bool.not_eq_true'] at h
    have ih := canonTys_idem ts h.2
    -- S: the sorted canonical members; none is a union, so `_FlattenTypes` only deduplicates
    have hSu : (sortOn o ks.ty (canonTys o ks ts)).any isUnion = false := by
      rw [any_eq_of_perm (sortOn_perm o ks.ty _), any_isUnion_canonTys]; exact h.1
    have hRsub := dedupU_sublist (sortOn o ks.ty (canonTys o ks ts))
    have hRu := any_false_of_sublist hRsub hSu
    have hfix : ∀ x, x ∈ dedupU (sortOn o ks.ty (canonTys o ks ts)) → canonTy o ks x = x := by
      intro x hx
      have hx' : x ∈ canonTys o ks ts := (mem_sortOn o ks.ty).1 (hRsub.subset hx)
      rw [canonTys_eq_map] at ih
      exact mem_fix_of_map ih x hx'
    have hR : canonTys o ks (dedupU (sortOn o ks.ty (canonTys o ks ts))) =
        dedupU (sortOn o ks.ty (canonTys o ks ts)) := by
      rw [canonTys_eq_map]; exact map_fix_of_mem hfix
    have hsorted : sortOn o ks.ty (dedupU (sortOn o ks.ty (canonTys o ks ts))) =
        dedupU (sortOn o ks.ty (canonTys o ks ts)) :=
      sortOn_of_sorted o ks.ty ((sortOn_sorted o ks.ty _).sublist hRsub)
    simp only [canonTy, mkUnion]
    rw [flatten_of_no_union _ hSu, hR, hsorted, flatten_of_no_union _ hRu, dedupU_idem]
  | .any, _ | .nothing, _ | .named _, _ | .cls _, _ | .late _, _ | .typeParam _ _, _ | .literal _, _ => by
    simp [canonTy]
theorem canonTys_idem : ∀ l : List Ty, flatTys l = true →
    canonTys o ks (canonTys o ks l) = canonTys o ks l
  | [], _ => rfl
  | t :: ts, h => by
    simp only [flatTys, Bool.and_eq_true] at h
    simp only [canonTys]
    rw [canonTy_idem t h.1, canonTys_idem ts h.2]
end

theorem optTy_idem : ∀ (b : Option Ty), (match b with | some b => flatTy b | none => true) = true →
    (b.map (canonTy o ks)).map (canonTy o ks) = b.map (canonTy o ks)
  | none, _ => rfl
  | some b, h => by simp [canonTy_idem o ks b h]

theorem canonTD_idem (d : TypeParamDecl) (h : flatTD d = true) :
    canonTD o ks (canonTD o ks d) = canonTD o ks d := by
  simp only [flatTD, Bool.and_eq_true] at h
  simp only [canonTD, TypeParamDecl.mk.injEq, true_and]
  exact ⟨canonTys_idem o ks _ h.1, optTy_idem o ks _ h.2, trivial⟩

theorem canonParam_idem (p : Param) (h : flatParam p = true) :
    canonParam o ks (canonParam o ks p) = canonParam o ks p := by
  simp only [flatParam, Bool.and_eq_true] at h
  simp only [canonParam, Param.mk.injEq, true_and]
  exact ⟨canonTy_idem o ks _ h.1, optTy_idem o ks _ h.2⟩

theorem optParam_idem : ∀ (p : Option Param), flatOptParam p = true →
    (p.map (canonParam o ks)).map (canonParam o ks) = p.map (canonParam o ks)
  | none, _ => rfl
  | some p, h => by simp [canonParam_idem o ks p h]

theorem map_idem_of_all {α : Type} {f : α → α} {p : α → Bool} (hf : ∀ a, p a = true → f (f a) = f a)
    {l : List α} (h : l.all p = true) : (l.map f).map f = l.map f := by
  rw [List.map_map]
  apply List.map_congr_left
  intro a ha
  exact hf a (List.all_eq_true.1 h a ha)

theorem canonSig_idem (s : Sig) (h : flatSig s = true) : canonSig o ks (canonSig o ks s) = canonSig o ks s := by
  simp only [flatSig, Bool.and_eq_true] at h
  obtain ⟨⟨⟨⟨⟨h1, h2⟩, h3⟩, h4⟩, h5⟩, h6⟩ := h
  simp only [canonSig, Sig.mk.injEq]
  refine ⟨map_idem_of_all (canonParam_idem o ks) h1, optParam_idem o ks _ h2, optParam_idem o ks _ h3,
    canonTy_idem o ks _ h4, ?_, ?_⟩
  · have := sort_map_idem o ks.ty (f := canonTy o ks) (l := s.exceptions) (fun a ha => by
      have hl := canonTys_idem o ks _ h5
      rw [canonTys_eq_map, canonTys_eq_map] at hl
      exact mem_fix_of_map hl (canonTy o ks a) (List.mem_map.2 ⟨a, ha, rfl⟩))
    simpa [canonTys_eq_map] using this
  · exact sort_map_idem o ks.titem (fun a ha => canonTD_idem o ks a (List.all_eq_true.1 h6 a ha))

theorem canonFunc_idem (f : Func) (h : flatFunc f = true) :
    canonFunc o ks (canonFunc o ks f) = canonFunc o ks f := by
  simp only [canonFunc, Func.mk.injEq, true_and, and_true]
  exact map_idem_of_all (canonSig_idem o ks) h

theorem canonConst_idem (c : Const) (h : flatTy c.ty = true) :
    canonConst o ks (canonConst o ks c) = canonConst o ks c := by
  simp only [canonConst, Const.mk.injEq, true_and, and_true]
  exact canonTy_idem o ks _ h

theorem canonAlias_idem (a : Alias) (h : flatTy a.ty = true) :
    canonAlias o ks (canonAlias o ks a) = canonAlias o ks a := by
  simp only [canonAlias, Alias.mk.injEq, true_and]
  exact canonTy_idem o ks _ h

theorem baseName_canonTy : ∀ t : Ty, baseName (canonTy o ks t) = baseName t
  | .generic b _ => by simp only [canonTy, baseName]; exact baseName_canonTy b
  | .tuple b _ => by simp only [canonTy, baseName]; exact baseName_canonTy b
  | .callable b _ => by simp only [canonTy, baseName]; exact baseName_canonTy b
  | .union _ => by simp [canonTy, baseName, mkUnion]
  | .annotated _ _ => by simp [canonTy, baseName]
  | .any | .nothing | .named _ | .cls _ | .late _ | .typeParam _ _ | .literal _ => by simp [canonTy]

theorem preserveConstants_canon (decos : List String) (bases : List Ty) :
    preserveConstants (sortOn o ks.deco decos) (canonTys o ks bases) = preserveConstants decos bases := by
  unfold preserveConstants
  rw [any_eq_of_perm (sortOn_perm o ks.deco decos), canonTys_eq_map, List.any_map]
  simp [Function.comp_def, baseName_canonTy]

mutual
theorem canonClass_idem : ∀ c : Class, flatClass c = true →
    canonClass o ks (canonClass o ks c) = canonClass o ks c
  | .mk name keywords bases methods constants classes decorators slots template, h => by
    simp only [flatClass, Bool.and_eq_true] at h
    obtain ⟨⟨⟨⟨⟨h1, h2⟩, h3⟩, h4⟩, h5⟩, h6⟩ := h
    have ihc := canonClasses_idem classes h5
    simp only [canonClass, Class.mk.injEq, true_and]
    refine ⟨?_, canonTys_idem o ks _ h2, ?_, ?_, ?_, sortOn_idem o ks.deco _, ?_, ?_⟩
    · rw [List.map_map]
      apply List.map_congr_left
      intro kv hkv
      simp [canonTy_idem o ks kv.2 (List.all_eq_true.1 h1 kv hkv)]
    · exact sort_map_idem o ks.func (fun f hf => canonFunc_idem o ks f (List.all_eq_true.1 h3 f hf))
    · rw [preserveConstants_canon]
      have hc : ∀ c, c ∈ constants → canonConst o ks (canonConst o ks c) = canonConst o ks c :=
        fun c hc => canonConst_idem o ks c (List.all_eq_true.1 h4 c hc)
      by_cases hp : preserveConstants decorators bases = true
      · simp only [if_pos hp]
        rw [List.map_map]
        apply List.map_congr_left
        intro c hcm
        exact hc c hcm
      · simp only [if_neg hp]
        exact sort_map_idem o ks.const hc
    · have := sort_map_idem o ks.cls (f := canonClass o ks) (l := classes) (fun a ha => by
        rw [canonClasses_eq_map, canonClasses_eq_map] at ihc
        exact mem_fix_of_map ihc (canonClass o ks a) (List.mem_map.2 ⟨a, ha, rfl⟩))
      simpa [canonClasses_eq_map] using this
    · cases slots with
      | none => rfl
      | some sl => simp [sortOn_idem]
    · exact map_idem_of_all (canonTD_idem o ks) h6
theorem canonClasses_idem : ∀ l : List Class, flatClasses l = true →
    canonClasses o ks (canonClasses o ks l) = canonClasses o ks l
  | [], _ => rfl
  | c :: cs, h => by
    simp only [flatClasses, Bool.and_eq_true] at h
    simp only [canonClasses]
    rw [canonClass_idem c h.1, canonClasses_idem cs h.2]
end

theorem canonUnit_idem (u : TUnit) (h : flatUnit u = true) :
    canonUnit o ks (canonUnit o ks u) = canonUnit o ks u := by
  simp only [flatUnit, Bool.and_eq_true] at h
  obtain ⟨⟨⟨⟨h1, h2⟩, h3⟩, h4⟩, h5⟩ := h
  simp only [canonUnit, TUnit.mk.injEq, true_and]
  refine ⟨?_, ?_, ?_, ?_, ?_⟩
  · exact sort_map_idem o ks.const (fun c hc => canonConst_idem o ks c (List.all_eq_true.1 h1 c hc))
  · exact sort_map_idem o ks.tparam (fun d hd => canonTD_idem o ks d (List.all_eq_true.1 h2 d hd))
  · have ihc := canonClasses_idem o ks _ h3
    have := sort_map_idem o ks.cls (f := canonClass o ks) (l := u.classes) (fun a ha => by
      rw [canonClasses_eq_map, canonClasses_eq_map] at ihc
      exact mem_fix_of_map ihc (canonClass o ks a) (List.mem_map.2 ⟨a, ha, rfl⟩))
    simpa [canonClasses_eq_map] using this
  · exact sort_map_idem o ks.func (fun f hf => canonFunc_idem o ks f (List.all_eq_true.1 h4 f hf))
  · exact sort_map_idem o ks.alias (fun a ha => canonAlias_idem o ks a (List.all_eq_true.1 h5 a ha))

end

end PytypeModel.Pytd.Canon
