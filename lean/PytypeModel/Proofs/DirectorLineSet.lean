import PytypeModel.Director.Spec

/-! # `_LineSet`: membership characterisation, sortedness, `start_range` on monotone call sequences -/
namespace PytypeModel.Director
namespace LineSet

/-! ## `set_line` / `__contains__` -/

theorem contains_setLine (s : LineSet) (l l' : Nat) (b : Bool) :
    (s.setLine l b).contains l' = if l' = l then b else s.contains l' := by
  unfold contains setLine inRanges
  by_cases h : l' = l
  · subst h; simp [List.lookup]
  · have : (l' == l) = false := by simpa using h
    simp [List.lookup, this, h]

theorem startRange_lines {s s' : LineSet} {l : Nat} {m : Bool} (h : s.startRange l m = .ok s') :
    s'.lines = s.lines := by
  unfold startRange at h
  split at h
  · injection h with h; subst h; rfl
  · cases h

theorem startRange_trev {s s' : LineSet} {l : Nat} {m : Bool} (h : s.startRange l m = .ok s') :
    startTrev s.trev l m = .ok s'.trev := by
  unfold startRange at h
  split at h
  · rename_i t ht; injection h with h; subst h; simpa using ht
  · cases h

/-! ## the `ValueError` of `start_range` -/

theorem startTrev_error_iff (trev : List Nat) (l : Nat) (m : Bool) (e : Crash) :
    startTrev trev l m = .error e ↔ e = .valueError ∧ ∃ last, trev.head? = some last ∧ l < last := by
  cases trev with
  | nil => simp only [startTrev]; split <;> simp
  | cons last rest =>
    simp only [startTrev, List.head?_cons, Option.some.injEq, exists_eq_left']
    by_cases h : l < last
    · simp only [h, ite_true, Except.error.injEq, and_true]; exact eq_comm
    · simp only [h, ite_false, and_false, iff_false]
      split
      · simp
      · split <;> simp

/-! ## `_transitions` stays strictly increasing -/

/-- reversed storage: strictly decreasing from the head -/
def SortedRev (trev : List Nat) : Prop := trev.Pairwise (· > ·)

theorem startTrev_sorted {trev t' : List Nat} {l : Nat} {m : Bool} (hs : SortedRev trev)
    (h : startTrev trev l m = .ok t') : SortedRev t' := by
  cases trev with
  | nil =>
    simp only [startTrev] at h
    split at h <;> (injection h with h; subst h) <;> simp [SortedRev]
  | cons last rest =>
    simp only [startTrev] at h
    split at h
    · cases h
    · rename_i hlt
      split at h
      · injection h with h; subst h; exact hs
      · split at h
        · injection h with h; subst h; exact (List.pairwise_cons.1 hs).2
        · rename_i hne
          injection h with h; subst h
          have hgt : l > last := by
            have : ¬ (l = last) := by simpa using hne
            omega
          refine List.pairwise_cons.2 ⟨?_, hs⟩
          intro x hx
          rcases List.mem_cons.1 hx with rfl | hx
          · exact hgt
          · have := (List.pairwise_cons.1 hs).1 x hx
            omega

/-! ## monotone sequences of `start_range` calls -/

/-- a sequence of `start_range(line, membership)` calls on a transition list -/
def runTrev (trev : List Nat) : List (Nat × Bool) → Except Crash (List Nat)
  | [] => .ok trev
  | c :: cs =>
    match startTrev trev c.1 c.2 with
    | .ok t => runTrev t cs
    | .error e => .error e

def inRangesTrev (trev : List Nat) (l : Nat) : Bool := bisectRight trev l % 2 == 1

theorem lastCallLE_snoc (cs : List (Nat × Bool)) (L : Nat) (m : Bool) (l : Nat) :
    lastCallLE (cs ++ [(L, m)]) l = if L ≤ l then m else lastCallLE cs l := by
  unfold lastCallLE
  by_cases h : L ≤ l
  · simp [List.filter_append, h]
  · simp [List.filter_append, h]

private theorem parity_succ (n : Nat) : ((n + 1) % 2 == 1) = !(n % 2 == 1) := by
  rcases Nat.mod_two_eq_zero_or_one n with h | h <;> simp [Nat.add_mod, h]

private theorem countP_all {p : Nat → Bool} {xs : List Nat} (h : ∀ x ∈ xs, p x = true) :
    xs.countP p = xs.length := by
  induction xs with
  | nil => rfl
  | cons x xs ih =>
    have hx := h x (by simp)
    simp [hx, ih (fun y hy => h y (by simp [hy]))]

private theorem countP_le_of_gt {xs : List Nat} {l L : Nat} (hl : l < L) :
    (L :: xs).countP (· ≤ l) = xs.countP (· ≤ l) := by
  have : ¬ (L ≤ l) := by omega
  simp [this]

/-- invariant carried along a monotone call sequence: `pre` = the calls made so far -/
structure RangeInv (trev : List Nat) (pre : List (Nat × Bool)) : Prop where
  fromCalls : ∀ t ∈ trev, ∃ c ∈ pre, c.1 = t
  spec : ∀ l, inRangesTrev trev l = lastCallLE pre l

theorem runTrev_mono_aux (cs : List (Nat × Bool)) :
    ∀ (trev : List Nat) (pre : List (Nat × Bool)), RangeInv trev pre →
      (pre ++ cs).Pairwise (fun a b => a.1 ≤ b.1) →
      ∃ t', runTrev trev cs = .ok t' ∧ RangeInv t' (pre ++ cs) := by
  induction cs with
  | nil => intro trev pre inv _; exact ⟨trev, rfl, by simpa using inv⟩
  | cons c cs ih =>
    intro trev pre inv hmono
    obtain ⟨L, m⟩ := c
    -- every earlier call line is ≤ L
    have hle : ∀ p ∈ pre, p.1 ≤ L := by
      intro p hp
      have := List.pairwise_append.1 hmono
      exact this.2.2 p hp (L, m) (by simp)
    have htle : ∀ t ∈ trev, t ≤ L := by
      intro t ht
      obtain ⟨p, hp, rfl⟩ := inv.fromCalls t ht
      exact hle p hp
    -- the step succeeds and keeps the invariant
    have step : ∃ t1, startTrev trev L m = .ok t1 ∧ RangeInv t1 (pre ++ [(L, m)]) := by
      have hspec_lt : ∀ t1 : List Nat, (∀ l, l < L → t1.countP (· ≤ l) = trev.countP (· ≤ l)) →
          (∀ l, L ≤ l → (t1.countP (· ≤ l) % 2 == 1) = m) →
          ∀ l, inRangesTrev t1 l = lastCallLE (pre ++ [(L, m)]) l := by
        intro t1 h1 h2 l
        rw [lastCallLE_snoc]
        by_cases h : L ≤ l
        · simp only [h, ite_true]; exact h2 l h
        · simp only [h, ite_false]
          have := inv.spec l
          unfold inRangesTrev bisectRight at this ⊢
          rw [h1 l (by omega)]; exact this
      have hopen : ∀ l, L ≤ l → (trev.countP (· ≤ l) % 2 == 1) = openTrev trev := by
        intro l hl
        unfold openTrev
        rw [countP_all]
        intro x hx; have := htle x hx; simp; omega
      cases trev with
      | nil =>
        simp only [startTrev]
        by_cases hm : m = openTrev []
        · refine ⟨[], by simp [hm], ⟨by simp, hspec_lt [] (fun _ _ => rfl) ?_⟩⟩
          intro l hl; rw [hopen l hl]; exact hm.symm
        · have hm' : (m == openTrev []) = false := by simpa using hm
          refine ⟨[L], by simp [hm'], ⟨?_, hspec_lt [L] ?_ ?_⟩⟩
          · intro t ht; exact ⟨(L, m), by simp, by simpa using (List.mem_singleton.1 ht).symm⟩
          · intro l hl; exact countP_le_of_gt hl
          · intro l hl
            have : ([L] : List Nat).countP (· ≤ l) = 1 := by simp [hl]
            rw [this]
            cases m <;> simp_all [openTrev]
      | cons last rest =>
        have hlast : last ≤ L := htle last (by simp)
        have hnlt : ¬ (L < last) := by omega
        simp only [startTrev, hnlt, ite_false]
        by_cases hm : m = openTrev (last :: rest)
        · refine ⟨last :: rest, by simp [hm], ⟨?_, hspec_lt _ (fun _ _ => rfl) ?_⟩⟩
          · intro t ht
            obtain ⟨p, hp, h⟩ := inv.fromCalls t ht
            exact ⟨p, by simp [hp], h⟩
          · intro l hl; rw [hopen l hl]; exact hm.symm
        · have hm' : (m == openTrev (last :: rest)) = false := by simpa using hm
          simp only [hm']
          by_cases heq : L = last
          · subst heq
            refine ⟨rest, by simp, ⟨?_, hspec_lt _ ?_ ?_⟩⟩
            · intro t ht
              obtain ⟨p, hp, h⟩ := inv.fromCalls t (by simp [ht])
              exact ⟨p, by simp [hp], h⟩
            · intro l hl; exact (countP_le_of_gt hl).symm
            · intro l hl
              have h1 := hopen l hl
              have hr : rest.countP (· ≤ l) = rest.length :=
                countP_all (fun x hx => by have := htle x (by simp [hx]); simp; omega)
              rw [hr]
              unfold openTrev at hm h1
              simp only [List.length_cons] at hm
              rw [parity_succ] at hm
              cases m <;> cases hb : (rest.length % 2 == 1) <;> simp_all
          · have heq' : (L == last) = false := by simpa using heq
            simp only [heq']
            refine ⟨L :: last :: rest, by simp, ⟨?_, hspec_lt _ ?_ ?_⟩⟩
            · intro t ht
              rcases List.mem_cons.1 ht with rfl | ht
              · exact ⟨(t, m), by simp, rfl⟩
              · obtain ⟨p, hp, h⟩ := inv.fromCalls t ht
                exact ⟨p, by simp [hp], h⟩
            · intro l hl; exact countP_le_of_gt hl
            · intro l hl
              have hr : (L :: last :: rest).countP (· ≤ l) = (last :: rest).length + 1 := by
                rw [countP_all]; · simp
                intro x hx
                rcases List.mem_cons.1 hx with rfl | hx
                · simpa using hl
                · have := htle x hx; simp; omega
              rw [hr, parity_succ]
              unfold openTrev at hm
              cases m <;> cases hb : ((last :: rest).length % 2 == 1) <;> simp_all
    obtain ⟨t1, h1, inv1⟩ := step
    have hmono' : ((pre ++ [(L, m)]) ++ cs).Pairwise (fun a b => a.1 ≤ b.1) := by
      simpa [List.append_assoc] using hmono
    obtain ⟨t', h2, inv2⟩ := ih t1 (pre ++ [(L, m)]) inv1 hmono'
    refine ⟨t', ?_, by simpa [List.append_assoc] using inv2⟩
    simp only [runTrev, h1]; exact h2

/-- On a fresh line set, a sequence of `start_range` calls with non-decreasing line numbers never raises,
and afterwards a line is in a range exactly when the last call at or before it was a `True` call
(same-line enable/disable pairs cancel). -/
theorem runTrev_mono (cs : List (Nat × Bool)) (hmono : cs.Pairwise (fun a b => a.1 ≤ b.1)) :
    ∃ t', runTrev [] cs = .ok t' ∧ ∀ l, inRangesTrev t' l = lastCallLE cs l := by
  have inv0 : RangeInv [] [] := ⟨by simp, by intro l; simp [inRangesTrev, bisectRight, lastCallLE]⟩
  obtain ⟨t', h, inv⟩ := runTrev_mono_aux cs [] [] inv0 (by simpa using hmono)
  exact ⟨t', h, by simpa using inv.spec⟩

theorem runTrev_sorted (cs : List (Nat × Bool)) :
    ∀ (trev t' : List Nat), SortedRev trev → runTrev trev cs = .ok t' → SortedRev t' := by
  induction cs with
  | nil => intro trev t' hs h; simp only [runTrev] at h; injection h with h; subst h; exact hs
  | cons c cs ih =>
    intro trev t' hs h
    simp only [runTrev] at h
    split at h
    · rename_i t ht; exact ih t t' (startTrev_sorted hs ht) h
    · cases h

end LineSet
end PytypeModel.Director
