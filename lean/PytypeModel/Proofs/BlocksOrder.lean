import PytypeModel.Blocks.Order
import Mathlib.Logic.Relation
import Mathlib.Tactic.Tauto

/-! Proofs about `orderLoop` (cfg_utils.order_nodes) for an arbitrary priority structure. -/
namespace PytypeModel.Blocks
open Relation

variable {P : Type}

/-- edge relation of a graph given by `outgoing` lists -/
def Edge (out : Nat → List Nat) (a b : Nat) : Prop := b ∈ out a

def keys (q : List (Nat × P)) : List Nat := q.map (·.1)

theorem pickMin_mem (po : PrioOps P) : ∀ (es : List (Nat × P)) (best : Nat × P),
    pickMin po best es ∈ best :: es
  | [], best => by simp [pickMin]
  | e :: es, best => by
    unfold pickMin
    have h := pickMin_mem po es (if better po e best then e else best)
    rcases List.mem_cons.1 h with h | h
    · rw [h]; split <;> simp
    · exact List.mem_cons_of_mem _ (List.mem_cons_of_mem _ h)

theorem mem_keys {q : List (Nat × P)} {k : Nat} : k ∈ keys q ↔ ∃ p, (k, p) ∈ q := by
  unfold keys
  constructor
  · intro h
    rcases List.mem_map.1 h with ⟨⟨a, b⟩, hm, rfl⟩
    exact ⟨b, hm⟩
  · rintro ⟨p, hp⟩
    exact List.mem_map.2 ⟨(k, p), hp, rfl⟩

theorem keys_filter_ne (q : List (Nat × P)) (node k : Nat) :
    k ∈ keys (q.filter fun x => x.1 != node) ↔ k ∈ keys q ∧ k ≠ node := by
  unfold keys
  simp only [List.mem_map, List.mem_filter, bne_iff_ne, ne_eq]
  constructor
  · rintro ⟨a, ⟨ha, hne⟩, rfl⟩; exact ⟨⟨a, ha, rfl⟩, hne⟩
  · rintro ⟨⟨a, ha, rfl⟩, hne⟩; exact ⟨a, ⟨ha, hne⟩, rfl⟩

theorem keys_map_snd (q : List (Nat × P)) (g : Nat × P → P) :
    keys (q.map fun x => (x.1, g x)) = keys q := by
  unfold keys; simp [List.map_map, Function.comp_def]

theorem keys_enqueue (po : PrioOps P) (pm : Nat → P) (seen : List Nat) :
    ∀ (ns : List Nat) (q : List (Nat × P)) (k : Nat),
      k ∈ keys (enqueue po pm seen q ns) ↔ k ∈ keys q ∨ k ∈ ns
  | [], q, k => by simp [enqueue]
  | n :: ns, q, k => by
    unfold enqueue
    split
    · rename_i h
      rw [keys_enqueue po pm seen ns q k]
      constructor
      · rintro (h1 | h1)
        · exact Or.inl h1
        · exact Or.inr (List.mem_cons_of_mem _ h1)
      · rintro (h1 | h1)
        · exact Or.inl h1
        · rcases List.mem_cons.1 h1 with rfl | h2
          · left
            rcases List.any_eq_true.1 h with ⟨e, he, hk⟩
            have : e.1 = k := by simpa using hk
            exact List.mem_map.2 ⟨e, he, this⟩
          · exact Or.inr h2
    · rw [keys_enqueue po pm seen ns _ k]
      unfold keys
      simp only [List.map_append, List.map_cons, List.map_nil, List.mem_append, List.mem_singleton,
        List.mem_cons]
      tauto

theorem length_enqueue (po : PrioOps P) (pm : Nat → P) (seen : List Nat) :
    ∀ (ns : List Nat) (q : List (Nat × P)), (enqueue po pm seen q ns).length ≤ q.length + ns.length
  | [], q => by simp [enqueue]
  | n :: ns, q => by
    unfold enqueue
    split
    · have := length_enqueue po pm seen ns q
      simp only [List.length_cons]; omega
    · have := length_enqueue po pm seen ns (q ++ [(n, po.minus (pm n) seen)])
      simp only [List.length_append, List.length_cons, List.length_nil] at this ⊢; omega

/-- every element but the first has a predecessor (w.r.t. `out`) strictly before it -/
def PredBefore (out : Nat → List Nat) (order : List Nat) : Prop :=
  ∀ pre x post, order = pre ++ x :: post → pre ≠ [] → ∃ p ∈ pre, x ∈ out p

theorem predBefore_append {out : Nat → List Nat} {order : List Nat} {x : Nat}
    (h : PredBefore out order) (hx : order = [] ∨ ∃ p ∈ order, x ∈ out p) :
    PredBefore out (order ++ [x]) := by
  intro pre y post heq hpre
  rcases List.eq_nil_or_concat post with rfl | ⟨post', z, rfl⟩
  · -- y is the last element
    have h1 : pre ++ [y] = order ++ [x] := by simpa using heq.symm
    have h2 := List.append_inj' h1 rfl
    have hpo : pre = order := h2.1
    have hyx : y = x := by simpa using h2.2
    subst hyx
    rcases hx with hnil | ⟨p, hp, hxp⟩
    · exact absurd (hpo.trans hnil) hpre
    · exact ⟨p, hpo ▸ hp, hxp⟩
  · have h1 : order ++ [x] = (pre ++ y :: post') ++ [z] := by
      rw [heq]; simp [List.concat_eq_append]
    have h2 := List.append_inj' h1 rfl
    exact h pre y post' h2.1 hpre

/-- loop invariant of `orderLoop` -/
structure OInv (out : Nat → List Nat) (root : Nat) (q : List (Nat × P)) (order seen : List Nat) : Prop where
  seen_iff : ∀ x, x ∈ seen ↔ x ∈ order
  nodup : order.Nodup
  reach_order : ∀ x ∈ order, ReflTransGen (Edge out) root x
  reach_q : ∀ k ∈ keys q, ReflTransGen (Edge out) root k
  closed : ∀ x ∈ order, ∀ y ∈ out x, y ∈ order ∨ y ∈ keys q
  root_in : (order = [] ∧ root ∈ keys q ∧ ∀ k ∈ keys q, k = root) ∨ order.head? = some root
  pred : PredBefore out order
  q_pred : ∀ k ∈ keys q, order = [] ∨ ∃ p ∈ order, k ∈ out p

theorem oinv_init (out : Nat → List Nat) (root : Nat) (p : P) : OInv out root [(root, p)] [] [] where
  seen_iff := by simp
  nodup := List.nodup_nil
  reach_order := by simp
  reach_q := by intro k hk; simp [keys] at hk; subst hk; exact .refl
  closed := by simp
  root_in := Or.inl ⟨rfl, by simp [keys], by simp [keys]⟩
  pred := by intro pre x post h; simp at h
  q_pred := by intro k _; exact Or.inl rfl

/-- the node taken out of the queue was already ordered: only the queue shrinks -/
theorem oinv_skip {out : Nat → List Nat} {root : Nat} {q : List (Nat × P)} {order seen : List Nat}
    (inv : OInv out root q order seen) (node : Nat) (hseen : node ∈ seen) :
    OInv out root (q.filter fun x => x.1 != node) order seen where
  seen_iff := inv.seen_iff
  nodup := inv.nodup
  reach_order := inv.reach_order
  reach_q := fun k hk => inv.reach_q k ((keys_filter_ne q node k).1 hk).1
  closed := by
    intro x hx y hy
    rcases inv.closed x hx y hy with h | h
    · exact Or.inl h
    · by_cases hyn : y = node
      · exact Or.inl (hyn ▸ (inv.seen_iff node).1 hseen)
      · exact Or.inr ((keys_filter_ne q node y).2 ⟨h, hyn⟩)
  root_in := by
    rcases inv.root_in with ⟨hnil, _, _⟩ | h
    · exact absurd ((inv.seen_iff node).1 hseen) (by simp [hnil])
    · exact Or.inr h
  pred := inv.pred
  q_pred := fun k hk => inv.q_pred k ((keys_filter_ne q node k).1 hk).1

/-- a fresh node is appended to the order and its successors are queued -/
theorem oinv_take (po : PrioOps P) (pm : Nat → P) {out : Nat → List Nat} {root : Nat} {q : List (Nat × P)}
    {order seen : List Nat} (inv : OInv out root q order seen) (node : Nat) (hq : node ∈ keys q)
    (hseen : node ∉ seen) :
    OInv out root
      (enqueue po pm (node :: seen)
        ((q.filter fun x => x.1 != node).map fun x => (x.1, po.discard x.2 node)) (out node))
      (order ++ [node]) (node :: seen) := by
  have hno : node ∉ order := fun h => hseen ((inv.seen_iff node).2 h)
  have hreach : ReflTransGen (Edge out) root node := inv.reach_q node hq
  have hk : ∀ k, k ∈ keys (enqueue po pm (node :: seen)
        ((q.filter fun x => x.1 != node).map fun x => (x.1, po.discard x.2 node)) (out node)) ↔
        (k ∈ keys q ∧ k ≠ node) ∨ k ∈ out node := by
    intro k
    rw [keys_enqueue, keys_map_snd, keys_filter_ne]
  refine
    { seen_iff := ?_, nodup := ?_, reach_order := ?_, reach_q := ?_, closed := ?_, root_in := ?_,
      pred := ?_, q_pred := ?_ }
  · intro x
    simp only [List.mem_cons, List.mem_append, List.mem_singleton, inv.seen_iff x]
    tauto
  · exact List.nodup_append.2 ⟨inv.nodup, by simp, by
      intro a ha b hb; simp at hb; subst hb; exact fun h => hno (h ▸ ha)⟩
  · intro x hx
    rcases List.mem_append.1 hx with h | h
    · exact inv.reach_order x h
    · simp at h; subst h; exact hreach
  · intro k hkq
    rcases (hk k).1 hkq with ⟨h, _⟩ | h
    · exact inv.reach_q k h
    · exact hreach.tail h
  · intro x hx y hy
    rcases List.mem_append.1 hx with h | h
    · rcases inv.closed x h y hy with h1 | h1
      · exact Or.inl (List.mem_append_left _ h1)
      · by_cases hyn : y = node
        · exact Or.inl (by simp [hyn])
        · exact Or.inr ((hk y).2 (Or.inl ⟨h1, hyn⟩))
    · simp at h; subst h
      exact Or.inr ((hk y).2 (Or.inr hy))
  · rcases inv.root_in with ⟨hnil, _, hall⟩ | h
    · right
      have : node = root := hall node hq
      simp [hnil, this]
    · right
      cases horder : order with
      | nil => simp [horder] at h
      | cons a l => simp [horder] at h ⊢; exact h
  · exact predBefore_append inv.pred (by
      rcases inv.q_pred node hq with h | h
      · exact Or.inl h
      · exact Or.inr h)
  · intro k hkq
    right
    rcases (hk k).1 hkq with ⟨h, hne⟩ | h
    · rcases inv.q_pred k h with h1 | ⟨p, hp, hkp⟩
      · -- order = []: then k = root = node, contradicting k ≠ node
        rcases inv.root_in with ⟨_, _, hall⟩ | h2
        · have h3 := hall k h
          have h4 := hall node hq
          exact absurd (h3.trans h4.symm) hne
        · simp [h1] at h2
      · exact ⟨p, List.mem_append_left _ hp, hkp⟩
    · exact ⟨node, by simp, h⟩

theorem orderLoop_inv (po : PrioOps P) (pm : Nat → P) (out : Nat → List Nat) (root : Nat) :
    ∀ (f : Nat) (q : List (Nat × P)) (order seen res : List Nat),
      OInv out root q order seen → orderLoop po pm out f q order seen = .ok res →
      ∃ seen', OInv out root ([] : List (Nat × P)) res seen'
  | f, [], order, seen, res, inv, h => by
    cases f <;> (simp [orderLoop] at h; subst h; exact ⟨seen, inv⟩)
  | 0, e :: es, order, seen, res, inv, h => by simp [orderLoop] at h
  | f + 1, e :: es, order, seen, res, inv, h => by
    unfold orderLoop at h
    have hmem : (pickMin po e es).1 ∈ keys (e :: es) :=
      List.mem_map.2 ⟨pickMin po e es, pickMin_mem po es e, rfl⟩
    by_cases hs : seen.contains (pickMin po e es).1 = true
    · simp only [hs, if_true] at h
      exact orderLoop_inv po pm out root f _ _ _ _
        (oinv_skip inv _ (by simpa using hs)) h
    · simp only [hs] at h
      exact orderLoop_inv po pm out root f _ _ _ _
        (oinv_take po pm inv _ hmem (by simpa using hs)) h

/-- consequences of the invariant with an empty queue -/
theorem oinv_final {out : Nat → List Nat} {root : Nat} {res seen : List Nat}
    (inv : OInv out root ([] : List (Nat × P)) res seen) :
    res.Nodup ∧ (∀ x, x ∈ res ↔ ReflTransGen (Edge out) root x) ∧ res.head? = some root ∧ PredBefore out res := by
  have hhead : res.head? = some root := by
    rcases inv.root_in with ⟨_, h, _⟩ | h
    · simp [keys] at h
    · exact h
  have hroot : root ∈ res := List.mem_of_mem_head? hhead
  refine ⟨inv.nodup, ?_, hhead, inv.pred⟩
  intro x
  constructor
  · exact inv.reach_order x
  · intro h
    induction h with
    | refl => exact hroot
    | tail _ hbc ih =>
      rcases inv.closed _ ih _ hbc with h1 | h1
      · exact h1
      · simp [keys] at h1

/-! ### fuel -/

def pot (nodes : List Nat) (out : Nat → List Nat) (seen : List Nat) : Nat :=
  (nodes.map fun n => if seen.contains n then 0 else (out n).length).sum

theorem pot_mono (out : Nat → List Nat) (seen : List Nat) (node : Nat) :
    ∀ (ns : List Nat), pot ns out (node :: seen) ≤ pot ns out seen
  | [] => by simp [pot]
  | a :: l => by
    have ih := pot_mono out seen node l
    simp only [pot, List.map_cons, List.sum_cons] at ih ⊢
    have : (if (node :: seen).contains a then 0 else (out a).length) ≤
        (if seen.contains a then 0 else (out a).length) := by
      simp only [List.contains_cons]
      cases (a == node) <;> cases seen.contains a <;> simp
    omega

theorem pot_cons (out : Nat → List Nat) (seen : List Nat) (node : Nat) (hs : node ∉ seen) :
    ∀ (nodes : List Nat), node ∈ nodes →
      pot nodes out (node :: seen) + (out node).length ≤ pot nodes out seen
  | [], h => by simp at h
  | n :: ns, h => by
    by_cases hn : n = node
    · subst hn
      have hmono := pot_mono out seen n ns
      have h1 : seen.contains n = false := by simpa using hs
      simp only [pot, List.map_cons, List.sum_cons, List.contains_cons, BEq.rfl, Bool.true_or, if_true, h1,
        Bool.false_eq_true, if_false] at hmono ⊢
      omega
    · have hmem : node ∈ ns := by
        rcases List.mem_cons.1 h with h | h
        · exact absurd h.symm hn
        · exact h
      have ih := pot_cons out seen node hs ns hmem
      have hle : (if (node :: seen).contains n then 0 else (out n).length) ≤
          (if seen.contains n then 0 else (out n).length) := by
        simp only [List.contains_cons]
        cases (n == node) <;> cases seen.contains n <;> simp
      simp only [pot, List.map_cons, List.sum_cons] at ih ⊢
      omega

theorem length_filter_ne_lt (q : List (Nat × P)) (node : Nat) (h : node ∈ keys q) :
    (q.filter fun x => x.1 != node).length + 1 ≤ q.length := by
  induction q with
  | nil => simp [keys] at h
  | cons a l ih =>
    simp only [List.filter_cons]
    by_cases ha : a.1 = node
    · have : (a.1 != node) = false := by simp [ha]
      simp only [this, Bool.false_eq_true, if_false, List.length_cons]
      have := List.length_filter_le (fun x : Nat × P => x.1 != node) l
      omega
    · have hb : (a.1 != node) = true := by simpa using ha
      simp only [hb, if_true, List.length_cons]
      have : node ∈ keys l := by
        simp only [keys, List.map_cons, List.mem_cons] at h
        rcases h with h | h
        · exact absurd h.symm ha
        · exact h
      have := ih this
      omega

/-- `orderLoop` never runs out of fuel when started with `|queue| + Σ_{unseen n} |out n|` units -/
theorem orderLoop_fuel (po : PrioOps P) (pm : Nat → P) (out : Nat → List Nat) (nodes : List Nat)
    (hclosed : ∀ n ∈ nodes, ∀ m ∈ out n, m ∈ nodes) :
    ∀ (f : Nat) (q : List (Nat × P)) (order seen : List Nat),
      (∀ k ∈ keys q, k ∈ nodes) → q.length + pot nodes out seen ≤ f →
      ∃ res, orderLoop po pm out f q order seen = .ok res
  | f, [], order, seen, _, _ => by cases f <;> exact ⟨order, by simp [orderLoop]⟩
  | 0, e :: es, order, seen, _, hf => by simp at hf
  | f + 1, e :: es, order, seen, hq, hf => by
    unfold orderLoop
    have hmem : (pickMin po e es).1 ∈ keys (e :: es) :=
      List.mem_map.2 ⟨pickMin po e es, pickMin_mem po es e, rfl⟩
    have hlen := length_filter_ne_lt (e :: es) _ hmem
    have hqf : ∀ k ∈ keys ((e :: es).filter fun x => x.1 != (pickMin po e es).1), k ∈ nodes :=
      fun k hk => hq k ((keys_filter_ne _ _ k).1 hk).1
    by_cases hs : seen.contains (pickMin po e es).1 = true
    · simp only [hs, if_true]
      exact orderLoop_fuel po pm out nodes hclosed f _ _ _ hqf (by omega)
    · simp only [hs]
      have hns : (pickMin po e es).1 ∉ seen := by simpa using hs
      have hnode : (pickMin po e es).1 ∈ nodes := hq _ hmem
      have hp := pot_cons out seen _ hns nodes hnode
      refine orderLoop_fuel po pm out nodes hclosed f _ _ _ ?_ ?_
      · intro k hk
        rw [keys_enqueue, keys_map_snd] at hk
        rcases hk with hk | hk
        · exact hqf k hk
        · exact hclosed _ hnode k hk
      · have h1 := length_enqueue po pm ((pickMin po e es).1 :: seen) (out (pickMin po e es).1)
          (((e :: es).filter fun x => x.1 != (pickMin po e es).1).map
            fun x => (x.1, po.discard x.2 (pickMin po e es).1))
        simp only [List.length_map] at h1
        omega

theorem pot_nil (nodes : List Nat) (out : Nat → List Nat) : pot nodes out [] = edgeCount nodes out := by
  unfold pot edgeCount
  simp

end PytypeModel.Blocks
