import PytypeModel.Proofs.DirectorApply

/-! # From comments to actions: what a trailing directive adds, and what `filter_error` reads -/
namespace PytypeModel.Director
open PytypeModel.Generated

/-! ## comment shapes -/

/-- `c` is a trailing (not open-ended) `# pytype:` comment that `_process_pytype` reads as exactly
`disable=E` (`d = true`) or `enable=E` (`d = false`) -/
structure IsTrailingPytype (c : Comment) (d : Bool) (E : String) : Prop where
  tool : c.tool = .pytype
  closed : c.openEnded = false
  parses : ∀ r, pytypeActions r c = disableOne r c d E

/-- `c` is a trailing `# type: ignore` / `# type: ignore[...]` -/
structure IsTrailingIgnore (c : Comment) : Prop where
  tool : c.tool = .type
  closed : c.openEnded = false
  ignore : isIgnore c.data = true

theorem disableOne_closed (r : Range) (c : Comment) (d : Bool) (E : String) (hc : c.openEnded = false) :
    ∀ a ∈ disableOne r c d E, a = .setLine (some E) c.line d ∨ a = .setLine (some E) r.startLine d := by
  intro a ha
  unfold disableOne at ha
  split at ha
  · split at ha
    · cases ha
    · simp only [hc, Bool.false_eq_true, ite_false] at ha
      unfold adjustLine at ha
      split at ha
      · split at ha
        · simp only [List.mem_cons, List.mem_nil_iff, or_false] at ha
          rcases ha with h | h
          · exact .inl h
          · exact .inr h
        · simp only [List.mem_cons, List.mem_nil_iff, or_false] at ha; exact .inr ha
      · split at ha
        · simp only [List.mem_cons, List.mem_nil_iff, or_false] at ha
          rcases ha with h | h <;> exact .inl h
        · simp only [List.mem_cons, List.mem_nil_iff, or_false] at ha; exact .inl ha
  · cases ha

/-- in a `LineRange` group a valid name always produces the write on the comment's own line -/
theorem disableOne_own_line (r : Range) (c : Comment) (d : Bool) (E : String) (hc : c.openEnded = false)
    (hv : validName E = true) (hk : r.kind = .line) : .setLine (some E) c.line d ∈ disableOne r c d E := by
  unfold disableOne keepName
  simp only [hv, ite_true, hk, Bool.not_true, Bool.false_eq_true, ite_false, hc]
  split
  · simp
  · rename_i h
    have : adjustLine c.line E r = c.line := by simpa using h
    simp [this]

theorem commentActions_pytype_allowed {c : Comment} {E : String} (h : IsTrailingPytype c true E) (r : Range) :
    ∀ a ∈ commentActions r c, allowedTrailing (some E) [c.line, r.startLine] a = true := by
  intro a ha
  unfold commentActions at ha
  rw [h.tool] at ha
  simp only [List.mem_append] at ha
  rcases ha with ha | ha
  · rw [h.parses r] at ha
    rcases disableOne_closed r c true E h.closed a ha with rfl | rfl <;> simp [allowedTrailing]
  · cases hk : r.kind <;> simp only [hk] at ha
    · simp only [List.mem_cons, List.mem_nil_iff, or_false] at ha; subst ha; rfl
    · cases ha

theorem commentActions_ignore_allowed {c : Comment} (h : IsTrailingIgnore c) (r : Range) :
    ∀ a ∈ commentActions r c, allowedTrailing none [c.line, r.startLine] a = true := by
  intro a ha
  unfold commentActions at ha
  rw [h.tool] at ha
  simp only [List.mem_append] at ha
  rcases ha with ha | ha
  · simp only [typeActions, h.ignore, ite_true, h.closed, Bool.false_eq_true, ite_false, List.mem_cons,
      List.mem_nil_iff, or_false] at ha
    rcases ha with rfl | rfl <;> simp [allowedTrailing]
  · cases hk : r.kind <;> simp only [hk] at ha
    · simp only [List.mem_cons, List.mem_nil_iff, or_false] at ha; subst ha; rfl
    · cases ha

theorem allowedTrailing_mono {k : Key} {T T' : List Nat} (h : ∀ l ∈ T, l ∈ T') (a : Action)
    (ha : allowedTrailing k T a = true) : allowedTrailing k T' a = true := by
  cases a with
  | setLine k2 l b =>
    cases b with
    | false => simp [allowedTrailing] at ha
    | true =>
      simp only [allowedTrailing, Bool.and_eq_true, beq_iff_eq, List.contains_iff_mem] at ha ⊢
      exact ⟨ha.1, h l ha.2⟩
  | startRange k2 l b => simp [allowedTrailing] at ha
  | adjustEnd o n => rfl

/-! ## adding one comment to the parser's groups -/

/-- `gs'` is `gs` with the comment `c` added: filed into existing groups (anywhere in their comment lists),
as new one-comment groups, any other group unchanged and in the same order.  Groups without comments may
appear or disappear (they do nothing).  This is how the real parser's output changes when a trailing
comment is appended to a line (measured by the correspondence stage through `insOk`). -/
inductive AddComment (c : Comment) : List Group → List Group → Prop where
  | nil : AddComment c [] []
  | same (g : Group) {gs gs' : List Group} : AddComment c gs gs' → AddComment c (g :: gs) (g :: gs')
  | into (r : Range) (pre post : List Comment) {gs gs' : List Group} : AddComment c gs gs' →
      AddComment c (⟨r, pre ++ post⟩ :: gs) (⟨r, pre ++ c :: post⟩ :: gs')
  | new (r : Range) {gs gs' : List Group} : AddComment c gs gs' → AddComment c gs (⟨r, [c]⟩ :: gs')
  | newEmpty (r : Range) {gs gs' : List Group} : AddComment c gs gs' → AddComment c gs (⟨r, []⟩ :: gs')
  | dropEmpty (r : Range) {gs gs' : List Group} : AddComment c gs gs' → AddComment c (⟨r, []⟩ :: gs) gs'

theorem mem_touched_line (c : Comment) (gs : List Group) : c.line ∈ touched c gs := by simp [touched]

theorem mem_touched_start (c : Comment) (gs : List Group) (g : Group) (hg : g ∈ gs) (hc : c ∈ g.comments) :
    g.range.startLine ∈ touched c gs := by
  unfold touched
  refine List.mem_cons_of_mem _ (List.mem_map.2 ⟨g, List.mem_filter.2 ⟨hg, ?_⟩, rfl⟩)
  simpa using hc

theorem touched_cons_subset (c : Comment) (g : Group) (gs : List Group) :
    ∀ l ∈ touched c gs, l ∈ touched c (g :: gs) := by
  intro l hl
  unfold touched at hl ⊢
  rcases List.mem_cons.1 hl with rfl | hl
  · simp
  · refine List.mem_cons_of_mem _ ?_
    obtain ⟨g', hg', rfl⟩ := List.mem_map.1 hl
    obtain ⟨hm, hp⟩ := List.mem_filter.1 hg'
    exact List.mem_map.2 ⟨g', List.mem_filter.2 ⟨List.mem_cons_of_mem _ hm, hp⟩, rfl⟩

theorem addComment_ins {c : Comment} {k : Key}
    (hc : ∀ r, ∀ a ∈ commentActions r c, allowedTrailing k [c.line, r.startLine] a = true)
    {gs gs' : List Group} (h : AddComment c gs gs') :
    ∀ T : List Nat, (∀ l ∈ touched c gs', l ∈ T) →
      Ins (allowedTrailing k T) (gs.flatMap groupActions) (gs'.flatMap groupActions) := by
  induction h with
  | nil => intro T _; exact .nil
  | same g _ ih =>
    intro T hT
    simp only [List.flatMap_cons]
    exact Ins.keepList _ (ih T (fun l hl => hT l (touched_cons_subset c g _ l hl)))
  | into r pre post _ ih =>
    intro T hT
    simp only [List.flatMap_cons, groupActions, List.flatMap_append, List.append_assoc]
    refine Ins.keepList _ (Ins.insList _ ?_ (Ins.keepList _
      (ih T (fun l hl => hT l (touched_cons_subset c _ _ l hl)))))
    intro x hx
    refine allowedTrailing_mono ?_ x (hc r x hx)
    intro l hl
    simp only [List.mem_cons, List.mem_nil_iff, or_false] at hl
    rcases hl with rfl | rfl
    · exact hT _ (mem_touched_line c _)
    · exact hT _ (mem_touched_start c _ ⟨r, pre ++ c :: post⟩ (by simp) (by simp))
  | new r _ ih =>
    intro T hT
    simp only [List.flatMap_cons, groupActions, List.flatMap_nil, List.append_nil]
    refine Ins.insList _ ?_ (ih T (fun l hl => hT l (touched_cons_subset c _ _ l hl)))
    intro x hx
    refine allowedTrailing_mono ?_ x (hc r x hx)
    intro l hl
    simp only [List.mem_cons, List.mem_nil_iff, or_false] at hl
    rcases hl with rfl | rfl
    · exact hT _ (mem_touched_line c _)
    · exact hT _ (mem_touched_start c _ ⟨r, [c]⟩ (by simp) (by simp))
  | newEmpty r _ ih =>
    intro T hT
    simp only [List.flatMap_cons, groupActions, List.flatMap_nil, List.nil_append]
    exact ih T (fun l hl => hT l (touched_cons_subset c _ _ l hl))
  | dropEmpty r _ ih =>
    intro T hT
    simp only [List.flatMap_cons, groupActions, List.flatMap_nil, List.nil_append]
    exact ih T hT

/-- membership of a comment's write in the whole action list -/
theorem mem_allActions (gd : List String) (gs : List Group) (fr : List (Nat × Nat)) (rl : List Nat)
    (g : Group) (c : Comment) (a : Action) (hg : g ∈ gs) (hc : c ∈ g.comments)
    (ha : a ∈ commentActions g.range c) : a ∈ allActions gd ⟨gs, fr, rl⟩ := by
  unfold allActions
  refine List.mem_append_right _ (List.mem_flatMap.2 ⟨g, hg, ?_⟩)
  exact List.mem_flatMap.2 ⟨c, hc, ha⟩

/-! ## `filter_error` on a built Director -/

theorem build_ok_iff (gd : List String) (p : ParserOut) (D : Director) :
    build gd p = .ok D ↔
      applyAll { fr := FuncRanges.init p.functionRanges } (allActions gd p) = .ok D.st ∧
        D.returnLines = p.returnLines := by
  unfold build
  cases h : applyAll { fr := FuncRanges.init p.functionRanges } (allActions gd p) with
  | error e => simp
  | ok st =>
    simp only [Except.ok.injEq]
    constructor
    · intro h; subst h; exact ⟨rfl, rfl⟩
    · rintro ⟨h1, h2⟩; cases D; simp_all

theorem build_error_iff (gd : List String) (p : ParserOut) (e : Crash) :
    build gd p = .error e ↔
      applyAll { fr := FuncRanges.init p.functionRanges } (allActions gd p) = .error e := by
  unfold build
  cases h : applyAll { fr := FuncRanges.init p.functionRanges } (allActions gd p) <;> simp

/-- errors that are not implicit-return candidates are decided by the line sets alone -/
theorem filterError_noncandidate (d : Director) (e : Err) (h : relineCandidate d.returnLines e = false) :
    filterError d e =
      if !e.sameFile then .ok (true, e.line)
      else match e.line with
        | none => .ok (true, none)
        | some l => .ok (!suppressed d.st e.name (effLine l), some l) := by
  unfold filterError
  split
  · rfl
  · cases hl : e.line with
    | none => rfl
    | some l => simp [reline, h, effLine]

theorem contains_agree {k : Key} {T : List Nat} {a b : State} (hab : AgreeOff k T a b) (k' : Key)
    (line : Nat) (h : k' ≠ k ∨ line ∉ T) : (b.get k').contains line = (a.get k').contains line := by
  by_cases hk : k' = k
  · subst hk
    have hl : line ∉ T := by
      rcases h with h | h
      · exact absurd rfl h
      · exact h
    unfold LineSet.contains LineSet.inRanges
    rw [hab.lines line hl, hab.trev]
  · rw [hab.other k' hk]

theorem suppressed_agree {k : Key} {T : List Nat} {a b : State} (hab : AgreeOff k T a b) (name : String)
    (line : Nat) (h : keyAffects k name = true → line ∉ T) :
    suppressed b name line = suppressed a name line := by
  unfold suppressed
  have key : ∀ k', (k' = none ∨ k' = some DirectorSets.allErrors ∨ k' = some name) →
      (b.get k').contains line = (a.get k').contains line := by
    intro k' hk'
    apply contains_agree hab
    by_cases hk : k' = k
    · right
      apply h
      subst hk
      unfold keyAffects
      rcases hk' with h | h | h <;> simp [h]
    · exact .inl hk
  rw [key none (.inl rfl), key _ (.inr (.inl rfl)), key _ (.inr (.inr rfl))]

theorem contains_agree_ranges {k : Key} {a b : State} (hab : AgreeOffRanges k a b) (k' : Key)
    (line : Nat) (h : k' ≠ k) : (b.get k').contains line = (a.get k').contains line := by
  rw [hab.other k' h]

theorem suppressed_agree_ranges {k : Key} {a b : State} (hab : AgreeOffRanges k a b) (name : String)
    (line : Nat) (h : keyAffects k name = false) :
    suppressed b name line = suppressed a name line := by
  unfold suppressed
  unfold keyAffects at h
  simp only [Bool.or_eq_false_iff, beq_eq_false_iff_ne, ne_eq] at h
  obtain ⟨⟨h1, h2⟩, h3⟩ := h
  rw [hab.other none (fun e => h1 e.symm), hab.other _ (fun e => h2 e.symm), hab.other _ (fun e => h3 e.symm)]

/-- an explicit `True` entry decides membership -/
theorem contains_of_lookup_true (s : LineSet) (l : Nat) (h : s.lines.lookup l = some true) :
    s.contains l = true := by
  simp [LineSet.contains, h]

theorem suppressed_of_key {st : State} {k : Key} {name : String} {line : Nat}
    (hk : keyAffects k name = true) (h : (st.get k).contains line = true) : suppressed st name line = true := by
  unfold keyAffects at hk
  unfold suppressed
  simp only [Bool.or_eq_true, beq_iff_eq] at hk
  rcases hk with (hk | hk) | hk <;> subst hk <;> simp [h]

/-! ## the directive text

`"disable=" ++ E` is read by `_process_pytype` as the single option `disable` with the single value `E`
whenever `E` contains no whitespace and no comma. -/

def plainName (E : String) : Bool := E.toList.all fun ch => !isPySpace ch && ch != ','

theorem splitWsAux_plain (cs : List Char) (h : cs.all (fun ch => !isPySpace ch) = true) :
    ∀ acc : List Char, (acc ≠ [] ∨ cs ≠ []) → splitWsAux cs acc = [acc.reverse ++ cs] := by
  induction cs with
  | nil =>
    intro acc hne
    have : acc ≠ [] := by rcases hne with h | h; exact h; exact absurd rfl h
    simp [splitWsAux, this]
  | cons ch cs ih =>
    intro acc _
    simp only [List.all_cons, Bool.and_eq_true, Bool.not_eq_eq_eq_not, Bool.not_true] at h
    simp only [splitWsAux, h.1, Bool.false_eq_true, ite_false]
    rw [ih h.2 (ch :: acc) (.inl (by simp))]
    simp

theorem splitOnAux_plain (sep : Char) (cs : List Char) (h : cs.all (fun ch => ch != sep) = true) :
    ∀ acc : List Char, splitOnAux sep cs acc = [acc.reverse ++ cs] := by
  induction cs with
  | nil => intro acc; simp [splitOnAux]
  | cons ch cs ih =>
    intro acc
    simp only [List.all_cons, Bool.and_eq_true, bne_iff_ne, ne_eq] at h
    have : (ch == sep) = false := by simpa using h.1
    simp only [splitOnAux, this, Bool.false_eq_true, ite_false]
    rw [ih (by simpa using h.2) (ch :: acc)]
    simp

theorem eraseDups_singleton (E : String) : [E].eraseDups = [E] := rfl

theorem lit_append_nonempty (p E : String) (hp : p.toList ≠ []) : (p ++ E).isEmpty = false := by
  rw [Bool.eq_false_iff]; intro h
  rw [String.isEmpty_iff] at h
  have := congrArg String.toList h
  rw [String.toList_append] at this
  cases hpl : p.toList with
  | nil => exact hp hpl
  | cons a as => rw [hpl] at this; simp at this

theorem plainName_ws (E : String) (h : plainName E = true) : E.toList.all (fun ch => !isPySpace ch) = true := by
  unfold plainName at h
  rw [List.all_eq_true] at h ⊢
  intro x hx; have := h x hx; simp only [Bool.and_eq_true] at this; exact this.1

theorem plainName_comma (E : String) (h : plainName E = true) : E.toList.all (fun ch => ch != ',') = true := by
  unfold plainName at h
  rw [List.all_eq_true] at h ⊢
  intro x hx; have := h x hx; simp only [Bool.and_eq_true] at this; exact this.2

/-- `# pytype: disable=E` -/
theorem pytype_disable_parses (E : String) (hE : plainName E = true) (L : Nat) (oe : Bool) (r : Range) :
    pytypeActions r ⟨L, .pytype, "disable=" ++ E, oe⟩ = disableOne r ⟨L, .pytype, "disable=" ++ E, oe⟩ true E := by
  have hlit : "disable=".toList = ['d','i','s','a','b','l','e','='] := by decide
  unfold pytypeActions
  simp only [lit_append_nonempty "disable=" E (by rw [hlit]; simp), Bool.false_eq_true, ite_false]
  rw [String.toList_append, splitWs, splitWsAux_plain _ _ [] (.inr (by rw [hlit]; simp))]
  · simp only [List.reverse_nil, List.nil_append, optionsActions]
    have hsplit : splitEq1 ("disable=".toList ++ E.toList) = some ("disable".toList, E.toList) := by
      rw [hlit]
      have : "disable".toList = ['d','i','s','a','b','l','e'] := by decide
      rw [this]
      simp [splitEq1]
    rw [hsplit]
    simp only [splitOnChar, splitOnAux_plain ',' _ (plainName_comma E hE) [], List.reverse_nil, List.nil_append,
      List.map_cons, List.map_nil, String.ofList_toList]
    simp only [beq_self_eq_true, ite_true, disableActions, eraseDups_singleton, List.flatMap_cons, List.flatMap_nil,
      List.append_nil]
  · rw [List.all_append, plainName_ws E hE, hlit]; decide


/-- `# pytype: enable=E` -/
theorem pytype_enable_parses (E : String) (hE : plainName E = true) (L : Nat) (oe : Bool) (r : Range) :
    pytypeActions r ⟨L, .pytype, "enable=" ++ E, oe⟩ = disableOne r ⟨L, .pytype, "enable=" ++ E, oe⟩ false E := by
  have hlit : "enable=".toList = ['e','n','a','b','l','e','='] := by decide
  unfold pytypeActions
  simp only [lit_append_nonempty "enable=" E (by rw [hlit]; simp), Bool.false_eq_true, ite_false]
  rw [String.toList_append, splitWs, splitWsAux_plain _ _ [] (.inr (by rw [hlit]; simp))]
  · simp only [List.reverse_nil, List.nil_append, optionsActions]
    have hsplit : splitEq1 ("enable=".toList ++ E.toList) = some ("enable".toList, E.toList) := by
      rw [hlit]
      have : "enable".toList = ['e','n','a','b','l','e'] := by decide
      rw [this]
      simp [splitEq1]
    rw [hsplit]
    have hne : ("enable" == "disable") = false := by decide
    simp only [splitOnChar, splitOnAux_plain ',' _ (plainName_comma E hE) [], List.reverse_nil, List.nil_append,
      List.map_cons, List.map_nil, String.ofList_toList, hne, Bool.false_eq_true, ite_false,
      beq_self_eq_true, ite_true, disableActions, eraseDups_singleton, List.flatMap_cons, List.flatMap_nil,
      List.append_nil]
  · rw [List.all_append, plainName_ws E hE, hlit]; decide

theorem isTrailingPytype_disable (E : String) (hE : plainName E = true) (L : Nat) :
    IsTrailingPytype ⟨L, .pytype, "disable=" ++ E, false⟩ true E :=
  ⟨rfl, rfl, pytype_disable_parses E hE L false⟩

theorem isTrailingPytype_enable (E : String) (hE : plainName E = true) (L : Nat) :
    IsTrailingPytype ⟨L, .pytype, "enable=" ++ E, false⟩ false E :=
  ⟨rfl, rfl, pytype_enable_parses E hE L false⟩

theorem disableOne_key (r : Range) (c : Comment) (d : Bool) (n : String) :
    ∀ a ∈ disableOne r c d n, (∃ l, a = .setLine (some n) l d) ∨ (∃ l, a = .startRange (some n) l d) := by
  intro a ha
  unfold disableOne at ha
  by_cases h1 : validName n = true
  · rw [if_pos h1] at ha
    by_cases h2 : (!keepName r n) = true
    · rw [if_pos h2] at ha; cases ha
    · rw [if_neg h2] at ha
      by_cases h3 : c.openEnded = true
      · rw [if_pos h3] at ha
        simp only [List.mem_cons, List.mem_nil_iff, or_false] at ha
        exact .inr ⟨_, ha⟩
      · rw [if_neg h3] at ha
        dsimp only at ha
        by_cases h4 : (adjustLine c.line n r != c.line) = true
        · rw [if_pos h4] at ha
          simp only [List.mem_cons, List.mem_nil_iff, or_false] at ha
          rcases ha with ha | ha <;> exact .inl ⟨_, ha⟩
        · rw [if_neg h4] at ha
          simp only [List.mem_cons, List.mem_nil_iff, or_false] at ha
          exact .inl ⟨_, ha⟩
  · rw [if_neg h1] at ha; cases ha

theorem optionsActions_key (r : Range) (c : Comment) (opts : List (List Char)) :
    ∀ a ∈ optionsActions r c opts, ∃ n d, a ∈ disableOne r c d n := by
  induction opts with
  | nil => intro a ha; simp [optionsActions] at ha
  | cons o os ih =>
    intro a ha
    unfold optionsActions at ha
    cases hs : splitEq1 o with
    | none => rw [hs] at ha; cases ha
    | some p =>
      obtain ⟨cmd, vals⟩ := p
      rw [hs] at ha
      dsimp only at ha
      have hd : ∀ d, a ∈ disableActions r c d ((splitOnChar ',' vals).map String.ofList) →
          ∃ n d, a ∈ disableOne r c d n := by
        intro d hm
        unfold disableActions at hm
        obtain ⟨n, _, hn⟩ := List.mem_flatMap.1 hm
        exact ⟨n, d, hn⟩
      by_cases h1 : (String.ofList cmd == "disable") = true
      · rw [if_pos h1] at ha
        rcases List.mem_append.1 ha with ha | ha
        · exact hd _ ha
        · exact ih a ha
      · rw [if_neg h1] at ha
        by_cases h2 : (String.ofList cmd == "enable") = true
        · rw [if_pos h2] at ha
          rcases List.mem_append.1 ha with ha | ha
          · exact hd _ ha
          · exact ih a ha
        · rw [if_neg h2] at ha
          by_cases h3 : (String.ofList cmd == "pragma") = true
          · rw [if_pos h3] at ha
            split at ha
            · exact ih a ha
            · cases ha
          · rw [if_neg h3] at ha
            by_cases h4 : (String.ofList cmd == "features") = true
            · rw [if_pos h4] at ha
              split at ha
              · exact ih a ha
              · cases ha
            · rw [if_neg h4] at ha; cases ha

/-- no model action ever writes a `False` entry into `_ignore` -/
theorem ignore_never_unset_aux (gd : List String) (P : ParserOut) (l : Nat) :
    Action.setLine none l false ∉ allActions gd P := by
  intro h
  unfold allActions at h
  rcases List.mem_append.1 h with h | h
  · simp [globalActions] at h
  · obtain ⟨g, _, h⟩ := List.mem_flatMap.1 h
    obtain ⟨c, _, h⟩ := List.mem_flatMap.1 h
    unfold commentActions at h
    rcases List.mem_append.1 h with h | h
    · cases hct : c.tool <;> rw [hct] at h <;> dsimp only at h
      · unfold typeActions at h
        split at h
        · split at h <;> simp at h
        · cases h
      · unfold pytypeActions at h
        split at h
        · cases h
        · obtain ⟨n, d, hn⟩ := optionsActions_key _ _ _ _ h
          rcases disableOne_key _ _ _ _ _ hn with ⟨_, h⟩ | ⟨_, h⟩ <;> cases h
    · cases hk : g.range.kind <;> rw [hk] at h <;> simp at h

end PytypeModel.Director
