/-
C11 proofs, part 2: congruence of `den`, the bottom-up visitor, and the unconditional type-level
visitors (SimplifyUnions, SimplifyContainers, CollapseLongUnions, AdjustGenericType, LookupClasses).
-/
import PytypeModel.Proofs.OptimizeDen

namespace PytypeModel.Pytd

/-! ### pointwise widening of parameter lists -/

/-- `qs` is `ps`, possibly truncated (`zip`), with every remaining parameter widened -/
def PW (S : Sem) : List Ty → List Ty → Prop
  | _, [] => True
  | [], _ :: _ => False
  | p :: ps, q :: qs => TyLe S p q ∧ PW S ps qs

@[simp] theorem PW_nil (S : Sem) (ps : List Ty) : PW S ps [] := by cases ps <;> simp [PW]

theorem PW.refl (S : Sem) : ∀ ps, PW S ps ps
  | [] => PW_nil _ _
  | p :: ps => ⟨TyLe.refl S p, PW.refl S ps⟩

theorem PW.trans {S : Sem} : ∀ {ps qs rs : List Ty}, PW S ps qs → PW S qs rs → PW S ps rs
  | _, _, [], _, _ => PW_nil _ _
  | [], [], _ :: _, _, h => by simp [PW] at h
  | _ :: _, [], _ :: _, _, h => by simp [PW] at h
  | [], _ :: _, _ :: _, h, _ => by simp [PW] at h
  | _ :: _, _ :: _, _ :: _, h1, h2 => ⟨TyLe.trans h1.1 h2.1, PW.trans h1.2 h2.2⟩

theorem PW.length_le {S : Sem} : ∀ {ps qs : List Ty}, PW S ps qs → qs.length ≤ ps.length
  | _, [], _ => Nat.zero_le _
  | [], _ :: _, h => by simp [PW] at h
  | _ :: _, _ :: _, h => Nat.succ_le_succ (PW.length_le h.2)

theorem PW.map {S : Sem} (f : Ty → Ty) : ∀ (ps : List Ty), (∀ p, p ∈ ps → TyLe S p (f p)) → PW S ps (ps.map f)
  | [], _ => PW_nil _ _
  | p :: ps, h => ⟨h p List.mem_cons_self, PW.map f ps (fun q hq => h q (List.mem_cons_of_mem _ hq))⟩

theorem PW.slots {S : Sem} : ∀ {ps qs : List Ty} (ss : List (List Val)), PW S ps qs → denSlots S ps ss → denSlots S qs ss
  | _, [], _, _, _ => by simp [denSlots]
  | [], _ :: _, _, h, _ => by simp [PW] at h
  | p :: ps, q :: qs, [], _, _ => by simp [denSlots]
  | p :: ps, q :: qs, es :: ess, h, hd => by
    simp only [denSlots] at hd ⊢
    exact ⟨fun e he => h.1 e (hd.1 e he), PW.slots ess h.2 hd.2⟩

theorem PW.tup {S : Sem} : ∀ {ps qs : List Ty} (es : List Val), PW S ps qs → qs.length = ps.length →
    denTup S ps es → denTup S qs es
  | [], [], es, _, _, hd => hd
  | [], _ :: _, _, h, _, _ => by simp [PW] at h
  | _ :: _, [], _, _, hl, _ => by simp at hl
  | p :: ps, q :: qs, [], _, _, hd => by simp [denTup] at hd
  | p :: ps, q :: qs, e :: es, h, hl, hd => by
    simp only [denTup] at hd ⊢
    exact ⟨h.1 e hd.1, PW.tup es h.2 (by simpa using hl) hd.2⟩

theorem PW.last {S : Sem} : ∀ {ps qs : List Ty} (v : Val), PW S ps qs → qs.length = ps.length →
    denLast S ps v → denLast S qs v
  | [], [], _, _, _, hd => hd
  | [], _ :: _, _, h, _, _ => by simp [PW] at h
  | _ :: _, [], _, _, hl, _ => by simp at hl
  | [p], [q], v, h, _, hd => by simp only [denLast] at hd ⊢; exact h.1 v hd
  | [p], q :: q' :: qs, _, _, hl, _ => by simp at hl
  | p :: p' :: ps, [q], _, _, hl, _ => by simp at hl
  | p :: p' :: ps, q :: q' :: qs, v, h, hl, hd => by
    simp only [denLast] at hd ⊢
    exact PW.last v h.2 (by simpa using hl) hd

/-! ### congruence -/

theorem generic_mono {S : Sem} {b b' : Ty} {ps qs : List Ty} (hb : TyLe S b b') (hp : PW S ps qs) :
    TyLe S (.generic b ps) (.generic b' qs) := by
  intro v h
  rw [den_generic] at h ⊢
  exact ⟨hb v h.1, PW.slots _ hp h.2⟩

theorem tuple_mono {S : Sem} {b b' : Ty} {ps qs : List Ty} (hb : TyLe S b b') (hp : PW S ps qs)
    (hl : qs.length = ps.length) : TyLe S (.tuple b ps) (.tuple b' qs) := by
  intro v h
  rw [den_tuple] at h ⊢
  obtain ⟨h1, es, he, ht⟩ := h
  exact ⟨hb v h1, es, he, PW.tup es hp hl ht⟩

theorem callable_mono {S : Sem} {b b' : Ty} {ps qs : List Ty} (hb : TyLe S b b') (hp : PW S ps qs)
    (hl : qs.length = ps.length) : TyLe S (.callable b ps) (.callable b' qs) := by
  intro v h
  rw [den_callable] at h ⊢
  exact ⟨hb v h.1, fun r hr => PW.last r hp hl (h.2 r hr)⟩

theorem denAny_map {S : Sem} (f : Ty → Ty) (ts : List Ty) (h : ∀ t, t ∈ ts → TyLe S t (f t)) (v : Val)
    (hd : denAny S ts v) : denAny S (ts.map f) v := by
  obtain ⟨t, ht, hv⟩ := (denAny_iff S ts v).1 hd
  exact (denAny_iff S _ v).2 ⟨f t, List.mem_map_of_mem ht, h t ht v hv⟩

/-! ### the bottom-up visitor -/

theorem buList_eq_map (hook : Ty → Ty) : ∀ ts, buList hook ts = ts.map (fun t => t.bu hook)
  | [] => rfl
  | t :: ts => by simp [buList, buList_eq_map hook ts]

theorem buOKList_mem {g : Ty → Bool} {hook : Ty → Ty} : ∀ {ts : List Ty}, buOKList g hook ts = true →
    ∀ t, t ∈ ts → buOK g hook t = true
  | [], _, _, h => by cases h
  | a :: as, h, t, ht => by
    simp [buOKList] at h
    cases ht with
    | head => exact h.1
    | tail _ ht => exact buOKList_mem h.2 t ht

section
variable {S : Sem} {g : Ty → Bool} {hook : Ty → Ty} (hh : ∀ t, g t = true → TyLe S t (hook t))
include hh

mutual
theorem bu_le : ∀ t, buOK g hook t = true → TyLe S t (t.bu hook)
  | .generic b ps, h => by
    simp [buOK] at h
    simp only [Ty.bu]
    refine TyLe.trans ?_ (hh _ h.2)
    rw [buList_eq_map]
    exact generic_mono (bu_le b h.1.1) (PW.map _ ps (buList_le ps h.1.2))
  | .tuple b ps, h => by
    simp [buOK] at h
    simp only [Ty.bu]
    refine TyLe.trans ?_ (hh _ h.2)
    rw [buList_eq_map]
    exact tuple_mono (bu_le b h.1.1) (PW.map _ ps (buList_le ps h.1.2)) (by simp)
  | .callable b ps, h => by
    simp [buOK] at h
    simp only [Ty.bu]
    refine TyLe.trans ?_ (hh _ h.2)
    rw [buList_eq_map]
    exact callable_mono (bu_le b h.1.1) (PW.map _ ps (buList_le ps h.1.2)) (by simp)
  | .union ts, h => by
    simp [buOK] at h
    simp only [Ty.bu]
    refine TyLe.trans ?_ (hh _ h.2)
    intro v hv
    rw [mkUnion_den, buList_eq_map]
    rw [den_union] at hv
    exact denAny_map _ ts (buList_le ts h.1) v hv
  | .annotated t as, h => by
    simp [buOK] at h
    simp only [Ty.bu]
    refine TyLe.trans ?_ (hh _ h.2)
    intro v hv
    simp at hv ⊢
    exact bu_le t h.1 v hv
  | .any, h => by simp [buOK] at h; simpa [Ty.bu] using hh _ h
  | .nothing, h => by simp [buOK] at h; simpa [Ty.bu] using hh _ h
  | .named _, h => by simp [buOK] at h; simpa [Ty.bu] using hh _ h
  | .cls _, h => by simp [buOK] at h; simpa [Ty.bu] using hh _ h
  | .late _, h => by simp [buOK] at h; simpa [Ty.bu] using hh _ h
  | .typeParam _ _, h => by simp [buOK] at h; simpa [Ty.bu] using hh _ h
  | .literal _, h => by simp [buOK] at h; simpa [Ty.bu] using hh _ h
theorem buList_le : ∀ ts, buOKList g hook ts = true → ∀ t, t ∈ ts → TyLe S t (t.bu hook)
  | [], _, _, ht => by cases ht
  | a :: as, h, t, ht => by
    simp [buOKList] at h
    cases ht with
    | head => exact bu_le a h.1
    | tail _ ht => exact buList_le as h.2 t ht
end
end

mutual
theorem buOK_true (hook : Ty → Ty) : ∀ t, buOK (fun _ => true) hook t = true
  | .generic b ps => by simp [buOK, buOK_true hook b, buOKList_true hook ps]
  | .tuple b ps => by simp [buOK, buOK_true hook b, buOKList_true hook ps]
  | .callable b ps => by simp [buOK, buOK_true hook b, buOKList_true hook ps]
  | .union ts => by simp [buOK, buOKList_true hook ts]
  | .annotated t _ => by simp [buOK, buOK_true hook t]
  | .any => by simp [buOK]
  | .nothing => by simp [buOK]
  | .named _ => by simp [buOK]
  | .cls _ => by simp [buOK]
  | .late _ => by simp [buOK]
  | .typeParam _ _ => by simp [buOK]
  | .literal _ => by simp [buOK]
theorem buOKList_true (hook : Ty → Ty) : ∀ ts, buOKList (fun _ => true) hook ts = true
  | [] => by simp [buOKList]
  | t :: ts => by simp [buOKList, buOK_true hook t, buOKList_true hook ts]
end

/-- unguarded hooks -/
theorem bu_le' {S : Sem} {hook : Ty → Ty} (hh : ∀ t, TyLe S t (hook t)) (t : Ty) : TyLe S t (t.bu hook) :=
  bu_le (g := fun _ => true) (fun t _ => hh t) t (buOK_true hook t)

/-! ### SimplifyUnions, SimplifyContainers, CollapseLongUnions, AdjustGenericType, LookupClasses -/

theorem suHook_le (S : Sem) (t : Ty) : TyLe S t (suHook t) := by
  intro v h
  cases t <;> simp [suHook] at h ⊢ <;> try exact h
  exact (joinTypes_den S _ v).2 h

theorem simplifyUnions_le (S : Sem) (t : Ty) : TyLe S t (simplifyUnions t) := bu_le' (suHook_le S) t

theorem scHook_le (S : Sem) (t : Ty) : TyLe S t (scHook t) := by
  intro v h
  cases t <;> simp only [scHook] <;> try exact h
  split
  · rw [den_generic] at h; exact h.1
  · exact h

theorem simplifyContainers_le (S : Sem) (t : Ty) : TyLe S t (simplifyContainers t) := bu_le' (scHook_le S) t

theorem collapseHook_le (S : Sem) (max : Nat) (t : Ty) : TyLe S t (collapseHook max t) := by
  intro v h
  cases t <;> simp only [collapseHook] <;> try exact h
  split
  · simp
  · split
    · rw [den_union] at h; exact (joinTypes_den S _ v).2 h
    · exact h

theorem collapse_le (S : Sem) (max : Nat) (t : Ty) : TyLe S t (collapse max t) := bu_le' (collapseHook_le S max) t

theorem agHook_le (S : Sem) (t : Ty) : TyLe S t (agHook t) := by
  intro v h
  cases t <;> simp only [agHook] <;> try exact h
  split
  · simp
  · exact h

theorem adjustGeneric_le (S : Sem) (t : Ty) : TyLe S t (adjustGeneric t) := bu_le' (agHook_le S) t

theorem lookupHook_le (S : Sem) (t : Ty) : TyLe S t (lookupHook t) := by
  intro v h
  cases t <;> simp only [lookupHook] <;> exact h

theorem lookup_le (S : Sem) (t : Ty) : TyLe S t (t.bu lookupHook) := bu_le' (lookupHook_le S) t

end PytypeModel.Pytd
