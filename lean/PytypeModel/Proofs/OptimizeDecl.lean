/-
C11 proofs, part 6: widening of declarations — the order is a preorder, Python-equal declarations are
equivalent, one visitor run over a unit widens it if its hooks do, and the function-level hooks
(NormalizeGenericSelfTypes, RemoveDuplicates, CombineReturnsAndExceptions, AbsorbMutableParameters) widen.
-/
import PytypeModel.Proofs.OptimizeKok

namespace PytypeModel.Pytd

/-! ### All2 -/

theorem All2.refl {α : Type} {R : α → α → Prop} (h : ∀ a, R a a) : ∀ l : List α, All2 R l l
  | [] => trivial
  | a :: l => ⟨h a, All2.refl h l⟩

theorem All2.trans {α : Type} {R : α → α → Prop} (h : ∀ a b c, R a b → R b c → R a c) :
    ∀ {l1 l2 l3 : List α}, All2 R l1 l2 → All2 R l2 l3 → All2 R l1 l3
  | [], [], [], _, _ => trivial
  | [], [], _ :: _, _, h2 => h2.elim
  | [], _ :: _, _, h1, _ => h1.elim
  | _ :: _, [], _, h1, _ => h1.elim
  | _ :: _, _ :: _, [], _, h2 => h2.elim
  | _ :: _, _ :: _, _ :: _, h1, h2 => ⟨h _ _ _ h1.1 h2.1, All2.trans h h1.2 h2.2⟩

theorem All2.map {α : Type} {R : α → α → Prop} (f : α → α) : ∀ l : List α, (∀ a, a ∈ l → R a (f a)) → All2 R l (l.map f)
  | [], _ => trivial
  | a :: l, h => ⟨h a List.mem_cons_self, All2.map f l (fun b hb => h b (List.mem_cons_of_mem _ hb))⟩

/-! ### the widening order is a preorder -/

variable {S : Sem}

theorem ParamLe.refl (p : Param) : ParamLe S p p := ⟨rfl, rfl, rfl, TyLe.refl S _, TyLe.refl S _⟩

theorem ParamLe.trans {p q r : Param} (h1 : ParamLe S p q) (h2 : ParamLe S q r) : ParamLe S p r :=
  ⟨h1.1.trans h2.1, h1.2.1.trans h2.2.1, h1.2.2.1.trans h2.2.2.1, TyLe.trans h1.2.2.2.1 h2.2.2.2.1,
   TyLe.trans h1.2.2.2.2 h2.2.2.2.2⟩

theorem OptParamLe.refl : ∀ p : Option Param, OptParamLe S p p
  | none => trivial
  | some p => ParamLe.refl p

theorem OptParamLe.trans : ∀ {p q r : Option Param}, OptParamLe S p q → OptParamLe S q r → OptParamLe S p r
  | none, none, none, _, _ => trivial
  | none, none, some _, _, h => h.elim
  | none, some _, _, h, _ => h.elim
  | some _, none, _, h, _ => h.elim
  | some _, some _, none, _, h => h.elim
  | some _, some _, some _, h1, h2 => ParamLe.trans h1 h2

def BoundLe (S : Sem) : Option Ty → Option Ty → Prop
  | none, none => True
  | some a, some b => TyLe S a b
  | _, _ => False

theorem DeclLe_iff (d e : TypeParamDecl) : DeclLe S d e ↔
    (d.name = e.name ∧ d.scope = e.scope ∧ All2 (TyLe S) d.constraints e.constraints ∧ BoundLe S d.bound e.bound) := by
  unfold DeclLe BoundLe
  cases d.bound <;> cases e.bound <;> simp

theorem BoundLe.refl : ∀ b : Option Ty, BoundLe S b b
  | none => trivial
  | some b => TyLe.refl S b

theorem BoundLe.trans : ∀ {a b c : Option Ty}, BoundLe S a b → BoundLe S b c → BoundLe S a c
  | none, none, none, _, _ => trivial
  | none, none, some _, _, h => h.elim
  | none, some _, _, h, _ => h.elim
  | some _, none, _, h, _ => h.elim
  | some _, some _, none, _, h => h.elim
  | some _, some _, some _, h1, h2 => TyLe.trans h1 h2

theorem DeclLe.refl (d : TypeParamDecl) : DeclLe S d d :=
  (DeclLe_iff d d).2 ⟨rfl, rfl, All2.refl (TyLe.refl S) _, BoundLe.refl _⟩

theorem DeclLe.trans {d e f : TypeParamDecl} (h1 : DeclLe S d e) (h2 : DeclLe S e f) : DeclLe S d f := by
  rw [DeclLe_iff] at *
  exact ⟨h1.1.trans h2.1, h1.2.1.trans h2.2.1, All2.trans (R := TyLe S) (fun _ _ _ => TyLe.trans) h1.2.2.1 h2.2.2.1,
         BoundLe.trans h1.2.2.2 h2.2.2.2⟩

theorem SigLe.refl (s : Sig) : SigLe S s s :=
  ⟨All2.refl ParamLe.refl _, OptParamLe.refl _, OptParamLe.refl _, TyLe.refl S _,
   fun e he => ⟨e, he, TyLe.refl S e⟩, All2.refl DeclLe.refl _⟩

theorem SigLe.trans {s t u : Sig} (h1 : SigLe S s t) (h2 : SigLe S t u) : SigLe S s u :=
  ⟨All2.trans (R := ParamLe S) (fun _ _ _ => ParamLe.trans) h1.1 h2.1, OptParamLe.trans h1.2.1 h2.2.1,
   OptParamLe.trans h1.2.2.1 h2.2.2.1, TyLe.trans h1.2.2.2.1 h2.2.2.2.1,
   fun e he => by
     obtain ⟨e', he', hl⟩ := h1.2.2.2.2.1 e he
     obtain ⟨e'', he'', hl'⟩ := h2.2.2.2.2.1 e' he'
     exact ⟨e'', he'', TyLe.trans hl hl'⟩,
   All2.trans (R := DeclLe S) (fun _ _ _ => DeclLe.trans) h1.2.2.2.2.2 h2.2.2.2.2.2⟩

theorem FuncLe.refl (f : Func) : FuncLe S f f := ⟨rfl, rfl, fun s hs => ⟨s, hs, SigLe.refl s⟩⟩

theorem FuncLe.trans {f g h : Func} (h1 : FuncLe S f g) (h2 : FuncLe S g h) : FuncLe S f h :=
  ⟨h1.1.trans h2.1, h1.2.1.trans h2.2.1, fun s hs => by
     obtain ⟨s', hs', hl⟩ := h1.2.2 s hs
     obtain ⟨s'', hs'', hl'⟩ := h2.2.2 s' hs'
     exact ⟨s'', hs'', SigLe.trans hl hl'⟩⟩

theorem ConstLe.trans {a b c : Const} (h1 : ConstLe S a b) (h2 : ConstLe S b c) : ConstLe S a c :=
  ⟨h1.1.trans h2.1, TyLe.trans h1.2 h2.2⟩

theorem AliasLe.trans {a b c : Alias} (h1 : AliasLe S a b) (h2 : AliasLe S b c) : AliasLe S a c :=
  ⟨h1.1.trans h2.1, TyLe.trans h1.2 h2.2⟩

mutual
theorem ClassLe.trans : ∀ {a b c : Class}, ClassLe S a b → ClassLe S b c → ClassLe S a c
  | .mk _ _ _ _ _ ns _ _ _, .mk _ _ _ _ _ ns' _ _ _, .mk _ _ _ _ _ ns'' _ _ _, h1, h2 => by
    simp only [ClassLe] at h1 h2 ⊢
    exact ⟨h1.1.trans h2.1,
      All2.trans (fun _ _ _ x y => ⟨x.1.trans y.1, TyLe.trans x.2 y.2⟩) h1.2.1 h2.2.1,
      All2.trans (R := TyLe S) (fun _ _ _ => TyLe.trans) h1.2.2.1 h2.2.2.1,
      All2.trans (R := FuncLe S) (fun _ _ _ => FuncLe.trans) h1.2.2.2.1 h2.2.2.2.1,
      All2.trans (R := ConstLe S) (fun _ _ _ => ConstLe.trans) h1.2.2.2.2.1 h2.2.2.2.2.1,
      ClassesLe.trans h1.2.2.2.2.2.1 h2.2.2.2.2.2.1,
      All2.trans (R := DeclLe S) (fun _ _ _ => DeclLe.trans) h1.2.2.2.2.2.2 h2.2.2.2.2.2.2⟩
theorem ClassesLe.trans : ∀ {a b c : List Class}, ClassesLe S a b → ClassesLe S b c → ClassesLe S a c
  | [], [], [], _, _ => by simp [ClassesLe]
  | [], [], _ :: _, _, h2 => by simp [ClassesLe] at h2
  | [], _ :: _, _, h1, _ => by simp [ClassesLe] at h1
  | _ :: _, [], _, h1, _ => by simp [ClassesLe] at h1
  | _ :: _, _ :: _, [], _, h2 => by simp [ClassesLe] at h2
  | x :: xs, y :: ys, z :: zs, h1, h2 => by
    simp only [ClassesLe] at h1 h2 ⊢
    exact ⟨ClassLe.trans h1.1 h2.1, ClassesLe.trans h1.2 h2.2⟩
end

theorem ConstLe.refl (c : Const) : ConstLe S c c := ⟨rfl, TyLe.refl S _⟩

theorem AliasLe.refl (a : Alias) : AliasLe S a a := ⟨rfl, TyLe.refl S _⟩

mutual
theorem ClassLe.refl : ∀ c : Class, ClassLe S c c
  | .mk _ kw _ _ _ ns _ _ _ => by
    simp only [ClassLe]
    exact ⟨by first | rfl | trivial, All2.refl (R := fun a b => a.1 = b.1 ∧ TyLe S a.2 b.2) (fun a => ⟨rfl, TyLe.refl S _⟩) kw,
      All2.refl (TyLe.refl S) _, All2.refl FuncLe.refl _, All2.refl ConstLe.refl _, ClassesLe.refl ns,
      All2.refl DeclLe.refl _⟩
theorem ClassesLe.refl : ∀ cs : List Class, ClassesLe S cs cs
  | [] => by simp [ClassesLe]
  | c :: cs => by
    simp only [ClassesLe]
    exact ⟨ClassLe.refl c, ClassesLe.refl cs⟩
end

theorem UnitLe.refl (u : TUnit) : UnitLe S u u :=
  ⟨rfl, All2.refl ConstLe.refl _, All2.refl DeclLe.refl _, ClassesLe.refl _, All2.refl FuncLe.refl _,
   All2.refl AliasLe.refl _⟩

theorem UnitLe.trans {a b c : TUnit} (h1 : UnitLe S a b) (h2 : UnitLe S b c) : UnitLe S a c :=
  ⟨h1.1.trans h2.1, All2.trans (R := ConstLe S) (fun _ _ _ => ConstLe.trans) h1.2.1 h2.2.1,
   All2.trans (R := DeclLe S) (fun _ _ _ => DeclLe.trans) h1.2.2.1 h2.2.2.1, ClassesLe.trans h1.2.2.2.1 h2.2.2.2.1,
   All2.trans (R := FuncLe S) (fun _ _ _ => FuncLe.trans) h1.2.2.2.2.1 h2.2.2.2.2.1,
   All2.trans (R := AliasLe S) (fun _ _ _ => AliasLe.trans) h1.2.2.2.2.2 h2.2.2.2.2.2⟩

/-! ### one visitor run widens if its hooks do -/

set_option linter.unusedSectionVars false

section
variable (P : Pass) (g : Ty → Bool)
  (hty : ∀ t, g t = true → TyLe S t (P.ty t))
  (hret : ∀ t, TyLe S t (P.ret t)) (hconst : ∀ t, TyLe S t (P.const t))
  (hparam : ∀ c p, ParamLe S p (P.param c p)) (hsig : ∀ c s, SigLe S s (P.sig c s))
  (hfunc : ∀ c f, FuncLe S f (P.func c f))
include hty hret hconst hparam hsig hfunc

theorem runParam_le (c : Ctx) (p : Param) (hg : ∀ t, t ∈ p.tys → g t = true) : ParamLe S p (P.runParam c p) := by
  refine ParamLe.trans ?_ (hparam c _)
  refine ⟨rfl, rfl, rfl, hty _ (hg _ (by simp [Param.tys])), ?_⟩
  unfold Param.after
  cases hm : p.mutated with
  | none => simpa using hty _ (hg _ (by simp [Param.tys]))
  | some m => simpa using hty m (hg m (by simp [Param.tys, hm]))

theorem runOptParam_le (c : Ctx) : ∀ (p : Option Param), (∀ t, t ∈ optParamTys p → g t = true) →
    OptParamLe S p (p.map (P.runParam c))
  | none, _ => trivial
  | some p, hg => runParam_le P g hty hret hconst hparam hsig hfunc c p hg

theorem runDecl_le (d : TypeParamDecl) (hg : ∀ t, t ∈ d.tys → g t = true) : DeclLe S d (P.runDecl d) := by
  rw [DeclLe_iff]
  refine ⟨rfl, rfl, All2.map _ _ (fun t ht => hty t (hg t (by simp [TypeParamDecl.tys, ht]))), ?_⟩
  simp only [Pass.runDecl]
  cases hb : d.bound with
  | none => trivial
  | some b => exact hty b (hg b (by simp [TypeParamDecl.tys, hb]))

theorem runSig_le (c : Ctx) (s : Sig) (hg : ∀ t, t ∈ s.tys → g t = true) : SigLe S s (P.runSig c s) := by
  refine SigLe.trans ?_ (hsig c _)
  refine ⟨?_, ?_, ?_, ?_, ?_, ?_⟩
  · exact All2.map _ _ (fun p hp => runParam_le P g hty hret hconst hparam hsig hfunc c p
      (fun t ht => hg t (by simp only [Sig.tys, List.mem_append, List.mem_flatMap]; exact Or.inl (Or.inl (Or.inl (Or.inl (Or.inl ⟨p, hp, ht⟩)))))))
  · exact runOptParam_le P g hty hret hconst hparam hsig hfunc c _
      (fun t ht => hg t (by simp only [Sig.tys, List.mem_append]; exact Or.inl (Or.inl (Or.inl (Or.inl (Or.inr ht))))))
  · exact runOptParam_le P g hty hret hconst hparam hsig hfunc c _
      (fun t ht => hg t (by simp only [Sig.tys, List.mem_append]; exact Or.inl (Or.inl (Or.inl (Or.inr ht)))))
  · exact TyLe.trans (hty _ (hg _ (by simp [Sig.tys]))) (hret _)
  · intro e he
    exact ⟨P.ty e, List.mem_map_of_mem he, hty e (hg e (by simp [Sig.tys, he]))⟩
  · exact All2.map _ _ (fun d hd => runDecl_le P g hty hret hconst hparam hsig hfunc d
      (fun t ht => hg t (by simp only [Sig.tys, List.mem_append, List.mem_flatMap]; exact Or.inr ⟨d, hd, ht⟩)))

theorem runFunc_le (c : Ctx) (f : Func) (hg : ∀ t, t ∈ f.tys → g t = true) : FuncLe S f (P.runFunc c f) := by
  refine FuncLe.trans ?_ (hfunc _ _)
  refine ⟨rfl, rfl, ?_⟩
  intro s hs
  exact ⟨_, List.mem_map_of_mem hs, runSig_le P g hty hret hconst hparam hsig hfunc _ s
    (fun t ht => hg t (by simp only [Func.tys, List.mem_flatMap]; exact ⟨s, hs, ht⟩))⟩

theorem runConst_le (k : Const) (hg : g k.ty = true) : ConstLe S k (P.runConst k) :=
  ⟨rfl, TyLe.trans (hty _ hg) (hconst _)⟩

mutual
theorem runClass_le : ∀ (c : Class), (∀ t, t ∈ c.tys → g t = true) → ClassLe S c (P.runClass c)
  | .mk n kw bs ms cs ns ds sl tm, hg => by
    simp only [Class.tys, List.mem_append, List.mem_map, List.mem_flatMap] at hg
    simp only [Pass.runClass, ClassLe]
    refine ⟨by first | rfl | trivial, ?_, ?_, ?_, ?_, ?_, ?_⟩
    · exact All2.map (R := fun a b => a.1 = b.1 ∧ TyLe S a.2 b.2) (fun e => (e.1, P.ty e.2)) kw (fun e he => ⟨rfl, hty _ (hg _ (Or.inl (Or.inl (Or.inl (Or.inl (Or.inl ⟨e, he, rfl⟩))))))⟩)
    · exact All2.map _ _ (fun t ht => hty t (hg t (Or.inl (Or.inl (Or.inl (Or.inl (Or.inr ht)))))))
    · exact All2.map _ _ (fun f hf => runFunc_le P g hty hret hconst hparam hsig hfunc _ f
        (fun t ht => hg t (Or.inl (Or.inl (Or.inl (Or.inr ⟨f, hf, ht⟩))))))
    · exact All2.map _ _ (fun k hk => runConst_le P g hty hret hconst hparam hsig hfunc k
        (hg _ (Or.inl (Or.inl (Or.inr ⟨k, hk, rfl⟩)))))
    · exact runClasses_le ns (fun t ht => hg t (Or.inl (Or.inr ht)))
    · exact All2.map _ _ (fun d hd => runDecl_le P g hty hret hconst hparam hsig hfunc d
        (fun t ht => hg t (Or.inr ⟨d, hd, ht⟩)))
theorem runClasses_le : ∀ (cs : List Class), (∀ t, t ∈ classesTys cs → g t = true) → ClassesLe S cs (P.runClasses cs)
  | [], _ => by simp [Pass.runClasses, ClassesLe]
  | c :: cs, hg => by
    simp only [classesTys, List.mem_append] at hg
    simp only [Pass.runClasses, ClassesLe]
    exact ⟨runClass_le c (fun t ht => hg t (Or.inl ht)), runClasses_le cs (fun t ht => hg t (Or.inr ht))⟩
end

theorem runUnit_le (u : TUnit) (hg : ∀ t, t ∈ u.tys → g t = true) : UnitLe S u (P.runUnit u) := by
  simp only [TUnit.tys, List.mem_append, List.mem_map, List.mem_flatMap] at hg
  refine ⟨rfl, ?_, ?_, ?_, ?_, ?_⟩
  · exact All2.map _ _ (fun k hk => runConst_le P g hty hret hconst hparam hsig hfunc k
      (hg _ (Or.inl (Or.inl (Or.inl (Or.inl ⟨k, hk, rfl⟩))))))
  · exact All2.map _ _ (fun d hd => runDecl_le P g hty hret hconst hparam hsig hfunc d
      (fun t ht => hg t (Or.inl (Or.inl (Or.inl (Or.inr ⟨d, hd, ht⟩))))))
  · exact runClasses_le P g hty hret hconst hparam hsig hfunc _ (fun t ht => hg t (Or.inl (Or.inl (Or.inr ht))))
  · exact All2.map _ _ (fun f hf => runFunc_le P g hty hret hconst hparam hsig hfunc _ f
      (fun t ht => hg t (Or.inl (Or.inr ⟨f, hf, ht⟩))))
  · exact All2.map (R := AliasLe S) _ _ (fun a ha => ⟨rfl, hty _ (hg _ (Or.inr ⟨a, ha, rfl⟩))⟩)
end

/-! ### Python-equal declarations are equivalent -/

theorem ty_pyEq_le {a b : Ty} (h : a.pyEq b = true) : TyLe S a b ∧ TyLe S b a :=
  ⟨fun v hv => (pyEq_den S a b h v).1 hv, fun v hv => (pyEq_den S a b h v).2 hv⟩

theorem optPyEq_cases {a b : Option Ty} (h : optPyEq a b = true) :
    (a = none ∧ b = none) ∨ ∃ x y, a = some x ∧ b = some y ∧ x.pyEq y = true := by
  cases a <;> cases b <;> simp_all [optPyEq]

theorem paramKind_beq (a b : ParamKind) (h : (a == b) = true) : a = b := by
  cases a <;> cases b <;> first | rfl | exact absurd h (by decide)

theorem param_pyEq_le {p q : Param} (h : p.pyEq q = true) : ParamLe S p q ∧ ParamLe S q p := by
  simp only [Param.pyEq, Bool.and_eq_true] at h
  obtain ⟨⟨⟨⟨hn, ht⟩, hk⟩, ho⟩, hm⟩ := h
  have hn := eq_of_beq hn
  have hk := paramKind_beq _ _ hk
  have ho := eq_of_beq ho
  have hafter : TyLe S p.after q.after ∧ TyLe S q.after p.after := by
    unfold Param.after
    rcases optPyEq_cases hm with ⟨h1, h2⟩ | ⟨x, y, h1, h2, h3⟩
    · rw [h1, h2]; exact ty_pyEq_le ht
    · rw [h1, h2]; exact ty_pyEq_le h3
  exact ⟨⟨hn, hk, ho, (ty_pyEq_le ht).1, hafter.1⟩, ⟨hn.symm, hk.symm, ho.symm, (ty_pyEq_le ht).2, hafter.2⟩⟩

theorem paramsPyEq_le : ∀ {ps qs : List Param}, paramsPyEq ps qs = true →
    All2 (ParamLe S) ps qs ∧ All2 (ParamLe S) qs ps
  | [], [], _ => ⟨trivial, trivial⟩
  | [], _ :: _, h => by simp [paramsPyEq] at h
  | _ :: _, [], h => by simp [paramsPyEq] at h
  | p :: ps, q :: qs, h => by
    simp only [paramsPyEq, Bool.and_eq_true] at h
    have h1 := param_pyEq_le (S := S) h.1
    have h2 := paramsPyEq_le h.2
    exact ⟨⟨h1.1, h2.1⟩, ⟨h1.2, h2.2⟩⟩

theorem optParamPyEq_le : ∀ {p q : Option Param}, optParamPyEq p q = true → OptParamLe S p q ∧ OptParamLe S q p
  | none, none, _ => ⟨trivial, trivial⟩
  | none, some _, h => by simp [optParamPyEq] at h
  | some _, none, h => by simp [optParamPyEq] at h
  | some p, some q, h => param_pyEq_le (by simpa [optParamPyEq] using h)

theorem pyEqList_le : ∀ {ps qs : List Ty}, pyEqList ps qs = true → All2 (TyLe S) ps qs ∧ All2 (TyLe S) qs ps
  | [], [], _ => ⟨trivial, trivial⟩
  | [], _ :: _, h => by simp [pyEqList] at h
  | _ :: _, [], h => by simp [pyEqList] at h
  | p :: ps, q :: qs, h => by
    simp only [pyEqList, Bool.and_eq_true] at h
    have h1 := ty_pyEq_le (S := S) h.1
    have h2 := pyEqList_le h.2
    exact ⟨⟨h1.1, h2.1⟩, ⟨h1.2, h2.2⟩⟩

theorem decl_pyEq_le {d e : TypeParamDecl} (h : d.pyEq e = true) : DeclLe S d e ∧ DeclLe S e d := by
  simp only [TypeParamDecl.pyEq, Bool.and_eq_true, beq_iff_eq] at h
  obtain ⟨⟨⟨hn, hc⟩, hb⟩, hs⟩ := h
  have hbound : BoundLe S d.bound e.bound ∧ BoundLe S e.bound d.bound := by
    rcases optPyEq_cases hb with ⟨h1, h2⟩ | ⟨x, y, h1, h2, h3⟩
    · rw [h1, h2]; exact ⟨trivial, trivial⟩
    · rw [h1, h2]; exact ty_pyEq_le h3
  rw [DeclLe_iff, DeclLe_iff]
  exact ⟨⟨hn, hs, (pyEqList_le hc).1, hbound.1⟩, ⟨hn.symm, hs.symm, (pyEqList_le hc).2, hbound.2⟩⟩

theorem declsPyEq_le : ∀ {ds es : List TypeParamDecl}, declsPyEq ds es = true →
    All2 (DeclLe S) ds es ∧ All2 (DeclLe S) es ds
  | [], [], _ => ⟨trivial, trivial⟩
  | [], _ :: _, h => by simp [declsPyEq] at h
  | _ :: _, [], h => by simp [declsPyEq] at h
  | d :: ds, e :: es, h => by
    simp only [declsPyEq, Bool.and_eq_true] at h
    have h1 := decl_pyEq_le (S := S) h.1
    have h2 := declsPyEq_le h.2
    exact ⟨⟨h1.1, h2.1⟩, ⟨h1.2, h2.2⟩⟩

theorem All2_tyLe_mem : ∀ {es fs : List Ty}, All2 (TyLe S) es fs → ∀ e, e ∈ es → ∃ f, f ∈ fs ∧ TyLe S e f
  | [], [], _, _, he => by cases he
  | [], _ :: _, h, _, _ => h.elim
  | _ :: _, [], h, _, _ => h.elim
  | a :: as, b :: bs, h, e, he => by
    cases he with
    | head => exact ⟨b, List.mem_cons_self, h.1⟩
    | tail _ he =>
      obtain ⟨f, hf, hl⟩ := All2_tyLe_mem h.2 e he
      exact ⟨f, List.mem_cons_of_mem _ hf, hl⟩

/-- the kept signature `x` covers an equal one -/
theorem sig_pyEq_le {x s : Sig} (h : x.pyEq s = true) : SigLe S s x := by
  simp only [Sig.pyEq, Sig.stripEq, Bool.and_eq_true] at h
  obtain ⟨⟨⟨⟨⟨hp, hsa⟩, hssa⟩, htm⟩, hr⟩, he⟩ := h
  exact ⟨(paramsPyEq_le hp).2, (optParamPyEq_le hsa).2, (optParamPyEq_le hssa).2, (ty_pyEq_le hr).2,
         All2_tyLe_mem (pyEqList_le he).2, (declsPyEq_le htm).2⟩

/-! ### NormalizeGenericSelfTypes -/

theorem genericLike_base_le {t : Ty} (h : t.isGenericLike = true) : TyLe S t t.base := by
  intro v hv
  cases t <;> simp [Ty.isGenericLike] at h
  · rw [den_generic] at hv; exact hv.1
  · rw [den_tuple] at hv; exact hv.1
  · rw [den_callable] at hv; exact hv.1

theorem normalizeSelfSig_le (n : String) (s : Sig) : SigLe S s (normalizeSelfSig n s) := by
  unfold normalizeSelfSig
  split
  · rename_i p ps hps
    split
    · rename_i hc
      simp only [Bool.and_eq_true] at hc
      have hle : TyLe S p.ty p.ty.base := genericLike_base_le hc.1.2
      refine ⟨?_, OptParamLe.refl _, OptParamLe.refl _, TyLe.refl S _, fun e he => ⟨e, he, TyLe.refl S e⟩,
              All2.refl DeclLe.refl _⟩
      rw [hps]
      refine ⟨⟨rfl, rfl, rfl, hle, ?_⟩, All2.refl ParamLe.refl _⟩
      unfold Param.after
      cases hm : p.mutated with
      | none => simpa using hle
      | some m => simpa using TyLe.refl S m
    · exact SigLe.refl s
  · exact SigLe.refl s

theorem normalizeSelf_le (c : Ctx) (f : Func) : FuncLe S f (normalizeSelf c f) := by
  unfold normalizeSelf
  split
  · exact FuncLe.refl f
  · rename_i n _ _
    exact ⟨rfl, rfl, fun s hs => ⟨_, List.mem_map_of_mem hs, normalizeSelfSig_le n s⟩⟩

/-! ### RemoveDuplicates -/

theorem dedupSigsAux_le : ∀ (ss seen : List Sig) (s : Sig), s ∈ ss →
    (∃ x, x ∈ seen ∧ SigLe S s x) ∨ (∃ x, x ∈ dedupSigsAux seen ss ∧ SigLe S s x)
  | [], _, _, h => by cases h
  | a :: ss, seen, s, h => by
    simp only [dedupSigsAux]
    split
    · rename_i hany
      cases h with
      | head =>
        obtain ⟨x, hx, he⟩ := List.any_eq_true.1 hany
        exact Or.inl ⟨x, hx, sig_pyEq_le he⟩
      | tail _ h => exact dedupSigsAux_le ss seen s h
    · cases h with
      | head => exact Or.inr ⟨a, List.mem_cons_self, SigLe.refl a⟩
      | tail _ h =>
        rcases dedupSigsAux_le ss (a :: seen) s h with ⟨x, hx, hl⟩ | ⟨x, hx, hl⟩
        · cases hx with
          | head => exact Or.inr ⟨a, List.mem_cons_self, hl⟩
          | tail _ hx => exact Or.inl ⟨x, hx, hl⟩
        · exact Or.inr ⟨x, List.mem_cons_of_mem _ hx, hl⟩

theorem removeDuplicates_le (f : Func) : FuncLe S f (removeDuplicates f) := by
  refine ⟨rfl, rfl, ?_⟩
  intro s hs
  rcases dedupSigsAux_le (S := S) f.sigs [] s hs with ⟨x, hx, _⟩ | h
  · cases hx
  · exact h

/-! ### CombineReturnsAndExceptions -/

theorem addNewTys_acc : ∀ (ts acc : List Ty) (t : Ty), t ∈ acc → t ∈ addNewTys acc ts
  | [], _, _, h => h
  | a :: ts, acc, t, h => by
    simp only [addNewTys]
    split
    · exact addNewTys_acc ts acc t h
    · exact addNewTys_acc ts (acc ++ [a]) t (List.mem_append_left _ h)

theorem addNewTys_new : ∀ (ts acc : List Ty) (t : Ty), t ∈ ts → ∃ x, x ∈ addNewTys acc ts ∧ TyLe S t x
  | [], _, _, h => by cases h
  | a :: ts, acc, t, h => by
    simp only [addNewTys]
    cases h with
    | head =>
      split
      · rename_i hm
        simp [pyMem] at hm
        obtain ⟨x, hx, he⟩ := hm
        exact ⟨x, addNewTys_acc ts acc x hx, (ty_pyEq_le he).2⟩
      · exact ⟨a, addNewTys_acc ts _ a (by simp), TyLe.refl S a⟩
    | tail _ h =>
      split
      · exact addNewTys_new ts acc t h
      · exact addNewTys_new ts _ t h

/-- the group `g` accounts for the signature `s` -/
def GCov (S : Sem) (g : RetExc) (s : Sig) : Prop :=
  (g.key = s ∨ g.key.stripEq s = true) ∧ (∃ r, r ∈ g.rets ∧ TyLe S s.ret r) ∧
  ∀ e, e ∈ s.exceptions → ∃ e', e' ∈ g.excs ∧ TyLe S e e'

theorem craInsert_new (s : Sig) : ∀ gs : List RetExc, ∃ g, g ∈ craInsert s gs ∧ GCov S g s
  | [] => by
    refine ⟨_, List.mem_cons_self, Or.inl rfl, ⟨s.ret, by simp, TyLe.refl S _⟩, ?_⟩
    intro e he
    exact addNewTys_new _ [] e he
  | g :: gs => by
    simp only [craInsert]
    split
    · rename_i heq
      refine ⟨_, List.mem_cons_self, Or.inr heq, ?_, ?_⟩
      · exact addNewTys_new [s.ret] g.rets s.ret (by simp)
      · intro e he
        exact addNewTys_new _ g.excs e he
    · obtain ⟨g', hg', hc⟩ := craInsert_new s gs
      exact ⟨g', List.mem_cons_of_mem _ hg', hc⟩

theorem craInsert_old (s s0 : Sig) : ∀ gs : List RetExc, (∃ g, g ∈ gs ∧ GCov S g s0) →
    ∃ g, g ∈ craInsert s gs ∧ GCov S g s0
  | [], h => by obtain ⟨g, hg, _⟩ := h; cases hg
  | g :: gs, h => by
    obtain ⟨g0, hg0, hc⟩ := h
    simp only [craInsert]
    split
    · cases hg0 with
      | head =>
        refine ⟨_, List.mem_cons_self, hc.1, ?_, ?_⟩
        · obtain ⟨r, hr, hl⟩ := hc.2.1
          exact ⟨r, addNewTys_acc _ _ r hr, hl⟩
        · intro e he
          obtain ⟨e', he', hl⟩ := hc.2.2 e he
          exact ⟨e', addNewTys_acc _ _ e' he', hl⟩
      | tail _ hg0 => exact ⟨g0, List.mem_cons_of_mem _ hg0, hc⟩
    · cases hg0 with
      | head => exact ⟨_, List.mem_cons_self, hc⟩
      | tail _ hg0 =>
        obtain ⟨g', hg', hc'⟩ := craInsert_old s s0 gs ⟨g0, hg0, hc⟩
        exact ⟨g', List.mem_cons_of_mem _ hg', hc'⟩

theorem craGroups_cov : ∀ (ss : List Sig) (acc : List RetExc) (s0 : Sig),
    (s0 ∈ ss ∨ ∃ g, g ∈ acc ∧ GCov S g s0) → ∃ g, g ∈ craGroups acc ss ∧ GCov S g s0
  | [], acc, s0, h => by
    rcases h with h | h
    · cases h
    · exact h
  | s :: ss, acc, s0, h => by
    simp only [craGroups]
    apply craGroups_cov ss (craInsert s acc) s0
    rcases h with h | h
    · cases h with
      | head => exact Or.inr (craInsert_new s acc)
      | tail _ h => exact Or.inl h
    · exact Or.inr (craInsert_old s s0 acc h)

theorem GCov_le {g : RetExc} {s : Sig} (h : GCov S g s) : SigLe S s g.toSig := by
  obtain ⟨hk, ⟨r, hr, hl⟩, he⟩ := h
  have hret : TyLe S s.ret (joinTypes g.rets) := TyLe.trans hl (joinTypes_le S _ r hr)
  rcases hk with hk | hk
  · subst hk
    exact ⟨All2.refl ParamLe.refl _, OptParamLe.refl _, OptParamLe.refl _, hret, he, All2.refl DeclLe.refl _⟩
  · simp only [Sig.stripEq, Bool.and_eq_true] at hk
    obtain ⟨⟨⟨hp, hsa⟩, hssa⟩, htm⟩ := hk
    exact ⟨(paramsPyEq_le hp).2, (optParamPyEq_le hsa).2, (optParamPyEq_le hssa).2, hret, he, (declsPyEq_le htm).2⟩

theorem combineReturns_le (f : Func) : FuncLe S f (combineReturns f) := by
  refine ⟨rfl, rfl, ?_⟩
  intro s hs
  obtain ⟨g, hg, hc⟩ := craGroups_cov (S := S) f.sigs [] s (Or.inl hs)
  exact ⟨g.toSig, List.mem_map_of_mem hg, GCov_le hc⟩

/-! ### AbsorbMutableParameters, MergeTypeParameters (no class type parameters) -/

theorem absorbParam_le (p : Param) : ParamLe S p (absorbParam p) := by
  unfold absorbParam
  split
  · exact ParamLe.refl p
  · rename_i m hm
    refine ⟨rfl, rfl, rfl, joinTypes_le S _ _ (by simp), ?_⟩
    unfold Param.after
    simp only [hm, Option.getD_some, Option.getD_none]
    exact joinTypes_le S _ _ (by simp)

theorem mergeTypeParamsSig_le (c : Ctx) (s : Sig) : SigLe S s (mergeTypeParamsSig c s) := by
  unfold mergeTypeParamsSig
  exact runSig_le (S := S) { ty := simplifyUnions } (fun _ => true) (fun t _ => simplifyUnions_le S t)
    (fun t => TyLe.refl S t) (fun t => TyLe.refl S t) (fun _ p => ParamLe.refl p) (fun _ s => SigLe.refl s)
    (fun _ f => FuncLe.refl f) {} s (fun _ _ => rfl)

end PytypeModel.Pytd
